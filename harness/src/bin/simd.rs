//! C17 driver: results do not depend on the component representation.
//!
//! For the 19 colour types ("nodes") of the D65 / sRGB family and the four `wide` component types
//! (f32x4, f32x8, f64x2, f64x4) the existence of every conversion pair and operator is decided at compile
//! time (autoref specialisation, as in ../convlib.rs).  A group of N scalar colours is packed with
//! `From<[Color<T>; N]> for Color<V>`, converted / operated on as ONE SIMD call, unpacked with `Into`, and
//! every lane is compared (by the trace specification, not here) with the scalar call on that lane's input.
//!
//! Commands (NDJSON, `--cmds file`), events (NDJSON, `--out file`):
//!   {"op":"caps"}                                          -> ev "caps"  existence matrices
//!   {"op":"group","fam":F,"from":A,"to":[B..],"lanes":[class..]}  inputs built per class (see `make_input`)
//!   {"op":"lanes","from":A,"to":[B..],"vt":[..],"in":[[hex f64 x3]..]}   explicit inputs (replay)
//!   {"op":"random","from":A,"to":[B..],"groups":k}         seeded random in-gamut colours
//!        -> ev "lane"  one per lane and (target, vector type)
//!   {"op":"pack","count":k}                                -> ev "pack"
//!   {"op":"mask","count":k}                                -> ev "mask"
//!   {"op":"ops","count":k}                                 -> ev "op"   one per lane
//!   {"op":"prec","from":A,"to":[B..],"count":k}            -> ev "prec" f32 versus f64 scalar
//! Nothing is judged here.  Panics of palette are data.

#![allow(clippy::type_complexity)]
use palette::angle::{AngleEq, RealAngle, SignedAngle, UnsignedAngle};
use palette::blend::{Blend, Compose};
use palette::bool_mask::{BoolMask, HasBoolMask, LazySelect, Select};
use palette::color_difference::{Ciede2000, DeltaE, EuclideanDistance, HyAb, ImprovedCiede2000, ImprovedDeltaE, Wcag21RelativeContrast};
use palette::convert::FromColorUnclamped;
use palette::encoding::{Linear, Srgb as SrgbStd};
use palette::luma::Luma;
use palette::num as pn;
use palette::rgb::Rgb;
use palette::white_point::D65;
use palette::{Alpha, Clamp, Darken, Desaturate, IsWithinBounds, Lighten, Mix, Saturate, ShiftHue};
use palette::{Hsl, Hsluv, Hsv, Hwb, Lab, Lch, Lchuv, Luv, Okhsl, Okhsv, Okhwb, Oklab, Oklch, Xyz, Yxy};
use pvh::*;
use serde_json::{json, Value};
use std::marker::PhantomData;
use wide::{f32x4, f32x8, f64x2, f64x4};

// ------------------------------------------------------------------------------------------------ numbers

pub trait Flt: Copy + Default + PartialOrd + 'static {
    const TN: &'static str;
    fn of64(x: f64) -> Self;
    fn to64(self) -> f64;
    fn bits(self) -> String;
    fn of_bits(b: u64) -> Self;
}
impl Flt for f32 {
    const TN: &'static str = "f32";
    fn of64(x: f64) -> f32 { x as f32 }
    fn to64(self) -> f64 { self as f64 }
    fn bits(self) -> String { format!("{:08x}", self.to_bits()) }
    fn of_bits(b: u64) -> f32 { f32::from_bits(b as u32) }
}
impl Flt for f64 {
    const TN: &'static str = "f64";
    fn of64(x: f64) -> f64 { x }
    fn to64(self) -> f64 { self }
    fn bits(self) -> String { format!("{:016x}", self.to_bits()) }
    fn of_bits(b: u64) -> f64 { f64::from_bits(b) }
}

/// a `wide` vector type
pub trait Wd: Copy + 'static {
    type S: Flt;
    const N: usize;
    const VT: &'static str;
    fn from_slice(xs: &[Self::S]) -> Self;
    fn to_vec(self) -> Vec<Self::S>;
}
macro_rules! wd {
    ($($ty:ident, $s:ident, $n:expr);*) => {$(
        impl Wd for $ty {
            type S = $s;
            const N: usize = $n;
            const VT: &'static str = stringify!($ty);
            fn from_slice(xs: &[$s]) -> Self { let a: [$s; $n] = core::array::from_fn(|i| xs[i]); <$ty>::from(a) }
            fn to_vec(self) -> Vec<$s> { self.to_array().to_vec() }
        }
    )*};
}
wd!(f32x4, f32, 4; f32x8, f32, 8; f64x2, f64, 2; f64x4, f64, 4);
type SOf<A> = <<A as SNode>::V as Wd>::S;

// ------------------------------------------------------------------------------------------------ nodes

type NXyz<T> = Xyz<D65, T>;
type NYxy<T> = Yxy<D65, T>;
type NLab<T> = Lab<D65, T>;
type NLch<T> = Lch<D65, T>;
type NLuv<T> = Luv<D65, T>;
type NLchuv<T> = Lchuv<D65, T>;
type NHsluv<T> = Hsluv<D65, T>;
type NOklab<T> = Oklab<T>;
type NOklch<T> = Oklch<T>;
type NOkhsl<T> = Okhsl<T>;
type NOkhsv<T> = Okhsv<T>;
type NOkhwb<T> = Okhwb<T>;
type NLinSrgb<T> = Rgb<Linear<SrgbStd>, T>;
type NSrgb<T> = Rgb<SrgbStd, T>;
type NHsl<T> = Hsl<SrgbStd, T>;
type NHsv<T> = Hsv<SrgbStd, T>;
type NHwb<T> = Hwb<SrgbStd, T>;
type NLinLuma<T> = Luma<Linear<D65>, T>;
type NSrgbLuma<T> = Luma<SrgbStd, T>;

pub const NAMES: [&str; 19] = ["xyz", "yxy", "lab", "lch", "luv", "lchuv", "hsluv", "oklab", "oklch", "okhsl", "okhsv", "okhwb",
    "linsrgb", "srgb", "hsl", "hsv", "hwb", "linluma", "srgbluma"];
fn idx(name: &str) -> usize {
    NAMES.iter().position(|n| *n == name).unwrap_or_else(|| { eprintln!("unknown node {}", name); std::process::exit(3) })
}
fn ncomp(i: usize) -> usize { if i >= 17 { 1 } else { 3 } }

/// scalar colour
pub trait Node: Copy + 'static {
    type T: Flt;
    const NAME: &'static str;
    /// from / to components in declared order, in the component type itself (no cast: bit patterns survive)
    fn of_s(v: &[Self::T; 3]) -> Self;
    fn arr_s(self) -> [Self::T; 3];
    fn of(v: &[f64; 3]) -> Self { Self::of_s(&[<Self::T>::of64(v[0]), <Self::T>::of64(v[1]), <Self::T>::of64(v[2])]) }
    fn arr(self) -> [f64; 3] { let a = self.arr_s(); [a[0].to64(), a[1].to64(), a[2].to64()] }
}
/// SIMD colour
pub trait SNode: Copy + 'static {
    type V: Wd;
    type Sc: Node<T = <Self::V as Wd>::S>;
    fn pack(xs: &[Self::Sc]) -> Self;
    fn unpack(self) -> Vec<Self::Sc>;
    /// component vectors in declared order
    fn comps(self) -> Vec<Self::V>;
    /// pack with transparency, return (component vectors + alpha vector, unpacked again)
    fn alpha_roundtrip(xs: &[Self::Sc], al: &[SOf<Self>]) -> (Vec<Self::V>, Vec<(Self::Sc, SOf<Self>)>);
}

macro_rules! snode_impl {
    ($al:ident, $V:ident, $S:ident, $N:expr, |$c:ident| $comps:expr) => {
        impl SNode for $al<$V> {
            type V = $V;
            type Sc = $al<$S>;
            fn pack(xs: &[$al<$S>]) -> Self { let a: [$al<$S>; $N] = core::array::from_fn(|i| xs[i]); Self::from(a) }
            fn unpack(self) -> Vec<$al<$S>> { let a: [$al<$S>; $N] = self.into(); a.to_vec() }
            fn comps(self) -> Vec<$V> { let $c = self; $comps }
            fn alpha_roundtrip(xs: &[$al<$S>], al: &[$S]) -> (Vec<$V>, Vec<($al<$S>, $S)>) {
                let a: [Alpha<$al<$S>, $S>; $N] = core::array::from_fn(|i| Alpha { color: xs[i], alpha: al[i] });
                let p: Alpha<$al<$V>, $V> = a.into();
                let mut comps = p.color.comps();
                comps.push(p.alpha);
                let back: [Alpha<$al<$S>, $S>; $N] = p.into();
                (comps, back.iter().map(|x| (x.color, x.alpha)).collect())
            }
        }
    };
}
macro_rules! node {
    ($al:ident, $name:expr, |$v:ident| $of:expr, |$c:ident| [$($arr:expr),*]) => {
        node!(@s $al, f32, $name, |$v| $of, |$c| [$($arr),*]);
        node!(@s $al, f64, $name, |$v| $of, |$c| [$($arr),*]);
        snode_impl!($al, f32x4, f32, 4, |$c| vec![$($arr),*]);
        snode_impl!($al, f32x8, f32, 8, |$c| vec![$($arr),*]);
        snode_impl!($al, f64x2, f64, 2, |$c| vec![$($arr),*]);
        snode_impl!($al, f64x4, f64, 4, |$c| vec![$($arr),*]);
    };
    (@s $al:ident, $S:ident, $name:expr, |$v:ident| $of:expr, |$c:ident| [$($arr:expr),*]) => {
        impl Node for $al<$S> {
            type T = $S;
            const NAME: &'static str = $name;
            fn of_s(w: &[$S; 3]) -> Self { let $v: [$S; 3] = *w; $of }
            fn arr_s(self) -> [$S; 3] {
                let $c = self;
                let mut o = [0.0 as $S; 3];
                let mut k = 0;
                $( o[k] = $arr; k += 1; )*
                let _ = k;
                o
            }
        }
    };
}
node!(NXyz, "xyz", |v| Xyz::new(v[0], v[1], v[2]), |c| [c.x, c.y, c.z]);
node!(NYxy, "yxy", |v| Yxy::new(v[0], v[1], v[2]), |c| [c.x, c.y, c.luma]);
node!(NLab, "lab", |v| Lab::new(v[0], v[1], v[2]), |c| [c.l, c.a, c.b]);
node!(NLch, "lch", |v| Lch::new(v[0], v[1], v[2]), |c| [c.l, c.chroma, c.hue.into_inner()]);
node!(NLuv, "luv", |v| Luv::new(v[0], v[1], v[2]), |c| [c.l, c.u, c.v]);
node!(NLchuv, "lchuv", |v| Lchuv::new(v[0], v[1], v[2]), |c| [c.l, c.chroma, c.hue.into_inner()]);
node!(NHsluv, "hsluv", |v| Hsluv::new(v[0], v[1], v[2]), |c| [c.hue.into_inner(), c.saturation, c.l]);
node!(NOklab, "oklab", |v| Oklab::new(v[0], v[1], v[2]), |c| [c.l, c.a, c.b]);
node!(NOklch, "oklch", |v| Oklch::new(v[0], v[1], v[2]), |c| [c.l, c.chroma, c.hue.into_inner()]);
node!(NOkhsl, "okhsl", |v| Okhsl::new(v[0], v[1], v[2]), |c| [c.hue.into_inner(), c.saturation, c.lightness]);
node!(NOkhsv, "okhsv", |v| Okhsv::new(v[0], v[1], v[2]), |c| [c.hue.into_inner(), c.saturation, c.value]);
node!(NOkhwb, "okhwb", |v| Okhwb::new(v[0], v[1], v[2]), |c| [c.hue.into_inner(), c.whiteness, c.blackness]);
node!(NLinSrgb, "linsrgb", |v| Rgb::new(v[0], v[1], v[2]), |c| [c.red, c.green, c.blue]);
node!(NSrgb, "srgb", |v| Rgb::new(v[0], v[1], v[2]), |c| [c.red, c.green, c.blue]);
node!(NHsl, "hsl", |v| Hsl::new(v[0], v[1], v[2]), |c| [c.hue.into_inner(), c.saturation, c.lightness]);
node!(NHsv, "hsv", |v| Hsv::new(v[0], v[1], v[2]), |c| [c.hue.into_inner(), c.saturation, c.value]);
node!(NHwb, "hwb", |v| Hwb::new(v[0], v[1], v[2]), |c| [c.hue.into_inner(), c.whiteness, c.blackness]);
node!(NLinLuma, "linluma", |v| Luma::new(v[0]), |c| [c.luma]);
node!(NSrgbLuma, "srgbluma", |v| Luma::new(v[0]), |c| [c.luma]);

// ------------------------------------------------------------------------------------------------ conversions

pub type Col = [f64; 3];
pub struct LaneRes {
    pub simd: Result<Vec<Col>, String>,
    pub scalar: Vec<Result<Col, String>>,
}
pub type LaneFn = fn(&[Col]) -> LaneRes;
pub type ScFn = fn(&Col) -> Result<Col, String>;

fn lane_conv<A, B>(ins: &[Col]) -> LaneRes
where
    A: SNode,
    B: SNode<V = A::V> + FromColorUnclamped<A>,
    B::Sc: FromColorUnclamped<A::Sc>,
{
    let sc: Vec<A::Sc> = ins.iter().map(<A::Sc as Node>::of).collect();
    let simd = catch(|| {
        let a = A::pack(&sc);
        let b = B::from_color_unclamped(a);
        b.unpack().iter().map(|c| c.arr()).collect::<Vec<Col>>()
    });
    let scalar = sc.iter().map(|&a| catch(|| <B::Sc>::from_color_unclamped(a).arr())).collect();
    LaneRes { simd, scalar }
}
fn sc_conv<A: Node, B: Node + FromColorUnclamped<A>>(v: &Col) -> Result<Col, String> {
    let a = A::of(v);
    catch(|| B::from_color_unclamped(a).arr())
}

// compile-time existence by autoref specialisation
pub struct P<A, B>(PhantomData<(A, B)>);
pub trait Yes { fn get(&self) -> Option<LaneFn>; }
pub trait No { fn get(&self) -> Option<LaneFn> { None } }
impl<A, B> Yes for P<A, B>
where
    A: SNode,
    B: SNode<V = A::V> + FromColorUnclamped<A>,
    B::Sc: FromColorUnclamped<A::Sc>,
{
    fn get(&self) -> Option<LaneFn> { Some(lane_conv::<A, B>) }
}
impl<A, B> No for &P<A, B> {}

pub struct PS<A, B>(PhantomData<(A, B)>);
pub trait SYes { fn get(&self) -> Option<ScFn>; }
pub trait SNo { fn get(&self) -> Option<ScFn> { None } }
impl<A: Node, B: Node + FromColorUnclamped<A>> SYes for PS<A, B> {
    fn get(&self) -> Option<ScFn> { Some(sc_conv::<A, B>) }
}
impl<A, B> SNo for &PS<A, B> {}

macro_rules! row { ($T:ident; $A:ident; [$($B:ident),*]) => { vec![ $( (&P::<$A<$T>, $B<$T>>(PhantomData)).get() ),* ] }; }
macro_rules! srow { ($T:ident; $A:ident; [$($B:ident),*]) => { vec![ $( (&PS::<$A<$T>, $B<$T>>(PhantomData)).get() ),* ] }; }
macro_rules! table { ($T:ident; [$($A:ident),*]; $list:tt) => { vec![ $( row!($T; $A; $list) ),* ] }; }
macro_rules! stable { ($T:ident; [$($A:ident),*]; $list:tt) => { vec![ $( srow!($T; $A; $list) ),* ] }; }
macro_rules! with_nodes {
    ($m:ident, $T:ident) => {
        $m!($T; [NXyz, NYxy, NLab, NLch, NLuv, NLchuv, NHsluv, NOklab, NOklch, NOkhsl, NOkhsv, NOkhwb, NLinSrgb, NSrgb, NHsl, NHsv, NHwb, NLinLuma, NSrgbLuma];
                [NXyz, NYxy, NLab, NLch, NLuv, NLchuv, NHsluv, NOklab, NOklch, NOkhsl, NOkhsv, NOkhwb, NLinSrgb, NSrgb, NHsl, NHsv, NHwb, NLinLuma, NSrgbLuma])
    };
}

pub struct Universe {
    pub vts: Vec<(&'static str, usize, &'static str, Vec<Vec<Option<LaneFn>>>)>, // (vt, lanes, scalar type, table)
    pub s32: Vec<Vec<Option<ScFn>>>,
    pub s64: Vec<Vec<Option<ScFn>>>,
}
#[inline(never)] fn t_f32x4() -> Vec<Vec<Option<LaneFn>>> { with_nodes!(table, f32x4) }
#[inline(never)] fn t_f32x8() -> Vec<Vec<Option<LaneFn>>> { with_nodes!(table, f32x8) }
#[inline(never)] fn t_f64x2() -> Vec<Vec<Option<LaneFn>>> { with_nodes!(table, f64x2) }
#[inline(never)] fn t_f64x4() -> Vec<Vec<Option<LaneFn>>> { with_nodes!(table, f64x4) }
#[inline(never)] fn t_s32() -> Vec<Vec<Option<ScFn>>> { with_nodes!(stable, f32) }
#[inline(never)] fn t_s64() -> Vec<Vec<Option<ScFn>>> { with_nodes!(stable, f64) }
impl Universe {
    pub fn new() -> Universe {
        Universe {
            vts: vec![("f32x4", 4, "f32", t_f32x4()), ("f32x8", 8, "f32", t_f32x8()), ("f64x2", 2, "f64", t_f64x2()), ("f64x4", 4, "f64", t_f64x4())],
            s32: t_s32(),
            s64: t_s64(),
        }
    }
    /// image in Xyz<D65, f64> by the code's direct scalar f64 route
    pub fn hub(&self, node: usize, v: &Col) -> Col {
        if node == 0 { return *v; }
        match self.s64[node][0] { Some(f) => f(v).unwrap_or([f64::NAN; 3]), None => [f64::NAN; 3] }
    }
}

// ------------------------------------------------------------------------------------------------ inputs

fn r32(x: f64) -> f64 { x as f32 as f64 }
fn r32c(c: Col) -> Col { [r32(c[0]), r32(c[1]), r32(c[2])] }
const I_LINSRGB: usize = 12;
const I_SRGB: usize = 13;

pub struct Gen<'a> {
    pub u: &'a Universe,
    pub rng: Sm64,
}
impl<'a> Gen<'a> {
    /// the source-node coordinates (rounded to f32, hence exact in f32 and f64) of an sRGB colour
    fn from_srgb(&self, node: usize, rgb: Col) -> Col {
        if node == I_SRGB { return r32c(rgb); }
        r32c((self.u.s64[I_SRGB][node].expect("srgb -> node"))(&rgb).unwrap_or([0.0; 3]))
    }
    fn from_node(&self, from: usize, node: usize, c: Col) -> Col {
        if node == from { return r32c(c); }
        r32c((self.u.s64[from][node].expect("node -> node"))(&c).unwrap_or([0.0; 3]))
    }
    fn unit(&mut self) -> f64 { self.rng.unit() }
    /// in-gamut sRGB colour, with a mixture of scales so that dark colours (below the joins of the
    /// piecewise definitions) are as likely as bright ones
    fn srgb_any(&mut self) -> Col {
        let s = *self.rng.pick(&[1.0, 1.0, 1.0, 0.3, 0.1, 0.03]);
        [self.unit() * s, self.unit() * s, self.unit() * s]
    }
    fn srgb_mid(&mut self) -> Col { [self.rng.range(0.15, 0.85), self.rng.range(0.15, 0.85), self.rng.range(0.15, 0.85)] }
    /// random in-gamut colour in the coordinates of `node`
    pub fn random_in(&mut self, node: usize) -> Col {
        let c = self.srgb_any();
        self.from_srgb(node, c)
    }

    /// One input of the abstract class `cls` of family `fam`, in the coordinates of `node`.
    /// Families and classes are those enumerated by spec/mc/MC_Simd.tla (Families).
    pub fn make_input(&mut self, fam: &str, cls: &str, node: usize) -> Col {
        let name = NAMES[node];
        match fam {
            // which channel is the maximum (incl. ties, grey): source srgb / linsrgb
            "rgbmax" => {
                let mut v = [self.rng.range(0.05, 0.95), self.rng.range(0.05, 0.95), self.rng.range(0.05, 0.95)];
                v.sort_by(|a, b| b.partial_cmp(a).unwrap());
                if v[0] == v[1] { v[0] += 0.01 }
                if v[1] == v[2] { v[2] *= 0.5 }
                let (hi, mid, lo) = (r32(v[0]), r32(v[1]), r32(v[2]));
                let flip = self.rng.coin();
                let (p, q) = if flip { (mid, lo) } else { (lo, mid) };
                match cls {
                    "rmax" => [hi, p, q],
                    "gmax" => [p, hi, q],
                    "bmax" => [p, q, hi],
                    "tie_rg" => [hi, hi, lo],
                    "tie_gb" => [lo, hi, hi],
                    "tie_rb" => [hi, lo, hi],
                    "grey" => [mid, mid, mid],
                    "black" => [0.0, 0.0, 0.0],
                    "white" => [1.0, 1.0, 1.0],
                    _ => bad_class(fam, cls),
                }
            }
            // per channel: linear toe (l) or power segment (h) of the transfer function, t = exactly on the threshold
            "rgbtf" => {
                let thr = if name == "srgb" { 0.04045 } else { 0.0031308 };
                let b = cls.as_bytes();
                let mut o = [0.0; 3];
                for k in 0..3 {
                    o[k] = match b[k] {
                        b'l' => r32(self.unit() * thr * 0.98),
                        b'h' => r32(thr * 1.05 + self.unit() * (1.0 - thr * 1.05)),
                        b't' => r32(thr),
                        _ => bad_class(fam, cls),
                    };
                }
                o
            }
            // per channel: X/Xn, Y/Yn, Z/Zn above (a) or below (b) the join (6/29)^3 of f(t); black
            "xyzjoin" | "labjoin" => {
                if cls == "black" { return [0.0; 3]; }
                if cls == "grey0" {
                    // exactly neutral Lab: a = b = 0
                    return [r32(self.rng.range(5.0, 95.0)), 0.0, 0.0];
                }
                let want = cls.as_bytes();
                let eps = (6.0f64 / 29.0).powi(3);
                let wp = [0.95047, 1.0, 1.08883];
                for _ in 0..200000 {
                    let s = *self.rng.pick(&[1.0, 0.1, 0.05, 0.03, 0.015]);
                    let lin = [self.unit() * s, self.unit() * s, self.unit() * s];
                    let xyz = self.from_node(I_LINSRGB, 0, lin);
                    let c = if fam == "xyzjoin" { xyz } else { self.from_node(0, node, xyz) };
                    // classify in the coordinates of the source node itself
                    let t: [f64; 3] = if fam == "xyzjoin" {
                        [c[0] / wp[0], c[1] / wp[1], c[2] / wp[2]]
                    } else {
                        let fy = (c[0] + 16.0) / 116.0;
                        let f = [fy + c[1] / 500.0, fy, fy - c[2] / 200.0];
                        [f[0].powi(3), f[1].powi(3), f[2].powi(3)]
                    };
                    // keep a distance from the join so that f32 and f64 lanes take the same branch
                    let ok = (0..3).all(|k| if want[k] == b'a' { t[k] > eps * 1.02 } else { t[k] < eps * 0.98 });
                    if ok { return c; }
                }
                eprintln!("no in-gamut sample for {} {}", fam, cls);
                std::process::exit(3)
            }
            // polar spaces (lch, oklch, lchuv): zero chroma, tiny chroma, hue quadrants and representations
            "polar" => {
                let rgb = self.srgb_mid();
                let mut c = self.from_srgb(node, rgb);
                let q = |h: f64| -> f64 { let m = h.rem_euclid(360.0); (m / 90.0).floor() };
                match cls {
                    "c0" => [c[0], 0.0, 0.0],
                    "c0h" => [c[0], 0.0, 123.0],
                    "tiny" => [c[0], r32(c[1].max(1e-3) * 1e-6), c[2]],
                    "q1" | "q2" | "q3" | "q4" => {
                        let wantq = (cls.as_bytes()[1] - b'1') as f64;
                        let mut n = 0;
                        while q(c[2]) != wantq && n < 100000 { let rgb = self.srgb_mid(); c = self.from_srgb(node, rgb); n += 1; }
                        [c[0], c[1], r32(c[2].rem_euclid(360.0))]
                    }
                    "hneg" => [c[0], c[1], r32(c[2].rem_euclid(360.0) - 360.0)],
                    "h360" => [c[0], c[1], r32(c[2].rem_euclid(360.0) + 360.0)],
                    "axis" => [c[0], c[1], *self.rng.pick(&[0.0, 90.0, 180.0, 270.0, 360.0, -90.0, -180.0])],
                    _ => bad_class(fam, cls),
                }
            }
            // cartesian opponent spaces (lab, luv, oklab): neutral, quadrants, on an axis
            "cart" => {
                let rgb = self.srgb_mid();
                let mut c = self.from_srgb(node, rgb);
                match cls {
                    "grey0" => [c[0], 0.0, 0.0],
                    "black" => [0.0, 0.0, 0.0],
                    "q1" | "q2" | "q3" | "q4" => {
                        let want = match cls { "q1" => (true, true), "q2" => (false, true), "q3" => (false, false), _ => (true, false) };
                        let mut n = 0;
                        while ((c[1] > 0.0, c[2] > 0.0) != want || c[1] == 0.0 || c[2] == 0.0) && n < 100000 {
                            let rgb = self.srgb_mid(); c = self.from_srgb(node, rgb); n += 1;
                        }
                        c
                    }
                    "a0p" | "a0n" => { let m = r32(c[2].abs().max(1e-3)); [c[0], 0.0, if cls == "a0p" { m } else { -m }] }
                    "b0p" | "b0n" => { let m = r32(c[1].abs().max(1e-3)); [c[0], if cls == "b0p" { m } else { -m }, 0.0] }
                    "diag" => { let m = r32(c[1].abs().max(1e-3)); [c[0], m, m] }
                    _ => bad_class(fam, cls),
                }
            }
            "yxy" => {
                let rgb = self.srgb_any();
                let c = self.from_srgb(node, rgb);
                match cls {
                    "norm" => { let rgb = self.srgb_mid(); self.from_srgb(node, rgb) }
                    "dark" => { let rgb = [self.unit() * 0.02, self.unit() * 0.02, self.unit() * 0.02]; self.from_srgb(node, rgb) }
                    "luma0" => [c[0], c[1], 0.0],
                    "y0" => [c[0], 0.0, 0.0],
                    "black" => [0.0, 0.0, 0.0],
                    _ => bad_class(fam, cls),
                }
            }
            // hue sector / representation for the hexcone-like cylinders
            "hexhue" | "hexsv" => {
                let sc = if name == "hsluv" { 100.0 } else { 1.0 };
                let hwb = name == "hwb" || name == "okhwb";
                let mut h = r32(self.rng.range(0.0, 360.0));
                let (mut a, mut b) = (self.rng.range(0.15, 0.85), self.rng.range(0.15, 0.85));
                if hwb && a + b > 0.9 { a *= 0.45; b *= 0.45; }
                if fam == "hexhue" {
                    h = match cls {
                        "s0" | "s1" | "s2" | "s3" | "s4" | "s5" => {
                            let k = (cls.as_bytes()[1] - b'0') as f64;
                            r32(60.0 * k + self.rng.range(1.0, 59.0))
                        }
                        "b0" => 0.0, "b60" => 60.0, "b120" => 120.0, "b180" => 180.0, "b240" => 240.0, "b300" => 300.0,
                        "h360" => 360.0,
                        "hneg" => r32(-self.rng.range(1.0, 359.0)),
                        "hbig" => r32(360.0 + self.rng.range(1.0, 359.0)),
                        _ => bad_class(fam, cls),
                    };
                } else {
                    // (saturation-like, value/lightness-like); for HWB (whiteness, blackness)
                    let (x, y) = match (cls, hwb) {
                        ("grey", false) => (0.0, b), ("grey", true) => (a, 1.0 - r32(a)),
                        ("black", false) => (a, 0.0), ("black", true) => (0.0, 1.0),
                        ("white", false) => (0.0, 1.0), ("white", true) => (1.0, 0.0),
                        ("full", false) => (1.0, if name == "hsl" || name == "okhsl" || name == "hsluv" { 0.5 } else { 1.0 }), ("full", true) => (0.0, 0.0),
                        ("lo", false) => (a, b * 0.5), ("lo", true) => (a * 0.5, 0.5 + b * 0.5),
                        ("hi", false) => (a, 0.5 + b * 0.5), ("hi", true) => (0.5 + a * 0.4, b * 0.1),
                        ("half", false) => (a, 0.5), ("half", true) => (0.25, 0.25),
                        ("norm", _) => (a, b),
                        _ => bad_class(fam, cls),
                    };
                    a = x; b = y;
                }
                [h, r32(a * sc), r32(b * sc)]
            }
            "luma" => {
                let thr = if name == "srgbluma" { 0.04045 } else { 0.0031308 };
                let l = match cls {
                    "black" => 0.0,
                    "white" => 1.0,
                    "low" => r32(self.unit() * thr * 0.98),
                    "high" => r32(thr * 1.05 + self.unit() * (1.0 - thr * 1.05)),
                    "thr" => r32(thr),
                    _ => bad_class(fam, cls),
                };
                [l, 0.0, 0.0]
            }
            _ => bad_class(fam, cls),
        }
    }
}
fn bad_class<R>(fam: &str, cls: &str) -> R {
    eprintln!("unknown class {} of family {}", cls, fam);
    std::process::exit(3)
}

// ------------------------------------------------------------------------------------------------ events

fn exc(c: &Col, n: usize) -> Value { Value::Array(c[..n].iter().map(|x| ex64(*x)).collect()) }
fn exv(c: &[f64]) -> Value { Value::Array(c.iter().map(|x| ex64(*x)).collect()) }
fn hexf(s: &str) -> f64 { f64::from_bits(u64::from_str_radix(s, 16).expect("hex f64")) }
fn strs(v: &Value) -> Vec<String> { v.as_array().map(|a| a.iter().map(|x| x.as_str().unwrap().to_string()).collect()).unwrap_or_default() }

pub struct Drv<'a> {
    pub u: &'a Universe,
    pub rec: Rec,
    pub gid: u64,
}
impl<'a> Drv<'a> {
    /// one SIMD call + N scalar calls per (target, vector type); one "lane" event per lane
    fn lanes(&mut self, fam: &str, classes: &[String], from: usize, tos: &[usize], vts: &[String], ins: &[Col]) {
        for (vt, n, t, table) in &self.u.vts {
            if *n != ins.len() || (!vts.is_empty() && !vts.iter().any(|v| v == vt)) { continue; }
            for &to in tos {
                let f = match table[from][to] { Some(f) => f, None => continue };
                self.gid += 1;
                let r = f(ins);
                let nf = ncomp(from);
                let nt = ncomp(to);
                for i in 0..*n {
                    let sp = r.simd.is_err() as u8;
                    let cp = r.scalar[i].is_err() as u8;
                    let so = r.simd.as_ref().map(|v| v[i]).unwrap_or([0.0; 3]);
                    let co = *r.scalar[i].as_ref().unwrap_or(&[0.0; 3]);
                    self.rec.ev(json!({"ev": "lane", "gid": self.gid, "fam": fam, "cls": classes.get(i).map(|s| s.as_str()).unwrap_or(""),
                        "from": NAMES[from], "to": NAMES[to], "vt": vt, "t": t, "n": n, "lane": i,
                        "in": exc(&ins[i], nf), "simd": exc(&so, nt), "scalar": exc(&co, nt),
                        "hs": exc(&self.u.hub(to, &so), 3), "hc": exc(&self.u.hub(to, &co), 3), "sp": sp, "cp": cp}));
                }
            }
        }
    }
    fn caps(&mut self) {
        let m = |t: &Vec<Vec<Option<LaneFn>>>| -> Value { json!(t.iter().map(|r| r.iter().map(|f| f.is_some() as u8).collect::<Vec<u8>>()).collect::<Vec<_>>()) };
        let ms = |t: &Vec<Vec<Option<ScFn>>>| -> Value { json!(t.iter().map(|r| r.iter().map(|f| f.is_some() as u8).collect::<Vec<u8>>()).collect::<Vec<_>>()) };
        let mut conv = serde_json::Map::new();
        for (vt, _, _, table) in &self.u.vts { conv.insert(vt.to_string(), m(table)); }
        self.rec.ev(json!({"ev": "caps", "names": NAMES, "conv": conv, "s32": ms(&self.u.s32), "s64": ms(&self.u.s64), "ops": op_caps()}));
    }
}

// ------------------------------------------------------------------------------------------------ packing

fn special_bits<S: Flt>(rng: &mut Sm64) -> S {
    // any bit pattern must survive packing: zeros of both signs, subnormals, infinities, NaNs with payload, ordinary values
    let wide64 = S::TN == "f64";
    let pats32: [u64; 10] = [0, 0x8000_0000, 1, 0x8000_0001, 0x7f80_0000, 0xff80_0000, 0x7fc0_0000, 0xffc1_2345, 0x3f80_0000, 0x7f7f_ffff];
    let pats64: [u64; 10] = [0, 0x8000_0000_0000_0000, 1, 0x8000_0000_0000_0001, 0x7ff0_0000_0000_0000, 0xfff0_0000_0000_0000,
        0x7ff8_0000_0000_0000, 0xfff8_0012_3456_789a, 0x3ff0_0000_0000_0000, 0x7fef_ffff_ffff_ffff];
    match rng.below(3) {
        0 => S::of_bits(if wide64 { *rng.pick(&pats64) } else { *rng.pick(&pats32) }),
        1 => S::of_bits(if wide64 { rng.next() } else { rng.next() & 0xffff_ffff }),
        _ => S::of64(rng.range(-2.0, 400.0)),
    }
}

pub type PackFn = fn(&mut Sm64, bool) -> Value;
fn pack_event<A: SNode>(rng: &mut Sm64, alpha: bool) -> Value {
    let n = <A::V as Wd>::N;
    let nc = if <A::Sc as Node>::NAME.ends_with("luma") { 1 } else { 3 };
    // scalar colours from raw bit patterns: build through `of` (f64 -> S is exact for values that came from S)
    let vals: Vec<Vec<SOf<A>>> = (0..n).map(|_| (0..3).map(|_| special_bits::<SOf<A>>(rng)).collect()).collect();
    let al: Vec<SOf<A>> = (0..n).map(|_| special_bits::<SOf<A>>(rng)).collect();
    // NaN payloads do not survive an f64 round trip in general: components are written in their own type
    let sc: Vec<A::Sc> = vals.iter().map(|v| <A::Sc as Node>::of_s(&[v[0], v[1], v[2]])).collect();
    let bits_of = |c: &A::Sc| -> Vec<String> { let a = c.arr_s(); (0..nc).map(|k| a[k].bits()).collect() };
    let inb: Vec<Vec<String>> = sc.iter().enumerate().map(|(i, c)| { let mut b = bits_of(c); if alpha { b.push(al[i].bits()); } b }).collect();
    let r = catch(|| {
        if alpha {
            let (comps, back) = A::alpha_roundtrip(&sc, &al);
            let cb: Vec<Vec<String>> = comps.iter().map(|v| v.to_vec().iter().map(|x| x.bits()).collect()).collect();
            let bb: Vec<Vec<String>> = back.iter().map(|(c, a)| { let mut b = bits_of(c); b.push(a.bits()); b }).collect();
            (cb, bb)
        } else {
            let p = A::pack(&sc);
            let cb: Vec<Vec<String>> = p.comps().iter().map(|v| v.to_vec().iter().map(|x| x.bits()).collect()).collect();
            let bb: Vec<Vec<String>> = p.unpack().iter().map(bits_of).collect();
            (cb, bb)
        }
    });
    let (cb, bb, panic) = match r { Ok((c, b)) => (c, b, 0), Err(_) => (vec![], vec![], 1) };
    json!({"ev": "pack", "node": <A::Sc as Node>::NAME, "vt": <A::V as Wd>::VT, "t": <SOf<A>>::TN, "n": n, "alpha": alpha as u8,
           "in": inb, "comps": cb, "back": bb, "panic": panic})
}
macro_rules! pack_row { ($T:ident; [$($A:ident),*]; $list:tt) => { vec![ $( pack_event::<$A<$T>> as PackFn ),* ] }; }
fn pack_fns() -> Vec<Vec<PackFn>> {
    vec![with_nodes!(pack_row, f32x4), with_nodes!(pack_row, f32x8), with_nodes!(pack_row, f64x2), with_nodes!(pack_row, f64x4)]
}

// ------------------------------------------------------------------------------------------------ masks

pub trait WdMask: Wd + HasBoolMask<Mask = Self> + pn::PartialCmp + BoolMask + Select<Self> + LazySelect<Self>
    + core::ops::BitAnd<Output = Self> + core::ops::BitOr<Output = Self> + core::ops::BitXor<Output = Self> + core::ops::Not<Output = Self>
where Self::S: pn::PartialCmp + HasBoolMask<Mask = bool> {}
impl WdMask for f32x4 {}
impl WdMask for f32x8 {}
impl WdMask for f64x2 {}
impl WdMask for f64x4 {}

fn mask_value<S: Flt>(rng: &mut Sm64) -> S {
    let pool = [0.0, -0.0, 1.0, -1.0, 0.5, 0.25, 1e-30, -1e-30, f64::INFINITY, f64::NEG_INFINITY, f64::NAN, 0.04045, 360.0, 180.0, 2.0, 0.0031308];
    if rng.below(4) == 0 { S::of64(rng.range(-1.0, 2.0)) } else { S::of64(*rng.pick(&pool)) }
}
fn vbits<V: Wd>(v: V) -> Vec<String> { v.to_vec().iter().map(|x| x.bits()).collect() }
fn vex<V: Wd>(v: V) -> Value { Value::Array(v.to_vec().iter().map(|x| ex64(x.to64())).collect()) }

pub type MaskFn = fn(&mut Sm64, &mut Rec);
fn mask_events<V: WdMask>(rng: &mut Sm64, rec: &mut Rec)
where V::S: pn::PartialCmp + HasBoolMask<Mask = bool> {
    use pn::PartialCmp as PC;
    let n = V::N;
    let mk = |rng: &mut Sm64| -> (Vec<V::S>, V) { let a: Vec<V::S> = (0..n).map(|_| mask_value::<V::S>(rng)).collect(); let v = V::from_slice(&a); (a, v) };
    let (sa, a) = mk(rng);
    let (mut sb, _) = mk(rng);
    for k in 0..n { if rng.below(3) == 0 { sb[k] = sa[k]; } }       // many ties
    let b = V::from_slice(&sb);
    let base = |op: &str| json!({"ev": "mask", "op": op, "vt": V::VT, "t": <V::S>::TN, "n": n, "a": vex(a), "b": vex(b), "abits": vbits(a), "bbits": vbits(b),
                                 "m1": [], "m2": [], "out": [], "sm": [], "sv": [], "flag": -1, "panic": 0});
    // comparisons
    let cmps: [(&str, fn(&V, &V) -> V, fn(&V::S, &V::S) -> bool); 6] = [
        ("lt", |x, y| PC::lt(x, y), |x, y| PC::lt(x, y)), ("lt_eq", |x, y| PC::lt_eq(x, y), |x, y| PC::lt_eq(x, y)),
        ("eq", |x, y| PC::eq(x, y), |x, y| PC::eq(x, y)), ("neq", |x, y| PC::neq(x, y), |x, y| PC::neq(x, y)),
        ("gt_eq", |x, y| PC::gt_eq(x, y), |x, y| PC::gt_eq(x, y)), ("gt", |x, y| PC::gt(x, y), |x, y| PC::gt(x, y))];
    for (name, fv, fs) in cmps.iter() {
        let mut e = base(name);
        match catch(|| fv(&a, &b)) {
            Ok(m) => { e["out"] = json!(vbits(m)); }
            Err(_) => { e["panic"] = json!(1); }
        }
        e["sm"] = json!((0..n).map(|k| fs(&sa[k], &sb[k]) as u8).collect::<Vec<u8>>());
        rec.ev(e);
    }
    // masks made by comparisons (well-formed), then select / lazy_select / bit operations / reductions
    let (sx, x) = mk(rng);
    let (sy, y) = mk(rng);
    let m1 = PC::lt(&x, &y);
    let m2 = PC::gt_eq(&a, &b);
    let b1: Vec<u8> = (0..n).map(|k| PC::lt(&sx[k], &sy[k]) as u8).collect();
    let b2: Vec<u8> = (0..n).map(|k| PC::gt_eq(&sa[k], &sb[k]) as u8).collect();
    for name in ["select", "lazy_select"] {
        let mut e = base(name);
        e["m1"] = json!(b1);
        let r = catch(|| if name == "select" { Select::select(m1, a, b) } else { LazySelect::lazy_select(m1, || a, || b) });
        match r { Ok(v) => { e["out"] = json!(vbits(v)); } Err(_) => { e["panic"] = json!(1); } }
        e["sv"] = json!((0..n).map(|k| {
            let mb = b1[k] == 1;
            if name == "select" { Select::select(mb, sa[k], sb[k]).bits() } else { LazySelect::lazy_select(mb, || sa[k], || sb[k]).bits() }
        }).collect::<Vec<String>>());
        rec.ev(e);
    }
    for name in ["and", "or", "xor", "not"] {
        let mut e = base(name);
        e["m1"] = json!(b1); e["m2"] = json!(b2);
        let r = catch(|| match name { "and" => m1 & m2, "or" => m1 | m2, "xor" => m1 ^ m2, _ => !m1 });
        match r { Ok(v) => { e["out"] = json!(vbits(v)); } Err(_) => { e["panic"] = json!(1); } }
        e["sm"] = json!((0..n).map(|k| { let (p, q) = (b1[k] == 1, b2[k] == 1); (match name { "and" => p & q, "or" => p | q, "xor" => p ^ q, _ => !p }) as u8 }).collect::<Vec<u8>>());
        rec.ev(e);
    }
    // reductions on: the comparison mask, all-true, all-false
    for (tag, m, bs) in [("cmp", m1, b1.clone()), ("true", <V as BoolMask>::from_bool(true), vec![1u8; n]), ("false", <V as BoolMask>::from_bool(false), vec![0u8; n])] {
        for name in ["is_true", "is_false"] {
            let mut e = base(name);
            e["m1"] = json!(bs);
            e["out"] = json!(vbits(m));
            e["flag"] = json!(if name == "is_true" { m.is_true() } else { m.is_false() } as u8);
            e["src"] = json!(tag);
            rec.ev(e);
        }
    }
}
fn mask_fns() -> Vec<MaskFn> { vec![mask_events::<f32x4>, mask_events::<f32x8>, mask_events::<f64x2>, mask_events::<f64x4>] }

// OPS-PLACEHOLDER
fn op_caps() -> Value { json!({}) }

// ------------------------------------------------------------------------------------------------ f32 versus f64

impl<'a> Drv<'a> {
    fn prec(&mut self, fam: &str, cls: &str, from: usize, tos: &[usize], input: &Col) {
        let nf = ncomp(from);
        // coordinates for mapping known findings (not judged): Oklab hue of the input in millidegrees, smallest of r, g
        let okh = self.u.s64[from][8].and_then(|f| f(input).ok()).map(|c| (c[2].rem_euclid(360.0) * 1000.0) as i64).unwrap_or(-1);
        let rgb = self.u.s64[from][I_SRGB].and_then(|f| f(input).ok()).unwrap_or([1.0; 3]);
        for &to in tos {
            let (f32f, f64f) = match (self.u.s32[from][to], self.u.s64[from][to]) { (Some(a), Some(b)) => (a, b), _ => continue };
            let nt = ncomp(to);
            let (a, b) = (f32f(input), f64f(input));
            let o32 = *a.as_ref().unwrap_or(&[0.0; 3]);
            let o64 = *b.as_ref().unwrap_or(&[0.0; 3]);
            self.rec.ev(json!({"ev": "prec", "fam": fam, "cls": cls, "from": NAMES[from], "to": NAMES[to], "in": exc(input, nf),
                "o32": exc(&o32, nt), "o64": exc(&o64, nt), "h32": exc(&self.u.hub(to, &o32), 3), "h64": exc(&self.u.hub(to, &o64), 3),
                "p32": a.is_err() as u8, "p64": b.is_err() as u8, "okh_mdeg": okh, "rg_max_e6": (rgb[0].max(rgb[1]) * 1e6) as i64}));
        }
    }
}

fn main() {
    let u = Universe::new();
    let input = std::fs::read_to_string(arg("--cmds").expect("--cmds")).expect("command file");
    let mut d = Drv { u: &u, rec: Rec::create(&arg_or("--out", "-")), gid: 0 };
    let mut g = Gen { u: &u, rng: Sm64::new(seed_from_env()) };
    for line in input.lines() {
        if line.trim().is_empty() { continue; }
        let c: Value = serde_json::from_str(line).expect("command json");
        let tos = |c: &Value, from: usize| -> Vec<usize> {
            let l = strs(&c["to"]);
            if l.is_empty() { (0..19).filter(|&b| u.vts[0].3[from][b].is_some()).collect() } else { l.iter().map(|s| idx(s)).collect() }
        };
        match c["op"].as_str().unwrap_or("") {
            "caps" => d.caps(),
            "group" => {
                let from = idx(c["from"].as_str().unwrap());
                let fam = c["fam"].as_str().unwrap();
                let classes = strs(&c["lanes"]);
                let ins: Vec<Col> = classes.iter().map(|cl| g.make_input(fam, cl, from)).collect();
                d.lanes(fam, &classes, from, &tos(&c, from), &strs(&c["vt"]), &ins);
            }
            "lanes" => {
                let from = idx(c["from"].as_str().unwrap());
                let ins: Vec<Col> = c["in"].as_array().unwrap().iter().map(|l| {
                    let mut o = [0.0; 3];
                    for (k, s) in l.as_array().unwrap().iter().enumerate() { o[k] = hexf(s.as_str().unwrap()); }
                    o
                }).collect();
                d.lanes("explicit", &[], from, &tos(&c, from), &strs(&c["vt"]), &ins);
            }
            "random" => {
                let from = idx(c["from"].as_str().unwrap());
                for _ in 0..c["groups"].as_u64().unwrap_or(1) {
                    for n in [2usize, 4, 8] {
                        let ins: Vec<Col> = (0..n).map(|_| g.random_in(from)).collect();
                        d.lanes("random", &[], from, &tos(&c, from), &strs(&c["vt"]), &ins);
                    }
                }
            }
            "pack" => {
                let fns = pack_fns();
                for _ in 0..c["count"].as_u64().unwrap_or(1) {
                    for row in &fns { for f in row { for alpha in [false, true] { let e = f(&mut g.rng, alpha); d.rec.ev(e); } } }
                }
            }
            "mask" => {
                for _ in 0..c["count"].as_u64().unwrap_or(1) { for f in mask_fns() { f(&mut g.rng, &mut d.rec); } }
            }
            "prec" => {
                let from = idx(c["from"].as_str().unwrap());
                let fam = c["fam"].as_str().unwrap_or("random");
                let all: Vec<usize> = (0..19).collect();
                let l = strs(&c["to"]);
                let tos: Vec<usize> = if l.is_empty() { all } else { l.iter().map(|s| idx(s)).collect() };
                if fam == "random" {
                    for _ in 0..c["count"].as_u64().unwrap_or(1) {
                        // stay off the blue edge of the gamut (r = g = 0), where f32 Okhsl/Okhsv/Okhwb are a known finding of C15
                        let mut rgb = g.srgb_any();
                        while rgb[0].max(rgb[1]) < 0.02 * rgb[2] { rgb = g.srgb_any(); }
                        let input = g.from_srgb(from, rgb);
                        d.prec("random", "", from, &tos, &input);
                    }
                } else {
                    for cl in strs(&c["lanes"]) { let input = g.make_input(fam, &cl, from); d.prec(fam, &cl, from, &tos, &input); }
                }
            }
            other => { eprintln!("unknown op {}", other); std::process::exit(3) }
        }
    }
    let n = d.rec.finish();
    eprintln!("simd: {} events", n);
}
