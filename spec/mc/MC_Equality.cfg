SPECIFICATION MCSpec
CONSTANTS
  Emit = TRUE
  MaxN = 4
INVARIANTS ETypeOK EqLaws ApproxLaws Rejects EmitCase
CHECK_DEADLOCK FALSE
