---------------------------- MODULE MC_InPlace ----------------------------
(* All guard programs up to MaxOps operations, emitted one per line. *)
EXTENDS InPlace, TLC, Json

CONSTANTS MaxOps, MaxDepth, MaxCells, Emit
VARIABLE hist      \* <<n, t0>> followed by the operations: this is what is enumerated

Op(k, t, cl, i) == <<k, t, cl, i>>

MCInit == \E n \in 0..MaxCells, t0 \in {0} : InitWith(n, t0) /\ hist = << <<"init", n, t0, 0>> >>

MCNext ==
  /\ Len(hist) <= MaxOps
  /\ \/ \E t \in Types \ {CurType}, cl \in {0, 1} :
          Len(guards) < MaxDepth /\ NewGuard(t, cl) /\ hist' = Append(hist, Op("guard", t, cl, 0))
     \/ \E t \in Types \ {CurType}, cl \in {0, 1} : ThenInto(t, cl) /\ hist' = Append(hist, Op("then", t, cl, 0))
     \/ Flip /\ hist' = Append(hist, Op("flip", 0, 0, 0))
     \/ Restore /\ hist' = Append(hist, Op("restore", 0, 0, 0))
     \/ DropGuard /\ hist' = Append(hist, Op("drop", 0, 0, 0))
     \/ Forget /\ hist' = Append(hist, Op("forget", 0, 0, 0))
     \/ \E i \in DOMAIN cells : Write(i, 1) /\ hist' = Append(hist, Op("write", 0, 0, i))
     \/ \E t \in Types \ {base}, cl \in {0, 1} : OwnedConv(t, cl) /\ hist' = Append(hist, Op("owned", t, cl, 0))

MCSpec == MCInit /\ [][MCNext]_<<vars, hist>>

EmitDone == (Emit /\ Len(hist) = MaxOps + 1) => PrintT(<<"REPLAY", ToJson(hist)>>)
Inv == WellTyped /\ StackChain /\ TermChain /\ ClosedWalk
=============================================================================
