------------------------------ MODULE MC_Blend ------------------------------
(* C08 checked on the model itself: theorems about the W3C formulas of        *)
(* Blend.tla, exhaustively for every per-channel case (cs, cb, as, ab) on the  *)
(* grid {0, 1/G, ..., 1}^4 (G = 2^GBits: 4 = quick, 8 = thorough) and every    *)
(* one of the eleven blend modes and six Porter-Duff operators:               *)
(*  - result and result alpha in [0, 1] (premultiplied: 0 <= co <= ao <= 1);   *)
(*    for `plus` this is FALSE on the model (PlusRange, asserted only when     *)
(*    AssertPlusRange # "no": the check runs it expecting the counterexample   *)
(*    and reports it as a model finding);                                     *)
(*  - opaque inputs reduce to B(cs, cb);                                      *)
(*  - a transparent source over a backdrop is the backdrop, an opaque source   *)
(*    over anything is the source (and the same for every blend mode with a    *)
(*    transparent source / backdrop);                                         *)
(*  - multiply, screen, darken, lighten, difference, exclusion, plus, xor are  *)
(*    symmetric;                                                              *)
(*  - unpremultiply(premultiply(c, a)) = c for a # 0 and 0 for a = 0;          *)
(*  - the floating point judges of Blend.tla accept the exact value and        *)
(*    reject a value 8 tolerances away (both component types).                 *)
(* The harness enumerates the same grid (it is told G); the check compares     *)
(* the number of cases.  Each initial state is one (operation, case); one      *)
(* named action of Blend.tla per operation is taken from it with the exact     *)
(* model value as the observed result (vacuity control: -coverage, and         *)
(* deadlock checking - a case from which no action is enabled is an error).    *)
EXTENDS Blend, TLC

CONSTANTS GBits,              \* grid step 2^-GBits, GBits \in {2, 3}
          Ops,                \* the operations enumerated: subset of BlendModes \cup ComposeOps \cup {"premul"}
          EnumStep,           \* 1: the whole grid; k > 1: every k-th grid value in arguments 2..4 (the -coverage run only)
          AssertPlusRange     \* "colour" / "alpha": also assert that part of the range clause for `plus` (expected
                              \* to fail); "no": the registered configuration

ASSUME EnumStep \in 1..4
ASSUME GBits \in {2, 3} /\ Ops \subseteq (BlendModes \cup ComposeOps \cup {"premul"}) /\ AssertPlusRange \in {"no", "colour", "alpha"}

G == Pow2Small(GBits)
V(k) == DyMulPow2(DyFromInt(k), -GBits)

VARIABLES phase, op, arg
mcvars == <<vars, phase, op, arg>>

cs == V(arg[1])
cb == V(arg[2])
as == V(arg[3])
ab == V(arg[4])
Cs == DyMul(cs, as)
Cb == DyMul(cb, ab)

(* initial states are blocks (operation, first argument); the cases of a block are its successors, so that
   TLC's workers share the work *)
MCInit == Init /\ phase = "blk" /\ op \in Ops /\ arg \in {<<k, 0, 0, 0>> : k \in 0..G}
Enum == /\ phase = "blk"
        /\ \E x \in [2..4 -> {k \in 0..G : k % EnumStep = 0}] : arg' = <<arg[1], x[2], x[3], x[4]>>
        /\ phase' = "case" /\ UNCHANGED <<op, last>>

-----------------------------------------------------------------------------
(* the exact model value as a number the implementation could return (truncated at 2^-104) *)

FxDy(f) == <<f[1], IF f[1] = 0 THEN 0 ELSE -FL, f[2]>>
(* floor(sqrt(k/8) * 2^104), verified below by squaring *)
SqrtLit8(k) == CASE k = 3 -> <<6413, 1104, 1603, 2000, 4247, 4132, 4546, 5016>>
                 [] k = 4 -> <<4981, 3149, 5727, 2312, 7654, 6652, 5068, 5792>>
                 [] k = 5 -> <<6246, 3872, 2373, 2336, 3497, 2921, 2823, 6476>>
                 [] k = 6 -> <<6204, 4277, 1198, 1851, 1621, 353, 3933, 7094>>
                 [] k = 7 -> <<1986, 1533, 2745, 4613, 8100, 1440, 7490, 7662>>
                 [] k = 8 -> <<0, 0, 0, 0, 0, 0, 0, 0, 1>>
SqrtGrid(i) == <<1, -FL, SqrtLit8(i * (8 \div G))>>           \* sqrt(i/G), i/G > 1/4
ASSUME \A k \in 3..8 : LET s == <<1, -FL, SqrtLit8(k)>>
                           e == DySub(DyMul(s, s), DyMulPow2(DyFromInt(k), -3))
                       IN DySign(e) <= 0 /\ DyLe(DyAbs(e), DyPow2(-102))

(* j/G is the denominator of the blend function's value for dodge (1 - cs) and burn (cs) *)
Truth(q) == IF DyIsZero(q.k) /\ DyEq(q.d, D1) THEN q.n
            ELSE IF DyIsZero(q.k)
                 THEN LET j == IF op = "dodge" THEN G - arg[1] ELSE arg[1]
                      IN FxDy(FxDivInt(FxMulInt(FxOfDy(q.n), G), j))
            ELSE DyAdd(q.n, DyMul(q.k, SqrtGrid(arg[2])))

BQ == BlendPre(op, cs, cb, as, ab)
CQ == ComposePre(op, Cs, Cb, as, ab)

Done == phase' = "done" /\ UNCHANGED <<op, arg>>
McBlend   == phase = "case" /\ op \in BlendModes /\ BlendChannel("f64", op, cs, cb, as, ab, Truth(BQ)) /\ Done
McCompose == phase = "case" /\ op \in ComposeOps /\ ComposeChannel("f32", op, Cs, Cb, as, ab, CQ) /\ Done
McPremul  == phase = "case" /\ op = "premul" /\ arg[2] = 0 /\ arg[4] = 0 /\ PremultiplyChannel("f32", cs, as, Cs) /\ Done
McUnpremul == phase = "case" /\ op = "premul" /\ ~(arg[2] = 0 /\ arg[4] = 0)
              /\ UnpremultiplyChannel("f64", Cs, as, IF arg[3] = 0 THEN D0 ELSE cs) /\ Done
Stay == phase = "done" /\ UNCHANGED mcvars

MCNext == Enum \/ McBlend \/ McCompose \/ McPremul \/ McUnpremul \/ Stay
MCSpec == MCInit /\ [][MCNext]_mcvars

-----------------------------------------------------------------------------
(* theorems, evaluated on every case (q: the model value of the case, computed once) *)

IsCase(S) == phase = "case" /\ op \in S

BlendRange(q) ==
  LET b == BlendFn(op, cs, cb)  ao == OverAlpha(as, ab)
  IN /\ QGe(b, D0) /\ QLe(b, D1)                    \* the blend function itself
     /\ QGe(q, D0) /\ QLe(q, ao)                    \* 0 <= co <= ao: premultiplied and straight result in [0, 1]
     /\ In01(ao)
     /\ DyLe(D0, QLo(q)) /\ DyLe(QLo(q), QHi(q))    \* the rational bracket r <= sqrt(r) <= 1 agrees

BlendOpaque(q) ==
  (arg[3] = G /\ arg[4] = G) => QEq(q, BlendFn(op, cs, cb)) /\ DyEq(OverAlpha(as, ab), D1)

(* blending with a transparent source leaves the backdrop, with a transparent backdrop the source *)
BlendTransparent(q) ==
  /\ (arg[3] = 0 => QEq(q, QOf(Cb)) /\ DyEq(OverAlpha(as, ab), ab))
  /\ (arg[4] = 0 => QEq(q, QOf(Cs)) /\ DyEq(OverAlpha(as, ab), as))

BlendSymmetric(q) ==
  op \in SymmetricModes => QEq(q, BlendPre(op, cb, cs, ab, as)) /\ DyEq(OverAlpha(as, ab), OverAlpha(ab, as))

(* the judge accepts the exact value and rejects a value 8 tolerances (relative to 1) away;
   the component type alternates with the case *)
TOf == IF (arg[1] + arg[2] + arg[3] + arg[4]) % 2 = 0 THEN "f64" ELSE "f32"
BlendJudge(q) ==
  LET t == TOf  x == Truth(q)  off == DyPow2(-(RelBits(t) - 3))  sc == DyMax(as, ab)
  IN /\ NearQ(t, x, D1, q, sc)
     /\ ~NearQ(t, DyAdd(x, off), D1, q, sc) /\ ~NearQ(t, DySub(x, off), D1, q, sc)

BlendTheorems ==
  IsCase(BlendModes) => LET q == BQ IN BlendRange(q) /\ BlendOpaque(q) /\ BlendTransparent(q) /\ BlendSymmetric(q) /\ BlendJudge(q)

ComposeRange(c) ==
  LET raw == ComposeAlphaRaw(op, as, ab)  ao == ComposeAlpha(op, as, ab)
  IN /\ DyLe(D0, c) /\ DyLe(D0, raw) /\ In01(ao)
     /\ (op # "plus" => DyLe(c, ao) /\ DyEq(raw, ao))
     /\ (op = "plus" /\ DyLe(raw, D1) => DyLe(c, ao))       \* in range wherever as + ab <= 1

(* FALSE on the model: lighter's co = Cs + Cb and ao = as + ab exceed 1 *)
PlusRange(c) ==
  /\ (AssertPlusRange = "colour" /\ op = "plus") => DyLe(c, D1)
  /\ (AssertPlusRange = "alpha" /\ op = "plus") => DyLe(ComposeAlphaRaw(op, as, ab), D1)

OverIdentities(c) ==
  op = "over" =>
    /\ (arg[3] = 0 => DyEq(c, Cb) /\ DyEq(ComposeAlpha(op, as, ab), ab))      \* transparent source: the backdrop
    /\ (arg[3] = G => DyEq(c, Cs) /\ DyEq(ComposeAlpha(op, as, ab), D1))      \* opaque source: the source
    /\ DyEq(ComposeAlpha(op, as, ab), OverAlpha(as, ab))
    /\ (arg[3] = G /\ arg[4] = G => DyEq(c, cs))

ComposeSymmetric(c) ==
  op \in SymmetricOps => /\ DyEq(c, ComposePre(op, Cb, Cs, ab, as))
                         /\ DyEq(ComposeAlpha(op, as, ab), ComposeAlpha(op, ab, as))

ComposeJudge(c) ==
  LET t == TOf  off == DyPow2(-(RelBits(t) - 3))  sc == DyMax(as, ab)
  IN NearDy(t, c, c, sc) /\ ~NearDy(t, DyAdd(c, off), c, sc) /\ ~NearDy(t, DySub(c, off), c, sc)

ComposeTheorems ==
  IsCase(ComposeOps) => LET c == CQ IN ComposeRange(c) /\ PlusRange(c) /\ OverIdentities(c) /\ ComposeSymmetric(c) /\ ComposeJudge(c)

(* premultiply then unpremultiply: c is the only grid value x with x * a = c * a (a # 0) *)
PremulRoundTrip ==
  IsCase({"premul"}) =>
    /\ (arg[3] # 0 => {x \in 0..G : DyEq(DyMul(V(x), as), Cs)} = {arg[1]})
    /\ (arg[3] = 0 => DyIsZero(Cs))

Inv == TypeOK /\ BlendTheorems /\ ComposeTheorems /\ PremulRoundTrip

-----------------------------------------------------------------------------
(* fixed points, evaluated once: branch points are grid points, the non-commutative modes really are
   asymmetric, the documented counterexample of `plus` *)
Half == DyPow2(-1)
Quarter == DyPow2(-2)
ASSUME \E k \in 0..G : DyEq(DyAdd(V(k), V(k)), D1)                       \* 2 cs = 1
ASSUME \E k \in 0..G : DyEq(DyMulInt(V(k), 4), D1)                       \* 4 cb = 1
ASSUME DyEq(V(0), D0) /\ DyEq(V(G), D1)
ASSUME \A m \in BlendModes \ SymmetricModes :
         \E a, b \in 0..G : ~QEq(BlendFn(m, V(a), V(b)), BlendFn(m, V(b), V(a)))
ASSUME \A o \in ComposeOps \ SymmetricOps :
         \E a, b \in 1..G : ~DyEq(ComposePre(o, Quarter, DyPow2(-3), V(a), V(b)), ComposePre(o, DyPow2(-3), Quarter, V(b), V(a)))
(* soft-light at its three branch points, hard-light at 2 cs = 1 (both branches agree there) *)
ASSUME QEq(SoftLight(Half, Quarter), QOf(Quarter)) /\ QEq(SoftLight(D1, Quarter), QOf(Half))
ASSUME DyEq(SoftD(Quarter), Half)                                          \* D(1/4) = sqrt(1/4): continuous
ASSUME DyEq(HardLight(Half, Quarter), Quarter) /\ DyEq(Screen(D0, Quarter), Quarter)
ASSUME QEq(Dodge(Half, Quarter), QOf(Half)) /\ QEq(Burn(Half, DyAdd(Half, Quarter)), QOf(Half))
(* W3C lighter: 0.75 + 0.75 = 1.5 > 1 *)
ASSUME DyLt(D1, ComposePre("plus", DyAdd(Half, Quarter), DyAdd(Half, Quarter), D1, D1))
=============================================================================
