------------------------------ MODULE Transfer ------------------------------
(***************************************************************************)
(* C05 - the published transfer curves as exact RELATIONS.                 *)
(*                                                                         *)
(* There is no power function in this module.  Every curve is              *)
(*      x = g(Y) = Y / slope                   for Y below the knee        *)
(*               = ((Y + a) / b) ^ (p / q)     above it                    *)
(* (x linear light, Y the encoded value, p/q the published exponent as a   *)
(* fraction), so "x = g(Y)" above the knee is  x^q = ((Y + a)/b)^p  - a    *)
(* statement about INTEGER powers of rationals.  "The error of an integer  *)
(* code is below 0.6" is a bracketing  g(Ylo) < x < g(Yhi)  (g increases), *)
(* each side decided by comparing two integer powers; "x lies on the curve *)
(* within a tolerance on Y" is  |U^p - x^q| <= kappa U^p  with U = (Y+a)/b  *)
(* and kappa the tolerance carried to the p-th power.                      *)
(*                                                                         *)
(* Integer powers are evaluated in truncated big-float arithmetic (`Bf`,   *)
(* 79+ significant bits, every product rounded DOWN, relative error per    *)
(* product < 2^-78, so < 2^-68 after a 563rd power) and a comparison       *)
(* only counts when it holds with a relative margin of 2^-60: the verdict  *)
(* is three-valued (holds / fails / undecided) and only a certain failure  *)
(* rejects.  Undecided happens on exact equality (x = 0, x = 1) only.      *)
(*                                                                         *)
(* Published constants (reference data, never read from the code):         *)
(*  sRGB      IEC 61966-2-1: 12.92, knee 0.04045 (encoded) / 0.0031308,     *)
(*            1.055, 0.055, exponent 2.4 = 12/5; and the variant in which  *)
(*            1.055 is replaced by the value that makes the two segments   *)
(*            meet exactly at 0.0031308 (1.0549999686...; the rounded      *)
(*            constants of the standard leave a step of 3e-8 there) - what *)
(*            palette's table generator uses                               *)
(*  Rec.709 / Rec.2020 OETF  ITU-R BT.709-6, BT.2020-2: 4.5, exponent      *)
(*            1/0.45 = 20/9, and either alpha = 1.099, beta = 0.018 or the *)
(*            exact solution alpha = 1.09929682680944,                     *)
(*            beta = 0.018053968510807 (BT.2020 12-bit; what palette uses) *)
(*  Adobe RGB (1998): exponent 563/256 (2.19921875)                        *)
(*  DCI-P3    SMPTE RP 431-2: exponent 2.6 = 13/5                          *)
(*  ProPhoto  ISO 22028-2 (ROMM): 16, knee 1/32 (encoded) = 16/512,         *)
(*            exponent 1.8 = 9/5                                           *)
(*  linear    identity                                                     *)
(***************************************************************************)
EXTENDS Fx

-----------------------------------------------------------------------------
(* truncated big floats: <<M, q>> denotes M * 8192^q, M a BigNat of at most PL limbs.  Values of at most
   PL limbs are exact; longer products keep their top PL limbs (rounded down, relative error < 8192^-(PL-1) = 2^-78).
   (PL = 7 rather than more: one 7x7-limb product costs TLC about a millisecond, and a check needs up to 40.)
   The magnitude <<d[3], d[2]>> of a Dy is a Bf as it stands. *)
PL == 7
BfZero == <<<<>>, 0>>
BfTrunc(M, q) == IF Len(M) <= PL THEN <<M, q>> ELSE <<SubSeq(M, Len(M) - PL + 1, Len(M)), q + (Len(M) - PL)>>
BfNat(M) == BfTrunc(M, 0)
BfOfDy(d) == BfTrunc(d[3], d[2])
BfMul(a, b) == IF a[1] = <<>> \/ b[1] = <<>> THEN BfZero ELSE BfTrunc(Mul(a[1], b[1]), a[2] + b[2])
(* a^n by repeated squaring.  The intermediate powers are bound by set comprehension over singletons: TLC does not
   reliably cache LET-bound or argument expressions, and a twice-used square would make the recursion exponential. *)
RECURSIVE BfPowS(_, _)
BfPowS(a, n) == IF n = 0 THEN {<<One, 0>>} ELSE IF n = 1 THEN {a}
                ELSE IF n % 2 = 0 THEN {BfMul(h, h) : h \in BfPowS(a, n \div 2)}
                ELSE {BfMul(h2, a) : h2 \in {BfMul(h, h) : h \in BfPowS(a, n \div 2)}}
BfPow(a, n) == CHOOSE v \in BfPowS(a, n) : TRUE
BfTop(a) == Len(a[1]) + a[2]                      \* a < 8192^BfTop(a)
BfCmp(a, b) ==
  IF a[1] = <<>> THEN (IF b[1] = <<>> THEN 0 ELSE -1)
  ELSE IF b[1] = <<>> THEN 1
  ELSE IF BfTop(a) > BfTop(b) THEN 1 ELSE IF BfTop(a) < BfTop(b) THEN -1
  ELSE LET q == IF a[2] <= b[2] THEN a[2] ELSE b[2]
       IN Cmp(ShiftLimbs(a[1], a[2] - q), ShiftLimbs(b[1], b[2] - q))
(* |a - b|; when the magnitudes differ by more than two limbs the larger one (off by < 2^-13 relative: only used
   where such a difference is far outside every tolerance) *)
BfAbsDiff(a, b) ==
  IF a[1] = <<>> THEN b ELSE IF b[1] = <<>> THEN a
  ELSE IF BfTop(a) > BfTop(b) + 2 THEN a ELSE IF BfTop(b) > BfTop(a) + 2 THEN b
  ELSE LET q == IF a[2] <= b[2] THEN a[2] ELSE b[2]
           x == ShiftLimbs(a[1], a[2] - q)  y == ShiftLimbs(b[1], b[2] - q)
       IN BfTrunc(IF Le(x, y) THEN Sub(y, x) ELSE Sub(x, y), q)
(* a < b for certain, when a and b are lower bounds whose true values exceed them by at most 2^-68 relative
   (a power a^n computed by BfPow is low by less than n * 2^-78, a product of two such by the sum; n <= 563 + 256):
   an inexact value has PL limbs (>= 79 bits), so its Shr by 60 is > 2^-68 of it; an exact one needs no slack *)
SureBits == 60
SureLt(a, b) == BfCmp(<<Add(a[1], Shr(a[1], SureBits)), a[2]>>, b) < 0
SureCmp(L, R) == IF SureLt(R, L) THEN 1 ELSE IF SureLt(L, R) THEN -1 ELSE 0

-----------------------------------------------------------------------------
(* non-negative rationals <<n, d>>, n and d BigNats, d # 0: the published constants *)
Rat(n, d) == <<FromNat(n), FromNat(d)>>                    \* ordinary naturals
RatZero == <<Zero, One>>
RatMul(a, b) == <<Mul(a[1], b[1]), Mul(a[2], b[2])>>
RatDiv(a, b) == <<Mul(a[1], b[2]), Mul(a[2], b[1])>>        \* b # 0
RatCmp(a, b) == Cmp(Mul(a[1], b[2]), Mul(b[1], a[2]))
(* a * (1 + 2^-k), a * (1 - 2^-k) *)
RatUp(a, k) == <<Add(Shl(a[1], k), a[1]), Shl(a[2], k)>>
RatDown(a, k) == <<Sub(Shl(a[1], k), a[1]), Shl(a[2], k)>>

(* scaled rationals <<n, d, q>> = (n / d) * 8192^q: the encoded value Y of an event (a Dy: d = 1; a code k / max:
   q = 0).  Powers of 8192 stay in the exponent so that TLC never multiplies limbs that are zero. *)
DyOfNat(M, q) == IF M = <<>> THEN DyZero ELSE <<1, q, M>>    \* M * 8192^q as a Dy
SROfDy(y) == <<y[3], One, IF y[1] = 0 THEN 0 ELSE y[2]>>
SROfRat(r) == <<r[1], r[2], 0>>
SRBf(s) == BfTrunc(s[1], s[3])                              \* the numerator part n * 8192^q as a Bf
(* s + r for a plain rational r *)
SRAddRat(s, r) ==
  IF r[1] = <<>> THEN s
  ELSE IF s[3] >= 0 THEN <<Add(Mul(ShiftLimbs(s[1], s[3]), r[2]), Mul(r[1], s[2])), Mul(s[2], r[2]), 0>>
  ELSE <<Add(Mul(s[1], r[2]), ShiftLimbs(Mul(r[1], s[2]), -s[3])), Mul(s[2], r[2]), s[3]>>
SRDivRat(s, r) == <<Mul(s[1], r[2]), Mul(s[2], r[1]), s[3]>>
(* sign of s - r, exactly *)
SRCmpRat(s, r) ==
  IF s[3] >= 0 THEN Cmp(Mul(ShiftLimbs(s[1], s[3]), r[2]), Mul(r[1], s[2]))
  ELSE Cmp(Mul(s[1], r[2]), ShiftLimbs(Mul(r[1], s[2]), -s[3]))

-----------------------------------------------------------------------------
(* the curves *)
LOCAL Dec15(hi, lo7) == Add(Mul(FromNat(hi), FromNat(10000000)), FromNat(lo7))     \* hi * 10^7 + lo7
LOCAL Ten14 == Mul(FromNat(10000000), FromNat(10000000))
LOCAL Ten15 == Mul(FromNat(100000000), FromNat(10000000))
LOCAL RecAlphaN == Dec15(10992968, 2680944)          \* 1.09929682680944 * 10^14
LOCAL RecAlphaM1N == Dec15(992968, 2680944)          \* 0.09929682680944 * 10^14
LOCAL RecBetaN == Dec15(1805396, 8510807)            \* 0.018053968510807 * 10^15
(* (12.92 * 0.0031308 - 1) / (0.0031308^(1/2.4) - 1) = 1.05499996864597051842... (60-digit decimal arithmetic) *)
LOCAL Dec18(hi, lo9) == Add(Mul(FromNat(hi), FromNat(1000000000)), FromNat(lo9))   \* hi * 10^9 + lo9
LOCAL Ten17 == Mul(FromNat(1000000000), FromNat(100000000))
LOCAL SrgbAlphaCN == Dec18(105499996, 864597052)     \* 1.05499996864597052 * 10^17
LOCAL SrgbAlphaCM1N == Dec18(5499996, 864597052)     \* 0.05499996864597052 * 10^17

(* lin: has a linear toe; knee: the join, in ENCODED units; x = ((Y + a)/b)^(p/q) above it *)
SrgbPar == [lin |-> TRUE, slope |-> Rat(323, 25), knee |-> Rat(809, 20000), a |-> Rat(11, 200), b |-> Rat(211, 200), p |-> 12, q |-> 5]
SrgbParC == [lin |-> TRUE, slope |-> Rat(323, 25), knee |-> Rat(809, 20000), a |-> <<SrgbAlphaCM1N, Ten17>>, b |-> <<SrgbAlphaCN, Ten17>>, p |-> 12, q |-> 5]
RecParA == [lin |-> TRUE, slope |-> Rat(9, 2), knee |-> Rat(81, 1000), a |-> Rat(99, 1000), b |-> Rat(1099, 1000), p |-> 20, q |-> 9]
RecParB == [lin |-> TRUE, slope |-> Rat(9, 2), knee |-> <<MulSmall(RecBetaN, 9), MulSmall(Ten15, 2)>>,
            a |-> <<RecAlphaM1N, Ten14>>, b |-> <<RecAlphaN, Ten14>>, p |-> 20, q |-> 9]
AdobePar == [lin |-> FALSE, slope |-> Rat(1, 1), knee |-> RatZero, a |-> RatZero, b |-> Rat(1, 1), p |-> 563, q |-> 256]
P3Par == [lin |-> FALSE, slope |-> Rat(1, 1), knee |-> RatZero, a |-> RatZero, b |-> Rat(1, 1), p |-> 13, q |-> 5]
ProPhotoPar == [lin |-> TRUE, slope |-> Rat(16, 1), knee |-> Rat(1, 32), a |-> RatZero, b |-> Rat(1, 1), p |-> 9, q |-> 5]

(* GammaFn<F2p2>: a pure power law with the exponent 2.2.  The documentation gives V^2.2 as the ENCODING and also calls
   the curve an approximation of sRGB (which is V^(1/2.2)); both readings are admissible parameter sets, what is
   decided is that the two directions are a power law with that exponent, mutually inverse and monotone *)
GammaDocPar == [lin |-> FALSE, slope |-> Rat(1, 1), knee |-> RatZero, a |-> RatZero, b |-> Rat(1, 1), p |-> 5, q |-> 11]
GammaConvPar == [lin |-> FALSE, slope |-> Rat(1, 1), knee |-> RatZero, a |-> RatZero, b |-> Rat(1, 1), p |-> 11, q |-> 5]

Curves == {"srgb", "rec_oetf", "adobe", "p3", "prophoto", "linear", "gamma"}
(* the admissible published parameter sets of a curve, tried in this order (sRGB: rounded or continuous; Rec: exact
   or three-digit constants) *)
Pars(curve) == CASE curve = "srgb" -> <<SrgbPar, SrgbParC>>
                 [] curve = "rec_oetf" -> <<RecParB, RecParA>>
                 [] curve = "adobe" -> <<AdobePar>>
                 [] curve = "p3" -> <<P3Par>>
                 [] curve = "prophoto" -> <<ProPhotoPar>>
                 [] curve = "gamma" -> <<GammaDocPar, GammaConvPar>>
                 [] OTHER -> <<>>
ParSet(curve) == {Pars(curve)[i] : i \in DOMAIN Pars(curve)}

(* TOLERANCE KneeBandBits: within kn * (1 +- 2^-12) of the join EITHER branch is accepted.  The two published knees of
   sRGB (0.04045 and 12.92 * 0.0031308) differ by 1.6e-6 relative and a constant rounded to f32 by 6e-8; the branches
   differ by < 3e-8 (sRGB), 0 (ProPhoto), < 1e-14 (Rec exact), ~4e-6 (Rec, the three-digit set) inside the band. *)
KneeBandBits == 12
Branches(par, Y) ==
  IF ~par.lin THEN {"pow"}
  ELSE (IF SRCmpRat(Y, RatUp(par.knee, KneeBandBits)) <= 0 THEN {"lin"} ELSE {})
       \cup (IF SRCmpRat(Y, RatDown(par.knee, KneeBandBits)) >= 0 THEN {"pow"} ELSE {})

(* sign of g(Y) - x on one branch: 1 / -1 for certain, 0 undecided (or equal).  Y a scaled rational, x a Dy >= 0.
   lin: n 8192^q sd against d sn x (Y / slope against x), exactly.  pow: U^p against x^q, U = (Y + a) / b, cross-multiplied; the intermediate
   values are bound by set comprehension over singletons (see BfPowS). *)
GCmp(par, br, Y, x) ==
  IF br = "lin" THEN DyCmp(DyOfNat(Mul(Y[1], par.slope[2]), Y[3]), DyMul(x, DyOfNat(Mul(Y[2], par.slope[1]), 0)))
  ELSE CHOOSE r \in {SureCmp(BfPow(BfTrunc(U[1], U[3]), par.p), BfMul(BfPow(BfOfDy(x), par.q), BfPow(BfNat(U[2]), par.p))) :
                     U \in {SRDivRat(SRAddRat(Y, par.a), par.b)}} : TRUE

(* the outcomes of comparing g(Y) with x, one per admissible branch *)
CmpSet(par, Y, x) == {GCmp(par, br, Y, x) : br \in Branches(par, Y)}

-----------------------------------------------------------------------------
(* The integer codes.  "Error below 0.6 of one code": |max * f(x) - k| < 0.6, i.e.
   g((k - 0.6)/max) < x < g((k + 0.6)/max); x the exact value of the f32 (a Dy >= 0).  Three-valued: only a
   comparison that certainly fails refutes. *)
Lo06(max, k) == IF k = 0 THEN SROfRat(RatZero) ELSE SROfRat(Rat(10 * k - 6, 10 * max))
Hi06(max, k) == SROfRat(Rat(10 * k + 6, 10 * max))
Between(par, x, Ylo, Yhi) == CmpSet(par, Ylo, x) # {1} /\ CmpSet(par, Yhi, x) # {-1}
Within06(curve, max, k, x) == \E par \in ParSet(curve) : Between(par, x, Lo06(max, k), Hi06(max, k))
(* the same with 0.5: exact rounding of the curve *)
Within05(curve, max, k, x) ==
  \E par \in ParSet(curve) : Between(par, x, IF k = 0 THEN SROfRat(RatZero) ELSE SROfRat(Rat(2 * k - 1, 2 * max)), SROfRat(Rat(2 * k + 1, 2 * max)))

(* A whole run [xf, xl] of inputs with code k: f is increasing, so the lower bound needs checking at the first input
   only and the upper bound at the last.  One pair of outcome sets per admissible parameter set; code 0 has no lower
   bound to check (f >= 0). *)
RunVerdicts(curve, max, k, xf, xl) ==
  {<<IF k = 0 THEN {} ELSE CmpSet(par, Lo06(max, k), xf), CmpSet(par, Hi06(max, k), xl)>> : par \in ParSet(curve)}
RunWithin06(vs) == \E v \in vs : v[1] # {1} /\ v[2] # {-1}
RunUndecided(vs) == \E v \in vs : 0 \in v[1] \/ 0 \in v[2]
(* The boundary between the runs of k - 1 and k (k >= 1): xb the last input of k - 1, xa the first input of k:
   upper bound of k - 1 at xb, lower bound of k at xa.  All boundaries plus the two ends cover every run. *)
BoundaryVerdicts(curve, max, k, xb, xa) ==
  {<<CmpSet(par, Lo06(max, k), xa), CmpSet(par, Hi06(max, k - 1), xb)>> : par \in ParSet(curve)}

-----------------------------------------------------------------------------
(* Floating point results.  The tolerance is expressed on the ENCODED value Y: tol(Y) = Y * 2^-RelBits + 2^-AbsBits,
   and carried to the p-th power to first order: U = (Y + a) / b changes by tol / (Y + a) relative, U^p by
   kappa = p * tol / (Y + a).  The point (x, Y) is accepted on the power branch when |U^p - x^q| <= kappa * U^p and on
   the linear branch when |Y - slope * x| <= tol.  (The powers carry a relative error below 2^-68; the smallest kappa
   is 2^-41: the verdict does not depend on it.)

   TOLERANCE RelBits.  from_linear is powf (< 1 ulp), one fused multiply-subtract whose cancellation at the knee
   amplifies by (Y + a)/Y <= 2.4, and constants rounded to the component type (an exponent error e changes the result
   by e * |ln x| relative: 2.4 u at the sRGB knee, 31 u on x for x = 2^-28 on the pure power curves, u = 2^-Prec);
   into_linear the same, its error divided by the exponent p/q when mapped back to Y.  Principled bound about 16 u.
   Calibration on the pinned tree (evidence: max_deviation_observed, in units of u): float curves f32 <= 15 u,
   f64 <= 11 u; decode tables f32 <= 1 u, f64 <= 33 u (ProPhoto code 2048, the table generator's alpha = 1 + 2^-52).
   Hence 128 u for f32 and 512 u for f64.
   PUBLICATION: the exact Rec. constants are published to 15 digits (alpha - 1 to 13); palette's table generator solves
   alpha from the 15-digit beta and lands 2.9e-15 away, which is 270 u of Y at the knee in f64.  For that curve in f64
   the tolerance is 2^-41 = 4096 u (> 8 x 270). *)
Prec(t) == IF t = "f32" THEN 24 ELSE 53
RelBits(curve, t) == IF t = "f32" THEN 17 ELSE IF curve = "rec_oetf" THEN 41 ELSE 44
AbsBits(t) == IF t = "f32" THEN 40 ELSE 70        \* floor of the tolerance for results near zero
(* d * tol(Y) for Y = (n / d) * 8192^q, as a Dy: n * 8192^q * 2^-RelBits + d * 2^-AbsBits *)
TolNum(curve, t, Y) == DyAdd(DyMul(DyOfNat(Y[1], Y[3]), DyPow2(-RelBits(curve, t))), DyMul(DyOfNat(Y[2], 0), DyPow2(-AbsBits(t))))
PowNear(par, curve, t, Y, x) ==
  \A W \in {SRAddRat(Y, par.a)} : \A L \in {BfPow(BfTrunc(Mul(W[1], par.b[2]), W[3]), par.p)} :
     BfCmp(BfMul(BfMul(BfAbsDiff(L, BfMul(BfPow(BfOfDy(x), par.q), BfPow(BfNat(Mul(W[2], par.b[1])), par.p))), SRBf(W)), BfNat(Y[2])),
           BfMul(BfMul(L, BfOfDy(TolNum(curve, t, Y))), BfNat(MulSmall(W[2], par.p)))) <= 0
LinNear(par, curve, t, Y, x) ==      \* |n 8192^q sd - d sn x| <= sd * (d tol)
  DyLe(DyAbs(DySub(DyOfNat(Mul(Y[1], par.slope[2]), Y[3]), DyMul(x, DyOfNat(Mul(Y[2], par.slope[1]), 0)))),
       DyMul(TolNum(curve, t, Y), DyOfNat(par.slope[2], 0)))
PointNear(par, curve, t, Y, x) ==
  \E br \in Branches(par, Y) : IF br = "lin" THEN LinNear(par, curve, t, Y, x) ELSE PowNear(par, curve, t, Y, x)
OnCurveTol(curve, t, x, Y) ==
  IF curve = "linear" THEN LinNear([slope |-> Rat(1, 1)], curve, t, Y, x)
  ELSE \E i \in DOMAIN Pars(curve) : PointNear(Pars(curve)[i], curve, t, Y, x)

(* (x, y) is a point of the curve: x linear, y encoded, both exact dyadics >= 0 *)
CurveOK(curve, t, x, y) == OnCurveTol(curve, t, x, SROfDy(y))
(* the decoder's value for code k *)
DecodeOK(curve, t, max, k, x) == OnCurveTol(curve, t, x, SROfRat(Rat(k, max)))

(* the joins, in the units of the argument: dir "enc" takes linear x (knee / slope), "dec" takes encoded y *)
KneeIn(par, dir) == IF dir = "dec" THEN par.knee ELSE RatDiv(par.knee, par.slope)
NearKnee(curve, dir, v) ==
  \E par \in ParSet(curve) : par.lin /\ SRCmpRat(SROfDy(v), RatUp(KneeIn(par, dir), KneeBandBits)) <= 0
                                      /\ SRCmpRat(SROfDy(v), RatDown(KneeIn(par, dir), KneeBandBits)) >= 0
StraddlesKnee(curve, dir, v0, v1) ==
  \E par \in ParSet(curve) : par.lin /\ SRCmpRat(SROfDy(v0), RatUp(KneeIn(par, dir), KneeBandBits)) <= 0
                                      /\ SRCmpRat(SROfDy(v1), RatDown(KneeIn(par, dir), KneeBandBits)) >= 0

(* "the step of less than 1e-6 that the published constants themselves leave where the segments meet": d a Dy >= 0 *)
KneeStepOK(d) == DyLt(DyMulInt(d, 1000000), DyFromInt(1))

(* TOLERANCE RoundTripBits: dec(enc(v)) and enc(dec(v)) against v, relative to v.  Two curve evaluations, the second
   amplifying the error of the first by the local exponent (<= 2.6, or its inverse): principled ~ 16 u; calibrated
   (evidence: max_deviation_observed, the roundtrip entries): <= 15 u in f32, <= 10 u in f64 away from the join; 128 u.
   At the join the published step is allowed. *)
RoundTripBits(t) == Prec(t) - 7
RoundTripOK(curve, t, dir, v, back) ==
  \A d \in {DyAbs(DySub(v, back))} :
     \/ DyLe(d, DyAdd(DyMul(DyAbs(v), DyPow2(-RoundTripBits(t))), DyPow2(-AbsBits(t))))
     \/ KneeStepOK(d) /\ NearKnee(curve, dir, v)

(* TOLERANCE MonoUlps: monotone, except (a) at the join by less than 1e-6, (b) by rounding: the library power function
   is accurate to < 1 ulp but not proven monotone, so a dip of at most 2 ulp of the result is rounding, not the curve.
   Calibrated: the largest dip observed away from the join is reported in the evidence (0 on the pinned tree). *)
MonotoneOK(curve, t, dir, v0, w0, v1, w1) ==
  \/ DyLe(w0, w1)
  \/ DyLe(DySub(w0, w1), DyMul(DyAbs(w0), DyPow2(-(Prec(t) - 2))))
  \/ KneeStepOK(DySub(w0, w1)) /\ StraddlesKnee(curve, dir, v0, v1)
=============================================================================
