------------------------------ MODULE TraceCtor ------------------------------
(* Trace validation of positional construction and destructuring (`cast --ctor`): one `ctor` event per call, judged by *)
(* Cast!PositionalOk against the declared-order table; the closing `ctor_summary` event lists the distinct               *)
(* (type, wrapper, form) triples that were exercised, which must cover CtorRequired.  Events are independent.           *)
EXTENDS Cast, Json, IOUtils, TLC

Rec == ndJsonDeserialize(IOEnv.TRACE)
VARIABLE l

Why(e) ==
  IF e.ev = "ctor"
  THEN IF e.base \notin DOMAIN FieldOrder THEN "unknown-type"
       ELSE IF e.names # Declared(e.base, e.wrap) THEN "field-list-differs-from-declared-order"
       ELSE IF ~PositionalOk(e.base, e.wrap, e.form, e.names, e.args, e.read) THEN "argument-position-differs-from-declared-field"
       ELSE "ok"
  ELSE IF e.ev = "ctor_summary"
  THEN LET seen == {<<t[1], t[2], t[3]>> : t \in {e.seen[i] : i \in DOMAIN e.seen}}
       IN IF CtorRequired \subseteq seen THEN "ok" ELSE "constructor-forms-not-exercised"
  ELSE "unknown-event"

TInit == InitWith("arr", 1, "value", "colour", 1, 1) /\ l = 1     \* the cast machine itself stays idle
TNext == /\ l <= Len(Rec)
         /\ LET w == Why(Rec[l]) IN IF w = "ok" THEN TRUE ELSE PrintT(<<"REJECT", l, w>>)
         /\ l' = l + 1 /\ UNCHANGED vars
TSpec == TInit /\ [][TNext]_<<vars, l>>
Consumed == TLCGet("stats").diameter = Len(Rec) + 1 \/ PrintT(<<"UNCONSUMED", TLCGet("stats").diameter>>)
=============================================================================
