//! C20 driver: serialized colours deserialize to the same colour in a stable shape.
//!
//! Two observers (see spec/Serde.tla, spec/trace/TraceSerde.tla):
//!  (i)  a RECORDING serde::Serializer / Deserializer (`TSer` / `TDe`) that builds / consumes the serde
//!       data-model tree as JSON values, so the exact data-model calls palette makes are observed
//!       independently of any format; plus a miniature non-self-describing token stream (`CSer` / `CDe`,
//!       the semantics of bincode/postcard: structs and tuples are read positionally through a SeqAccess
//!       limited to the announced length) for the compact sequence form;
//!  (ii) the real formats serde_json and ron: to_string then from_str.
//!
//! usage: serdeh --sweep --n <values per type> --out trace.ndjson     seeded sweep over all types
//!        serdeh --hist <file of TLC REPLAY lines> --out trace.ndjson  replay TLC-emitted trees
//!
//! A tree node is always {"k":kind,"name":string,"num":hex string,"items":[nodes],"keys":[strings],"len":int}
//! kinds: num seq tuple tuple_struct struct map newtype unit unit_struct (+ str bool none some ... never made by palette)
//! num nodes: name = primitive type ("f32","f64","u8",...), num = bit pattern as fixed-width lowercase hex.
//! len = the length announced in the serialize_* call (-1: serialize_seq/map(None)).

#![allow(clippy::all)]
use palette::blend::{PreAlpha, Premultiply};
use palette::stimulus::Stimulus;
use palette::Alpha;
use pvh::*;
use serde::de::{self, DeserializeOwned, DeserializeSeed, MapAccess, SeqAccess, Visitor};
use serde::ser::{self, SerializeMap, SerializeSeq, SerializeStruct, SerializeStructVariant, SerializeTuple, SerializeTupleStruct, SerializeTupleVariant};
use serde::{Deserialize, Deserializer, Serialize, Serializer};
use serde_json::{json, Value};
use std::fmt;
use std::marker::PhantomData;

// ------------------------------------------------------------------------------------------------ errors

#[derive(Debug)]
struct TErr(String);
impl fmt::Display for TErr {
    fn fmt(&self, f: &mut fmt::Formatter) -> fmt::Result { write!(f, "{}", self.0) }
}
impl std::error::Error for TErr {}
impl ser::Error for TErr {
    fn custom<T: fmt::Display>(m: T) -> Self { TErr(m.to_string()) }
}
impl de::Error for TErr {
    fn custom<T: fmt::Display>(m: T) -> Self { TErr(m.to_string()) }
}
fn terr<T>(m: &str) -> Result<T, TErr> { Err(TErr(m.to_string())) }

// ------------------------------------------------------------------------------------------------ tree nodes

fn node(k: &str, name: &str, num: &str, items: Vec<Value>, keys: Vec<String>, len: i64) -> Value {
    json!({"k": k, "name": name, "num": num, "items": items, "keys": keys, "len": len})
}
fn num_node(prim: &str, hex: String) -> Value { node("num", prim, &hex, vec![], vec![], 0) }
fn nk(t: &Value) -> &str { t["k"].as_str().unwrap_or("?") }
fn nname(t: &Value) -> &str { t["name"].as_str().unwrap_or("") }
fn nnum(t: &Value) -> &str { t["num"].as_str().unwrap_or("") }
fn nitems(t: &Value) -> &[Value] { t["items"].as_array().map(|v| v.as_slice()).unwrap_or(&[]) }
fn nkeys(t: &Value) -> Vec<&str> { t["keys"].as_array().map(|v| v.iter().map(|x| x.as_str().unwrap_or("?")).collect()).unwrap_or_default() }

// ------------------------------------------------------------------------------------------------ recording serializer

struct TSer;
struct TAgg {
    k: &'static str,
    name: String,
    len: i64,
    items: Vec<Value>,
    keys: Vec<String>,
}
impl TAgg {
    fn new(k: &'static str, name: &str, len: i64) -> TAgg { TAgg { k, name: name.to_string(), len, items: vec![], keys: vec![] } }
    fn done(self) -> Result<Value, TErr> { Ok(node(self.k, &self.name, "", self.items, self.keys, self.len)) }
}

macro_rules! tser_num {
    ($($f:ident $t:ty, $name:literal, $w:literal, $u:ty);*) => {$(
        fn $f(self, v: $t) -> Result<Value, TErr> { Ok(num_node($name, format!(concat!("{:0", $w, "x}"), v as $u))) }
    )*};
}

impl Serializer for TSer {
    type Ok = Value;
    type Error = TErr;
    type SerializeSeq = TAgg;
    type SerializeTuple = TAgg;
    type SerializeTupleStruct = TAgg;
    type SerializeTupleVariant = TAgg;
    type SerializeMap = TAgg;
    type SerializeStruct = TAgg;
    type SerializeStructVariant = TAgg;

    tser_num!(serialize_u8 u8, "u8", "2", u8; serialize_u16 u16, "u16", "4", u16; serialize_u32 u32, "u32", "8", u32;
              serialize_u64 u64, "u64", "16", u64; serialize_u128 u128, "u128", "32", u128;
              serialize_i8 i8, "i8", "2", u8; serialize_i16 i16, "i16", "4", u16; serialize_i32 i32, "i32", "8", u32;
              serialize_i64 i64, "i64", "16", u64; serialize_i128 i128, "i128", "32", u128);
    fn serialize_f32(self, v: f32) -> Result<Value, TErr> { Ok(num_node("f32", format!("{:08x}", v.to_bits()))) }
    fn serialize_f64(self, v: f64) -> Result<Value, TErr> { Ok(num_node("f64", format!("{:016x}", v.to_bits()))) }
    fn serialize_bool(self, v: bool) -> Result<Value, TErr> { Ok(node("bool", if v { "true" } else { "false" }, "", vec![], vec![], 0)) }
    fn serialize_char(self, v: char) -> Result<Value, TErr> { Ok(node("str", &v.to_string(), "", vec![], vec![], 0)) }
    fn serialize_str(self, v: &str) -> Result<Value, TErr> { Ok(node("str", v, "", vec![], vec![], 0)) }
    fn serialize_bytes(self, v: &[u8]) -> Result<Value, TErr> {
        Ok(node("bytes", "", &v.iter().map(|b| format!("{:02x}", b)).collect::<String>(), vec![], vec![], v.len() as i64))
    }
    fn serialize_none(self) -> Result<Value, TErr> { Ok(node("none", "", "", vec![], vec![], 0)) }
    fn serialize_some<T: Serialize + ?Sized>(self, v: &T) -> Result<Value, TErr> { Ok(node("some", "", "", vec![v.serialize(TSer)?], vec![], 1)) }
    fn serialize_unit(self) -> Result<Value, TErr> { Ok(node("unit", "", "", vec![], vec![], 0)) }
    fn serialize_unit_struct(self, name: &'static str) -> Result<Value, TErr> { Ok(node("unit_struct", name, "", vec![], vec![], 0)) }
    fn serialize_unit_variant(self, name: &'static str, _i: u32, var: &'static str) -> Result<Value, TErr> {
        Ok(node("unit_variant", &format!("{}::{}", name, var), "", vec![], vec![], 0))
    }
    fn serialize_newtype_struct<T: Serialize + ?Sized>(self, name: &'static str, v: &T) -> Result<Value, TErr> {
        Ok(node("newtype", name, "", vec![v.serialize(TSer)?], vec![], 1))
    }
    fn serialize_newtype_variant<T: Serialize + ?Sized>(self, name: &'static str, _i: u32, var: &'static str, v: &T) -> Result<Value, TErr> {
        Ok(node("newtype_variant", &format!("{}::{}", name, var), "", vec![v.serialize(TSer)?], vec![], 1))
    }
    fn serialize_seq(self, len: Option<usize>) -> Result<TAgg, TErr> { Ok(TAgg::new("seq", "", len.map(|l| l as i64).unwrap_or(-1))) }
    fn serialize_tuple(self, len: usize) -> Result<TAgg, TErr> { Ok(TAgg::new("tuple", "", len as i64)) }
    fn serialize_tuple_struct(self, name: &'static str, len: usize) -> Result<TAgg, TErr> { Ok(TAgg::new("tuple_struct", name, len as i64)) }
    fn serialize_tuple_variant(self, name: &'static str, _i: u32, var: &'static str, len: usize) -> Result<TAgg, TErr> {
        Ok(TAgg::new("tuple_variant", &format!("{}::{}", name, var), len as i64))
    }
    fn serialize_map(self, len: Option<usize>) -> Result<TAgg, TErr> { Ok(TAgg::new("map", "", len.map(|l| l as i64).unwrap_or(-1))) }
    fn serialize_struct(self, name: &'static str, len: usize) -> Result<TAgg, TErr> { Ok(TAgg::new("struct", name, len as i64)) }
    fn serialize_struct_variant(self, name: &'static str, _i: u32, var: &'static str, len: usize) -> Result<TAgg, TErr> {
        Ok(TAgg::new("struct_variant", &format!("{}::{}", name, var), len as i64))
    }
    fn is_human_readable(&self) -> bool { true }
}
impl SerializeSeq for TAgg {
    type Ok = Value;
    type Error = TErr;
    fn serialize_element<T: Serialize + ?Sized>(&mut self, v: &T) -> Result<(), TErr> { self.items.push(v.serialize(TSer)?); Ok(()) }
    fn end(self) -> Result<Value, TErr> { self.done() }
}
impl SerializeTuple for TAgg {
    type Ok = Value;
    type Error = TErr;
    fn serialize_element<T: Serialize + ?Sized>(&mut self, v: &T) -> Result<(), TErr> { self.items.push(v.serialize(TSer)?); Ok(()) }
    fn end(self) -> Result<Value, TErr> { self.done() }
}
impl SerializeTupleStruct for TAgg {
    type Ok = Value;
    type Error = TErr;
    fn serialize_field<T: Serialize + ?Sized>(&mut self, v: &T) -> Result<(), TErr> { self.items.push(v.serialize(TSer)?); Ok(()) }
    fn end(self) -> Result<Value, TErr> { self.done() }
}
impl SerializeTupleVariant for TAgg {
    type Ok = Value;
    type Error = TErr;
    fn serialize_field<T: Serialize + ?Sized>(&mut self, v: &T) -> Result<(), TErr> { self.items.push(v.serialize(TSer)?); Ok(()) }
    fn end(self) -> Result<Value, TErr> { self.done() }
}
impl SerializeMap for TAgg {
    type Ok = Value;
    type Error = TErr;
    fn serialize_key<T: Serialize + ?Sized>(&mut self, k: &T) -> Result<(), TErr> {
        let kn = k.serialize(TSer)?;
        self.keys.push(if nk(&kn) == "str" { nname(&kn).to_string() } else { format!("<{}>", nk(&kn)) });
        Ok(())
    }
    fn serialize_value<T: Serialize + ?Sized>(&mut self, v: &T) -> Result<(), TErr> { self.items.push(v.serialize(TSer)?); Ok(()) }
    fn end(self) -> Result<Value, TErr> { self.done() }
}
impl SerializeStruct for TAgg {
    type Ok = Value;
    type Error = TErr;
    fn serialize_field<T: Serialize + ?Sized>(&mut self, key: &'static str, v: &T) -> Result<(), TErr> {
        self.keys.push(key.to_string());
        self.items.push(v.serialize(TSer)?);
        Ok(())
    }
    fn end(self) -> Result<Value, TErr> { self.done() }
}
impl SerializeStructVariant for TAgg {
    type Ok = Value;
    type Error = TErr;
    fn serialize_field<T: Serialize + ?Sized>(&mut self, key: &'static str, v: &T) -> Result<(), TErr> {
        self.keys.push(key.to_string());
        self.items.push(v.serialize(TSer)?);
        Ok(())
    }
    fn end(self) -> Result<Value, TErr> { self.done() }
}

// ------------------------------------------------------------------------------------------------ recording deserializer
// A self-describing reader of trees with the conventions of serde_json: a struct may be given keyed (visit_map,
// any key order) or positionally (visit_seq); a newtype struct may be given wrapped or bare; a sequence must be
// consumed completely.

#[derive(Clone, Copy)]
struct TDe<'a>(&'a Value);

fn visit_num<'de, V: Visitor<'de>>(t: &Value, v: V) -> Result<V::Value, TErr> {
    let h = nnum(t);
    let bad = |_| TErr(format!("bad hex {}", h));
    match nname(t) {
        "f32" => v.visit_f32(f32::from_bits(u32::from_str_radix(h, 16).map_err(bad)?)),
        "f64" => v.visit_f64(f64::from_bits(u64::from_str_radix(h, 16).map_err(bad)?)),
        "u8" => v.visit_u8(u8::from_str_radix(h, 16).map_err(bad)?),
        "u16" => v.visit_u16(u16::from_str_radix(h, 16).map_err(bad)?),
        "u32" => v.visit_u32(u32::from_str_radix(h, 16).map_err(bad)?),
        "u64" => v.visit_u64(u64::from_str_radix(h, 16).map_err(bad)?),
        "u128" => v.visit_u128(u128::from_str_radix(h, 16).map_err(bad)?),
        "i8" => v.visit_i8(u8::from_str_radix(h, 16).map_err(bad)? as i8),
        "i16" => v.visit_i16(u16::from_str_radix(h, 16).map_err(bad)? as i16),
        "i32" => v.visit_i32(u32::from_str_radix(h, 16).map_err(bad)? as i32),
        "i64" => v.visit_i64(u64::from_str_radix(h, 16).map_err(bad)? as i64),
        other => terr(&format!("unknown primitive {}", other)),
    }
}

struct TSeqAcc<'a> { items: &'a [Value], pos: usize }
impl<'de, 'a> SeqAccess<'de> for TSeqAcc<'a> {
    type Error = TErr;
    fn next_element_seed<S: DeserializeSeed<'de>>(&mut self, seed: S) -> Result<Option<S::Value>, TErr> {
        if self.pos < self.items.len() {
            self.pos += 1;
            seed.deserialize(TDe(&self.items[self.pos - 1])).map(Some)
        } else {
            Ok(None)
        }
    }
    fn size_hint(&self) -> Option<usize> { Some(self.items.len() - self.pos) }
}
struct TMapAcc<'a> { keys: Vec<&'a str>, items: &'a [Value], pos: usize }
impl<'de, 'a> MapAccess<'de> for TMapAcc<'a> {
    type Error = TErr;
    fn next_key_seed<S: DeserializeSeed<'de>>(&mut self, seed: S) -> Result<Option<S::Value>, TErr> {
        if self.pos < self.keys.len() && self.pos < self.items.len() {
            seed.deserialize(KeyDe(self.keys[self.pos])).map(Some)
        } else {
            Ok(None)
        }
    }
    fn next_value_seed<S: DeserializeSeed<'de>>(&mut self, seed: S) -> Result<S::Value, TErr> {
        self.pos += 1;
        seed.deserialize(TDe(&self.items[self.pos - 1]))
    }
}
struct KeyDe<'a>(&'a str);
impl<'de, 'a> Deserializer<'de> for KeyDe<'a> {
    type Error = TErr;
    fn deserialize_any<V: Visitor<'de>>(self, v: V) -> Result<V::Value, TErr> { v.visit_str(self.0) }
    serde::forward_to_deserialize_any! { bool i8 i16 i32 i64 i128 u8 u16 u32 u64 u128 f32 f64 char str string bytes byte_buf option unit
        unit_struct newtype_struct seq tuple tuple_struct map struct enum identifier ignored_any }
}

impl<'a> TDe<'a> {
    fn seq_all<'de, V: Visitor<'de>>(self, v: V) -> Result<V::Value, TErr> {
        let mut acc = TSeqAcc { items: nitems(self.0), pos: 0 };
        let r = v.visit_seq(&mut acc)?;
        if acc.pos != acc.items.len() { return terr("trailing elements in sequence"); }
        Ok(r)
    }
    fn map_all<'de, V: Visitor<'de>>(self, v: V) -> Result<V::Value, TErr> {
        let mut acc = TMapAcc { keys: nkeys(self.0), items: nitems(self.0), pos: 0 };
        let r = v.visit_map(&mut acc)?;
        if acc.pos != acc.items.len() { return terr("trailing entries in map"); }
        Ok(r)
    }
    fn seqlike(self) -> bool { matches!(nk(self.0), "seq" | "tuple" | "tuple_struct") }
    fn maplike(self) -> bool { matches!(nk(self.0), "struct" | "map") }
}

macro_rules! tde_any { ($($f:ident)*) => {$( fn $f<V: Visitor<'de>>(self, v: V) -> Result<V::Value, TErr> { self.deserialize_any(v) } )*}; }

impl<'de, 'a> Deserializer<'de> for TDe<'a> {
    type Error = TErr;
    fn deserialize_any<V: Visitor<'de>>(self, v: V) -> Result<V::Value, TErr> {
        match nk(self.0) {
            "num" => visit_num(self.0, v),
            "str" => v.visit_str(nname(self.0)),
            "bool" => v.visit_bool(nname(self.0) == "true"),
            "seq" | "tuple" | "tuple_struct" => self.seq_all(v),
            "struct" | "map" => self.map_all(v),
            "newtype" => v.visit_newtype_struct(TDe(&nitems(self.0)[0])),
            "unit" | "unit_struct" => v.visit_unit(),
            "none" => v.visit_none(),
            "some" => v.visit_some(TDe(&nitems(self.0)[0])),
            other => terr(&format!("cannot deserialize node kind {}", other)),
        }
    }
    tde_any! { deserialize_bool deserialize_i8 deserialize_i16 deserialize_i32 deserialize_i64 deserialize_i128 deserialize_u8 deserialize_u16
               deserialize_u32 deserialize_u64 deserialize_u128 deserialize_f32 deserialize_f64 deserialize_char deserialize_str deserialize_string
               deserialize_bytes deserialize_byte_buf deserialize_identifier deserialize_unit }
    fn deserialize_option<V: Visitor<'de>>(self, v: V) -> Result<V::Value, TErr> {
        match nk(self.0) { "none" => v.visit_none(), "some" => v.visit_some(TDe(&nitems(self.0)[0])), _ => v.visit_some(self) }
    }
    fn deserialize_unit_struct<V: Visitor<'de>>(self, _n: &'static str, v: V) -> Result<V::Value, TErr> { self.deserialize_any(v) }
    fn deserialize_newtype_struct<V: Visitor<'de>>(self, _n: &'static str, v: V) -> Result<V::Value, TErr> {
        if nk(self.0) == "newtype" { v.visit_newtype_struct(TDe(&nitems(self.0)[0])) } else { v.visit_newtype_struct(self) }
    }
    fn deserialize_seq<V: Visitor<'de>>(self, v: V) -> Result<V::Value, TErr> {
        if self.seqlike() { self.seq_all(v) } else { terr("invalid type: expected a sequence") }
    }
    fn deserialize_tuple<V: Visitor<'de>>(self, _l: usize, v: V) -> Result<V::Value, TErr> { self.deserialize_seq(v) }
    fn deserialize_tuple_struct<V: Visitor<'de>>(self, _n: &'static str, _l: usize, v: V) -> Result<V::Value, TErr> { self.deserialize_seq(v) }
    fn deserialize_map<V: Visitor<'de>>(self, v: V) -> Result<V::Value, TErr> {
        if self.maplike() { self.map_all(v) } else { terr("invalid type: expected a map") }
    }
    fn deserialize_struct<V: Visitor<'de>>(self, _n: &'static str, _f: &'static [&'static str], v: V) -> Result<V::Value, TErr> {
        if self.seqlike() { self.seq_all(v) } else if self.maplike() { self.map_all(v) } else { terr("invalid type: expected a struct") }
    }
    fn deserialize_enum<V: Visitor<'de>>(self, _n: &'static str, _vs: &'static [&'static str], _v: V) -> Result<V::Value, TErr> { terr("enums are not supported") }
    fn deserialize_ignored_any<V: Visitor<'de>>(self, v: V) -> Result<V::Value, TErr> { v.visit_unit() }
    fn is_human_readable(&self) -> bool { true }
}

// ------------------------------------------------------------------------------------------------ compact token stream
// The semantics of non-self-describing formats (bincode, postcard): no names, no keys, no struct/tuple headers;
// deserialize_struct(fields) = deserialize_tuple(fields.len()) = a SeqAccess that yields exactly that many elements;
// deserialize_any / identifier / ignored_any are not available. Tokens stay typed so that a misread is an error.

#[derive(Clone, Debug, PartialEq)]
enum Tok { Num(String, String), Len(usize), Str(String) }

struct CSer<'a>(&'a mut Vec<Tok>);
macro_rules! cser_num { ($($f:ident $t:ty);*) => {$(
    fn $f(self, v: $t) -> Result<(), TErr> { let n = v.serialize(TSer)?; self.0.push(Tok::Num(nname(&n).to_string(), nnum(&n).to_string())); Ok(()) } )*}; }
impl<'a> Serializer for CSer<'a> {
    type Ok = ();
    type Error = TErr;
    type SerializeSeq = Self;
    type SerializeTuple = Self;
    type SerializeTupleStruct = Self;
    type SerializeTupleVariant = Self;
    type SerializeMap = Self;
    type SerializeStruct = Self;
    type SerializeStructVariant = Self;
    cser_num!(serialize_u8 u8; serialize_u16 u16; serialize_u32 u32; serialize_u64 u64; serialize_u128 u128; serialize_i8 i8; serialize_i16 i16;
              serialize_i32 i32; serialize_i64 i64; serialize_i128 i128; serialize_f32 f32; serialize_f64 f64);
    fn serialize_bool(self, v: bool) -> Result<(), TErr> { self.0.push(Tok::Num("bool".into(), (v as u8).to_string())); Ok(()) }
    fn serialize_char(self, v: char) -> Result<(), TErr> { self.0.push(Tok::Str(v.to_string())); Ok(()) }
    fn serialize_str(self, v: &str) -> Result<(), TErr> { self.0.push(Tok::Str(v.to_string())); Ok(()) }
    fn serialize_bytes(self, _v: &[u8]) -> Result<(), TErr> { terr("compact: bytes unsupported") }
    fn serialize_none(self) -> Result<(), TErr> { terr("compact: option unsupported") }
    fn serialize_some<T: Serialize + ?Sized>(self, _v: &T) -> Result<(), TErr> { terr("compact: option unsupported") }
    fn serialize_unit(self) -> Result<(), TErr> { Ok(()) }
    fn serialize_unit_struct(self, _n: &'static str) -> Result<(), TErr> { Ok(()) }
    fn serialize_unit_variant(self, _n: &'static str, _i: u32, _v: &'static str) -> Result<(), TErr> { terr("compact: enum unsupported") }
    fn serialize_newtype_struct<T: Serialize + ?Sized>(self, _n: &'static str, v: &T) -> Result<(), TErr> { v.serialize(self) }
    fn serialize_newtype_variant<T: Serialize + ?Sized>(self, _n: &'static str, _i: u32, _var: &'static str, _v: &T) -> Result<(), TErr> { terr("compact: enum unsupported") }
    fn serialize_seq(self, len: Option<usize>) -> Result<Self, TErr> {
        match len { Some(l) => { self.0.push(Tok::Len(l)); Ok(self) } None => terr("compact: sequence length required") }
    }
    fn serialize_tuple(self, _l: usize) -> Result<Self, TErr> { Ok(self) }
    fn serialize_tuple_struct(self, _n: &'static str, _l: usize) -> Result<Self, TErr> { Ok(self) }
    fn serialize_tuple_variant(self, _n: &'static str, _i: u32, _v: &'static str, _l: usize) -> Result<Self, TErr> { terr("compact: enum unsupported") }
    fn serialize_map(self, len: Option<usize>) -> Result<Self, TErr> {
        match len { Some(l) => { self.0.push(Tok::Len(l)); Ok(self) } None => terr("compact: map length required") }
    }
    fn serialize_struct(self, _n: &'static str, _l: usize) -> Result<Self, TErr> { Ok(self) }
    fn serialize_struct_variant(self, _n: &'static str, _i: u32, _v: &'static str, _l: usize) -> Result<Self, TErr> { terr("compact: enum unsupported") }
    fn is_human_readable(&self) -> bool { false }
}
macro_rules! cser_agg { ($($tr:ident $m:ident);*) => {$(
    impl<'a> $tr for CSer<'a> {
        type Ok = ();
        type Error = TErr;
        fn $m<T: Serialize + ?Sized>(&mut self, v: &T) -> Result<(), TErr> { v.serialize(CSer(&mut *self.0)) }
        fn end(self) -> Result<(), TErr> { Ok(()) }
    } )*}; }
cser_agg!(SerializeSeq serialize_element; SerializeTuple serialize_element; SerializeTupleStruct serialize_field; SerializeTupleVariant serialize_field);
impl<'a> SerializeMap for CSer<'a> {
    type Ok = ();
    type Error = TErr;
    fn serialize_key<T: Serialize + ?Sized>(&mut self, v: &T) -> Result<(), TErr> { v.serialize(CSer(&mut *self.0)) }
    fn serialize_value<T: Serialize + ?Sized>(&mut self, v: &T) -> Result<(), TErr> { v.serialize(CSer(&mut *self.0)) }
    fn end(self) -> Result<(), TErr> { Ok(()) }
}
impl<'a> SerializeStruct for CSer<'a> {
    type Ok = ();
    type Error = TErr;
    fn serialize_field<T: Serialize + ?Sized>(&mut self, _k: &'static str, v: &T) -> Result<(), TErr> { v.serialize(CSer(&mut *self.0)) }
    fn end(self) -> Result<(), TErr> { Ok(()) }
}
impl<'a> SerializeStructVariant for CSer<'a> {
    type Ok = ();
    type Error = TErr;
    fn serialize_field<T: Serialize + ?Sized>(&mut self, _k: &'static str, v: &T) -> Result<(), TErr> { v.serialize(CSer(&mut *self.0)) }
    fn end(self) -> Result<(), TErr> { Ok(()) }
}

struct CDe<'t> { toks: &'t [Tok], pos: usize }
struct CAcc<'x, 't> { de: &'x mut CDe<'t>, left: usize }
impl<'de, 'x, 't> SeqAccess<'de> for CAcc<'x, 't> {
    type Error = TErr;
    fn next_element_seed<S: DeserializeSeed<'de>>(&mut self, seed: S) -> Result<Option<S::Value>, TErr> {
        if self.left == 0 { return Ok(None); }
        self.left -= 1;
        seed.deserialize(&mut *self.de).map(Some)
    }
    fn size_hint(&self) -> Option<usize> { Some(self.left) }
}
impl<'de, 'x, 't> MapAccess<'de> for CAcc<'x, 't> {
    type Error = TErr;
    fn next_key_seed<S: DeserializeSeed<'de>>(&mut self, seed: S) -> Result<Option<S::Value>, TErr> {
        if self.left == 0 { return Ok(None); }
        self.left -= 1;
        seed.deserialize(&mut *self.de).map(Some)
    }
    fn next_value_seed<S: DeserializeSeed<'de>>(&mut self, seed: S) -> Result<S::Value, TErr> { seed.deserialize(&mut *self.de) }
}
impl<'t> CDe<'t> {
    fn next(&mut self) -> Result<&'t Tok, TErr> {
        let t = self.toks.get(self.pos).ok_or_else(|| TErr("compact: unexpected end of input".into()))?;
        self.pos += 1;
        Ok(t)
    }
    fn num<'de, V: Visitor<'de>>(&mut self, want: &str, v: V) -> Result<V::Value, TErr> {
        match self.next()? {
            Tok::Num(ty, hex) if ty == want => visit_num(&num_node(ty, hex.clone()), v),
            other => terr(&format!("compact: expected {} found {:?}", want, other)),
        }
    }
}
macro_rules! cde_num { ($($f:ident $name:literal);*) => {$(
    fn $f<V: Visitor<'de>>(self, v: V) -> Result<V::Value, TErr> { self.num($name, v) } )*}; }
impl<'de, 'x, 't> Deserializer<'de> for &'x mut CDe<'t> {
    type Error = TErr;
    cde_num!(deserialize_u8 "u8"; deserialize_u16 "u16"; deserialize_u32 "u32"; deserialize_u64 "u64"; deserialize_u128 "u128";
             deserialize_i8 "i8"; deserialize_i16 "i16"; deserialize_i32 "i32"; deserialize_i64 "i64"; deserialize_f32 "f32"; deserialize_f64 "f64");
    fn deserialize_any<V: Visitor<'de>>(self, _v: V) -> Result<V::Value, TErr> { terr("compact: deserialize_any is not supported") }
    fn deserialize_identifier<V: Visitor<'de>>(self, _v: V) -> Result<V::Value, TErr> { terr("compact: deserialize_identifier is not supported") }
    fn deserialize_ignored_any<V: Visitor<'de>>(self, _v: V) -> Result<V::Value, TErr> { terr("compact: deserialize_ignored_any is not supported") }
    fn deserialize_i128<V: Visitor<'de>>(self, _v: V) -> Result<V::Value, TErr> { terr("compact: i128 unsupported") }
    fn deserialize_bool<V: Visitor<'de>>(self, _v: V) -> Result<V::Value, TErr> { terr("compact: bool unsupported") }
    fn deserialize_char<V: Visitor<'de>>(self, v: V) -> Result<V::Value, TErr> { self.deserialize_str(v) }
    fn deserialize_str<V: Visitor<'de>>(self, v: V) -> Result<V::Value, TErr> {
        match self.next()? { Tok::Str(s) => v.visit_str(s), other => terr(&format!("compact: expected string found {:?}", other)) }
    }
    fn deserialize_string<V: Visitor<'de>>(self, v: V) -> Result<V::Value, TErr> { self.deserialize_str(v) }
    fn deserialize_bytes<V: Visitor<'de>>(self, _v: V) -> Result<V::Value, TErr> { terr("compact: bytes unsupported") }
    fn deserialize_byte_buf<V: Visitor<'de>>(self, _v: V) -> Result<V::Value, TErr> { terr("compact: bytes unsupported") }
    fn deserialize_option<V: Visitor<'de>>(self, _v: V) -> Result<V::Value, TErr> { terr("compact: option unsupported") }
    fn deserialize_unit<V: Visitor<'de>>(self, v: V) -> Result<V::Value, TErr> { v.visit_unit() }
    fn deserialize_unit_struct<V: Visitor<'de>>(self, _n: &'static str, v: V) -> Result<V::Value, TErr> { v.visit_unit() }
    fn deserialize_newtype_struct<V: Visitor<'de>>(self, _n: &'static str, v: V) -> Result<V::Value, TErr> { v.visit_newtype_struct(self) }
    fn deserialize_seq<V: Visitor<'de>>(self, v: V) -> Result<V::Value, TErr> {
        match self.next()? { Tok::Len(n) => { let n = *n; v.visit_seq(CAcc { de: self, left: n }) } other => terr(&format!("compact: expected length found {:?}", other)) }
    }
    fn deserialize_tuple<V: Visitor<'de>>(self, l: usize, v: V) -> Result<V::Value, TErr> { v.visit_seq(CAcc { de: self, left: l }) }
    fn deserialize_tuple_struct<V: Visitor<'de>>(self, _n: &'static str, l: usize, v: V) -> Result<V::Value, TErr> { v.visit_seq(CAcc { de: self, left: l }) }
    fn deserialize_map<V: Visitor<'de>>(self, v: V) -> Result<V::Value, TErr> {
        match self.next()? { Tok::Len(n) => { let n = *n; v.visit_map(CAcc { de: self, left: n }) } other => terr(&format!("compact: expected length found {:?}", other)) }
    }
    fn deserialize_struct<V: Visitor<'de>>(self, _n: &'static str, f: &'static [&'static str], v: V) -> Result<V::Value, TErr> {
        v.visit_seq(CAcc { de: self, left: f.len() })
    }
    fn deserialize_enum<V: Visitor<'de>>(self, _n: &'static str, _vs: &'static [&'static str], _v: V) -> Result<V::Value, TErr> { terr("compact: enum unsupported") }
    fn is_human_readable(&self) -> bool { false }
}

// ------------------------------------------------------------------------------------------------ component types

trait Prim: Copy + PartialEq + fmt::Debug + Serialize + DeserializeOwned + Stimulus + Fld<Self> + 'static {
    const NAME: &'static str;
    fn hex(self) -> String;
    fn from_hex(h: &str) -> Self;
    fn extremes() -> Vec<Self>;
    fn random(r: &mut Sm64) -> Self;
    /// distance in units in the last place (integers: absolute difference), capped at 1e6
    fn ulp(a: Self, b: Self) -> i64;
    /// the field `c` of a holder struct read through palette's optional-alpha helpers, with the transparency type written
    /// out concretely (so that a rephrased where-clause of the helper is checked against the real type, not a generic one)
    fn de_hold_alpha<'de, C: Deserialize<'de>, D: Deserializer<'de>>(d: D) -> Result<Alpha<C, Self>, D::Error>;
    fn de_hold_pre<'de, C: Premultiply<Scalar = Self> + Deserialize<'de>, D: Deserializer<'de>>(d: D) -> Result<PreAlpha<C>, D::Error>;
}
macro_rules! hold_opt {
    ($p:ty, $prebound:literal) => {
        fn de_hold_alpha<'de, C: Deserialize<'de>, D: Deserializer<'de>>(d: D) -> Result<Alpha<C, $p>, D::Error> {
            #[derive(Deserialize)]
            #[serde(bound = "C: Deserialize<'de>")]
            struct H<C> {
                #[serde(deserialize_with = "palette::serde::deserialize_with_optional_alpha")]
                c: Alpha<C, $p>,
            }
            H::<C>::deserialize(d).map(|h| h.c)
        }
        fn de_hold_pre<'de, C: Premultiply<Scalar = $p> + Deserialize<'de>, D: Deserializer<'de>>(d: D) -> Result<PreAlpha<C>, D::Error> {
            #[derive(Deserialize)]
            #[serde(bound = $prebound)]
            struct H<C: Premultiply<Scalar = $p>> {
                #[serde(deserialize_with = "palette::serde::deserialize_with_optional_pre_alpha")]
                c: PreAlpha<C>,
            }
            H::<C>::deserialize(d).map(|h| h.c)
        }
    };
}
fn cap(d: i128) -> i64 { d.abs().min(1_000_000) as i64 }
impl Prim for f32 {
    const NAME: &'static str = "f32";
    hold_opt!(f32, "C: Premultiply<Scalar = f32> + Deserialize<'de>");
    fn hex(self) -> String { format!("{:08x}", self.to_bits()) }
    fn from_hex(h: &str) -> f32 { f32::from_bits(u32::from_str_radix(h, 16).expect("hex")) }
    fn extremes() -> Vec<f32> {
        vec![0.0, -0.0, f32::from_bits(1), -f32::from_bits(1), f32::MIN_POSITIVE, f32::MAX, f32::MIN, 1.0, 1.0 + f32::EPSILON, 1.0 - f32::EPSILON / 2.0,
             1.0 / 3.0, 0.1, 0.1 + 0.2, 359.99997, -179.99998, 16777216.0, 1.17549421e-38, 8.5e37, 0.3, 123456.79]
    }
    fn random(r: &mut Sm64) -> f32 {
        match r.below(4) {
            0 => r.unit() as f32,
            1 => r.range(-360.0, 720.0) as f32,
            2 => r.range(-150.0, 150.0) as f32,
            _ => loop { let x = f32::from_bits(r.next() as u32); if x.is_finite() { break x; } },
        }
    }
    fn ulp(a: f32, b: f32) -> i64 {
        let o = |x: f32| { let b = x.to_bits(); if b >> 31 != 0 { -((b & 0x7fff_ffff) as i128) } else { b as i128 } };
        cap(o(a) - o(b))
    }
}
impl Prim for f64 {
    const NAME: &'static str = "f64";
    hold_opt!(f64, "C: Premultiply<Scalar = f64> + Deserialize<'de>");
    fn hex(self) -> String { format!("{:016x}", self.to_bits()) }
    fn from_hex(h: &str) -> f64 { f64::from_bits(u64::from_str_radix(h, 16).expect("hex")) }
    fn extremes() -> Vec<f64> {
        vec![0.0, -0.0, f64::from_bits(1), -f64::from_bits(1), f64::MIN_POSITIVE, f64::MAX, f64::MIN, 1.0, 1.0 + f64::EPSILON, 1.0 - f64::EPSILON / 2.0,
             1.0 / 3.0, 0.1, 0.1 + 0.2, 359.99999999999994, -179.99999999999997, 9007199254740992.0, 2.2250738585072011e-308, 123456.78901234567,
             0.3, 5e-324]
    }
    fn random(r: &mut Sm64) -> f64 {
        match r.below(4) {
            0 => r.unit(),
            1 => r.range(-360.0, 720.0),
            2 => r.range(-150.0, 150.0),
            _ => loop { let x = f64::from_bits(r.next()); if x.is_finite() { break x; } },
        }
    }
    fn ulp(a: f64, b: f64) -> i64 {
        let o = |x: f64| { let b = x.to_bits(); if b >> 63 != 0 { -((b & 0x7fff_ffff_ffff_ffff) as i128) } else { b as i128 } };
        cap(o(a) - o(b))
    }
}
impl Prim for u8 {
    const NAME: &'static str = "u8";
    hold_opt!(u8, "C: Premultiply<Scalar = u8> + Deserialize<'de>");
    fn hex(self) -> String { format!("{:02x}", self) }
    fn from_hex(h: &str) -> u8 { u8::from_str_radix(h, 16).expect("hex") }
    fn extremes() -> Vec<u8> { vec![0, 255, 1, 128, 127, 254] }
    fn random(r: &mut Sm64) -> u8 { r.next() as u8 }
    fn ulp(a: u8, b: u8) -> i64 { cap(a as i128 - b as i128) }
}
impl Prim for u16 {
    const NAME: &'static str = "u16";
    hold_opt!(u16, "C: Premultiply<Scalar = u16> + Deserialize<'de>");
    fn hex(self) -> String { format!("{:04x}", self) }
    fn from_hex(h: &str) -> u16 { u16::from_str_radix(h, 16).expect("hex") }
    fn extremes() -> Vec<u16> { vec![0, 65535, 1, 32768, 255, 256] }
    fn random(r: &mut Sm64) -> u16 { r.next() as u16 }
    fn ulp(a: u16, b: u16) -> i64 { cap(a as i128 - b as i128) }
}

/// A declared field of a colour struct: a bare component or a hue newtype around one.
trait Fld<P> {
    const HUE: bool;
    fn mk(p: P) -> Self;
    fn get(&self) -> P;
}
macro_rules! fld_prim { ($($t:ty),*) => {$( impl Fld<$t> for $t { const HUE: bool = false; fn mk(p: $t) -> $t { p } fn get(&self) -> $t { *self } } )*}; }
fld_prim!(f32, f64, u8, u16);
macro_rules! fld_hue { ($($h:ident),*) => {$(
    impl<P: Prim> Fld<P> for palette::hues::$h<P> {
        const HUE: bool = true;
        fn mk(p: P) -> Self { palette::hues::$h::new(p) }
        fn get(&self) -> P { (*self).into_inner() }
    } )*}; }
fld_hue!(RgbHue, LabHue, LuvHue, OklabHue, Cam16Hue);
fn is_hue<P, F: Fld<P>>(_f: &F) -> bool { F::HUE }

/// A colour struct, built and read through its public named fields (a rename in palette is a build error of the
/// harness, so `decl()` is the list of declared component fields and `meta()` the list of type-level metadata fields).
trait Col: Serialize + DeserializeOwned + Sized {
    const TY: &'static str;
    type P: Prim;
    fn decl() -> Vec<&'static str>;
    fn meta() -> Vec<&'static str>;
    fn make(c: &[Self::P]) -> Self;
    fn comps(&self) -> Vec<Self::P>;
    /// 1-based index of the hue field, 0 if none
    fn hue() -> usize;
}

macro_rules! col {
    ($tyname:literal, $ty:ty, { $($f:ident),+ } meta { $($m:ident),* }) => {
        impl<T: Prim> Col for $ty where $ty: Serialize + DeserializeOwned {
            const TY: &'static str = $tyname;
            type P = T;
            fn decl() -> Vec<&'static str> { vec![$(stringify!($f)),+] }
            fn meta() -> Vec<&'static str> { vec![$(stringify!($m)),*] }
            #[allow(unused_assignments)]
            fn make(c: &[T]) -> Self {
                let mut i = 0;
                Self { $($f: { let x = Fld::<T>::mk(c[i]); i += 1; x }),+ , $($m: PhantomData),* }
            }
            fn comps(&self) -> Vec<T> { vec![$(Fld::<T>::get(&self.$f)),+] }
            fn hue() -> usize {
                let z = Self::make(&vec![T::from_hex("0"); Self::decl().len()]);
                [$(is_hue::<T, _>(&z.$f)),+].iter().position(|&h| h).map(|i| i + 1).unwrap_or(0)
            }
        }
    };
}

use palette::encoding::Srgb as SrgbStd;
use palette::white_point::D65;
type LmsMeta = palette::lms::matrix::WithLmsMatrix<D65, palette::lms::matrix::VonKries>;

col!("Rgb", palette::rgb::Rgb<SrgbStd, T>, { red, green, blue } meta { standard });
col!("Luma", palette::luma::Luma<SrgbStd, T>, { luma } meta { standard });
col!("Hsl", palette::Hsl<SrgbStd, T>, { hue, saturation, lightness } meta { standard });
col!("Hsv", palette::Hsv<SrgbStd, T>, { hue, saturation, value } meta { standard });
col!("Hwb", palette::Hwb<SrgbStd, T>, { hue, whiteness, blackness } meta { standard });
col!("Hsluv", palette::Hsluv<D65, T>, { hue, saturation, l } meta { white_point });
col!("Lab", palette::Lab<D65, T>, { l, a, b } meta { white_point });
col!("Lch", palette::Lch<D65, T>, { l, chroma, hue } meta { white_point });
col!("Luv", palette::Luv<D65, T>, { l, u, v } meta { white_point });
col!("Lchuv", palette::Lchuv<D65, T>, { l, chroma, hue } meta { white_point });
col!("Xyz", palette::Xyz<D65, T>, { x, y, z } meta { white_point });
col!("Yxy", palette::Yxy<D65, T>, { x, y, luma } meta { white_point });
col!("Oklab", palette::Oklab<T>, { l, a, b } meta { });
col!("Oklch", palette::Oklch<T>, { l, chroma, hue } meta { });
col!("Okhsl", palette::Okhsl<T>, { hue, saturation, lightness } meta { });
col!("Okhsv", palette::Okhsv<T>, { hue, saturation, value } meta { });
col!("Okhwb", palette::Okhwb<T>, { hue, whiteness, blackness } meta { });
col!("Lms", palette::lms::Lms<LmsMeta, T>, { long, medium, short } meta { meta });
col!("Cam16UcsJab", palette::cam16::Cam16UcsJab<T>, { lightness, a, b } meta { });
col!("Cam16UcsJmh", palette::cam16::Cam16UcsJmh<T>, { lightness, colorfulness, hue } meta { });

// Harness-local colour-like structs (arities and hue positions that no palette struct has), used under palette's Alpha.
#[derive(Serialize, Deserialize)]
struct M2<T> { x: T, y: T }
#[derive(Serialize, Deserialize)]
struct M4<T> { c1: T, c2: T, c3: T, c4: T }
#[derive(Serialize, Deserialize)]
struct M4h<T> { c1: T, hue: palette::hues::RgbHue<T>, c3: T, c4: T }
col!("M2", M2<T>, { x, y } meta { });
col!("M4", M4<T>, { c1, c2, c3, c4 } meta { });
col!("M4h", M4h<T>, { c1, hue, c3, c4 } meta { });

// ------------------------------------------------------------------------------------------------ wrappers

#[derive(Serialize)]
struct Hold<V> { c: V }
trait Wrap<C: Col> {
    const NAME: &'static str;
    type V: Serialize + DeserializeOwned;
    fn build(c: C, a: C::P) -> Self::V;
    fn split(v: &Self::V) -> (Vec<C::P>, Option<C::P>);
    /// deserialize the field `c` of a holder struct through palette's optional-alpha helper
    fn de_hold<'de, D: Deserializer<'de>>(d: D) -> Option<Result<Self::V, D::Error>>;
}
struct WPlain;
struct WAlpha;
struct WPre;
impl<C: Col> Wrap<C> for WPlain {
    const NAME: &'static str = "plain";
    type V = C;
    fn build(c: C, _a: C::P) -> C { c }
    fn split(v: &C) -> (Vec<C::P>, Option<C::P>) { (v.comps(), None) }
    fn de_hold<'de, D: Deserializer<'de>>(_d: D) -> Option<Result<C, D::Error>> { None }
}
impl<C: Col> Wrap<C> for WAlpha where Alpha<C, C::P>: Serialize + DeserializeOwned {
    const NAME: &'static str = "alpha";
    type V = Alpha<C, C::P>;
    fn build(c: C, a: C::P) -> Self::V { Alpha { color: c, alpha: a } }
    fn split(v: &Self::V) -> (Vec<C::P>, Option<C::P>) { (v.color.comps(), Some(v.alpha)) }
    fn de_hold<'de, D: Deserializer<'de>>(d: D) -> Option<Result<Self::V, D::Error>> { Some(<C::P as Prim>::de_hold_alpha::<C, D>(d)) }
}
// the bound is stated on the wrapped type itself, not on its ingredients: whatever palette's impls ask of the scalar is
// then checked against the concrete types of every instantiation, and a rephrased where-clause still compiles
impl<C: Col + Premultiply<Scalar = <C as Col>::P>> Wrap<C> for WPre where PreAlpha<C>: Serialize + DeserializeOwned {
    const NAME: &'static str = "prealpha";
    type V = PreAlpha<C>;
    fn build(c: C, a: C::P) -> Self::V { PreAlpha { color: c, alpha: a } }
    fn split(v: &Self::V) -> (Vec<C::P>, Option<C::P>) { (v.color.comps(), Some(v.alpha)) }
    fn de_hold<'de, D: Deserializer<'de>>(d: D) -> Option<Result<Self::V, D::Error>> { Some(<C::P as Prim>::de_hold_pre::<C, D>(d)) }
}

// ------------------------------------------------------------------------------------------------ text from trees, JSON observations

fn num_json(t: &Value) -> String {
    match nname(t) {
        "f32" => serde_json::to_string(&f32::from_hex(nnum(t))).unwrap(),
        "f64" => serde_json::to_string(&f64::from_hex(nnum(t))).unwrap(),
        _ => u128::from_str_radix(nnum(t), 16).unwrap().to_string(),
    }
}
/// JSON text of a tree as serde_json would print it (keys in the tree's order)
fn tree_json(t: &Value) -> String {
    match nk(t) {
        "num" => num_json(t),
        "struct" | "map" => {
            let ks = nkeys(t);
            let parts: Vec<String> = nitems(t).iter().enumerate().map(|(i, x)| format!("{}:{}", serde_json::to_string(ks[i]).unwrap(), tree_json(x))).collect();
            format!("{{{}}}", parts.join(","))
        }
        "seq" | "tuple" | "tuple_struct" => format!("[{}]", nitems(t).iter().map(tree_json).collect::<Vec<_>>().join(",")),
        "newtype" => tree_json(&nitems(t)[0]),
        _ => "null".to_string(),
    }
}
fn num_ron(t: &Value) -> String {
    match nname(t) {
        "f32" => ron::to_string(&f32::from_hex(nnum(t))).unwrap(),
        "f64" => ron::to_string(&f64::from_hex(nnum(t))).unwrap(),
        _ => u128::from_str_radix(nnum(t), 16).unwrap().to_string(),
    }
}
/// RON text of a tree; None where RON has no such form for a struct (positional, map, bare hue)
fn tree_ron(t: &Value, top: bool) -> Option<String> {
    match nk(t) {
        "num" => Some(num_ron(t)),
        "struct" if top => {
            let ks = nkeys(t);
            let mut parts = vec![];
            for (i, x) in nitems(t).iter().enumerate() {
                parts.push(format!("{}:{}", ks[i], tree_ron(x, false)?));
            }
            Some(format!("({})", parts.join(",")))
        }
        "newtype" => Some(format!("({})", tree_ron(&nitems(t)[0], false)?)),
        _ => None,
    }
}
fn bare_hue_in(t: &Value, hue_field: Option<&str>) -> bool {
    // a hue given as a bare number (RON wants the newtype parentheses)
    match hue_field {
        None => false,
        Some(h) => nkeys(t).iter().zip(nitems(t)).any(|(k, x)| *k == h && nk(x) == "num"),
    }
}
fn jdepth(v: &Value) -> i64 {
    match v {
        Value::Object(m) => 1 + m.values().map(jdepth).max().unwrap_or(0),
        Value::Array(a) => 1 + a.iter().map(jdepth).max().unwrap_or(0),
        _ => 0,
    }
}
/// (top-level keys, nesting depth, 1 iff the value under "hue" is a JSON number)
fn json_obs(text: &str) -> (Vec<String>, i64, i64) {
    match serde_json::from_str::<Value>(text) {
        Ok(v) => {
            let keys = v.as_object().map(|m| m.keys().cloned().collect()).unwrap_or_default();
            let hue = v.get("hue").map(|h| h.is_number() as i64).unwrap_or(0);
            (keys, jdepth(&v), hue)
        }
        Err(_) => (vec!["<unparsable>".to_string()], -1, 0),
    }
}

// ------------------------------------------------------------------------------------------------ events

type Att<T> = Result<Result<T, String>, String>; // outer Err: panic
fn att<T>(f: impl FnOnce() -> Result<T, String>) -> Att<T> { catch(f) }
fn okstr<T>(r: &Att<T>) -> &'static str { match r { Ok(Ok(_)) => "ok", Ok(Err(_)) => "err", Err(_) => "panic" } }
fn msg<T>(r: &Att<T>) -> String { match r { Ok(Ok(_)) => String::new(), Ok(Err(e)) => e.clone(), Err(e) => e.clone() } }
fn err_node(m: &str) -> Value { node("error", m, "", vec![], vec![], 0) }

struct Obs { keys: Vec<String>, depth: i64, huenum: i64, text: String }
impl Obs { fn none() -> Obs { Obs { keys: vec![], depth: 0, huenum: 0, text: String::new() } } }

fn rt_ev<C: Col, W: Wrap<C>>(rec: &mut Rec, fmt: &str, sw: &str, opt: bool, comps: &[C::P], alpha: Option<C::P>, res: Att<W::V>, obs: Obs) {
    let (mut out, mut outa, mut ulp) = (vec![], String::new(), vec![]);
    if let Ok(Ok(v)) = &res {
        let (oc, oa) = W::split(v);
        ulp = oc.iter().zip(comps).map(|(a, b)| C::P::ulp(*a, *b)).collect();
        if let (Some(a), Some(b)) = (oa, alpha) { ulp.push(C::P::ulp(a, b)); }
        out = oc.iter().map(|x| x.hex()).collect();
        outa = oa.map(|x| x.hex()).unwrap_or_default();
    }
    rec.ev(json!({"ev": "rt", "fmt": fmt, "ty": C::TY, "prim": C::P::NAME, "sw": sw, "dw": W::NAME, "opt": opt as u8,
        "in": comps.iter().map(|x| x.hex()).collect::<Vec<_>>(), "ina": alpha.map(|x| x.hex()).unwrap_or_default(),
        "ok": okstr(&res), "out": out, "outa": outa, "ulp": ulp, "keys": obs.keys, "depth": obs.depth, "huenum": obs.huenum,
        "text": obs.text, "msg": msg(&res)}));
}

fn de_json<T: DeserializeOwned>(text: &str) -> Result<T, String> { serde_json::from_str::<T>(text).map_err(|e| e.to_string()) }
fn de_ron<T: DeserializeOwned>(text: &str) -> Result<T, String> { ron::from_str::<T>(text).map_err(|e| e.to_string()) }
fn de_tree<T: DeserializeOwned>(t: &Value) -> Result<T, String> { T::deserialize(TDe(t)).map_err(|e| e.0) }
fn ser_compact<T: Serialize>(v: &T) -> Result<Vec<Tok>, String> { let mut toks = vec![]; v.serialize(CSer(&mut toks)).map_err(|e| e.0)?; Ok(toks) }
fn de_compact<T: DeserializeOwned>(toks: &[Tok]) -> Result<T, String> {
    let mut cd = CDe { toks, pos: 0 };
    let v = T::deserialize(&mut cd).map_err(|e| e.0)?;
    if cd.pos != toks.len() { return Err(format!("compact: {} trailing tokens", toks.len() - cd.pos)); }
    Ok(v)
}
fn hold_json<C: Col, W: Wrap<C>>(text: &str) -> Result<W::V, String> {
    let mut d = serde_json::Deserializer::from_str(text);
    let v = W::de_hold(&mut d).expect("helper").map_err(|e| e.to_string())?;
    d.end().map_err(|e| e.to_string())?;
    Ok(v)
}
fn hold_ron<C: Col, W: Wrap<C>>(text: &str) -> Result<W::V, String> {
    let mut d = ron::Deserializer::from_str(text).map_err(|e| e.to_string())?;
    let v = W::de_hold(&mut d).expect("helper").map_err(|e| e.to_string())?;
    d.end().map_err(|e| e.to_string())?;
    Ok(v)
}
fn hold_tree<C: Col, W: Wrap<C>>(t: &Value) -> Result<W::V, String> { W::de_hold(TDe(t)).expect("helper").map_err(|e| e.0) }
fn hold_compact<C: Col, W: Wrap<C>>(toks: &[Tok]) -> Result<W::V, String> {
    let mut cd = CDe { toks, pos: 0 };
    let v = W::de_hold(&mut cd).expect("helper").map_err(|e| e.0)?;
    if cd.pos != toks.len() { return Err(format!("compact: {} trailing tokens", toks.len() - cd.pos)); }
    Ok(v)
}
fn hold_node(t: &Value) -> Value { node("struct", "Hold", "", vec![t.clone()], vec!["c".to_string()], 1) }
fn named_ron<T: Serialize>(v: &T) -> Result<String, String> {
    ron::ser::to_string_pretty(v, ron::ser::PrettyConfig::new().struct_names(true)).map_err(|e| e.to_string())
}

/// every observation of one value of one (colour type, wrapper)
fn one<C: Col, W: Wrap<C>>(rec: &mut Rec, comps: &[C::P], alpha: C::P, light: bool) {
    let wrapped = W::NAME != "plain";
    let a = if wrapped { Some(alpha) } else { None };
    let v = W::build(C::make(comps), alpha);
    let plain = C::make(comps);
    // (i) the data-model tree
    let tree_r = att(|| v.serialize(TSer).map_err(|e| e.0));
    let base_r = att(|| plain.serialize(TSer).map_err(|e| e.0));
    let tree = match &tree_r { Ok(Ok(t)) => t.clone(), _ => err_node(&msg(&tree_r)) };
    let base = match &base_r { Ok(Ok(t)) => t.clone(), _ => err_node(&msg(&base_r)) };
    rec.ev(json!({"ev": "ser", "ty": C::TY, "prim": C::P::NAME, "wrap": W::NAME, "decl": C::decl(), "meta": C::meta(), "hue": C::hue(),
        "in": comps.iter().map(|x| x.hex()).collect::<Vec<_>>(), "ina": a.map(|x| x.hex()).unwrap_or_default(),
        "ok": okstr(&tree_r), "tree": tree, "base": base, "msg": msg(&tree_r)}));
    rt_ev::<C, W>(rec, "rec", W::NAME, false, comps, a, att(|| de_tree::<W::V>(&tree)), Obs::none());
    rt_ev::<C, W>(rec, "compact", W::NAME, false, comps, a, att(|| de_compact::<W::V>(&ser_compact(&v)?)), Obs::none());
    // (ii) the real formats
    let jt = att(|| serde_json::to_string(&v).map_err(|e| e.to_string()));
    let jtext = match &jt { Ok(Ok(t)) => t.clone(), _ => format!("<{}>", msg(&jt)) };
    let (keys, depth, huenum) = json_obs(&jtext);
    rt_ev::<C, W>(rec, "json", W::NAME, false, comps, a, att(|| de_json::<W::V>(&jtext)), Obs { keys, depth, huenum, text: jtext.clone() });
    let rtext = att(|| ron::to_string(&v).map_err(|e| e.to_string()));
    rt_ev::<C, W>(rec, "ron", W::NAME, false, comps, a, att(|| de_ron::<W::V>(&rtext.clone()??)), Obs::none());
    // the colour flattened into a struct of the user's (#[serde(flatten)]): its fields, alpha included, beside the user's
    {
        let h = HoldFlat { tag: 7, c: W::build(C::make(comps), alpha), tail: 9 };
        let ft = att(|| serde_json::to_string(&h).map_err(|e| e.to_string()));
        let ftext = match &ft { Ok(Ok(t)) => t.clone(), _ => format!("<{}>", msg(&ft)) };
        let (mut keys, depth, huenum) = json_obs(&ftext);
        if keys.iter().any(|k| k == "tag") && keys.iter().any(|k| k == "tail") { keys.retain(|k| k != "tag" && k != "tail"); }
        rt_ev::<C, W>(rec, "json_flat", W::NAME, false, comps, a,
                      att(|| de_json::<HoldFlat<W::V>>(&ftext).and_then(|h| if h.tag == 7 && h.tail == 9 { Ok(h.c) } else { Err("the user's own fields changed".to_string()) })),
                      Obs { keys, depth, huenum, text: ftext.clone() });
    }
    if !light {
        let seq_text = format!("[{}]", nitems(&tree).iter().map(tree_json).collect::<Vec<_>>().join(","));
        rt_ev::<C, W>(rec, "json_seq", W::NAME, false, comps, a, att(|| de_json::<W::V>(&seq_text)), Obs::none());
        rt_ev::<C, W>(rec, "ron_named", W::NAME, false, comps, a, att(|| de_ron::<W::V>(&named_ron(&v)?)), Obs::none());
    }
    if wrapped {
        // data without an alpha field, read as a transparent type: error without the helper, full opacity with it
        let ptext_j = serde_json::to_string(&plain).unwrap_or_default();
        let ptext_r = ron::to_string(&plain).unwrap_or_default();
        rt_ev::<C, W>(rec, "json", "plain", false, comps, None, att(|| de_json::<W::V>(&ptext_j)), Obs::none());
        rt_ev::<C, W>(rec, "ron", "plain", false, comps, None, att(|| de_ron::<W::V>(&ptext_r)), Obs::none());
        rt_ev::<C, W>(rec, "rec", "plain", false, comps, None, att(|| de_tree::<W::V>(&base)), Obs::none());
        let hj = serde_json::to_string(&Hold { c: &plain }).unwrap_or_default();
        let hr = ron::to_string(&Hold { c: &plain }).unwrap_or_default();
        rt_ev::<C, W>(rec, "json_hold", "plain", true, comps, None, att(|| hold_json::<C, W>(&hj)), Obs::none());
        rt_ev::<C, W>(rec, "ron_hold", "plain", true, comps, None, att(|| hold_ron::<C, W>(&hr)), Obs::none());
        rt_ev::<C, W>(rec, "rec_hold", "plain", true, comps, None, att(|| hold_tree::<C, W>(&hold_node(&base))), Obs::none());
        if !light {
            let hj = serde_json::to_string(&Hold { c: &v }).unwrap_or_default();
            let hr = ron::to_string(&Hold { c: &v }).unwrap_or_default();
            rt_ev::<C, W>(rec, "json_hold", W::NAME, true, comps, a, att(|| hold_json::<C, W>(&hj)), Obs::none());
            rt_ev::<C, W>(rec, "ron_hold", W::NAME, true, comps, a, att(|| hold_ron::<C, W>(&hr)), Obs::none());
            rt_ev::<C, W>(rec, "rec_hold", W::NAME, true, comps, a, att(|| hold_tree::<C, W>(&hold_node(&tree))), Obs::none());
        }
    }
}

fn tyseed(seed: u64, a: &str, b: &str, c: &str) -> u64 {
    let mut h = seed ^ 0xcbf29ce484222325;
    for x in a.bytes().chain(b.bytes()).chain(c.bytes()) { h = (h ^ x as u64).wrapping_mul(0x100000001b3); }
    h
}

/// extremes in every position, then n random finite values; every 4th value gets the full set of forms
fn sweep<C: Col, W: Wrap<C>>(rec: &mut Rec, seed: u64, n: usize) {
    let nf = C::decl().len();
    let ex = C::P::extremes();
    let mut rng = Sm64::new(tyseed(seed, C::TY, C::P::NAME, W::NAME));
    for k in 0..(ex.len() + n) {
        let (comps, alpha): (Vec<C::P>, C::P) = if k < ex.len() {
            ((0..nf).map(|i| ex[(k + i) % ex.len()]).collect(), ex[(k + nf) % ex.len()])
        } else {
            ((0..nf).map(|_| C::P::random(&mut rng)).collect(), C::P::random(&mut rng))
        };
        one::<C, W>(rec, &comps, alpha, k >= ex.len() && k % 4 != 0);
    }
}

// ------------------------------------------------------------------------------------------------ every tree shape under Alpha

mod shapes {
    use serde::{Deserialize, Serialize};
    #[derive(Serialize, Deserialize)]
    pub struct Empty;
    #[derive(Serialize, Deserialize)]
    pub struct UnitTuple();
    #[derive(Serialize, Deserialize)]
    pub struct Newtype(pub f32);
    #[derive(Serialize, Deserialize)]
    pub struct Pair(pub f32, pub f32);
    #[derive(Serialize, Deserialize)]
    pub struct Single { pub value: f32 }
}

fn flat_one<T: Serialize + DeserializeOwned>(rec: &mut Rec, shape: &str, inner: T, a: f32) {
    let base = att(|| inner.serialize(TSer).map_err(|e| e.0));
    let basen = match &base { Ok(Ok(t)) => t.clone(), _ => err_node(&msg(&base)) };
    let v = Alpha { color: inner, alpha: a };
    let tr = att(|| v.serialize(TSer).map_err(|e| e.0));
    let tree = match &tr { Ok(Ok(t)) => t.clone(), _ => err_node(&msg(&tr)) };
    rec.ev(json!({"ev": "flat", "shape": shape, "prim": "f32", "alpha": a.hex(), "ok": okstr(&tr), "base": basen, "tree": tree, "msg": msg(&tr)}));
    let mut back = |fmt: &str, r: Att<Alpha<T, f32>>| {
        let t2 = match &r { Ok(Ok(v2)) => v2.serialize(TSer).unwrap_or_else(|e| err_node(&e.0)), _ => err_node("") };
        rec.ev(json!({"ev": "flatrt", "shape": shape, "fmt": fmt, "basek": nk(&basen), "ok": okstr(&r), "tree": tree, "tree2": t2, "msg": msg(&r)}));
    };
    back("rec", att(|| de_tree(&tree)));
    back("compact", att(|| de_compact(&ser_compact(&v)?)));
    back("json", att(|| de_json(&serde_json::to_string(&v).map_err(|e| e.to_string())?)));
    back("ron", att(|| de_ron(&ron::to_string(&v).map_err(|e| e.to_string())?)));
    back("ron_named", att(|| de_ron(&named_ron(&v)?)));
}

fn flat_shapes(rec: &mut Rec, seed: u64, n: usize) {
    let mut rng = Sm64::new(tyseed(seed, "shapes", "", ""));
    let ex = f32::extremes();
    for k in 0..(ex.len() + n) {
        let mut x = |j: usize| if k < ex.len() { ex[(k + j) % ex.len()] } else { f32::random(&mut rng) };
        let (a, p, q, r) = (x(0), x(1), x(2), x(3));
        flat_one(rec, "unit", (), a);
        flat_one(rec, "unit_struct", shapes::Empty, a);
        flat_one(rec, "empty_tuple_struct", shapes::UnitTuple(), a);
        flat_one(rec, "newtype", shapes::Newtype(p), a);
        flat_one(rec, "tuple_struct", shapes::Pair(p, q), a);
        flat_one(rec, "struct", shapes::Single { value: p }, a);
        flat_one(rec, "tuple", (p, q), a);
        flat_one(rec, "array", [p, q, r], a);
        let mut m = std::collections::BTreeMap::new();
        m.insert("first".to_string(), p);
        m.insert("second".to_string(), q);
        flat_one(rec, "map", m, a);
    }
}

// ------------------------------------------------------------------------------------------------ as_array / as_uint helpers

use palette::cast::{self, ArrayCast, UintCast};

#[derive(Serialize, Deserialize)]
// the bounds name the array AND its item type, so that the helpers may ask for either (the harness must keep compiling when a
// where clause of palette is rephrased)
#[serde(bound(serialize = "V: ArrayCast, V::Array: Serialize + palette::ArrayExt, <V::Array as palette::ArrayExt>::Item: Serialize",
              deserialize = "V: ArrayCast, V::Array: Deserialize<'de> + palette::ArrayExt, <V::Array as palette::ArrayExt>::Item: Deserialize<'de>"))]
struct HoldArr<V> {
    #[serde(with = "palette::serde::as_array")]
    c: V,
}
#[derive(Serialize, Deserialize)]
#[serde(bound(serialize = "V: Serialize", deserialize = "V: Deserialize<'de>"))]
struct HoldFlat<V> {
    tag: u32,
    #[serde(flatten)]
    c: V,
    tail: u32,
}
#[derive(Serialize, Deserialize)]
#[serde(bound(serialize = "V: UintCast, V::Uint: Serialize", deserialize = "V: UintCast, V::Uint: Deserialize<'de>"))]
struct HoldUint<V> {
    #[serde(with = "palette::serde::as_uint")]
    c: V,
}

fn arr_one<C: Col, W: Wrap<C>>(rec: &mut Rec, comps: &[C::P], alpha: C::P)
where
    W::V: ArrayCast,
    <W::V as ArrayCast>::Array: Serialize + DeserializeOwned + AsRef<[C::P]> + palette::ArrayExt,
    <<W::V as ArrayCast>::Array as palette::ArrayExt>::Item: Serialize + DeserializeOwned,
{
    let a = if W::NAME != "plain" { Some(alpha) } else { None };
    let v = W::build(C::make(comps), alpha);
    let castv: Vec<String> = cast::into_array_ref(&v).as_ref().iter().map(|x| x.hex()).collect();
    let tr = att(|| palette::serde::serialize_as_array(&v, TSer).map_err(|e| e.0));
    let tree = match &tr { Ok(Ok(t)) => t.clone(), _ => err_node(&msg(&tr)) };
    rec.ev(json!({"ev": "arr", "ty": C::TY, "prim": C::P::NAME, "wrap": W::NAME, "decl": C::decl(),
        "in": comps.iter().map(|x| x.hex()).collect::<Vec<_>>(), "ina": a.map(|x| x.hex()).unwrap_or_default(),
        "cast": castv, "ok": okstr(&tr), "tree": tree, "msg": msg(&tr)}));
    let h = HoldArr { c: v };
    let jt = serde_json::to_string(&h).unwrap_or_default();
    let (_, depth, _) = json_obs(&jt);
    rt_ev::<C, W>(rec, "json_arr", W::NAME, false, comps, a, att(|| de_json::<HoldArr<W::V>>(&jt).map(|h| h.c)),
                  Obs { keys: vec![], depth, huenum: 0, text: jt.clone() });
    rt_ev::<C, W>(rec, "ron_arr", W::NAME, false, comps, a, att(|| de_ron::<HoldArr<W::V>>(&ron::to_string(&h).map_err(|e| e.to_string())?).map(|h| h.c)), Obs::none());
    rt_ev::<C, W>(rec, "rec_arr", W::NAME, false, comps, a,
                  att(|| palette::serde::deserialize_as_array::<W::V, _>(TDe(&tree)).map_err(|e| e.0)), Obs::none());
    rt_ev::<C, W>(rec, "compact_arr", W::NAME, false, comps, a, att(|| de_compact::<HoldArr<W::V>>(&ser_compact(&h)?).map(|h| h.c)), Obs::none());
}

fn arr_sweep<C: Col, W: Wrap<C>>(rec: &mut Rec, seed: u64, n: usize)
where
    W::V: ArrayCast,
    <W::V as ArrayCast>::Array: Serialize + DeserializeOwned + AsRef<[C::P]> + palette::ArrayExt,
    <<W::V as ArrayCast>::Array as palette::ArrayExt>::Item: Serialize + DeserializeOwned,
{
    let nf = C::decl().len();
    let ex = C::P::extremes();
    let mut rng = Sm64::new(tyseed(seed, C::TY, C::P::NAME, W::NAME) ^ 0xa55a);
    for k in 0..(ex.len() + n) {
        let (comps, alpha): (Vec<C::P>, C::P) = if k < ex.len() {
            ((0..nf).map(|i| ex[(k + i) % ex.len()]).collect(), ex[(k + nf) % ex.len()])
        } else {
            ((0..nf).map(|_| C::P::random(&mut rng)).collect(), C::P::random(&mut rng))
        };
        arr_one::<C, W>(rec, &comps, alpha);
    }
}

/// one packed value through as_uint; `ch` are the channel bit patterns by name
fn uint_one<V>(rec: &mut Rec, order: &str, v: V, ch: Value, chans: impl Fn(&V) -> Value)
where
    V: UintCast + Copy,
    V::Uint: Serialize + DeserializeOwned + Copy,
{
    let hexu = |u: V::Uint| -> (String, String) { let n = u.serialize(TSer).unwrap(); (nname(&n).to_string(), nnum(&n).to_string()) };
    let (uprim, castu) = hexu(cast::into_uint(v));
    let tr = att(|| palette::serde::serialize_as_uint(&v, TSer).map_err(|e| e.0));
    let tree = match &tr { Ok(Ok(t)) => t.clone(), _ => err_node(&msg(&tr)) };
    let h = HoldUint { c: v };
    let mut emit = |fmt: &str, r: Att<V>| {
        let (back, ch2) = match &r { Ok(Ok(v2)) => (hexu(cast::into_uint(*v2)).1, chans(v2)), _ => (String::new(), chans(&v)) };
        rec.ev(json!({"ev": "uint", "fmt": fmt, "order": order, "uprim": uprim, "ch": ch, "cast": castu, "tree": tree,
            "ok": okstr(&r), "back": back, "ch2": ch2, "msg": msg(&r)}));
    };
    emit("rec", att(|| palette::serde::deserialize_as_uint::<V, _>(TDe(&tree)).map_err(|e| e.0)));
    emit("json", att(|| de_json::<HoldUint<V>>(&serde_json::to_string(&h).map_err(|e| e.to_string())?).map(|h| h.c)));
    emit("ron", att(|| de_ron::<HoldUint<V>>(&ron::to_string(&h).map_err(|e| e.to_string())?).map(|h| h.c)));
    emit("compact", att(|| de_compact::<HoldUint<V>>(&ser_compact(&h)?).map(|h| h.c)));
}

fn chrec(r: &str, g: &str, b: &str, a: &str, l: &str) -> Value { json!({"r": r, "g": g, "b": b, "a": a, "l": l}) }

fn uint_sweep(rec: &mut Rec, seed: u64, n: usize) {
    use palette::luma::{Luma, Lumaa, PackedAluma, PackedLumaa};
    use palette::rgb::{PackedAbgr, PackedArgb, PackedBgra, PackedRgba};
    use palette::Srgba;
    let mut rng = Sm64::new(tyseed(seed, "uint", "", ""));
    let ex8 = u8::extremes();
    for k in 0..(ex8.len() + n) {
        let mut x = |j: usize| if k < ex8.len() { ex8[(k + j) % ex8.len()] } else { u8::random(&mut rng) };
        let (r, g, b, a) = (x(0), x(1), x(2), x(3));
        let c = Srgba::<u8>::new(r, g, b, a);
        let ch = chrec(&r.hex(), &g.hex(), &b.hex(), &a.hex(), "");
        let un = |c: Srgba<u8>| chrec(&c.red.hex(), &c.green.hex(), &c.blue.hex(), &c.alpha.hex(), "");
        uint_one(rec, "Rgba", PackedRgba::<u32>::pack(c), ch.clone(), |p| un(p.unpack()));
        uint_one(rec, "Argb", PackedArgb::<u32>::pack(c), ch.clone(), |p| un(p.unpack()));
        uint_one(rec, "Bgra", PackedBgra::<u32>::pack(c), ch.clone(), |p| un(p.unpack()));
        uint_one(rec, "Abgr", PackedAbgr::<u32>::pack(c), ch.clone(), |p| un(p.unpack()));
        let la = Lumaa::<SrgbStd, u8>::new(r, a);
        let chl = chrec("", "", "", &a.hex(), &r.hex());
        let unl = |c: Lumaa<SrgbStd, u8>| chrec("", "", "", &c.alpha.hex(), &c.luma.hex());
        uint_one(rec, "La", PackedLumaa::<u16>::pack(la), chl.clone(), |p| unl(p.unpack()));
        uint_one(rec, "Al", PackedAluma::<u16>::pack(la), chl.clone(), |p| unl(p.unpack()));
        uint_one(rec, "L", Luma::<SrgbStd, u8>::new(r), chrec("", "", "", "", &r.hex()), |c| chrec("", "", "", "", &c.luma.hex()));
        let w16 = ((r as u16) << 8) | g as u16;
        uint_one(rec, "L", Luma::<SrgbStd, u16>::new(w16), chrec("", "", "", "", &format!("{:04x}", w16)), |c| chrec("", "", "", "", &format!("{:04x}", c.luma)));
        let w32 = if k < ex8.len() { [0u32, u32::MAX, 1, 1 << 31, 0x7fff_ffff, 0xffff_fffe][k] } else { rng.next() as u32 };
        uint_one(rec, "L", Luma::<SrgbStd, u32>::new(w32), chrec("", "", "", "", &format!("{:08x}", w32)), |c| chrec("", "", "", "", &format!("{:08x}", c.luma)));
        let w64 = if k < ex8.len() { [0u64, u64::MAX, 1, 1 << 63, (1 << 53) + 1, u64::MAX - 1][k] } else { rng.next() };
        uint_one(rec, "L", Luma::<SrgbStd, u64>::new(w64), chrec("", "", "", "", &format!("{:016x}", w64)), |c| chrec("", "", "", "", &format!("{:016x}", c.luma)));
    }
}

// ------------------------------------------------------------------------------------------------ replay of TLC-emitted trees

fn tree_tokens(t: &Value) -> Option<Vec<Tok>> {
    let mut toks = vec![];
    for x in nitems(t) {
        let n = match nk(x) { "num" => x, "newtype" if nk(&nitems(x)[0]) == "num" => &nitems(x)[0], _ => return None };
        toks.push(Tok::Num(nname(n).to_string(), nnum(n).to_string()));
    }
    Some(toks)
}

fn replay_case<C: Col, W: Wrap<C>>(rec: &mut Rec, case: &Value) {
    let tree = &case["tree"];
    let opt = case["opt"].as_bool().unwrap_or(false);
    let decl = C::decl();
    let huef = if C::hue() > 0 { Some(decl[C::hue() - 1]) } else { None };
    let mut emit = |fmt: &str, r: Att<W::V>| {
        let (out, outa) = match &r {
            Ok(Ok(v)) => { let (c, a) = W::split(v); (c.iter().map(|x| x.hex()).collect::<Vec<_>>(), a.map(|x| x.hex()).unwrap_or_default()) }
            _ => (vec![], String::new()),
        };
        rec.ev(json!({"ev": "de", "fmt": fmt, "ty": C::TY, "prim": C::P::NAME, "wrap": W::NAME, "opt": opt as u8, "label": case["label"],
            "tree": tree, "ok": okstr(&r), "out": out, "outa": outa, "msg": msg(&r)}));
    };
    emit("rec", att(|| if opt { hold_tree::<C, W>(&hold_node(tree)) } else { de_tree::<W::V>(tree) }));
    let jt = tree_json(tree);
    emit("json", att(|| if opt { hold_json::<C, W>(&format!("{{\"c\":{}}}", jt)) } else { de_json::<W::V>(&jt) }));
    if nk(tree) == "struct" && !bare_hue_in(tree, huef) {
        if let Some(rt) = tree_ron(tree, true) {
            emit("ron", att(|| if opt { hold_ron::<C, W>(&format!("(c:{})", rt)) } else { de_ron::<W::V>(&rt) }));
        }
    }
    if matches!(nk(tree), "tuple" | "tuple_struct") {
        if let Some(toks) = tree_tokens(tree) {
            emit("compact", att(|| if opt { hold_compact::<C, W>(&toks) } else { de_compact::<W::V>(&toks) }));
        }
    }
}

// ------------------------------------------------------------------------------------------------ the type universe

type TRgb<T> = palette::rgb::Rgb<SrgbStd, T>;
type TLuma<T> = palette::luma::Luma<SrgbStd, T>;
type THsl<T> = palette::Hsl<SrgbStd, T>;
type THsv<T> = palette::Hsv<SrgbStd, T>;
type THwb<T> = palette::Hwb<SrgbStd, T>;
type THsluv<T> = palette::Hsluv<D65, T>;
type TLab<T> = palette::Lab<D65, T>;
type TLch<T> = palette::Lch<D65, T>;
type TLuv<T> = palette::Luv<D65, T>;
type TLchuv<T> = palette::Lchuv<D65, T>;
type TXyz<T> = palette::Xyz<D65, T>;
type TYxy<T> = palette::Yxy<D65, T>;
type TOklab<T> = palette::Oklab<T>;
type TOklch<T> = palette::Oklch<T>;
type TOkhsl<T> = palette::Okhsl<T>;
type TOkhsv<T> = palette::Okhsv<T>;
type TOkhwb<T> = palette::Okhwb<T>;
type TLms<T> = palette::lms::Lms<LmsMeta, T>;
type TJab<T> = palette::cam16::Cam16UcsJab<T>;
type TJmh<T> = palette::cam16::Cam16UcsJmh<T>;

/// (table name, PreAlpha exists, u8/u16 components driven)
const UNIVERSE: &[(&str, bool, bool)] = &[
    ("Rgb", true, true), ("Luma", true, true), ("Lab", true, false), ("Luv", true, false), ("Xyz", true, false), ("Yxy", true, false),
    ("Oklab", true, false), ("Lms", true, false), ("Cam16UcsJab", true, false),
    ("Hsl", false, false), ("Hsv", false, false), ("Hwb", false, false), ("Hsluv", false, false), ("Lch", false, false), ("Lchuv", false, false),
    ("Oklch", false, false), ("Okhsl", false, false), ("Okhsv", false, false), ("Okhwb", false, false), ("Cam16UcsJmh", false, false),
    ("M2", false, false), ("M4", false, false), ("M4h", false, false),
];
fn valid(ty: &str, prim: &str, wrap: &str) -> bool {
    match UNIVERSE.iter().find(|u| u.0 == ty) {
        None => false,
        Some(&(_, pre, ints)) => match (prim, wrap) {
            ("f32" | "f64", "plain" | "alpha") => true,
            ("f32" | "f64", "prealpha") => pre,
            ("u8" | "u16", "plain" | "alpha") => ints,
            _ => false,
        },
    }
}

macro_rules! dispatch {
    ($ty:expr, $prim:expr, $wrap:expr, $f:ident $args:tt) => {
        dispatch!(@go $ty, $prim, $wrap, $f $args;
            pre: TRgb "Rgb", TLuma "Luma", TLab "Lab", TLuv "Luv", TXyz "Xyz", TYxy "Yxy", TOklab "Oklab", TLms "Lms", TJab "Cam16UcsJab";
            nopre: THsl "Hsl", THsv "Hsv", THwb "Hwb", THsluv "Hsluv", TLch "Lch", TLchuv "Lchuv", TOklch "Oklch", TOkhsl "Okhsl",
                   TOkhsv "Okhsv", TOkhwb "Okhwb", TJmh "Cam16UcsJmh", M2 "M2", M4 "M4", M4h "M4h";
            ints: TRgb "Rgb", TLuma "Luma")
    };
    (@go $ty:expr, $prim:expr, $wrap:expr, $f:ident $args:tt; pre: $($pa:ident $pn:literal),*; nopre: $($na:ident $nn:literal),*; ints: $($ia:ident $in:literal),*) => {
        match ($ty, $prim, $wrap) {
            $( ($pn, "f32", "plain") => $f::<$pa<f32>, WPlain> $args, ($pn, "f32", "alpha") => $f::<$pa<f32>, WAlpha> $args,
               ($pn, "f32", "prealpha") => $f::<$pa<f32>, WPre> $args,
               ($pn, "f64", "plain") => $f::<$pa<f64>, WPlain> $args, ($pn, "f64", "alpha") => $f::<$pa<f64>, WAlpha> $args,
               ($pn, "f64", "prealpha") => $f::<$pa<f64>, WPre> $args, )*
            $( ($nn, "f32", "plain") => $f::<$na<f32>, WPlain> $args, ($nn, "f32", "alpha") => $f::<$na<f32>, WAlpha> $args,
               ($nn, "f64", "plain") => $f::<$na<f64>, WPlain> $args, ($nn, "f64", "alpha") => $f::<$na<f64>, WAlpha> $args, )*
            $( ($in, "u8", "plain") => $f::<$ia<u8>, WPlain> $args, ($in, "u8", "alpha") => $f::<$ia<u8>, WAlpha> $args,
               ($in, "u16", "plain") => $f::<$ia<u16>, WPlain> $args, ($in, "u16", "alpha") => $f::<$ia<u16>, WAlpha> $args, )*
            other => panic!("unsupported combination {:?}", other),
        }
    };
}

fn main() {
    let out = arg_or("--out", "-");
    let seed = seed_from_env();
    let mut rec = Rec::create(&out);
    if let Some(hp) = arg("--hist") {
        let text = std::fs::read_to_string(&hp).unwrap_or_else(|e| panic!("cannot read {}: {}", hp, e));
        for line in text.lines().filter(|l| !l.trim().is_empty()) {
            let case: Value = serde_json::from_str(line).expect("case json");
            let (ty, prim, wrap) = (case["ty"].as_str().unwrap(), case["prim"].as_str().unwrap(), case["wrap"].as_str().unwrap());
            dispatch!(ty, prim, wrap, replay_case(&mut rec, &case));
        }
    } else if flag("--sweep") {
        let n: usize = arg_or("--n", "20").parse().expect("--n");
        let only = arg("--types");
        for &(ty, _, _) in UNIVERSE {
            if let Some(o) = &only { if !o.split(',').any(|x| x == ty) { continue; } }
            for prim in ["f32", "f64", "u8", "u16"] {
                for wrap in ["plain", "alpha", "prealpha"] {
                    if valid(ty, prim, wrap) {
                        dispatch!(ty, prim, wrap, sweep(&mut rec, seed, n));
                    }
                }
            }
        }
        if only.is_none() {
            flat_shapes(&mut rec, seed, n);
            uint_sweep(&mut rec, seed, n);
            macro_rules! arrs { ($($a:ident),*) => {$(
                arr_sweep::<$a<f32>, WAlpha>(&mut rec, seed, n / 2);
                arr_sweep::<$a<f64>, WPlain>(&mut rec, seed, n / 2);
            )*}; }
            arrs!(TRgb, TLuma, THsl, THsv, THwb, THsluv, TLab, TLch, TLuv, TLchuv, TXyz, TYxy, TOklab, TOklch, TOkhsl, TOkhsv, TOkhwb, TLms, TJab, TJmh);
            arr_sweep::<TRgb<f64>, WPre>(&mut rec, seed, n / 2);
            arr_sweep::<TOklab<f32>, WPre>(&mut rec, seed, n / 2);
            arr_sweep::<TRgb<u8>, WAlpha>(&mut rec, seed, n / 2);
            arr_sweep::<TLuma<u16>, WAlpha>(&mut rec, seed, n / 2);
        }
    } else {
        eprintln!("usage: serdeh --sweep --n <values> [--types a,b] --out f | serdeh --hist <cases> --out f");
        std::process::exit(2);
    }
    let n = rec.finish();
    eprintln!("serdeh: {} events", n);
}
