------------------------------- MODULE MC_Soa -------------------------------
(* Exhaustive enumeration of all operation histories of the collection      *)
(* machine up to MaxOps, emitted one JSON line per complete history.        *)
EXTENDS Soa, TLC, Json

CONSTANTS MaxOps, MaxLen, Emit,
          Kinds          \* the range forms (subset of RangeKinds) enumerated for drain / get(range) / get_mut(range)

VARIABLE hist          \* sequence of operations performed (this IS what is enumerated)

Op(k, a, b, c, d) == <<k, a, b, c, d, 0>>
OpK(k, a, b, c, d, rk) == <<k, a, b, c, d, rk>>
(* argument values that matter for a range kind: an absent bound is fixed to 0 *)
As(rk, n) == IF rk \in {2, 3, 5} THEN {0} ELSE 0..n
Bs(rk, n) == IF rk \in {4, 5} THEN {0} ELSE 0..n

MCInit == Init /\ hist = <<>>

Room(n) == Len(vec) + n <= MaxLen

MCNext ==
  /\ Len(hist) < MaxOps
  /\ \/ Room(1) /\ Push /\ hist' = Append(hist, Op("push", 0, 0, 0, 0))
     \/ Pop /\ hist' = Append(hist, Op("pop", 0, 0, 0, 0))
     \/ \E n \in 0..2 : Room(n) /\ Extend(n) /\ hist' = Append(hist, Op("extend", n, 0, 0, 0))
     \/ \E n \in 0..2 : Collect(n) /\ hist' = Append(hist, Op("collect", n, 0, 0, 0))
     \/ \E n \in {0, 3} : WithCapacity(n) /\ hist' = Append(hist, Op("with_capacity", n, 0, 0, 0))
     \/ Clear /\ hist' = Append(hist, Op("clear", 0, 0, 0, 0))
     \/ \E rk \in Kinds : \E a \in As(rk, Len(vec) + 1), b \in Bs(rk, Len(vec) + 1) :
          \E nf \in 0..Min2(2, IF REnd(rk, b) > RStart(rk, a) THEN REnd(rk, b) - RStart(rk, a) + 1 ELSE 1), nb \in 0..1 :
            DrainK(rk, a, b, nf, nb) /\ hist' = Append(hist, OpK("drain", a, b, nf, nb, rk))
     \/ \E i \in 0..Len(vec) : Get(i) /\ hist' = Append(hist, Op("get", i, 0, 0, 0))
     \/ \E rk \in Kinds : \E a \in As(rk, Len(vec) + 1), b \in Bs(rk, Len(vec) + 1) :
          GetRangeK(rk, a, b) /\ hist' = Append(hist, OpK("get_range", a, b, 0, 0, rk))
     \/ \E i \in 0..Len(vec) : GetMutWrite(i) /\ hist' = Append(hist, Op("get_mut_write", i, 0, 0, 0))
     \/ \E rk \in Kinds : \E a \in As(rk, Len(vec)), b \in Bs(rk, Len(vec) + 1) :
          GetMutRangeWriteK(rk, a, b) /\ hist' = Append(hist, OpK("get_mut_range_write", a, b, 0, 0, rk))
     \/ Iter /\ hist' = Append(hist, Op("iter", 0, 0, 0, 0))
     \/ IterRev /\ hist' = Append(hist, Op("iter_rev", 0, 0, 0, 0))
     \/ \E nf \in 1..2 : IterMixed(nf) /\ hist' = Append(hist, Op("iter_mixed", nf, 0, 0, 0))
     \/ IterMutWrite /\ hist' = Append(hist, Op("iter_mut_write", 0, 0, 0, 0))
     \/ IntoIter /\ hist' = Append(hist, Op("into_iter", 0, 0, 0, 0))
     \/ LenOp /\ hist' = Append(hist, Op("len", 0, 0, 0, 0))

MCSpec == MCInit /\ [][MCNext]_<<vars, hist>>

(* behaviour emitter: one line per complete history *)
EmitDone == (Emit /\ Len(hist) = MaxOps) => PrintT(<<"REPLAY", ToJson(hist)>>)

Inv == TypeOK /\ Distinct /\ Known
=============================================================================
