SPECIFICATION MCSpec
CONSTANTS
  MaxOps = 3
  MaxLen = 4
  Emit = TRUE
  Kinds = {0, 1, 2, 3, 4, 5}
INVARIANTS Inv EmitDone
CHECK_DEADLOCK FALSE
