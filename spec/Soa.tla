-------------------------------- MODULE Soa --------------------------------
(***************************************************************************)
(* C18 - struct-of-arrays colour collections behave like a vector of       *)
(* colours.                                                                *)
(*                                                                         *)
(* The reference machine IS a vector of colours: `vec` is a sequence of     *)
(* colour tokens.  Tokens are positive integers, handed out by the counter  *)
(* `fresh`, so every colour that ever enters the collection is distinct     *)
(* from every other (the harness maps token t to a colour whose j-th        *)
(* component is 8t+j, hue and alpha included, so that a component taken     *)
(* from the wrong colour or the wrong field is visible).                    *)
(*                                                                         *)
(* One action per public operation of palette's `Color<Vec<T>>` (and the    *)
(* `Alpha<Color<Vec<T>>, Vec<A>>`) API; `ret` is the reply of the call, a   *)
(* sequence of integers: tokens, or the codes below.                        *)
(***************************************************************************)
EXTENDS Integers, Sequences

NONE  == -1     \* Option::None
PANIC == -2     \* the call panicked
SEP   == -3     \* separates front yields from back yields

VARIABLES vec,    \* Seq(token): the abstract contents
          fresh,  \* next unused token
          ret     \* reply of the last call

vars == <<vec, fresh, ret>>

Rev(s) == [i \in 1..Len(s) |-> s[Len(s) + 1 - i]]
Fresh(n) == [i \in 1..n |-> fresh + i - 1]
Min2(a, b) == IF a <= b THEN a ELSE b

Init == vec = <<>> /\ fresh = 1 /\ ret = <<>>

(* Vec::push on every component *)
Push == /\ vec' = Append(vec, fresh) /\ fresh' = fresh + 1 /\ ret' = <<>>

(* Vec::pop on every component *)
Pop == /\ UNCHANGED fresh
       /\ IF vec = <<>> THEN vec' = vec /\ ret' = <<NONE>>
                        ELSE vec' = SubSeq(vec, 1, Len(vec) - 1) /\ ret' = <<vec[Len(vec)]>>

(* Extend::extend with n colours *)
Extend(n) == /\ vec' = vec \o Fresh(n) /\ fresh' = fresh + n /\ ret' = <<>>

(* FromIterator::from_iter: a new collection *)
Collect(n) == /\ vec' = Fresh(n) /\ fresh' = fresh + n /\ ret' = <<>>

(* with_capacity: a new, empty collection; the reply is 1 iff every component reports capacity >= n *)
WithCapacity(n) == /\ vec' = <<>> /\ UNCHANGED fresh /\ ret' = <<1>>

Clear == /\ vec' = <<>> /\ UNCHANGED fresh /\ ret' = <<>>

(* drain(a..b), then nf calls of next(), then nb calls of next_back(), then drop.
   Vec::drain panics when a > b or b > len and removes nothing; otherwise the whole
   range is removed whatever was consumed. *)
DrainYield(items, nf, nb) ==
  LET n == Len(items)
      f == [i \in 1..nf |-> IF i <= n THEN items[i] ELSE NONE]
      left == IF nf >= n THEN 0 ELSE n - nf
      b == [i \in 1..nb |-> IF i <= left THEN items[n + 1 - i] ELSE NONE]
  IN f \o <<SEP>> \o b
Drain(a, b, nf, nb) ==
  /\ UNCHANGED fresh
  /\ IF a <= b /\ b <= Len(vec)
     THEN /\ vec' = SubSeq(vec, 1, a) \o SubSeq(vec, b + 1, Len(vec))
          /\ ret' = DrainYield(SubSeq(vec, a + 1, b), nf, nb)
     ELSE /\ vec' = vec /\ ret' = <<PANIC>>

(* The range argument of drain / get / get_mut is any RangeBounds / SliceIndex form; kind k:
   0: a..b   1: a..=b   2: ..b   3: ..=b   4: a..   5: ..
   It denotes the half-open interval [RStart, REnd) of the standard library (slice::range / SliceIndex). *)
RangeKinds == 0..7      \* 6: (Excluded(a), Included(b))   7: (Excluded(a), Excluded(b)) - pairs of bounds
RStart(k, a) == IF k \in {2, 3, 5} THEN 0 ELSE IF k \in {6, 7} THEN a + 1 ELSE a
REnd(k, b) == IF k \in {0, 2, 7} THEN b ELSE IF k \in {1, 3, 6} THEN b + 1 ELSE Len(vec)
DrainK(k, a, b, nf, nb) == Drain(RStart(k, a), REnd(k, b), nf, nb)

(* get(i) / get(a..b): None unless the lookup succeeds *)
Get(i) == /\ UNCHANGED <<vec, fresh>>
          /\ ret' = IF i < Len(vec) THEN <<vec[i + 1]>> ELSE <<NONE>>
GetRange(a, b) == /\ UNCHANGED <<vec, fresh>>
                  /\ ret' = IF a <= b /\ b <= Len(vec) THEN SubSeq(vec, a + 1, b) ELSE <<NONE>>

(* get_mut(i) and overwrite the colour through the returned references *)
GetMutWrite(i) ==
  IF i < Len(vec)
  THEN /\ vec' = [vec EXCEPT ![i + 1] = fresh] /\ fresh' = fresh + 1 /\ ret' = <<vec[i + 1]>>
  ELSE /\ UNCHANGED <<vec, fresh>> /\ ret' = <<NONE>>
GetMutRangeWrite(a, b) ==
  IF a <= b /\ b <= Len(vec)
  THEN /\ vec' = [i \in 1..Len(vec) |-> IF a < i /\ i <= b THEN fresh + (i - a - 1) ELSE vec[i]]
       /\ fresh' = fresh + (b - a) /\ ret' = SubSeq(vec, a + 1, b)
  ELSE /\ UNCHANGED <<vec, fresh>> /\ ret' = <<NONE>>

GetRangeK(k, a, b) == GetRange(RStart(k, a), REnd(k, b))
GetMutRangeWriteK(k, a, b) == GetMutRangeWrite(RStart(k, a), REnd(k, b))

(* iteration by reference: forward, backward, and nf items from the front then the rest from the back *)
Iter == /\ UNCHANGED <<vec, fresh>> /\ ret' = vec
IterRev == /\ UNCHANGED <<vec, fresh>> /\ ret' = Rev(vec)
IterMixed(nf) == /\ UNCHANGED <<vec, fresh>>
                 /\ LET k == Min2(nf, Len(vec))
                    IN ret' = SubSeq(vec, 1, k) \o <<SEP>> \o Rev(SubSeq(vec, k + 1, Len(vec)))
(* iter_mut, overwriting every colour *)
IterMutWrite == /\ vec' = Fresh(Len(vec)) /\ fresh' = fresh + Len(vec) /\ ret' = vec
(* into_iter of (a clone of) the collection *)
IntoIter == /\ UNCHANGED <<vec, fresh>> /\ ret' = vec
(* ExactSizeIterator::len of iter() *)
LenOp == /\ UNCHANGED <<vec, fresh>> /\ ret' = <<Len(vec)>>

-----------------------------------------------------------------------------
(* properties of the reference machine *)

TypeOK == /\ vec \in Seq(Nat) /\ fresh \in Nat
Distinct == \A i, j \in DOMAIN vec : i # j => vec[i] # vec[j]
Known == \A i \in DOMAIN vec : 0 < vec[i] /\ vec[i] < fresh
=============================================================================
