SPECIFICATION MCSpec
CONSTANTS
  Emit = FALSE
INVARIANTS TypeOK IntCases RoundTrips FloatCases SpecialCases SweepCases EmitCase
CHECK_DEADLOCK FALSE
