------------------------------ MODULE TraceMath ------------------------------
(* Trace validation for C02: every recorded single conversion (a `walk` event    *)
(* with one hop) along a hand-written edge is judged by the relation of          *)
(* ColourMath.tla; the agreement in bits must reach the threshold of the edge      *)
(* class and component type.  With CALIB=1 in the environment the measured bits     *)
(* are printed as NOTE lines (calibration runs), nothing is rejected.              *)
EXTENDS ColourMath, Json, IOUtils, TLC

Rec == ndJsonDeserialize(IOEnv.TRACE)
Calib == "CALIB" \in DOMAIN IOEnv /\ IOEnv.CALIB = "1"
VARIABLES l, K

FxSeq(js) == [i \in DOMAIN js |-> FxOf(js[i])]

(* which relation, and oriented how: <<name, first argument, second argument>> *)
EdgeBits(a, b, in, out) ==
  CASE a = "linsrgb" /\ b = "xyz" -> MatBits(K.rgb2xyz, in, out)
    [] a = "xyz" /\ b = "linsrgb" -> MatBits(K.xyz2rgb, in, out)
    [] a = "xyz" /\ b = "lab" -> LabBits(in, out)
    [] a = "lab" /\ b = "xyz" -> LabBits(out, in)
    [] a = "xyz" /\ b = "luv" -> LuvBits(in, out)
    [] a = "luv" /\ b = "xyz" -> LuvBits(out, in)
    [] a = "xyz" /\ b = "yxy" -> YxyBits(in, out)
    [] a = "yxy" /\ b = "xyz" -> YxyBits(out, in)
    [] a = "xyz" /\ b = "oklab" -> OklabFromXyzBits(K, in, out)
    [] a = "oklab" /\ b = "xyz" -> OklabFromXyzBits(K, out, in)
    [] a = "linsrgb" /\ b = "oklab" -> OklabFromRgbBits(K, in, out)
    [] a = "oklab" /\ b = "linsrgb" -> OklabFromRgbBits(K, out, in)
    [] a = "lab" /\ b = "lch" -> PolarBits(in, out)
    [] a = "lch" /\ b = "lab" -> PolarBits(out, in)
    [] a = "luv" /\ b = "lchuv" -> PolarBits(in, out)
    [] a = "lchuv" /\ b = "luv" -> PolarBits(out, in)
    [] a = "oklab" /\ b = "oklch" -> PolarBits(in, out)
    [] a = "oklch" /\ b = "oklab" -> PolarBits(out, in)
    [] OTHER -> 999

(* thresholds (bits of agreement required); calibration on the pinned tree in DESIGN.md C02 *)
Threshold(a, b, t) == IF t = "f32" THEN 14 ELSE 30

Why(e) ==
  IF e.ev # "walk" \/ Len(e.nodes) # 2 THEN "ok"
  ELSE IF e.panic = 1 THEN "panic"
  ELSE IF e.missing = 1 THEN "ok"
  ELSE IF ~AllFin(e.vals[1]) \/ ~AllFin(e.vals[2]) THEN "ok"      \* finiteness is C07's
  ELSE LET bits == EdgeBits(e.nodes[1], e.nodes[2], FxSeq(e.vals[1]), FxSeq(e.vals[2]))
       IN IF Calib THEN (IF PrintT(<<"NOTE", e.nodes[1], e.nodes[2], e.t, bits>>) THEN "ok" ELSE "ok")
          ELSE IF bits < Threshold(e.nodes[1], e.nodes[2], e.t) THEN "differs-from-published-definition"
          ELSE "ok"

TInit == l = 1 /\ K = Consts
TNext == /\ l <= Len(Rec)
         /\ LET w == Why(Rec[l]) IN IF w = "ok" THEN TRUE ELSE PrintT(<<"REJECT", l, w>>)
         /\ l' = l + 1 /\ UNCHANGED K
TSpec == TInit /\ [][TNext]_<<l, K>>
Consumed == TLCGet("stats").diameter = Len(Rec) + 1 \/ PrintT(<<"UNCONSUMED", TLCGet("stats").diameter>>)
=============================================================================
