#!/bin/sh
# Runs every quick check in /verif against /repo (refreshes evidence/*.json); prints one line per check.
cd /verif
rc=0
for p in C01 C02 C03 C04 C05 C06 C07 C08 C09 C10 C11 C12 C13 C14 C15 C16 C17 C18 C19 C20; do
  ./check $p > work/$p.quick.log 2>&1; r=$?
  echo "$p exit=$r $(grep -c '^VIOLATION' work/$p.quick.log) violation lines; $(tail -1 work/$p.quick.log | cut -c1-120)"
  [ $r -ne 0 ] && rc=1
done
exit $rc
