-------------------------------- MODULE Diff --------------------------------
(***************************************************************************)
(* C09 - colour difference measures satisfy their defining formulas and      *)
(* metric laws; WCAG relative contrast.                                      *)
(*                                                                         *)
(* Relations on events  diff(measure, type, c1, c2, out12, out21)  and        *)
(* wcag(type, c1, c2, lum1, lum2, ratio12, ratio21, predicates), written from  *)
(* the publications over the exact values the code consumed and produced       *)
(* (exact dyadics of module Fx; 104-bit fixed point of module ExpSeries).  A     *)
(* relation returns                                                             *)
(* the number of BITS OF AGREEMENT between the recorded result and the          *)
(* defining formula; the trace specification compares it with a threshold per    *)
(* measure class and component type.                                          *)
(*                                                                         *)
(* Laws (every measure): out >= 0; out = 0 for identical colours; the result     *)
(* for the swapped pair agrees.                                               *)
(*                                                                         *)
(* Closed forms (all algebraic, no function is inverted):                       *)
(*   distance_squared = sum d_i^2                                             *)
(*   distance, Delta E*ab, Delta E' (CAM16-UCS) = its root:  out^2 = sum d^2     *)
(*   improved Delta E (Huang et al., "Power functions improving the performance   *)
(*     of color-difference formulas", Opt. Express 23 (2015), table 2; the        *)
(*     coefficients are the ones quoted in the doc comments of palette):          *)
(*       CIELAB     out = 1.26 DE^0.55   i.e.  out^40  = 1.26^40  (sum d^2)^11       *)
(*       CAM16-UCS  out = 1.41 DE^0.63   i.e.  out^200 = 1.41^200 (sum d^2)^63       *)
(*       CIEDE2000  out = 1.43 DE00^0.70 i.e.  out^10  = 1.43^10  DE00^7             *)
(*   HyAB (Abasi, Amani Tehran, Fairchild 2019): out = |dL| + sqrt(da^2 + db^2)     *)
(*     (the root is computed here: better conditioned than (out - |dL|)^2)          *)
(*   polar (Lch, Jmh) = rectangular on the converted colours                     *)
(*   CIEDE2000: the complete formula of G. Sharma, W. Wu, E. N. Dalal, "The         *)
(*     CIEDE2000 color-difference formula: implementation notes, supplementary      *)
(*     test data, and mathematical observations", Color Res. Appl. 30 (2005),       *)
(*     equations (2)-(22), with k_L = k_C = k_H = 1 - operator De00 below.          *)
(*   WCAG 2.1 contrast ratio (L_max + 0.05) / (L_min + 0.05), thresholds 4.5 / 3 /  *)
(*     7 / 4.5 / 3 (SC 1.4.3, 1.4.3 large, 1.4.6, 1.4.6 large, 1.4.11).             *)
(***************************************************************************)
EXTENDS ExpSeries, Sequences

(* bits of agreement of x and y relative to scale (> 0): -log2(|x - y| / scale), 200 if equal *)
AgreeBits(x, y, scale) == IF x = y THEN 200
                          ELSE LET d == IAbs(ISub(x, y)) IN BitLen(scale[2]) - BitLen(d[2])
MinI(a, b) == IF a <= b THEN a ELSE b
MaxI(a, b) == IF a >= b THEN a ELSE b
FxDy(f) == <<f[1], IF f[1] = 0 THEN 0 ELSE -FL, f[2]>>       \* a fixed-point value as an exact dyadic
DyOne == DyFromInt(1)

(* constants that are expensive to derive: built once by the trace / model specification and passed as `k` *)
DiffConsts == [ e |-> ExpConsts,
                c126_40 |-> QfPow(<<QRat(126, 100), 0>>, 40),
                c141_200 |-> QfPow(<<QRat(141, 100), 0>>, 200),
                c143_10 |-> QfPow(<<QRat(143, 100), 0>>, 10) ]
QSeq(js) == [i \in DOMAIN js |-> QOfFx(FxOfDy(js[i]))]              \* sequence of dyadics -> Q numbers (module ExpSeries)

-----------------------------------------------------------------------------
(* laws *)
NonNegative(out) == IsFin(out) /\ out[1] >= 0
ZeroOnIdentical(c1, c2, out) == (c1 = c2) => (out[1] = 0)          \* the encoding of a float is canonical

-----------------------------------------------------------------------------
(* exact sum of squared component differences (sequences of Dy of equal length) *)
RECURSIVE SumSqFrom(_, _, _)
SumSqFrom(c1, c2, i) == IF i > Len(c1) THEN DyZero
                        ELSE LET d == DySub(c1[i], c2[i]) IN DyAdd(DyMul(d, d), SumSqFrom(c1, c2, i + 1))
SumSq(c1, c2) == SumSqFrom(c1, c2, 1)

(* relative agreement of two non-negative dyadics of any magnitude *)
RelBits(x, y) ==
  IF DyIsZero(x) /\ DyIsZero(y) THEN 200
  ELSE IF DyIsZero(x) \/ DyIsZero(y) \/ x[1] < 0 \/ y[1] < 0 THEN 0
  ELSE LET e == MaxI(DyLog2(x), DyLog2(y))
       IN AgreeBits(FxOfDy(DyMulPow2(x, -e)), FxOfDy(DyMulPow2(y, -e)), FxOne)

(* agreement of  out^q  with  c^q x^p  (cq = c^q in the floating form of ExpSeries), out and x non-negative
   dyadics of any magnitude; powers by repeated squaring on mantissa and exponent.  The result is expressed for
   `out` itself: a relative error e of out is an error q e of out^q, so floor(log2 q) bits are given back. *)
Log2Floor(n) == BitLen(FromNat(n)) - 1
PowRelBits(cq, out, x, p, q) ==
  IF DyIsZero(out) /\ DyIsZero(x) THEN 200
  ELSE IF DyIsZero(out) \/ DyIsZero(x) \/ out[1] < 0 \/ x[1] < 0 THEN 0
  ELSE MinI(200, QfAgreeBits(QfPow(QfOfDy(out), q), QfMul(cq, QfPow(QfOfDy(x), p))) + Log2Floor(q))

(* closed forms on rectangular coordinates; c1, c2 sequences of Dy, out a Dy *)
DistSqBits(out, c1, c2) == RelBits(out, SumSq(c1, c2))
RootBits(out, c1, c2) == PowRelBits(QfOne, out, SumSq(c1, c2), 1, 2)
ImprovedLabBits(k, out, c1, c2) == PowRelBits(k.c126_40, out, SumSq(c1, c2), 11, 40)
ImprovedCam16Bits(k, out, c1, c2) == PowRelBits(k.c141_200, out, SumSq(c1, c2), 63, 200)
Improved00Bits(k, out, plain) == PowRelBits(k.c143_10, out, plain, 7, 10)

(* HyAB: out = |dL| + sqrt(da^2 + db^2), lightness first *)
HyabBits(out, c1, c2) ==
  LET d == QSeq(<<DySub(c1[1], c2[1]), DySub(c1[2], c2[2]), DySub(c1[3], c2[3])>>)
      ref == QAdd(QAbs(d[1]), QSqrt(QAdd(QSqr(d[2]), QSqr(d[3]))))
      o == QOfFx(FxOfDy(out))
  IN QAgreeBits(o, ref, QAtLeast(QMax(o, ref), 60))

-----------------------------------------------------------------------------
(* polar -> rectangular: (L, C, h) -> (L, C cos h, C sin h), C >= 0, h in degrees (any turn); Q numbers *)
PolarToRect(k, c) == <<c[1], QMul(c[2], QCosDeg(k.e, c[3])), QMul(c[2], QSinDeg(k.e, c[3]))>>
(* a recorded conversion agrees with it, relative to the larger of lightness and radius *)
ConvBits(k, pol, rect) ==
  LET r == PolarToRect(k, pol)
      s == QAtLeast(QMax(QAbs(pol[2]), QAbs(pol[1])), 20)
  IN MinI(QAgreeBits(rect[1], r[1], s), MinI(QAgreeBits(rect[2], r[2], s), QAgreeBits(rect[3], r[3], s)))

-----------------------------------------------------------------------------
(* CIEDE2000, Sharma, Wu, Dalal (2005), section 2, equations numbered as in the paper.
   Inputs c = <<L*, a*, b*>> as Q numbers (module ExpSeries: 104 fractional bits, fast).

   Step 1 - C'_i, h'_i:
     (2) C*_i = sqrt(a_i^2 + b_i^2)            (3) Cbar = (C*_1 + C*_2) / 2
     (4) G = 0.5 (1 - sqrt(Cbar^7 / (Cbar^7 + 25^7)))
     (5) a'_i = (1 + G) a_i                    (6) C'_i = sqrt(a'_i^2 + b_i^2)
     (7) h'_i = 0 if b_i = a'_i = 0, else atan2(b_i, a'_i) in degrees, in [0, 360)
   The quotient x^7 / (x^7 + 25^7) is evaluated as u^7 / (u^7 + 1) with u = x / 25 (the same number; keeps
   the seventh powers inside the range of the arithmetic).                                           *)
Ratio7(x) == LET u7 == QPow(QDivInt(x, 25), 7) IN QDiv(u7, QAdd(u7, QOne))
De00Primes(k, c1, c2) ==
  LET C1 == QSqrt(QAdd(QSqr(c1[2]), QSqr(c1[3])))
      C2 == QSqrt(QAdd(QSqr(c2[2]), QSqr(c2[3])))
      G == QHalf(QSub(QOne, QSqrt(Ratio7(QHalf(QAdd(C1, C2))))))
      a1p == QMul(QAdd(QOne, G), c1[2])
      a2p == QMul(QAdd(QOne, G), c2[2])
      z1 == QIsZero(c1[2]) /\ QIsZero(c1[3])
      z2 == QIsZero(c2[2]) /\ QIsZero(c2[3])
  IN [ C1 |-> C1, C2 |-> C2, a1p |-> a1p, a2p |-> a2p,
       C1p |-> QSqrt(QAdd(QSqr(a1p), QSqr(c1[3]))),
       C2p |-> QSqrt(QAdd(QSqr(a2p), QSqr(c2[3]))),
       z1 |-> z1, z2 |-> z2,
       h1p |-> IF z1 THEN QZero ELSE QAtan2Deg(k.e, c1[3], a1p),
       h2p |-> IF z2 THEN QZero ELSE QAtan2Deg(k.e, c2[3], a2p) ]

(* Steps 2 and 3.
     (8) dL' = L2 - L1        (9) dC' = C'_2 - C'_1
     (10) dh' = 0                 if C'_1 C'_2 = 0
              = h'_2 - h'_1        if |h'_2 - h'_1| <= 180
              = h'_2 - h'_1 - 360  if h'_2 - h'_1 > 180
              = h'_2 - h'_1 + 360  if h'_2 - h'_1 < -180
     (11) dH' = 2 sqrt(C'_1 C'_2) sin(dh' / 2)
     (12) Lbar' = (L1 + L2) / 2    (13) Cbar' = (C'_1 + C'_2) / 2
     (14) hbar' = (h'_1 + h'_2) / 2        if |h'_1 - h'_2| <= 180, C'_1 C'_2 # 0
                = (h'_1 + h'_2 + 360) / 2  if |h'_1 - h'_2| > 180, h'_1 + h'_2 < 360, C'_1 C'_2 # 0
                = (h'_1 + h'_2 - 360) / 2  if |h'_1 - h'_2| > 180, h'_1 + h'_2 >= 360, C'_1 C'_2 # 0
                = h'_1 + h'_2              if C'_1 C'_2 = 0
     (15) T = 1 - 0.17 cos(hbar' - 30) + 0.24 cos(2 hbar') + 0.32 cos(3 hbar' + 6) - 0.20 cos(4 hbar' - 63)
     (16) dtheta = 30 exp(-((hbar' - 275) / 25)^2)
     (17) R_C = 2 sqrt(Cbar'^7 / (Cbar'^7 + 25^7))
     (18) S_L = 1 + 0.015 (Lbar' - 50)^2 / sqrt(20 + (Lbar' - 50)^2)
     (19) S_C = 1 + 0.045 Cbar'    (20) S_H = 1 + 0.015 Cbar' T    (21) R_T = -sin(2 dtheta) R_C
     (22) dE00 = sqrt((dL'/S_L)^2 + (dC'/S_C)^2 + (dH'/S_H)^2 + R_T (dC'/S_C) (dH'/S_H))

   The formula jumps in two places, and near them the recorded result may lie on either side:
     flip = TRUE evaluates the OTHER side of the case split at |h'_2 - h'_1| = 180 (both in (10) and (14));
     wrap = +1 / -1 adds / subtracts a whole turn to hbar' (hbar' lies in [0, 360) and wraps around at a mean
            hue of 0 degrees; T is periodic but the Gaussian in (16) is not, so dE00 has a second, small jump
            there - at most 5e-6 relative).
   The regular formula is flip = FALSE, wrap = 0.                                                       *)
De00Tail(k, c1, c2, P, flip, wrap) ==
  LET zero == P.z1 \/ P.z2
      dL == QSub(c2[1], c1[1])
      dC == QSub(P.C2p, P.C1p)
      hd == QSub(P.h2p, P.h1p)
      wide0 == QLt(Q180, QAbs(hd))
      wide == IF flip THEN ~wide0 ELSE wide0
      dh == IF zero THEN QZero
            ELSE IF ~wide THEN hd
            ELSE IF QLt(QZero, hd) THEN QSub(hd, Q360)            \* h'_2 - h'_1 > 180
            ELSE QAdd(hd, Q360)                                    \* h'_2 - h'_1 < -180
      dH == QMul(QMulInt(QSqrt(QMul(P.C1p, P.C2p)), 2), QSinDeg(k.e, QHalf(dh)))
      Lb == QHalf(QAdd(c1[1], c2[1]))
      Cbp == QHalf(QAdd(P.C1p, P.C2p))
      hsum == QAdd(P.h1p, P.h2p)
      hbar0 == IF zero THEN hsum
               ELSE IF ~wide THEN QHalf(hsum)
               ELSE IF QLt(hsum, Q360) THEN QHalf(QAdd(hsum, Q360))
               ELSE QHalf(QSub(hsum, Q360))
      hbar == QAdd(hbar0, QInt(360 * wrap))
      T == QSub(QAdd(QAdd(QSub(QOne,
                               QMul(QRat(17, 100), QCosDeg(k.e, QSub(hbar, QInt(30))))),
                          QMul(QRat(24, 100), QCosDeg(k.e, QMulInt(hbar, 2)))),
                     QMul(QRat(32, 100), QCosDeg(k.e, QAdd(QMulInt(hbar, 3), QInt(6))))),
                QMul(QRat(20, 100), QCosDeg(k.e, QSub(QMulInt(hbar, 4), QInt(63)))))
      dtheta == QMulInt(QExpNeg(QSqr(QDivInt(QSub(hbar, QInt(275)), 25))), 30)
      RC == QMulInt(QSqrt(Ratio7(Cbp)), 2)
      x2 == QSqr(QSub(Lb, QInt(50)))
      SL == QAdd(QOne, QDiv(QMul(QRat(15, 1000), x2), QSqrt(QAdd(QInt(20), x2))))
      SC == QAdd(QOne, QMul(QRat(45, 1000), Cbp))
      SH == QAdd(QOne, QMul(QMul(QRat(15, 1000), Cbp), T))
      RT == QNeg(QMul(QSinDeg(k.e, QMulInt(dtheta, 2)), RC))
      tl == QDiv(dL, SL)
      tc == QDiv(dC, SC)
      th == QDiv(dH, SH)
      sq == QAdd(QAdd(QSqr(tl), QSqr(tc)), QAdd(QSqr(th), QMul(RT, QMul(tc, th))))
  IN [ de |-> QSqrt(sq),                          \* sq is a positive definite form (|R_T| < 2): never negative
       hdabs |-> QAbs(hd), hbar |-> hbar0, zero |-> zero, wide |-> wide0,
       le |-> QLe(P.h2p, P.h1p), lt360 |-> QLt(hsum, Q360) ]

(* the regular formula, as a function (Q triples in, Q number out) *)
De00Full(k, c1, c2) == De00Tail(k, c1, c2, De00Primes(k, c1, c2), FALSE, 0)
De00(k, c1, c2) == De00Full(k, c1, c2).de

(* Agreement of recorded results (a sequence of Q numbers: the result, the result for the swapped pair, ...)
   with the reference, relative to the magnitude of the coordinates (the formula subtracts chromas and hues of
   that magnitude, so that is what rounding errors scale with).  `band` (degrees, a Q number) is the width
   around the two jumps inside which the other side is accepted as well. *)
CoordScale(c1, c2) == QAtLeast(QMax(QMax(QAbs(c1[1]), QAbs(c2[1])),
                                    QMax(QMax(QAbs(c1[2]), QAbs(c1[3])), QMax(QAbs(c2[2]), QAbs(c2[3])))), 10)
RECURSIVE WorstBits(_, _, _, _)
WorstBits(outs, ref, s, i) == IF i > Len(outs) THEN 200 ELSE MinI(QAgreeBits(outs[i], ref, s), WorstBits(outs, ref, s, i + 1))
NearWrap(r, band) == QLe(r.hbar, band) \/ QLe(QSub(Q360, band), r.hbar)
(* r: the evaluation of one side of the 180 degree split; the other side of the mean-hue wrap is tried near it *)
De00SideBits(k, c1, c2, P, flip, r, outs, s, band) ==
  LET b0 == WorstBits(outs, r.de, s, 1)
  IN IF NearWrap(r, band)
     THEN MaxI(b0, WorstBits(outs, De00Tail(k, c1, c2, P, flip, IF QLe(r.hbar, band) THEN 1 ELSE -1).de, s, 1))
     ELSE b0
De00Bits(k, c1, c2, outs, band) ==
  LET P == De00Primes(k, c1, c2)
      s == CoordScale(c1, c2)
      r == De00Tail(k, c1, c2, P, FALSE, 0)
      near180 == ~r.zero /\ QLe(QAbs(QSub(r.hdabs, Q180)), band)
      reg == De00SideBits(k, c1, c2, P, FALSE, r, outs, s, band)
  IN IF near180 THEN MaxI(reg, De00SideBits(k, c1, c2, P, TRUE, De00Tail(k, c1, c2, P, TRUE, 0), outs, s, band)) ELSE reg

-----------------------------------------------------------------------------
(* WCAG 2.1: contrast ratio = (L_max + 0.05) / (L_min + 0.05) on the relative luminances;
   judged as  ratio (L_min + 0.05) = L_max + 0.05 *)
ContrastBits(ratio, l1, l2) ==                                \* Q numbers
  LET mn == QMin(l1, l2)  mx == QMax(l1, l2)
      lhs == QMul(ratio, QAdd(mn, QRat(5, 100)))
      rhs == QAdd(mx, QRat(5, 100))
  IN QAgreeBits(lhs, rhs, QAtLeast(QMax(QAbs(lhs), QAbs(rhs)), 10))
(* success criteria, in the order has_min_contrast_text (SC 1.4.3, 4.5:1), has_min_contrast_large_text (SC 1.4.3, 3:1),
   has_enhanced_contrast_text (SC 1.4.6, 7:1), has_enhanced_contrast_large_text (SC 1.4.6, 4.5:1),
   has_min_contrast_graphics (SC 1.4.11, 3:1): twice the constant, to stay in the integers *)
WcagTwice == <<9, 6, 14, 9, 6>>
(* each predicate is exactly the comparison of the RETURNED ratio (a dyadic) with its constant; p: sequence of 0/1 *)
PredicatesAgree(ratio, p) ==
  /\ Len(p) = Len(WcagTwice)
  /\ \A i \in DOMAIN WcagTwice : (p[i] = 1) <=> DyLe(DyFromInt(WcagTwice[i]), DyMulInt(ratio, 2))
InGamut(c) == \A i \in DOMAIN c : c[i][1] >= 0 /\ DyLe(c[i], DyOne)
(* 1 <= ratio <= 21 up to `ulps` units in the last place of the component type with `prec` bits (21 < 32 = 2^5) *)
RatioInRange(ratio, prec, ulps) == DyLe(DyOne, ratio) /\ DyLe(ratio, DyAdd(DyFromInt(21), DyMulInt(DyPow2(5 - prec), ulps)))
LumInRange(lum) == lum[1] >= 0 /\ DyLe(lum, DyOne)
=============================================================================
