//! C09 driver: calls palette's colour difference measures (EuclideanDistance, DeltaE, ImprovedDeltaE, HyAb,
//! Ciede2000, ImprovedCiede2000, the deprecated ColorDifference) and the WCAG contrast API
//! (Wcag21RelativeContrast, the deprecated RelativeContrast) on pairs of colours and records one NDJSON event per
//! (measure, type, component type, pair) with the exact values of inputs and outputs; the result for the swapped
//! pair is part of the same event. Judging is done by TLC (spec/trace/TraceDiff.tla); nothing here decides the
//! property. The trigonometry in this file only CONSTRUCTS inputs (colours at chosen hues).
//!
//! usage: diff --tier quick|thorough --pairs <REPLAY lines of MC_Diff> --out trace.ndjson      (VERIF_SEED)
//!        diff --one '<event json>' --out trace.ndjson        (re-execute the call of one recorded event: replay)
//!
//! Event layout: see TraceDiff.tla. A panic inside palette is logged as "panic":1 with NaN results.

#![allow(deprecated)]

use palette::cam16::{Cam16UcsJab, Cam16UcsJmh};
use palette::color_difference::{Ciede2000, DeltaE, EuclideanDistance, HyAb, ImprovedCiede2000, ImprovedDeltaE, Wcag21RelativeContrast};
use palette::convert::FromColorUnclamped;
use palette::white_point::D65;
use palette::{ColorDifference, FromColor, Lab, Lch, LinLuma, LinSrgb, Luv, Oklab, RelativeContrast, Srgb, SrgbLuma, Xyz};
use pvh::*;
use serde_json::{json, Value};
use std::collections::BTreeMap;

// ------------------------------------------------------------------------------------------ recording

struct Out {
    rec: Rec,
    only: Option<String>, // replay: only this measure / api
    per: BTreeMap<String, u64>,
    panics: u64,
}

type R<F> = Result<[F; 2], String>;

fn nan2() -> Value { json!([[2, 0], [2, 0]]) }

impl Out {
    fn wanted(&self, m: &str) -> bool { self.only.as_deref().map_or(true, |o| o == m) }

    #[allow(clippy::too_many_arguments)]
    fn diff<F: Ex>(&mut self, m: &str, ty: &str, src: &str, c1: &[F], c2: &[F], out: R<F>, aux: Option<R<F>>,
                   conv: Option<Result<([F; 3], [F; 3], F), String>>) {
        if !self.wanted(m) {
            return;
        }
        let mut panic = None;
        let outv = match &out { Ok(o) => ex_arr(o), Err(e) => { panic = Some(e.clone()); nan2() } };
        let auxv = match &aux { None => json!([]), Some(Ok(a)) => ex_arr(a), Some(Err(e)) => { panic = Some(e.clone()); nan2() } };
        let (r1, r2, rect) = match &conv {
            None => (json!([]), json!([]), json!([])),
            Some(Ok((a, b, r))) => (ex_arr(a), ex_arr(b), ex_arr(&[*r])),
            Some(Err(e)) => { panic = Some(e.clone()); (json!([]), json!([]), json!([[2, 0]])) }
        };
        let mut v = json!({"ev": "diff", "m": m, "ty": ty, "t": F::NAME, "src": src, "c1": ex_arr(c1), "c2": ex_arr(c2),
                           "out": outv, "aux": auxv, "r1": r1, "r2": r2, "rect": rect, "panic": if panic.is_some() { 1 } else { 0 }});
        if let Some(p) = panic {
            v["msg"] = json!(p.chars().take(120).collect::<String>());
            self.panics += 1;
        }
        *self.per.entry(format!("{}/{}/{}", m, ty, F::NAME)).or_insert(0) += 1;
        self.rec.ev(v);
    }

    #[allow(clippy::too_many_arguments)]
    fn wcag<F: Ex>(&mut self, api: &str, ty: &str, src: &str, c1: &[F], c2: &[F], r: Result<([F; 2], [F; 2], [[bool; 5]; 2]), String>) {
        if !self.wanted(api) {
            return;
        }
        let b = |p: &[bool; 5]| Value::Array(p.iter().map(|x| json!(if *x { 1 } else { 0 })).collect());
        let mut v = match &r {
            Ok((lum, ratio, p)) => json!({"lum": ex_arr(lum), "ratio": ex_arr(ratio), "p12": b(&p[0]), "p21": b(&p[1]), "panic": 0}),
            Err(e) => {
                self.panics += 1;
                json!({"lum": nan2(), "ratio": nan2(), "p12": [0, 0, 0, 0, 0], "p21": [0, 0, 0, 0, 0], "panic": 1,
                       "msg": e.chars().take(120).collect::<String>()})
            }
        };
        v["ev"] = json!("wcag");
        v["api"] = json!(api);
        v["ty"] = json!(ty);
        v["t"] = json!(F::NAME);
        v["src"] = json!(src);
        v["c1"] = ex_arr(c1);
        v["c2"] = ex_arr(c2);
        *self.per.entry(format!("wcag-{}/{}/{}", api, ty, F::NAME)).or_insert(0) += 1;
        self.rec.ev(v);
    }
}

/// both orders of a symmetric measure, panics caught
fn both<C: Copy, F>(a: C, b: C, f: impl Fn(C, C) -> F) -> R<F> { catch(|| [f(a, b), f(b, a)]) }

// ------------------------------------------------------------------------------------------ the API under test

macro_rules! driver {
    ($modname:ident, $F:ty) => {
        mod $modname {
            use super::*;
            type F = $F;
            fn cv(c: &[f64; 3]) -> [F; 3] { [c[0] as F, c[1] as F, c[2] as F] }

            /// the measures every rectangular type with lightness and a chroma plane has
            macro_rules! rect_common {
                ($o:ident, $ty:expr, $src:expr, $x:ident, $y:ident, $a:ident, $b:ident) => {
                    $o.diff("dist2", $ty, $src, &$x, &$y, both($a, $b, |a, b| a.distance_squared(b)), None, None);
                    $o.diff("dist", $ty, $src, &$x, &$y, both($a, $b, |a, b| a.distance(b)), None, None);
                    $o.diff("hyab", $ty, $src, &$x, &$y, both($a, $b, |a, b| a.hybrid_distance(b)), None, None);
                };
            }

            pub fn lab(o: &mut Out, src: &str, c1: &[f64; 3], c2: &[f64; 3], heavy: bool) {
                let (x, y) = (cv(c1), cv(c2));
                let a = Lab::<D65, F>::new(x[0], x[1], x[2]);
                let b = Lab::<D65, F>::new(y[0], y[1], y[2]);
                rect_common!(o, "lab", src, x, y, a, b);
                o.diff("de", "lab", src, &x, &y, both(a, b, |a, b| a.delta_e(b)), None, None);
                o.diff("ide", "lab", src, &x, &y, both(a, b, |a, b| a.improved_delta_e(b)), None, None);
                if heavy {
                    let plain = both(a, b, |a, b| Ciede2000::difference(a, b));
                    o.diff("de00", "lab", src, &x, &y, plain.clone(), Some(both(a, b, |a, b| ColorDifference::get_color_difference(a, b))), None);
                    o.diff("ide00", "lab", src, &x, &y, both(a, b, |a, b| a.improved_difference(b)), Some(plain), None);
                }
            }

            /// c = (L, C, h degrees)
            pub fn lch(o: &mut Out, src: &str, c1: &[f64; 3], c2: &[f64; 3], heavy: bool) {
                let (x, y) = (cv(c1), cv(c2));
                let a = Lch::<D65, F>::new(x[0], x[1], x[2]);
                let b = Lch::<D65, F>::new(y[0], y[1], y[2]);
                let conv = |f: &dyn Fn(Lab<D65, F>, Lab<D65, F>) -> F| {
                    catch(|| {
                        let (ra, rb) = (Lab::from_color_unclamped(a), Lab::from_color_unclamped(b));
                        ([ra.l, ra.a, ra.b], [rb.l, rb.a, rb.b], f(ra, rb))
                    })
                };
                o.diff("de", "lch", src, &x, &y, both(a, b, |a, b| a.delta_e(b)), None, Some(conv(&|p, q| p.delta_e(q))));
                o.diff("ide", "lch", src, &x, &y, both(a, b, |a, b| a.improved_delta_e(b)), None, Some(conv(&|p, q| p.improved_delta_e(q))));
                if heavy {
                    let plain = both(a, b, |a, b| Ciede2000::difference(a, b));
                    o.diff("de00", "lch", src, &x, &y, plain.clone(), Some(both(a, b, |a, b| ColorDifference::get_color_difference(a, b))),
                           Some(conv(&|p, q| Ciede2000::difference(p, q))));
                    o.diff("ide00", "lch", src, &x, &y, both(a, b, |a, b| a.improved_difference(b)), Some(plain), None);
                }
            }

            pub fn luv(o: &mut Out, src: &str, c1: &[f64; 3], c2: &[f64; 3]) {
                let (x, y) = (cv(c1), cv(c2));
                let a = Luv::<D65, F>::new(x[0], x[1], x[2]);
                let b = Luv::<D65, F>::new(y[0], y[1], y[2]);
                rect_common!(o, "luv", src, x, y, a, b);
            }

            pub fn oklab(o: &mut Out, src: &str, c1: &[f64; 3], c2: &[f64; 3]) {
                let (x, y) = (cv(c1), cv(c2));
                let a = Oklab::<F>::new(x[0], x[1], x[2]);
                let b = Oklab::<F>::new(y[0], y[1], y[2]);
                rect_common!(o, "oklab", src, x, y, a, b);
            }

            pub fn jab(o: &mut Out, src: &str, c1: &[f64; 3], c2: &[f64; 3]) {
                let (x, y) = (cv(c1), cv(c2));
                let a = Cam16UcsJab::<F>::new(x[0], x[1], x[2]);
                let b = Cam16UcsJab::<F>::new(y[0], y[1], y[2]);
                rect_common!(o, "jab", src, x, y, a, b);
                o.diff("de", "jab", src, &x, &y, both(a, b, |a, b| a.delta_e(b)), None, None);
                o.diff("ide", "jab", src, &x, &y, both(a, b, |a, b| a.improved_delta_e(b)), None, None);
            }

            /// c = (J', M', h degrees)
            pub fn jmh(o: &mut Out, src: &str, c1: &[f64; 3], c2: &[f64; 3]) {
                let (x, y) = (cv(c1), cv(c2));
                let a = Cam16UcsJmh::<F>::new(x[0], x[1], x[2]);
                let b = Cam16UcsJmh::<F>::new(y[0], y[1], y[2]);
                let conv = |f: &dyn Fn(Cam16UcsJab<F>, Cam16UcsJab<F>) -> F| {
                    catch(|| {
                        let (ra, rb) = (Cam16UcsJab::from_color_unclamped(a), Cam16UcsJab::from_color_unclamped(b));
                        ([ra.lightness, ra.a, ra.b], [rb.lightness, rb.a, rb.b], f(ra, rb))
                    })
                };
                o.diff("de", "jmh", src, &x, &y, both(a, b, |a, b| a.delta_e(b)), None, Some(conv(&|p, q| p.delta_e(q))));
                o.diff("ide", "jmh", src, &x, &y, both(a, b, |a, b| a.improved_delta_e(b)), None, Some(conv(&|p, q| p.improved_delta_e(q))));
            }

            macro_rules! contrast {
                ($o:ident, $ty:expr, $src:expr, $x:expr, $y:expr, $a:ident, $b:ident, $lum_old:expr) => {{
                    let r = catch(|| {
                        let p = |a, b| [Wcag21RelativeContrast::has_min_contrast_text(a, b), Wcag21RelativeContrast::has_min_contrast_large_text(a, b),
                                        Wcag21RelativeContrast::has_enhanced_contrast_text(a, b), Wcag21RelativeContrast::has_enhanced_contrast_large_text(a, b),
                                        Wcag21RelativeContrast::has_min_contrast_graphics(a, b)];
                        ([$a.relative_luminance().luma, $b.relative_luminance().luma],
                         [Wcag21RelativeContrast::relative_contrast($a, $b), Wcag21RelativeContrast::relative_contrast($b, $a)],
                         [p($a, $b), p($b, $a)])
                    });
                    $o.wcag("new", $ty, $src, $x, $y, r);
                    let r = catch(|| {
                        let p = |a, b| [RelativeContrast::has_min_contrast_text(a, b), RelativeContrast::has_min_contrast_large_text(a, b),
                                        RelativeContrast::has_enhanced_contrast_text(a, b), RelativeContrast::has_enhanced_contrast_large_text(a, b),
                                        RelativeContrast::has_min_contrast_graphics(a, b)];
                        let lum: fn(_) -> F = $lum_old;
                        ([lum($a), lum($b)], [RelativeContrast::get_contrast_ratio($a, $b), RelativeContrast::get_contrast_ratio($b, $a)], [p($a, $b), p($b, $a)])
                    });
                    $o.wcag("old", $ty, $src, $x, $y, r);
                    // the free function behind the deprecated trait, on the same two luminances
                    let r = catch(|| {
                        let lum: fn(_) -> F = $lum_old;
                        let (la, lb) = (lum($a), lum($b));
                        let ab = palette::contrast_ratio(la, lb);
                        let ba = palette::contrast_ratio(lb, la);
                        let th = |r: F| [r >= 4.5, r >= 3.0, r >= 7.0, r >= 4.5, r >= 3.0];
                        ([la, lb], [ab, ba], [th(ab), th(ba)])
                    });
                    $o.wcag("fn", $ty, $src, $x, $y, r);
                }};
            }

            pub fn srgb(o: &mut Out, src: &str, c1: &[f64; 3], c2: &[f64; 3]) {
                let (x, y) = (cv(c1), cv(c2));
                let a = Srgb::<F>::new(x[0], x[1], x[2]);
                let b = Srgb::<F>::new(y[0], y[1], y[2]);
                o.diff("dist2", "srgb", src, &x, &y, both(a, b, |a, b| a.distance_squared(b)), None, None);
                o.diff("dist", "srgb", src, &x, &y, both(a, b, |a, b| a.distance(b)), None, None);
                contrast!(o, "srgb", src, &x, &y, a, b, |c: Srgb<F>| Xyz::<D65, F>::from_color(c).y);
            }

            pub fn linsrgb(o: &mut Out, src: &str, c1: &[f64; 3], c2: &[f64; 3]) {
                let (x, y) = (cv(c1), cv(c2));
                let a = LinSrgb::<F>::new(x[0], x[1], x[2]);
                let b = LinSrgb::<F>::new(y[0], y[1], y[2]);
                o.diff("dist2", "linsrgb", src, &x, &y, both(a, b, |a, b| a.distance_squared(b)), None, None);
                o.diff("dist", "linsrgb", src, &x, &y, both(a, b, |a, b| a.distance(b)), None, None);
                contrast!(o, "linsrgb", src, &x, &y, a, b, |c: LinSrgb<F>| Xyz::<D65, F>::from_color(c).y);
            }

            pub fn srgbluma(o: &mut Out, src: &str, c1: &[f64; 3], c2: &[f64; 3]) {
                let (x, y) = ([c1[0] as F], [c2[0] as F]);
                let a = SrgbLuma::<F>::new(x[0]);
                let b = SrgbLuma::<F>::new(y[0]);
                o.diff("dist2", "srgbluma", src, &x, &y, both(a, b, |a, b| a.distance_squared(b)), None, None);
                o.diff("dist", "srgbluma", src, &x, &y, both(a, b, |a, b| a.distance(b)), None, None);
                contrast!(o, "srgbluma", src, &x, &y, a, b, |c: SrgbLuma<F>| c.into_linear().luma);
            }

            pub fn linluma(o: &mut Out, src: &str, c1: &[f64; 3], c2: &[f64; 3]) {
                let (x, y) = ([c1[0] as F], [c2[0] as F]);
                let a = LinLuma::<D65, F>::new(x[0]);
                let b = LinLuma::<D65, F>::new(y[0]);
                o.diff("dist2", "linluma", src, &x, &y, both(a, b, |a, b| a.distance_squared(b)), None, None);
                o.diff("dist", "linluma", src, &x, &y, both(a, b, |a, b| a.distance(b)), None, None);
                contrast!(o, "linluma", src, &x, &y, a, b, |c: LinLuma<D65, F>| c.luma);
            }

            pub fn run(o: &mut Out, ty: &str, src: &str, c1: &[f64; 3], c2: &[f64; 3], heavy: bool) {
                match ty {
                    "lab" => lab(o, src, c1, c2, heavy),
                    "lch" => lch(o, src, c1, c2, heavy),
                    "luv" => luv(o, src, c1, c2),
                    "oklab" => oklab(o, src, c1, c2),
                    "jab" => jab(o, src, c1, c2),
                    "jmh" => jmh(o, src, c1, c2),
                    "srgb" => srgb(o, src, c1, c2),
                    "linsrgb" => linsrgb(o, src, c1, c2),
                    "srgbluma" => srgbluma(o, src, c1, c2),
                    "linluma" => linluma(o, src, c1, c2),
                    _ => panic!("unknown type {}", ty),
                }
            }
        }
    };
}
driver!(d32, f32);
driver!(d64, f64);

fn run(o: &mut Out, t: &str, ty: &str, src: &str, c1: &[f64; 3], c2: &[f64; 3], heavy: bool) {
    if t == "f32" { d32::run(o, ty, src, c1, c2, heavy) } else { d64::run(o, ty, src, c1, c2, heavy) }
}

// ------------------------------------------------------------------------------------------ inputs

#[derive(Clone)]
struct Pair {
    a: [f64; 3],
    b: [f64; 3],
    src: &'static str,
}

fn pol(l: f64, c: f64, h: f64) -> [f64; 3] { [l, c * h.to_radians().cos(), c * h.to_radians().sin()] }

/// rectangular -> (L, C, h in [0, 360)) - input construction for the polar types
fn to_polar(c: &[f64; 3]) -> [f64; 3] {
    let ch = c[1].hypot(c[2]);
    let mut h = if ch == 0.0 { 0.0 } else { c[2].atan2(c[1]).to_degrees() };
    if h < 0.0 {
        h += 360.0;
    }
    [c[0], ch, h]
}

struct Dom {
    lmax: f64,
    abmax: f64,
}

/// pairs at the hue discontinuities of CIEDE2000, constructed in polar form: hues straddling 0/360, differences just
/// below / above 180 (outside the exclusion band), mean hue on either side of 0/360, exact axis hues
fn hue_pairs(d: &Dom, full: bool) -> Vec<Pair> {
    let mut v = Vec::new();
    let combos: &[(f64, f64, f64, f64)] = if full {
        &[(0.5, 0.5, 0.31, 0.31), (0.4, 0.7, 0.47, 0.2), (0.6, 0.3, 0.04, 0.62), (0.9, 0.85, 0.9, 0.02)]
    } else {
        &[(0.4, 0.7, 0.47, 0.2), (0.5, 0.5, 0.31, 0.31)]
    };
    let h1s = [0.0, 0.5, 30.0, 90.0, 135.0, 179.5, 180.0, 180.5, 225.0, 270.0, 315.0, 359.5];
    let ds = [0.25, 45.0, 120.0, 179.0, 179.99, 179.999999, 180.000001, 180.01, 181.0, 240.0, 300.0, 359.5];
    for (ci, (l1, l2, k1, k2)) in combos.iter().enumerate() {
        for h1 in h1s {
            for dd in ds {
                if !full && ci == 1 && (dd as i64) % 2 == 1 {
                    continue;
                }
                let h2 = (h1 + dd) % 360.0;
                v.push(Pair { a: pol(l1 * d.lmax, k1 * d.abmax, h1), b: pol(l2 * d.lmax, k2 * d.abmax, h2), src: "hue" });
            }
        }
        // mean hue around 0/360: h1 below 360, h2 above 0; h1 + h2 below / above a whole turn
        for x in [0.01, 1.0, 5.0, 20.0, 60.0, 100.0] {
            for y in [0.01, 1.0, 5.0, 20.0, 60.0, 100.0] {
                v.push(Pair { a: pol(l1 * d.lmax, k1 * d.abmax, 360.0 - x), b: pol(l2 * d.lmax, k2 * d.abmax, y), src: "wrap" });
            }
        }
        if !full {
            break;
        }
    }
    // exact axis hues: 0, 90, 180, 270 and their differences of exactly 90, 180 (either side accepted), 270
    let c = 0.3 * d.abmax;
    let axes = [[c, 0.0], [0.0, c], [-c, 0.0], [0.0, -c]];
    for (i, p) in axes.iter().enumerate() {
        for (j, q) in axes.iter().enumerate() {
            v.push(Pair { a: [0.4 * d.lmax, p[0], p[1]], b: [0.45 * d.lmax, q[0] * (1.0 + 0.5 * (i as f64 - j as f64)), q[1] * (1.0 + 0.5 * (i as f64 - j as f64))], src: "axis" });
        }
    }
    v
}

fn rnd_col(r: &mut Sm64, d: &Dom) -> [f64; 3] { [r.range(0.0, d.lmax), r.range(-d.abmax, d.abmax), r.range(-d.abmax, d.abmax)] }

fn general_pairs(d: &Dom, r: &mut Sm64, n_rand: usize, n_near: usize, n_grid: usize) -> Vec<Pair> {
    let mut v = Vec::new();
    // grid
    let mut cols = Vec::new();
    for l in [0.25, 0.75] {
        for a in [-0.6, 0.0, 0.6] {
            for b in [-0.6, 0.0, 0.6] {
                cols.push([l * d.lmax, a * d.abmax, b * d.abmax]);
            }
        }
    }
    let mut k = 0usize;
    'g: for p in &cols {
        for q in &cols {
            k += 1;
            if k % 4 == 1 {
                v.push(Pair { a: *p, b: *q, src: "grid" });
                if v.len() >= n_grid {
                    break 'g;
                }
            }
        }
    }
    for _ in 0..n_rand {
        v.push(Pair { a: rnd_col(r, d), b: rnd_col(r, d), src: "rand" });
    }
    // near pairs: small differences in every direction
    for i in 0..n_near {
        let p = rnd_col(r, d);
        let s = [1e-6, 1e-3, 0.02, 0.1][i % 4];
        let q = [p[0] + s * d.lmax * r.range(-1.0, 1.0), p[1] + s * d.abmax * r.range(-1.0, 1.0), p[2] + s * d.abmax * r.range(-1.0, 1.0)];
        v.push(Pair { a: p, b: q, src: "near" });
    }
    // lightness only, chroma only at equal hue, hue only at equal chroma
    for _ in 0..(n_near / 4).max(3) {
        let p = rnd_col(r, d);
        v.push(Pair { a: p, b: [r.range(0.0, d.lmax), p[1], p[2]], src: "lightness-only" });
        let f = r.range(0.2, 1.5);
        v.push(Pair { a: p, b: [p[0], p[1] * f, p[2] * f], src: "chroma-only" });
        let pp = to_polar(&p);
        v.push(Pair { a: p, b: pol(pp[0], pp[1], pp[2] + r.range(-170.0, 170.0)), src: "hue-only" });
    }
    // achromatic: one or both colours with a = b = 0; nearly achromatic
    for i in 0..(n_near / 2).max(6) {
        let g1 = [r.range(0.0, d.lmax), 0.0, 0.0];
        let q = rnd_col(r, d);
        match i % 4 {
            0 => v.push(Pair { a: g1, b: q, src: "achromatic" }),
            1 => v.push(Pair { a: q, b: g1, src: "achromatic" }),
            2 => v.push(Pair { a: g1, b: [r.range(0.0, d.lmax), 0.0, 0.0], src: "achromatic" }),
            _ => v.push(Pair { a: g1, b: [q[0], q[1] * 1e-3, q[2] * 1e-3], src: "achromatic" }),
        }
    }
    // identical colours
    let p = rnd_col(r, d);
    let q = rnd_col(r, d);
    for c in [[0.0, 0.0, 0.0], [0.5 * d.lmax, 0.0, 0.0], p, q, [d.lmax, -0.3 * d.abmax, 0.0], [0.3 * d.lmax, 0.0, 0.7 * d.abmax]] {
        v.push(Pair { a: c, b: c, src: "same" });
    }
    v
}

/// extra pairs given directly in polar form: raw hues outside [0, 360), hue 360, achromatic colours with a hue
fn polar_specials(d: &Dom) -> Vec<Pair> {
    let (l, c) = (0.5 * d.lmax, 0.4 * d.abmax);
    let mut v = Vec::new();
    for (h1, h2) in [(0.0, 360.0), (360.0, 10.0), (-30.0, 20.0), (400.0, 20.0), (725.5, 5.25), (-350.0, 190.5), (180.0, 0.0), (179.999, 359.0),
                     (90.0, 270.5), (45.0, 45.0), (359.999, 0.001), (10.0, 350.0)] {
        v.push(Pair { a: [l, c, h1], b: [0.6 * d.lmax, 0.7 * c, h2], src: "polar" });
    }
    for h in [0.0, 123.0, 300.0] {
        v.push(Pair { a: [l, 0.0, h], b: [0.6 * d.lmax, c, 200.0], src: "polar-achromatic" });
        v.push(Pair { a: [l, 0.0, h], b: [l, 0.0, 77.0], src: "polar-achromatic" });
    }
    v.push(Pair { a: [l, c, 33.0], b: [l, c, 33.0], src: "same" });
    v
}

fn rgb_pairs(r: &mut Sm64, n_rand: usize) -> Vec<Pair> {
    let mut v = Vec::new();
    let cs = [[0.0, 0.0, 0.0], [1.0, 1.0, 1.0], [1.0, 0.0, 0.0], [0.0, 1.0, 0.0], [0.0, 0.0, 1.0], [0.4, 0.0, 0.0], [0.0, 0.4, 0.4], [0.6, 1.0, 0.6],
              [0.5, 0.5, 0.5], [0.2, 0.2, 0.2], [1.0, 1.0, 0.0], [0.21, 0.21, 0.21], [0.867, 0.867, 0.867]];
    for p in &cs {
        for q in &cs {
            v.push(Pair { a: *p, b: *q, src: "grid" });
        }
    }
    for _ in 0..n_rand {
        v.push(Pair { a: [r.unit(), r.unit(), r.unit()], b: [r.unit(), r.unit(), r.unit()], src: "rand" });
    }
    // greys whose contrast is close to a threshold: (l1 + 0.05) / (l2 + 0.05) = 3, 4.5, 7 in linear light
    for thr in [3.0, 4.5, 7.0] {
        for _ in 0..(n_rand / 6).max(4) {
            let l2 = r.range(0.0, (1.05 / thr) - 0.05);
            let l1 = (thr * (l2 + 0.05) - 0.05) * (1.0 + r.range(-3e-7, 3e-7));
            v.push(Pair { a: [l1, l1, l1], b: [l2, l2, l2], src: "threshold-linear" });
            let enc = |x: f64| if x <= 0.0031308 { 12.92 * x } else { 1.055 * x.powf(1.0 / 2.4) - 0.055 };
            v.push(Pair { a: [enc(l1), enc(l1), enc(l1)], b: [enc(l2), enc(l2), enc(l2)], src: "threshold-encoded" });
        }
    }
    // out of gamut (laws only)
    for _ in 0..(n_rand / 10).max(3) {
        v.push(Pair { a: [r.range(-0.3, 1.4), r.range(-0.3, 1.4), r.range(-0.3, 1.4)], b: [r.unit(), r.unit(), r.unit()], src: "out-of-gamut" });
    }
    v
}

/// the structured pairs emitted by MC_Diff (REPLAY lines decoded by the check script: one JSON object per line)
fn mc_pairs(path: &str) -> Vec<Pair> {
    let text = std::fs::read_to_string(path).unwrap_or_else(|e| panic!("cannot read {}: {}", path, e));
    let mut v = Vec::new();
    for line in text.lines().filter(|l| !l.trim().is_empty()) {
        let j: Value = serde_json::from_str(line).expect("pairs file: JSON");
        let den = j["den"].as_f64().unwrap();
        let c = |k: &str| -> [f64; 3] { let a = j[k].as_array().unwrap(); [a[0].as_f64().unwrap() / den, a[1].as_f64().unwrap() / den, a[2].as_f64().unwrap() / den] };
        v.push(Pair { a: c("c1"), b: c("c2"), src: if j["want"].as_i64().unwrap_or(-1) >= 0 { "sharma" } else { "model" } });
    }
    v
}

// ------------------------------------------------------------------------------------------ exact decoding (replay)

fn unex(v: &Value) -> f64 {
    let a = v.as_array().expect("exact number");
    let s = a[0].as_i64().unwrap();
    if s == 2 { return f64::NAN; }
    if s == 3 { return f64::INFINITY; }
    if s == -3 { return f64::NEG_INFINITY; }
    let q = a[1].as_i64().unwrap() as i32;
    let mut m: u128 = 0;
    for (i, l) in a[2..].iter().enumerate() {
        m |= (l.as_u64().unwrap() as u128) << (13 * i as u32);
    }
    // the mantissa has at most 53 significant bits and the scaling is a power of two: exact
    let mut x = m as f64;
    let mut e = 13 * q;
    while e > 0 { let k = e.min(1000); x *= 2f64.powi(k); e -= k; }
    while e < 0 { let k = (-e).min(1000); x /= 2f64.powi(k); e += k; }
    s as f64 * x
}

fn one(o: &mut Out, ev: &Value) {
    let c = |k: &str| -> [f64; 3] {
        let a = ev[k].as_array().unwrap();
        let g = |i: usize| a.get(i).map(unex).unwrap_or(0.0);
        [g(0), g(1), g(2)]
    };
    let kind = ev["ev"].as_str().unwrap();
    o.only = Some(if kind == "wcag" { ev["api"].as_str().unwrap().to_string() } else { ev["m"].as_str().unwrap().to_string() });
    run(o, ev["t"].as_str().unwrap(), ev["ty"].as_str().unwrap(), "replay", &c("c1"), &c("c2"), true);
}

// ------------------------------------------------------------------------------------------ main

fn main() {
    let mut o = Out { rec: Rec::create(&arg_or("--out", "-")), only: None, per: BTreeMap::new(), panics: 0 };
    if let Some(e) = arg("--one") {
        one(&mut o, &serde_json::from_str(&e).expect("--one: JSON"));
        let n = o.rec.finish();
        eprintln!("{}", json!({"events": n}));
        return;
    }
    let quick = arg_or("--tier", "quick") != "thorough";
    let mut r = Sm64::new(seed_from_env());
    if flag("--fin") {
        // C07: every colour difference of two in-range colours is finite - pairs that differ in ONE component by nothing, a
        // last place, a billionth of the range ... a thousandth (cancellation under a square root is the risk), given
        // directly in each type's own coordinates, on the bounds and inside
        let rel = [0.0, 1.2e-16, 6.0e-8, 1.0e-9, 1.0e-7, 1.0e-5, 3.0e-4, 1.0e-3];
        let fr = if quick { vec![0.0, 1.001e-9, 0.37, 1.0] } else { vec![0.0, 1.001e-9, 1e-3, 0.25, 0.37, 0.5, 0.999, 1.0] };
        // (type, ranges of the three components; a hue has range None)
        let tys: [(&str, [Option<(f64, f64)>; 3]); 8] = [
            ("lab", [Some((0.0, 100.0)), Some((-128.0, 127.0)), Some((-128.0, 127.0))]),
            ("lch", [Some((0.0, 100.0)), Some((0.0, 128.0)), None]),
            ("luv", [Some((0.0, 100.0)), Some((-84.0, 176.0)), Some((-135.0, 108.0))]),
            ("oklab", [Some((0.0, 1.0)), Some((-0.4, 0.4)), Some((-0.4, 0.4))]),
            ("jab", [Some((0.0, 100.0)), Some((-50.0, 50.0)), Some((-50.0, 50.0))]),
            ("jmh", [Some((0.0, 100.0)), Some((0.0, 50.0)), None]),
            ("srgb", [Some((0.0, 1.0)), Some((0.0, 1.0)), Some((0.0, 1.0))]),
            ("linsrgb", [Some((0.0, 1.0)), Some((0.0, 1.0)), Some((0.0, 1.0))]),
        ];
        let hues = [0.0, 90.0, 180.0, 233.0, 359.999];
        for (ty, rs) in tys.iter() {
            let mut bases: Vec<[f64; 3]> = vec![];
            for (i, &f0) in fr.iter().enumerate() {
                for (j, &f1) in fr.iter().enumerate() {
                    let f2 = fr[(i + 2 * j + 1) % fr.len()];
                    let v = |k: usize, f: f64| match rs[k] { Some((lo, hi)) => lo + f * (hi - lo), None => hues[(i * 3 + j) % hues.len()] };
                    bases.push([v(0, f0), v(1, f1), v(2, f2)]);
                }
            }
            for _ in 0..(if quick { 4 } else { 60 }) {
                bases.push([0, 1, 2].map(|k| match rs[k] { Some((lo, hi)) => r.range(lo, hi), None => r.range(0.0, 360.0) }));
            }
            for a in &bases {
                for k in 0..3 {
                    for (di, d) in rel.iter().enumerate() {
                        if quick && (di + k) % 2 == 1 && *d != 0.0 { continue; }
                        let mut b = *a;
                        match rs[k] {
                            // towards the inside of the range, so that the second colour is in range as well; a value on a bound moves
                            // by at least a billionth of the range (the statement's domain) or not at all
                            Some((lo, hi)) => {
                                let step = (d * (hi - lo)).max(if *d == 0.0 { 0.0 } else if a[k] == lo || a[k] == hi { 1.001e-9 * (hi - lo) } else { 0.0 });
                                b[k] = if a[k] + step <= hi - 1.001e-9 * (hi - lo) || a[k] + step == hi { a[k] + step } else { a[k] - step };
                                if b[k] < lo { b[k] = a[k]; }
                                // relative nudges of the value itself as well (last places)
                                if *d > 0.0 && *d < 1e-7 && a[k] != lo && a[k] != hi { b[k] = a[k] * (1.0 + d); if b[k] > hi || b[k] < lo { b[k] = a[k]; } }
                            }
                            None => b[k] = a[k] + d * 360.0,
                        }
                        for t in ["f64", "f32"] {
                            run(&mut o, t, ty, "fin", a, &b, true);
                        }
                    }
                }
            }
        }
        let (per, panics) = (o.per.clone(), o.panics);
        let n = o.rec.finish();
        eprintln!("{}", json!({"events": n, "panics": panics, "per": per}));
        return;
    }
    let lab = Dom { lmax: 100.0, abmax: 128.0 };
    let luv = Dom { lmax: 100.0, abmax: 150.0 };
    let okl = Dom { lmax: 1.0, abmax: 0.4 };
    let ucs = Dom { lmax: 100.0, abmax: 50.0 };
    let (n_rand, n_near) = if quick { (110, 40) } else { (4000, 1000) };

    // L*a*b* domain: Lab and Lch, all measures including CIEDE2000
    let mut labp = arg("--pairs").map(|p| mc_pairs(&p)).unwrap_or_default();
    labp.extend(hue_pairs(&lab, !quick));
    labp.extend(general_pairs(&lab, &mut r, n_rand, n_near, 12));
    for (i, p) in labp.iter().enumerate() {
        for t in ["f64", "f32"] {
            run(&mut o, t, "lab", p.src, &p.a, &p.b, true);
            // quick tier: the most expensive events (CIEDE2000) for Lch<f32> on every second pair only
            run(&mut o, t, "lch", p.src, &to_polar(&p.a), &to_polar(&p.b), !(quick && t == "f32" && i % 2 == 1));
        }
    }
    for p in polar_specials(&lab) {
        for t in ["f64", "f32"] {
            run(&mut o, t, "lch", p.src, &p.a, &p.b, true);
        }
    }
    // L*u*v*, Oklab, CAM16-UCS: the cheap measures on more pairs
    let (m_rand, m_near) = if quick { (70, 32) } else { (4000, 1000) };
    for (ty, d) in [("luv", &luv), ("oklab", &okl), ("jab", &ucs)] {
        let mut ps = general_pairs(d, &mut r, m_rand, m_near, if quick { 16 } else { 81 });
        if ty == "jab" || !quick {
            ps.extend(hue_pairs(d, false));
        }
        for p in &ps {
            for t in ["f64", "f32"] {
                run(&mut o, t, ty, p.src, &p.a, &p.b, false);
                if ty == "jab" {
                    run(&mut o, t, "jmh", p.src, &to_polar(&p.a), &to_polar(&p.b), false);
                }
            }
        }
    }
    for p in polar_specials(&ucs) {
        for t in ["f64", "f32"] {
            run(&mut o, t, "jmh", p.src, &p.a, &p.b, false);
        }
    }
    // RGB and luma: Euclidean distance and contrast
    let rp = rgb_pairs(&mut r, if quick { 60 } else { 3000 });
    for p in &rp {
        for t in ["f64", "f32"] {
            for ty in ["srgb", "linsrgb"] {
                run(&mut o, t, ty, p.src, &p.a, &p.b, false);
            }
            if p.a[0] == p.a[1] && p.a[1] == p.a[2] && p.b[0] == p.b[1] && p.b[1] == p.b[2] || p.src == "rand" {
                for ty in ["srgbluma", "linluma"] {
                    run(&mut o, t, ty, p.src, &p.a, &p.b, false);
                }
            }
        }
    }
    let per = o.per.clone();
    let panics = o.panics;
    let n = o.rec.finish();
    eprintln!("{}", json!({"events": n, "panics": panics, "per": per}));
}
