SPECIFICATION Spec
CONSTANTS
  Emit = TRUE
INVARIANTS PackLaws SelectLaws CmpLaws GroupLaws EmitGroup
CHECK_DEADLOCK FALSE
