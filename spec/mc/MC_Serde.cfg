SPECIFICATION MCSpec
CONSTANTS
  Types = {"Luma", "Rgb", "Hsv", "Lch", "M2", "M4h"}
  PrimSet = {"f32"}
  Emit = TRUE
INVARIANTS Inv EmitDone
CHECK_DEADLOCK FALSE
