------------------------------- MODULE MC_Hex -------------------------------
(* Exhaustive small configurations of Hex.tla (and the table check of        *)
(* Named.tla).  Every state is a CASE; "distinct states" = cases examined.    *)
(* Cases are generated as a tree (a string is extended by one symbol, a       *)
(* colour by one channel, a length by one) only so that TLC's workers share   *)
(* the evaluation; nothing is carried from a state to its successors.         *)
(*   str    every string of at most MaxLen symbols over the abstract alphabet *)
(*          Sym, classified for every parsable type: parser = grammar, and    *)
(*          accepted values are colours of the type;                          *)
(*   count  for every type and length <= CountLen, the accepting set is       *)
(*          enumerated and counted and must equal the closed form AcceptCount *)
(*          that the trace specification uses for the lengths only the        *)
(*          harness can sweep;                                                *)
(*   fmt    every lattice colour of every integer type: Parse(Format(c)) = c; *)
(*   widen  repeating the digit pattern is multiplication by 17, 257, 65537,  *)
(*          16843009 (the number-format conversion of C06);                   *)
(*   name   the reference table of named colours is well formed; one case     *)
(*          per keyword.                                                      *)
(* Cases the harness must execute are printed as REPLAY lines.                *)
EXTENDS Hex, Named, BigNat, TLC, Json

CONSTANTS Sym,        \* the abstract alphabet (a set of characters)
          MaxLen,     \* strings up to this many symbols
          CountLen,   \* accepting sets enumerated and counted up to this length
          EmitLen,    \* every string up to this length is emitted for replay (longer ones only if accepted)
          Lattice,    \* TRUE: include the fmt / widen / name cases
          Emit

VARIABLE kase
vars == <<kase>>

NDigits == Cardinality({c \in Sym : IsHexDigit(c)})

(* lattices: 00 01 0f 10 7f 80 ab ff and their 16/32-bit analogues *)
Lat(cw) ==
  CASE cw = 2 -> { <<0, 0>>, <<0, 1>>, <<0, 15>>, <<1, 0>>, <<7, 15>>, <<8, 0>>, <<10, 11>>, <<15, 15>> }
    [] cw = 4 -> { <<0, 0, 0, 0>>, <<0, 0, 0, 1>>, <<0, 0, 15, 15>>, <<0, 1, 0, 0>>, <<7, 15, 15, 15>>,
                   <<8, 0, 0, 0>>, <<10, 11, 12, 13>>, <<15, 15, 15, 15>> }
    [] cw = 8 -> { <<0, 0, 0, 0, 0, 0, 0, 0>>, <<0, 0, 0, 0, 0, 0, 0, 1>>, <<0, 0, 0, 0, 15, 15, 15, 15>>,
                   <<0, 0, 0, 1, 0, 0, 0, 0>>, <<7, 15, 15, 15, 15, 15, 15, 15>>, <<8, 0, 0, 0, 0, 0, 0, 0>>,
                   <<8, 9, 10, 11, 12, 13, 14, 15>>, <<15, 15, 15, 15, 15, 15, 15, 15>> }

IntTypes == {t \in TypeNames : ~HexTypes[t].float}

MCInit ==
  \/ kase = [k |-> "str", sy |-> <<>>]
  \/ \E t \in TypeNames : kase = [k |-> "count", ty |-> t, len |-> 0]
  \/ Lattice /\ \E t \in IntTypes : kase = [k |-> "fmt", ty |-> t, val |-> <<>>]
  \/ Lattice /\ \E hi \in 0..15 : kase = [k |-> "widen", d |-> <<hi>>]
  \/ Lattice /\ \E n \in Names : kase = [k |-> "name", q |-> n]

ExtendStr == /\ kase.k = "str" /\ Len(kase.sy) < MaxLen
             /\ \E c \in Sym : kase' = [kase EXCEPT !.sy = Append(@, c)]
ExtendCount == /\ kase.k = "count" /\ kase.len < CountLen
               /\ kase' = [kase EXCEPT !.len = @ + 1]
ExtendFmt == /\ kase.k = "fmt" /\ Len(kase.val) < NCh(kase.ty)
             /\ \E v \in Lat(CW(kase.ty)) : kase' = [kase EXCEPT !.val = Append(@, v)]
ExtendWiden == /\ kase.k = "widen" /\ Len(kase.d) < 2
               /\ \E lo \in 0..15 : kase' = [kase EXCEPT !.d = Append(@, lo)]

MCNext == ExtendStr \/ ExtendCount \/ ExtendFmt \/ ExtendWiden
MCSpec == MCInit /\ [][MCNext]_vars

-----------------------------------------------------------------------------
(* digit sequence -> BigNat *)
RECURSIVE BigOf(_)
BigOf(d) == IF d = <<>> THEN Zero ELSE Add(MulSmall(BigOf(SubSeq(d, 1, Len(d) - 1)), 16), FromNat(d[Len(d)]))

InvStr == kase.k = "str" => \A t \in TypeNames : ParseSound(t, kase.sy)

InvCount == kase.k = "count" =>
  Cardinality({s \in [1..kase.len -> Sym] : Parse(kase.ty, s).ok}) = AcceptCount(kase.ty, kase.len, NDigits)

FmtComplete == kase.k = "fmt" /\ Len(kase.val) = NCh(kase.ty)
InvFmt == FmtComplete => RoundTrip(kase.ty, kase.val) /\ IsColour(kase.ty, kase.val)

(* d: two digits = a u8 value x; its high digit alone = a one-digit channel *)
InvWiden == (kase.k = "widen" /\ Len(kase.d) = 2) =>
  LET d == kase.d  x == NatOf(d) IN
  /\ NatOf(Widen(<<d[1]>>, 2)) = 17 * d[1]                                  \* "#f8b": d -> dd
  /\ NatOf(Widen(d, 4)) = 257 * x                                           \* u8 -> u16
  /\ BigOf(Widen(d, 8)) = Mul(FromNat(x), FromNat(16843009))                \* u8 -> u32
  /\ \A e \in Lat(2) : LET y == d \o e IN                                   \* u16 -> u32, 256 x 8 values
       BigOf(Widen(y, 8)) = Mul(FromNat(NatOf(y)), FromNat(65537))
  /\ BigOf(Widen(d, 8)) = BigOf(Widen(Widen(d, 4), 8))                      \* widening composes

InvNames == kase.k = "name" => TableOK /\ Lookup(kase.q) = <<1, NamedColors[kase.q]>>

Inv == InvStr /\ InvCount /\ InvFmt /\ InvWiden /\ InvNames

-----------------------------------------------------------------------------
(* cases for the harness *)
EmitCase ==
  Emit =>
    CASE kase.k = "str" ->
           (Len(kase.sy) <= EmitLen \/ \E t \in TypeNames : Parse(t, kase.sy).ok)
             => PrintT(<<"REPLAY", ToJson([k |-> "parse", sy |-> kase.sy])>>)
      [] FmtComplete -> PrintT(<<"REPLAY", ToJson(kase)>>)
      [] kase.k = "name" -> PrintT(<<"REPLAY", ToJson(kase)>>)
      [] OTHER -> TRUE
=============================================================================
