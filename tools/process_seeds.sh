#!/bin/sh
# usage: SEED_ROOT=/tmp/seedN tools/process_seeds.sh <ID> [<ID> ...]
# For every change <SEED_ROOT>/<ID>.work/<n>/ (n = 1, 2, 3): skip it when an identical patch is already kept under
# seeded/, otherwise confirm it (tools/confirm_seeded.sh) and run the quick check of its property against it in a
# sandbox (tools/try_seeded.sh). Prints one DUP / NOT-CONFIRMED / RESULT line per change.
cd /verif
R=${SEED_ROOT:-/tmp/seed}
for id in "$@"; do
  for n in 1 2 3; do
    d=$R/$id.work/$n
    [ -f $d/patch.diff ] || { echo "ABSENT $id/$n"; continue; }
    dup=""
    for k in seeded/*/patch.diff; do
      if [ "$(grep '^[+-]' $k | md5sum)" = "$(grep '^[+-]' $d/patch.diff | md5sum)" ]; then dup=$k; fi
    done
    if [ -n "$dup" ]; then echo "DUP $id/$n = $dup"; continue; fi
    r=$(tools/confirm_seeded.sh $id $n 2>&1 | tail -1); echo "$r"
    case "$r" in CONFIRMED*) tools/try_seeded.sh $d $id 2>&1 | grep "RESULT\|rror" | cut -c1-400;; esac
  done
done
echo BATCH-DONE
