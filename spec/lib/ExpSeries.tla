------------------------------ MODULE ExpSeries ------------------------------
(***************************************************************************)
(* Elementary functions on 104-bit fixed point (module Fx) that the         *)
(* CIEDE2000 reference of Diff.tla needs in addition to Trig.tla:            *)
(*   FxSqrt     square root (Newton iteration on the inverse square root)    *)
(*   FxExpNeg   exp(-x), x >= 0 (Taylor series after halving, then squaring)  *)
(*   Atan2Deg   the angle of a vector in degrees, in [0, 360)                 *)
(*   SinDegK, CosDegK  sine / cosine of an angle in degrees (one value only,   *)
(*              constants passed in, cheap reduction for |angle| < 10^4)       *)
(* Every result is accurate to better than 2^-88 relative to max(1, |result|); *)
(* the comparisons made with them use tolerances of 2^-60 or more.            *)
(* MC_Diff checks them against each other (sqrt^2, atan2 of (cos, sin),        *)
(* exp(-a) exp(-b) = exp(-(a+b)), e to 30 decimals).                          *)
(*                                                                         *)
(* Constants that are expensive to derive live in a record built once         *)
(* (ExpConsts) and passed as the first argument `k`.                          *)
(***************************************************************************)
EXTENDS Trig

-----------------------------------------------------------------------------
(* square root.  x = m 4^j with m in [1/4, 1); r ~ 1/sqrt(m) by a two-piece linear
   guess (relative error <= 0.023) and five Newton steps r <- r (3 - m r^2) / 2
   (error e -> 1.5 e^2: 0.023, 8e-4, 1e-6, 1.3e-12, 2.6e-24, 1e-47); sqrt(m) = m r *)
RECURSIVE RsqrtNewton(_, _, _)
RsqrtNewton(m, r, n) == IF n = 0 THEN r
                        ELSE RsqrtNewton(m, FxMul(FxHalf(r), FxSub(FxInt(3), FxMul(m, FxSqr(r)))), n - 1)
FxSqrt(x) ==
  IF x[1] <= 0 THEN FxZero
  ELSE LET e == BitLen(x[2]) - FBITS                  \* x in [2^(e-1), 2^e)
           j2 == IF e % 2 = 0 THEN e ELSE e + 1       \* even, x / 2^j2 in [1/4, 1)
           m == FxScale2(x, -j2)
           r0 == IF FxLt(m, FxRat(1, 2)) THEN FxSub(FxRat(253, 100), FxMul(FxRat(2296, 1000), m))
                 ELSE FxSub(FxRat(1786, 1000), FxMul(FxRat(808, 1000), m))
       IN FxScale2(FxMul(m, RsqrtNewton(m, r0, 5)), j2 \div 2)

-----------------------------------------------------------------------------
(* exp(-x) for x >= 0: y = x / 256 <= 0.32, Taylor series of exp(-y) until the terms vanish,
   then eight squarings (each doubles the relative error: 2^-99 -> 2^-91).  exp(-80) < 2^-115 is 0. *)
RECURSIVE ExpTerms(_, _, _)
ExpTerms(term, y, n) == IF n > 60 \/ FxIsZero(term) THEN FxZero
                        ELSE FxAdd(term, ExpTerms(FxNeg(FxDivInt(FxMul(term, y), n + 1)), y, n + 1))
RECURSIVE SqrTimes(_, _)
SqrTimes(v, n) == IF n = 0 THEN v ELSE SqrTimes(FxSqr(v), n - 1)
FxExpNeg(x) == IF FxLe(FxInt(80), x) THEN FxZero
               ELSE SqrTimes(ExpTerms(FxOne, FxShr(x, 8), 0), 8)

-----------------------------------------------------------------------------
(* arctangent series  t - t^3/3 + t^5/5 - ...  in radians, for |t| <= 1/2 *)
RECURSIVE AtanTerms(_, _, _)
AtanTerms(pw, t2, n) == IF n > 401 \/ FxIsZero(pw) THEN FxZero
                        ELSE FxAdd(FxDivInt(pw, n), AtanTerms(FxNeg(FxMul(pw, t2)), t2, n + 2))
AtanSmallRad(t) == AtanTerms(t, FxSqr(t), 1)

ExpConsts ==
  LET deg == FxDiv(FxInt(180), PiFx)
      A(p, q) == FxMul(AtanSmallRad(FxRat(p, q)), deg)         \* atan(p/q) in degrees
  IN [ pi180 |-> FxDivInt(PiFx, 180),
       deg |-> deg,
       (* atan(n/8) in degrees, n = 1..8; above 1/2 through atan x = 45 - atan((1 - x)/(1 + x)) *)
       atab |-> << A(1, 8), A(1, 4), A(3, 8), A(1, 2), FxSub(Fx45, A(3, 13)), FxSub(Fx45, A(1, 7)),
                   FxSub(Fx45, A(1, 15)), Fx45 >> ]

(* angle of the vector (x, y) in degrees, in [0, 360); 0 for the zero vector.
   First octant: with lo <= hi the two magnitudes and n the multiple of 1/8 nearest to lo/hi,
   atan(lo/hi) = atan(n/8) + atan((8 lo - n hi) / (8 hi + n lo)), the last argument within 1/16. *)
Atan2Deg(k, y, x) ==
  LET ax == FxAbs(x)  ay == FxAbs(y)
      hi == FxMax(ax, ay)  lo == FxMin(ax, ay)
      c(j) == IF FxLe(FxMulInt(hi, 2 * j - 1), FxMulInt(lo, 16)) THEN 1 ELSE 0
      n == c(1) + c(2) + c(3) + c(4) + c(5) + c(6) + c(7) + c(8)
      t == FxDiv(FxSub(FxMulInt(lo, 8), FxMulInt(hi, n)), FxAdd(FxMulInt(hi, 8), FxMulInt(lo, n)))
      oct == FxAdd(IF n = 0 THEN FxZero ELSE k.atab[n], FxMul(AtanSmallRad(t), k.deg))   \* from the axis of hi, in [0, 45]
      q == IF FxLe(ay, ax) THEN oct ELSE FxSub(Fx90, oct)                                  \* from the x axis, in [0, 90]
      a == IF x[1] >= 0 /\ y[1] >= 0 THEN q
           ELSE IF x[1] < 0 /\ y[1] >= 0 THEN FxSub(Fx180, q)
           ELSE IF x[1] < 0 THEN FxAdd(Fx180, q)
           ELSE FxSub(Fx360T, q)
  IN IF FxIsZero(hi) THEN FxZero ELSE IF FxLe(Fx360T, a) THEN FxSub(a, Fx360T) ELSE a

-----------------------------------------------------------------------------
(* sine and cosine of an angle in degrees, reduced by adding / subtracting whole turns
   (meant for |h| up to a few thousand degrees), then by the symmetries as in Trig!SinCosDeg *)
RECURSIVE Red360(_)
Red360(h) == IF h[1] < 0 THEN Red360(FxAdd(h, Fx360T)) ELSE IF FxLe(Fx360T, h) THEN Red360(FxSub(h, Fx360T)) ELSE h
RadK(k, d) == FxMul(d, k.pi180)
Sin90K(k, d) == IF FxLe(d, Fx45) THEN SinRad(RadK(k, d)) ELSE CosRad(RadK(k, FxSub(Fx90, d)))      \* d in [0, 90]
SinDegK(k, h) ==
  LET r == Red360(h)
  IN IF FxLe(r, Fx90) THEN Sin90K(k, r)
     ELSE IF FxLe(r, Fx180) THEN Sin90K(k, FxSub(Fx180, r))
     ELSE IF FxLe(r, FxInt(270)) THEN FxNeg(Sin90K(k, FxSub(r, Fx180)))
     ELSE FxNeg(Sin90K(k, FxSub(Fx360T, r)))
CosDegK(k, h) == SinDegK(k, FxAdd(h, Fx90))
=============================================================================
