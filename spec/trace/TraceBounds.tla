----------------------------- MODULE TraceBounds -----------------------------
(* Trace validation for C03: `bounds` events (clamp / clamp_assign / slice /   *)
(* is_within_bounds on one colour), `conv3` events (from_color_unclamped,      *)
(* from_color, try_from_color on one input) and `consts` events (the min_/max_ *)
(* accessors against the documented table).  Events are independent.           *)
EXTENDS Bounds, Types, Json, IOUtils, TLC

Rec == ndJsonDeserialize(IOEnv.TRACE)
VARIABLE l
DySeq(js) == [i \in DOMAIN js |-> Dy(js[i])]
(* the bounds the contract enforces: the accessor values, minus the documented-as-advisory ones *)
EffHi(node, hi) == [i \in DOMAIN hi |-> IF <<node, i>> \in AdvisoryUpper THEN <<>> ELSE hi[i]]
SB(node, hi) == [i \in DOMAIN hi |-> UpperSlackBits(node, i)]

(* colours with integer components: the documented range is 0 to the largest value of the type *)
IsIntT(t) == t \in {"u8", "u16", "u32"}
IntMax(t) == CASE t = "u8" -> DyFromInt(255) [] t = "u16" -> DyFromInt(65535) [] t = "u32" -> DySub(DyPow2(32), DyFromInt(1))
IntAccessorsOk(e) == \A i \in DOMAIN e.lo : e.lo[i] # <<>> /\ DyIsZero(Dy(e.lo[i])) /\ e.hi[i] # <<>> /\ DyEq(Dy(e.hi[i]), IntMax(e.t))

BoundsWhy(e) ==
  IF e.panic # 0 THEN "panic"
  ELSE IF IsIntT(e.t) /\ ~IntAccessorsOk(e) THEN "max-accessor-differs-from-documentation"
  ELSE IF e.node \in {"cam16ucsjab", "cam16ucsjmh"} /\ ~(\A i \in DOMAIN e.lo : AccessorAgrees(DocBounds[e.node][i][1], e.lo[i], e.t)
                                                                               /\ AccessorAgrees(DocBounds[e.node][i][2], e.hi[i], e.t))
       THEN "max-accessor-differs-from-documentation"
  \* transparency: Alpha::min_alpha() = 0 and max_alpha() = 1 (logged last when the colour carries alpha)
  ELSE IF e.alpha = 1 /\ ~IsIntT(e.t) /\ ~(e.lo[Len(e.lo)] = <<0, 0>> /\ e.hi[Len(e.hi)] = <<1, 0, 1>>) THEN "alpha-accessor-differs-from-documentation"
  ELSE IF ~(AllFin(e.clamp) /\ AllFin(e.clamp_assign) /\ AllFin(e.slice) /\ AllFin(e.clamp2)) THEN "non-finite"
  ELSE LET c == DySeq(e["in"])  cl == DySeq(e.clamp)
           hi == EffHi(e.node, e.hi)  sb == SB(e.node, e.hi)
       IN IF ~WithinFlagOk(e.node, e.t, c, e.lo, hi, sb, e.within_in) THEN "within-flag-wrong"
          ELSE IF ~ClampOk(e.node, e.t, c, e.lo, hi, sb, cl) THEN "clamp-value-wrong"
          ELSE IF e.clamp_assign # e.clamp \/ e.slice # e.clamp THEN "forms-disagree"
          ELSE IF e.within_out # 1 \/ e.within_out_assign # 1 THEN "clamped-not-within"
          \* a slice of colours is within bounds iff every colour in it is (the clamped ones are, by the line above)
          ELSE IF "slice_within" \in DOMAIN e /\ e.slice_within # <<e.within_in, e.within_in, e.within_in, 1>> THEN "slice-within-bounds-differs"
          ELSE IF e.clamp2 # e.clamp THEN "not-idempotent"
          ELSE IF Within(e.node, c, e.lo, hi) /\ e.clamp # e["in"] THEN "inbounds-changed"
          \* self-consistency inside a documented slack band, where the model accepts either flag: a colour that REPORTS
          \* itself within bounds is "an in-bounds colour" and clamping must leave it unchanged
          ELSE IF e.within_in = 1 /\ e.clamp # e["in"] THEN "reports-within-but-clamp-changes"
          ELSE "ok"

(* the same three conversions between the Alpha-wrapped forms of the two types (`a` is the transparency of the input): *)
(* transparency rides along unchanged, clamps to [min_alpha, max_alpha] on its own and counts in the checked verdict     *)
AlphaConvWhy(e) ==
  IF "au" \notin DOMAIN e THEN "alpha-target-conversions-missing"
  ELSE LET n == Len(e.u)
           au == DySeq(e.au)  hi == EffHi(e.to, e.ahi)  sb == SB(e.to, e.ahi)
       IN IF SubSeq(e.au, 1, n) # e.u \/ e.au[n + 1] # e.a THEN "alpha-conversion-changes-colour-or-alpha"
          ELSE IF ~AllFin(e.ac) THEN "non-finite"
          ELSE IF ~ClampOk(e.to, e.t, au, e.alo, hi, sb, DySeq(e.ac)) THEN "alpha-from_color-not-clamp-of-unclamped"
          ELSE IF SubSeq(e.ac, 1, n) # e.c THEN "alpha-from_color-colour-differs-from-plain"
          ELSE IF ~WithinFlagOk(e.to, e.t, au, e.alo, hi, sb, e.at_ok) THEN "alpha-try_from_color-verdict-wrong"
          ELSE IF e.atv # e.au THEN "alpha-try_from_color-value-differs"
          ELSE "ok"

Conv3Why(e) ==
  IF e.panic # 0 THEN "panic"
  ELSE IF e.fin = 0 THEN "ok"            \* non-finite unclamped result: outside this property (C07)
  ELSE LET u == DySeq(e.u)  c == DySeq(e.c)
           hi == EffHi(e.to, e.hi)  sb == SB(e.to, e.hi)
       IN IF ~AllFin(e.c) THEN "non-finite"
          ELSE IF ~ClampOk(e.to, e.t, u, e.lo, hi, sb, c) THEN "from_color-not-clamp-of-unclamped"
          ELSE IF ~WithinFlagOk(e.to, e.t, u, e.lo, hi, sb, e.t_ok) THEN "try_from_color-verdict-wrong"
          ELSE IF e.tv # e.u THEN "try_from_color-value-differs"
          \* the same self-consistency: the checked conversion succeeded, so the unclamped result is in bounds and clamping keeps it
          ELSE IF e.t_ok = 1 /\ e.c # e.u THEN "checked-ok-but-clamping-conversion-differs"
          \* whole containers (Vec, Box<[_]>) converted by the clamping conversion: element for element the same value
          ELSE IF "cvec" \in DOMAIN e /\ (e.cvec # e.c \/ e.cbox # e.c) THEN "container-from_color-differs"
          \* the Into* mirror images and the in-place guards (into_color_mut on a value and on a slice, unclamped on a value)
          ELSE IF "ic" \in DOMAIN e /\ (e.ic # e.c \/ e.iu # e.u \/ e.itv # e.tv \/ e.it_ok # e.t_ok) THEN "into-form-differs-from-from-form"
          ELSE IF "cmut" \in DOMAIN e /\ (e.cmut # e.c \/ e.cmuts # e.c \/ e.umut # e.u) THEN "in-place-guard-differs"
          ELSE IF "a" \in DOMAIN e THEN AlphaConvWhy(e)
          ELSE "ok"

ConstsWhy(e) ==
  IF \E i \in DOMAIN e.lo : ~AccessorAgrees(DocBounds[e.node][i][1], e.lo[i], e.t) THEN "min-accessor-differs-from-documentation"
  ELSE IF \E i \in DOMAIN e.hi : ~AccessorAgrees(DocBounds[e.node][i][2], e.hi[i], e.t) THEN "max-accessor-differs-from-documentation"
  ELSE IF Len(e.lo) # NComp(e.node) THEN "component-count"
  ELSE "ok"

(* documented accessor values that bound nothing: CAM16-UCS a', b' of the sRGB gamut (-50 .. 50), and the chroma that
   covers all of L*a*b* (the diagonal of the a*, b* square: its square is 2 * 128^2) *)
AccWhy(e) ==
  LET v == e.vals  bits == IF e.t = "f32" THEN 22 ELSE 50 IN
  IF ~FxNear(FxOf(v.cam16ucsjab_min_srgb_a), DocFx(Q(-50, 1)), 100, bits) \/ ~FxNear(FxOf(v.cam16ucsjab_min_srgb_b), DocFx(Q(-50, 1)), 100, bits)
     THEN "min-accessor-differs-from-documentation"
  ELSE IF ~FxNear(FxOf(v.cam16ucsjab_max_srgb_a), DocFx(Q(50, 1)), 100, bits) \/ ~FxNear(FxOf(v.cam16ucsjab_max_srgb_b), DocFx(Q(50, 1)), 100, bits)
     THEN "max-accessor-differs-from-documentation"
  ELSE IF ~FxNear(FxMul(FxOf(v.lch_max_extended_chroma), FxOf(v.lch_max_extended_chroma)), DocFx(Q(32768, 1)), 100, bits - 2)
     THEN "max-accessor-differs-from-documentation"
  ELSE "ok"

Why(e) == CASE e.ev = "bounds" -> BoundsWhy(e)
            [] e.ev = "conv3" -> (IF "missing" \in DOMAIN e THEN "ok" ELSE Conv3Why(e))
            [] e.ev = "consts" -> ConstsWhy(e)
            [] e.ev = "acc" -> AccWhy(e)

TInit == l = 1
TNext == /\ l <= Len(Rec)
         /\ LET w == Why(Rec[l]) IN IF w = "ok" THEN TRUE ELSE PrintT(<<"REJECT", l, w>>)
         /\ l' = l + 1
TSpec == TInit /\ [][TNext]_l
Consumed == TLCGet("stats").diameter = Len(Rec) + 1 \/ PrintT(<<"UNCONSUMED", TLCGet("stats").diameter>>)
=============================================================================
