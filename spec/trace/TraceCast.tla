------------------------------ MODULE TraceCast ------------------------------
(* Trace validation for C04.  A recording is a sequence of scenarios; each     *)
(* starts with a `reset` event describing the colour type and the initial       *)
(* buffer as the harness OBSERVED it (built by field name), followed by one     *)
(* `cast` event per palette call with the observation of the returned buffer:   *)
(* form, unit, length, observed capacity, whether its address is the            *)
(* scenario's original address, its flat contents read back as tokens, the      *)
(* error kind, and size_of / align_of of the element type.                      *)
(* Every call must be a step of Cast.tla and the observation must equal the      *)
(* model's next state; the model's invariants are evaluated along the trace.     *)
EXTENDS Cast, Json, IOUtils, TLC

Rec == ndJsonDeserialize(IOEnv.TRACE)

VARIABLES l,       \* next line of the recording
          skip,    \* TRUE after a rejected line, until the next reset
          csize,   \* size_of one component of the scenario's colour type
          calign   \* align_of one component

tvars == <<vars, l, skip, csize, calign>>

TInit == /\ InitWith("arr", 1, "value", "colour", 1, 1)
         /\ l = 1 /\ skip = FALSE /\ csize = 1 /\ calign = 1

(* TLC breaks a printed tuple over several lines once it is longer than 80 characters, and the driver reads
   REJECT lines one by one: the REJECT tuple is kept short and what the model expected goes into ONE string *)
Reject(line, expected) ==
  /\ PrintT("MODEL|" \o ToString(line) \o "|" \o ToJson(expected))
  /\ PrintT(<<"REJECT", line>>)

(* observation of a buffer = the model's buffer; layout: an element is USize components wide and aligned
   like a component (size_of and align_of of both sides of every cast agree) *)
Observed(e, b, cs, ca) ==
  IF b.form = "dead"
  THEN e.form = "dead"
  ELSE /\ e.form = b.form /\ e.unit = b.unit
       /\ e.len = b.len /\ e.cap = b.cap
       /\ e.addr = b.addr
       /\ e.data = b.data
       /\ e.elsize = USize(b.unit, b.n) * cs
       /\ e.elalign = ca

ModelStep(e) ==
  CASE e.op = "into_array" -> IntoArray(e.api, e.m)
    [] e.op = "from_array" -> FromArray(e.api, e.m)
    [] e.op = "into_component" -> IntoComponent(e.api, e.m)
    \* the reported reason is the logged one when it is one of the two (the model decides whether it is a true one)
    [] e.op = "try_from_component" -> TryFromComponentK(e.api, e.m, IF e.err = CAPACITY THEN CAPACITY ELSE LENGTH)
    [] e.op = "from_component" -> FromComponent(e.api, e.m)
    [] e.op = "into_uint" -> IntoUint(e.api, e.m)
    [] e.op = "from_uint" -> FromUint(e.api, e.m)
    [] e.op = "map" -> MapInPlace
    [] e.op = "ref_as_slice" -> RefAsSlice
    [] e.op = "try_slice_as_ref" -> TrySliceAsRef

(* a scenario starts: the type's fields as the harness names them (in the order it numbered them) must be the
   declared order of the specification's table, and the initial buffer must read back as 1, 2, 3, ... *)
TReset ==
  /\ l <= Len(Rec) /\ Rec[l].ev = "reset"
  /\ LET e == Rec[l]
         b == [form |-> e.form, unit |-> e.unit, n |-> e.n, len |-> e.len, cap |-> e.cap,
               data |-> Iota(e.len * USize(e.unit, e.n)), addr |-> IF e.form \in ByValue THEN 0 ELSE 1]
         ok == /\ e.fam \in {"arr", "uint"}
               /\ e.names = Declared(e.base, e.wrap)
               /\ Len(e.names) = e.n
               /\ Observed(e, b, e.csize, e.calign)
     IN /\ fam' = e.fam /\ buf' = b /\ orig' = b /\ maps' = 0
        /\ ret' = [op |-> "init", api |-> 0, err |-> OK, pre |-> b]
        /\ csize' = e.csize /\ calign' = e.calign
        /\ IF ok THEN skip' = FALSE
           ELSE skip' = TRUE /\ Reject(l, [declared |-> Declared(e.base, e.wrap), err |-> OK, buf |-> b])
  /\ l' = l + 1

TCall ==
  /\ l <= Len(Rec) /\ Rec[l].ev = "cast" /\ ~skip
  /\ ModelStep(Rec[l])
  /\ IF Observed(Rec[l], buf', csize, calign) /\ Rec[l].err = ret'.err THEN skip' = FALSE
     ELSE skip' = TRUE /\ Reject(l, [err |-> ret'.err, buf |-> buf'])
  /\ l' = l + 1 /\ UNCHANGED <<csize, calign>>

TSkip ==
  /\ l <= Len(Rec) /\ Rec[l].ev = "cast" /\ skip
  /\ UNCHANGED <<vars, skip, csize, calign>> /\ l' = l + 1

TNext == TReset \/ TCall \/ TSkip
TSpec == TInit /\ [][TNext]_tvars

Consumed == TLCGet("stats").diameter = Len(Rec) + 1 \/ PrintT(<<"UNCONSUMED", TLCGet("stats").diameter>>)
TInv == CastInv
=============================================================================
