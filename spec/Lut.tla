-------------------------------- MODULE Lut --------------------------------
(***************************************************************************)
(* C05 - the integer fast paths  f32 -> u8  and  f32 -> u16  as integer    *)
(* arithmetic on the bit pattern (BIT-EXACT), the decoders and the generic *)
(* float curves as relations (Transfer.tla).                               *)
(*                                                                         *)
(* An f32 input is the pair (neg, mag): sign bit and the low 31 bits of    *)
(* its pattern (TLC integers are 32-bit signed).  For non-NaN patterns of  *)
(* one sign, the order of mag is the order of |value|.                     *)
(*                                                                         *)
(* The algorithm (Giesen's float->sRGB8, generalised by palette):          *)
(*   clamp the input to [min_float, 1 - 2^-24]; NaN and everything not     *)
(*   greater than min_float become min_float;                              *)
(*   i = (bits - min_bits) div 2^(23 - IW)     segment: exponent and the   *)
(*                                             top IW mantissa bits        *)
(*   t = (bits div 2^(23 - IW - BW)) mod 2^BW  position inside the segment *)
(*   entry = table[i] = bias field : scale field  (BW*2 bits each)         *)
(*   code = (bias * 2^(BW+1) + scale * t) div 2^(2 BW)                     *)
(* with (IW, BW) = (3, 8) for u8 and (7, 16) for u16; the u16 path has a   *)
(* linear toe below min_float computed in f32 arithmetic:                  *)
(*   code = low 16 bits of the pattern of (linear_scale * x + 2^23).       *)
(*                                                                         *)
(* IMPLEMENTATION DATA.  Tables, MIN_FLOAT, LINEAR_SCALE and the decode    *)
(* tables are dumped from the compiled code (hook H2) into the JSON file   *)
(* named by the environment variable LUT_CONSTS (u8 entries pre-split into *)
(* 16-bit halves, u64 entries into 32-bit halves as BigNat limbs); they    *)
(* are never typed in.  REFERENCE DATA: the upper clamp MaxBits = 1 - 2^-24 *)
(* is part of the published algorithm and is NOT read from the code.       *)
(***************************************************************************)
EXTENDS Transfer, Json, IOUtils

C == JsonDeserialize(IOEnv.LUT_CONSTS)
Encs8 == DOMAIN C.u8
Encs16 == DOMAIN C.u16

INF == 2139095040              \* 0x7f800000
MaxBits == 1065353215          \* 0x3f7fffff = 1 - 2^-24
OneBits == 1065353216          \* 0x3f800000 = 1.0
TwoTo23 == 8388608
IsNaNMag(mag) == mag > INF

-----------------------------------------------------------------------------
(* exact value of a non-negative, finite f32 pattern, as a Dy *)
F32Val(b) == LET E == b \div TwoTo23  F == b % TwoTo23
             IN IF b = 0 THEN DyZero
                ELSE IF E = 0 THEN DyMul(DyFromInt(F), DyPow2(-149))
                ELSE DyMul(DyFromInt(F + TwoTo23), DyPow2(E - 150))

(* round a non-negative exact dyadic to f32, to nearest, ties to even (IEEE 754; what `as f32` and every f32
   operation do): the pattern of the result *)
RoundF32Bits(d) ==
  IF DyIsZero(d) THEN 0
  ELSE LET lg == DyLog2(d)
       IN IF lg >= 128 THEN INF
          ELSE LET u == IF lg - 23 >= -149 THEN lg - 23 ELSE -149         \* exponent of the unit in the last place
                   sc == DyMul(d, DyPow2(-u))                             \* d / 2^u
                   n0 == DyTruncMag(sc)
                   fr2 == DyMulInt(DySub(sc, <<IF n0 = <<>> THEN 0 ELSE 1, 0, n0>>), 2)
                   c == DyCmp(fr2, DyFromInt(1))
                   n == ToNat(n0) + (IF c > 0 \/ (c = 0 /\ IsOdd(n0)) THEN 1 ELSE 0)
               IN IF lg < -126 THEN n                                     \* subnormal (n = 2^23: smallest normal)
                  ELSE (lg + 126) * TwoTo23 + n                           \* n in [2^23, 2^24]; carries into the exponent

-----------------------------------------------------------------------------
(* f32 -> u8 *)
Min8(e) == C.u8[e].min
Len8(e) == Len(C.u8[e].hi)
Clamp8(e, neg, mag) == IF IsNaNMag(mag) \/ neg = 1 \/ mag <= Min8(e) THEN Min8(e)
                       ELSE IF mag > MaxBits THEN MaxBits ELSE mag
Index8(e, b) == (b - Min8(e)) \div 1048576
T8(b) == (b \div 4096) % 256
(* before the final `as u8` *)
Raw8(e, i, t) == (C.u8[e].hi[i + 1] * 512 + C.u8[e].lo[i + 1] * t) \div 65536
RawAt8(e, b) == Raw8(e, Index8(e, b), T8(b))
Encode8(e, neg, mag) == RawAt8(e, Clamp8(e, neg, mag)) % 256

(* classes: 4096 consecutive patterns share (i, t) when min_bits is a multiple of 4096 *)
NClasses8(e) == (MaxBits - Min8(e)) \div 4096 + 1
ClassFirst8(e, c) == Min8(e) + 4096 * c
ClassOf8(e, b) == (b - Min8(e)) \div 4096
RawOfClass8(e, c) == RawAt8(e, ClassFirst8(e, c))

-----------------------------------------------------------------------------
(* f32 -> u16 *)
Min16(e) == C.u16[e].min
Len16(e) == Len(C.u16[e].bias)
Clamp16(neg, mag) == IF IsNaNMag(mag) \/ neg = 1 THEN 0 ELSE IF mag > MaxBits THEN MaxBits ELSE mag
(* the table part, before the final `as u16`: a BigNat *)
Raw16(e, i, t) == Shr(Add(Shl(C.u16[e].bias[i + 1], 17), Mul(C.u16[e].scale[i + 1], FromNat(t))), 32)
Index16(e, b) == (b - Min16(e)) \div 65536
RawAt16(e, b) == Raw16(e, Index16(e, b), b % 65536)
(* the toe: two f32 operations, each rounded to nearest even *)
Toe16(e, b) ==
  LET p == RoundF32Bits(DyMul(F32Val(C.u16[e].ls), F32Val(b)))
      s == IF p >= INF THEN INF ELSE RoundF32Bits(DyAdd(F32Val(p), DyFromInt(TwoTo23)))
  IN s % 65536
Encode16(e, neg, mag) == LET b == Clamp16(neg, mag)
                         IN IF b < Min16(e) THEN Toe16(e, b) ELSE ModSmall(RawAt16(e, b), 65536)

-----------------------------------------------------------------------------
(* either width, by name *)
IsEnc(e) == e \in Encs8 \/ e \in Encs16
Encode(e, neg, mag) == IF e \in Encs8 THEN Encode8(e, neg, mag) ELSE Encode16(e, neg, mag)
MaxCode(e) == IF e \in Encs8 THEN 255 ELSE 65535

(* f64 input: `linear as f32`, then the f32 path.  j is the logged number. *)
EncodeF64(e, j) ==
  IF IsNaN(j) THEN Encode(e, 0, INF + 1)
  ELSE IF IsPosInf(j) THEN Encode(e, 0, INF)
  ELSE IF IsNegInf(j) THEN Encode(e, 1, INF)
  ELSE LET d == Dy(j) IN Encode(e, IF d[1] < 0 THEN 1 ELSE 0, RoundF32Bits(DyAbs(d)))

(* the neighbours of an input in the order of the real numbers; -0 and +0 are one number *)
PosOK(x) == x[1] \in {0, 1} /\ x[2] >= 0 /\ x[2] <= INF
Succ(x) == IF x[1] = 1 THEN (IF x[2] = 0 THEN <<0, 1>> ELSE <<1, x[2] - 1>>) ELSE <<0, x[2] + 1>>
Pred(x) == IF x[1] = 0 THEN (IF x[2] = 0 THEN <<1, 1>> ELSE <<0, x[2] - 1>>) ELSE <<1, x[2] + 1>>
IsLowest(x) == x = <<1, INF>>
IsHighest(x) == x = <<0, INF>>
PosLe(x, y) == IF x[1] = 1 THEN (y[1] = 0 \/ x[2] >= y[2]) ELSE (y[1] = 0 /\ x[2] <= y[2])

(* the model is constant = code on the whole run [first, last] (real-number order).  u8: every class the run touches;
   u16: both ends of every table segment the run touches (inside a segment the code is floor of a non-decreasing
   linear function of the pattern, so equal ends mean constant) and both ends of the toe part (the toe is a
   composition of two roundings of increasing functions, hence non-decreasing). *)
RunConstant(e, first, last, code) ==
  LET lo == IF first[1] = 1 THEN 0 ELSE first[2]          \* the non-negative part of the run
      hi == last[2]
  IN /\ Encode(e, first[1], first[2]) = code /\ Encode(e, last[1], last[2]) = code
     /\ last[1] = 0 =>
          IF e \in Encs8
          THEN LET b0 == Clamp8(e, 0, lo)  b1 == Clamp8(e, 0, hi)
               IN \A c \in ClassOf8(e, b0)..ClassOf8(e, b1) : RawOfClass8(e, c) % 256 = code
          ELSE LET b0 == Clamp16(0, lo)  b1 == Clamp16(0, hi)  mn == Min16(e)
               IN /\ (b0 < mn => Toe16(e, b0) = code /\ Toe16(e, IF b1 < mn THEN b1 ELSE mn - 1) = code)
                  /\ (b1 >= mn =>
                        LET s0 == IF b0 < mn THEN mn ELSE b0
                        IN \A i \in Index16(e, s0)..Index16(e, b1) :
                             LET a == IF mn + 65536 * i < s0 THEN s0 ELSE mn + 65536 * i
                                 z == IF mn + 65536 * i + 65535 > b1 THEN b1 ELSE mn + 65536 * i + 65535
                             IN Encode16(e, 0, a) = code /\ Encode16(e, 0, z) = code)

(* [first, last] is a maximal run of the model with value code *)
RunMaximal(e, first, last, code) ==
  /\ (IsLowest(first) \/ Encode(e, Pred(first)[1], Pred(first)[2]) # code)
  /\ (IsHighest(last) \/ Encode(e, Succ(last)[1], Succ(last)[2]) # code)
RunOK(e, first, last, code) ==
  /\ PosOK(first) /\ PosOK(last) /\ PosLe(first, last)
  /\ RunConstant(e, first, last, code)
  /\ RunMaximal(e, first, last, code)

-----------------------------------------------------------------------------
(* The machine.  The library has no state; `last` records the last operation the model accepted and `prev` the
   previous point of the float curve being traversed (monotonicity is a property of the history).  One action per
   public operation, enabled iff the observation agrees with the model / satisfies the relation. *)
VARIABLES last, prev
vars == <<last, prev>>

NoPrev == <<"none", "", "", DyZero, DyZero>>
Init == last = "none" /\ prev = NoPrev

(* FromLinear<f32, u8|u16>::from_linear and the raw table function *)
FromLinearInt(e, neg, mag, code) ==
  /\ IsEnc(e) /\ code = Encode(e, neg, mag)
  /\ last' = "from_linear_int" /\ UNCHANGED prev
(* FromLinear<f64, u8|u16>::from_linear *)
FromLinearIntF64(e, j, code) ==
  /\ IsEnc(e) /\ code = EncodeF64(e, j)
  /\ last' = "from_linear_int_f64" /\ UNCHANGED prev
(* a whole run of equal outputs of from_linear: it is a run of the model, and the code is within 0.6 of
   max * f(x) at both ends (hence on all of it; inputs below 0 / above 1 are judged at 0 / 1) *)
RunEnds(first, lst) == <<IF first[1] = 1 THEN DyZero ELSE F32Val(first[2]),
                         IF lst[1] = 1 THEN DyZero ELSE F32Val(IF lst[2] >= OneBits THEN OneBits ELSE lst[2])>>
RunFaithful(e, first, lst, code) ==
  LET x == RunEnds(first, lst) IN RunWithin06(RunVerdicts(e, MaxCode(e), code, x[1], x[2]))
FromLinearRun(e, first, lst, code) ==
  /\ IsEnc(e) /\ RunOK(e, first, lst, code) /\ RunFaithful(e, first, lst, code)
  /\ last' = "from_linear_run" /\ UNCHANGED prev
(* IntoLinear<f32, _> and IntoLinear<f64, _>::into_linear of code k: both values (Dy) are on the curve and encode
   back to k.  When the f32 value is the f64 value rounded to f32 it inherits the verdict of the f64 value (its
   distance from it, 2^-25 relative, is far inside the f32 tolerance), which saves a second evaluation of the powers. *)
DecodedOK(e, k, x32, x64) ==
  /\ x32[1] >= 0 /\ x64[1] >= 0
  /\ DecodeOK(e, "f64", MaxCode(e), k, x64)
  /\ DyEq(x32, F32Val(RoundF32Bits(x64))) \/ DecodeOK(e, "f32", MaxCode(e), k, x32)
IntoLinearInt(e, k, x32, x64, back32, back64) ==
  /\ IsEnc(e) /\ DecodedOK(e, k, x32, x64) /\ back32 = k /\ back64 = k
  /\ last' = "into_linear_int" /\ UNCHANGED prev
(* FromLinear<T, T> (dir "enc": v linear, w encoded) and IntoLinear<T, T> (dir "dec": v encoded, w linear),
   with the value obtained by applying the opposite function to w *)
CurvePoint(curve, t, dir, v, w, back) ==
  /\ curve \in Curves /\ dir \in {"enc", "dec"}
  /\ IF dir = "enc" THEN CurveOK(curve, t, v, w) ELSE CurveOK(curve, t, w, v)
  /\ RoundTripOK(curve, t, dir, v, back)
Continues(curve, t, dir) == prev[1] = curve /\ prev[2] = t /\ prev[3] = dir
FloatCurve(curve, t, dir, v, w, back) ==
  /\ CurvePoint(curve, t, dir, v, w, back)
  /\ Continues(curve, t, dir) => DyLe(prev[4], v) /\ MonotoneOK(curve, t, dir, prev[4], prev[5], v, w)
  /\ prev' = <<curve, t, dir, v, w>> /\ last' = "float_curve"
StartCurve == prev' = NoPrev /\ last' = "start_curve"
(* Rgb / Luma forms: literally the component-wise computation *)
Form(got, want) == got = want /\ last' = "form" /\ UNCHANGED prev

TypeOK == last \in {"none", "from_linear_int", "from_linear_int_f64", "from_linear_run", "into_linear_int",
                    "float_curve", "start_curve", "form"}
=============================================================================
