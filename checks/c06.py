"""C06 - component number-format conversion saturates, rounds to nearest and round-trips.
Spec: spec/Stimulus.tla (the contract on exact values: integer codes as limb numbers, floats as the exact dyadics
they denote; every clause decided by integer arithmetic). MC_Stimulus checks the contract itself on all u8 codes and
lattices of the wider integers and of floats (satisfiable, implies the round trips, monotone reference, wrong answers
rejected) and hands its lattice inputs to the harness; harness/src/bin/stim.rs calls palette's IntoStimulus /
FromStimulus for every ordered pair of the seven formats and the into_format / from_format of Rgb, Rgba, Luma, Lumaa;
TraceStimulus.tla judges every recorded call. The thorough tier adds exhaustive sweeps of f32 -> u8/u16 (all 2^32 bit
patterns) and u32 -> u8/u16 (all 2^32 codes) recorded as runs of equal output.
The Python arithmetic in this file only produces coordinates, groupings and calibration figures for the evidence file;
the verdict on every event is TLC's."""
import json, os, subprocess, fcntl, time
from fractions import Fraction as F
from common import *

INTS = {"u8": 8, "u16": 16, "u32": 32, "u64": 64, "u128": 128}
FLOATS = {"f32": 24, "f64": 53}


# ----------------------------------------------------------------------------- build

def build_sweep(timeout=1800):
    """the same bin with real optimisation (profile `sweep`, opt-level 3) for the 2^32-input sweeps"""
    lock = open(HARNESS / ".build.lock", "w")
    fcntl.flock(lock, fcntl.LOCK_EX)
    try:
        env = dict(os.environ, CARGO_NET_OFFLINE="true", CARGO_TERM_COLOR="never")
        t = time.time()
        try:
            r = subprocess.run(["cargo", "build", "--profile", "sweep", "--offline", "--bin", "stim"], cwd=HARNESS, env=env,
                               stdout=subprocess.PIPE, stderr=subprocess.STDOUT, text=True, timeout=timeout)
        except subprocess.TimeoutExpired:
            raise ToolError("cargo build --profile sweep timed out")
        if r.returncode != 0:
            errs = [l for l in r.stdout.splitlines() if l.startswith("error")]
            raise ToolError("sweep build failed (%s)\n%s" % ("; ".join(errs[:5]), "\n".join(r.stdout.splitlines()[-30:])))
        log("cargo build --profile sweep stim: %.1fs" % (time.time() - t))
    finally:
        fcntl.flock(lock, fcntl.LOCK_UN)
        lock.close()
    return str(HARNESS / "target" / "sweep" / "stim")


# ----------------------------------------------------------------------------- model

def model_run(ctx):
    # vacuity control on every 25th case of each kind with -coverage (coverage slows the bignum arithmetic down 2-3x) ...
    r = tlc_mc(ctx, "MC_Stimulus", constants={"Emit": "FALSE", "Stride": 25}, tag="stim_model_cov", workers=6)
    zero = coverage_zero_actions(r.out_path, {"Stimulus", "MC_Stimulus"})
    if zero:
        raise ToolError("vacuity: actions never taken in MC_Stimulus: %s" % zero)
    # ... and every case without; the lattice inputs are printed for the harness
    r = tlc_mc(ctx, "MC_Stimulus", constants={"Emit": "TRUE", "Stride": 1}, tag="stim_model", workers=6, coverage=False,
               timeout=1500)
    cases = [json.loads(s) for s in extract_prints(r.out_path, "REPLAY")]
    if len(cases) < 400:
        raise ToolError("MC_Stimulus printed only %d cases" % len(cases))
    path = ctx.p("model_cases.json")
    with open(path, "w") as f:
        json.dump(cases, f)
    return path, len(cases)


# ----------------------------------------------------------------------------- numbers (coordinates and calibration only)

def fr(j):
    """exact value of a logged number (None for NaN, +-inf as floats)"""
    if j[0] == 2:
        return None
    if j[0] in (3, -3):
        return float("inf") if j[0] > 0 else float("-inf")
    m = 0
    for i, limb in enumerate(j[2:]):
        m += limb << (13 * i)
    return F(j[0] * m) * F(8192) ** j[1]


def show(j):
    v = fr(j)
    if v is None:
        return "NaN"
    if isinstance(v, float):
        return repr(v)
    if v.denominator == 1 and abs(v) < 10 ** 40:
        return str(v.numerator)
    return repr(dy_to_float(j))


def flog2(v):
    n, d = v.numerator, v.denominator
    lg = n.bit_length() - d.bit_length()
    return lg - 1 if F(2) ** lg > v else lg


def work_prec(a, b):
    return 24 if a != "f64" and (a == "f32" or INTS[a] <= 24) and INTS.get(b, 99) <= 24 else 53


def deviation(e):
    """(class, deviation in the unit its tolerance is expressed in) of an accepted stim event, or None"""
    a, b = e["from"], e["to"]
    x, y = fr(e["in"]), fr(e["out"])
    if x is None or y is None or isinstance(x, float) or isinstance(y, float):
        return None
    if a in FLOATS and b in INTS:
        if not (0 < x < 1):
            return None
        v = x * ((1 << INTS[b]) - 1)
        ulp = F(2) ** (max(flog2(v), 0) - (work_prec(a, b) - 1))
        return ("f2u.beyond_half_step_ulps", float(max(abs(y - v) - F(1, 2), 0) / ulp))
    if a in INTS and b in FLOATS:
        if x == 0:
            return None
        return ("u2f.rel_err_over_u", float(abs(y * ((1 << INTS[a]) - 1) - x) / x * 2 ** FLOATS[b]))
    if a in INTS and b in INTS and INTS[b] < INTS[a]:
        ms, mt = (1 << INTS[a]) - 1, (1 << INTS[b]) - 1
        v = x * mt / ms
        if v < 1:
            return None
        ulp = F(2) ** (flog2(v) - (work_prec(a, b) - 1))
        return ("narrow.beyond_half_step_ulps", float(max(abs(y - v) - F(1, 2), 0) / ulp))
    if a == "f64" and b == "f32" and x != 0 and abs(x) > F(2) ** -126:
        return ("f2f.err_ulps", float(abs(y - x) / F(2) ** (flog2(abs(x)) - 23)))
    return None


def calibrate(trace_path, bad_lines, every=1):
    mx = {}
    with open(trace_path) as f:
        for i, line in enumerate(f):
            if i % every or not line.startswith('{"ev":"stim"') or i in bad_lines:
                continue
            e = json.loads(line)
            d = deviation(e)
            if d and (d[0] not in mx or d[1] > mx[d[0]][0]):
                mx[d[0]] = (d[1], "%s -> %s of %s" % (e["from"], e["to"], show(e["in"])))
    return {k: {"max": round(v[0], 4), "at": v[1]} for k, v in sorted(mx.items())}


# ----------------------------------------------------------------------------- rejected events -> findings

REASONS = {
    "stim: outside the contract": "the result is outside the contract (saturation at 0 / MAX, nearest integer of value x MAX within one rounding, exact ends, exact widening)",
    "pair: not monotone": "two calls with in1 <= in2 gave out1 > out2",
    "rt: round trip is not the identity": "a -> b -> a did not reproduce the original value",
    "fmt: outside the contract": "a component converted by the colour type's into_format/from_format is outside the contract",
    "fmt: differs from component-wise": "the colour type's into_format/from_format differs from the component-wise conversion",
    "step: run outside the contract": "exhaustive sweep: a run of inputs maps to a code the contract does not admit at one of its ends",
    "step: gap or decrease": "exhaustive sweep: the output decreases from one run to the next",
    "stepend: sweep did not reach the end": "exhaustive sweep: the recording does not cover the whole line",
    "stepover: not a monotone step function": "exhaustive sweep: a block has decreases or more runs than codes",
    "nans: a NaN did not give MAX": "a NaN bit pattern did not convert to MAX",
    "no step of the specification matches this line": "no action of the specification matches the event",
}


def f32_at(idx):
    import struct
    i = idx[0] * 65536 + idx[1]
    bits = (0x80000000 | (0x7f800000 - i)) if i <= 0x7f800000 else i - 0x7f800001
    return struct.unpack("<f", struct.pack("<I", bits))[0]


def inputs_of(ev):
    """float views of the inputs of an event that may be to blame (coordinates only)"""
    k = ev.get("ev")
    if k == "stim" or k == "rt":
        return [(ev["in"], ev.get("out"))]
    if k == "pair":
        return [(ev["in1"], ev["out1"]), (ev["in2"], ev["out2"])]
    if k == "fmt":
        return list(zip(ev["in"], ev["out"] or [None] * len(ev["in"])))
    return []


def classify(ev):
    a, b = ev.get("from") or ev.get("a"), ev.get("to") or ev.get("b")
    if ev.get("ev") == "rt":
        return "round-trip"
    if ev.get("ev") in ("nans", "stepend"):
        return "sweep"
    if a in FLOATS and b in ("u64", "u128"):
        return "float-to-u64-u128-wrong"
    if a in FLOATS and b in INTS:
        if ev.get("ev") in ("step", "stepover"):
            xs = [f32_at(ev[k]) for k in ("fi", "li", "lo", "hi") if k in ev]
            return "large-negative-not-zero" if xs and all(x < 0 for x in xs) else "float-to-uint"
        neg = [dy_to_float(i) for (i, o) in inputs_of(ev) if i[0] == -1 and o is not None and o[0] not in (0,)]
        if neg:
            return "large-negative-not-zero"
        return "float-to-uint"
    if a in INTS and b in FLOATS:
        return "uint-to-float"
    if a in INTS and b in INTS:
        return "uint-widening" if INTS[b] > INTS[a] else ("uint-narrowing" if INTS[b] < INTS[a] else "identity")
    return "float-to-float"


def describe(ev):
    k = ev.get("ev")
    p = " PANIC %s" % ev.get("msg", "") if ev.get("panic") else ""
    if k == "stim":
        return "%s -> %s: %s gives %s%s" % (ev["from"], ev["to"], show(ev["in"]), show(ev["out"]), p)
    if k == "pair":
        return "%s -> %s: %s gives %s but %s gives %s" % (ev["from"], ev["to"], show(ev["in1"]), show(ev["out1"]), show(ev["in2"]), show(ev["out2"]))
    if k == "rt":
        return "%s -> %s -> %s: %s gives %s gives %s%s" % (ev["a"], ev["b"], ev["a"], show(ev["in"]), show(ev["mid"]), show(ev["out"]), p)
    if k == "fmt":
        return "%s<%s>::%s_format::<%s>: %s gives %s, component-wise %s%s" % (
            ev["ty"], ev["from"], ev["via"], ev["to"], [show(x) for x in ev["in"]], [show(x) for x in ev["out"]], [show(x) for x in ev["cw"]], p)
    if k == "step":
        at = (lambda i: repr(f32_at(i))) if ev["from"] == "f32" else (lambda i: str(i[0] * 65536 + i[1]))
        return "%s -> %s sweep: every input from %s to %s gives %d (previous run: %d)" % (ev["from"], ev["to"], at(ev["fi"]), at(ev["li"]), ev["code"], ev["pcode"])
    if k == "stepover":
        at = (lambda i: repr(f32_at(i))) if ev["from"] == "f32" else (lambda i: str(i[0] * 65536 + i[1]))
        return "%s -> %s sweep: block %s (%s .. %s) has %d runs, %d decreases" % (ev["from"], ev["to"], ev["block"], at(ev["lo"]), at(ev["hi"]), ev["runs"], ev["dec"])
    return json.dumps(ev)[:300]


PREFERRED = [1.0, 0.5, -0.26, -1e10, -4e4, -1e20, 0.25, 0.75, -1e30, -1e300]


def simplicity(ev):
    """representatives are the events a reader recognises: single calls first, on the inputs of DESIGN.md section 7 when
    they are among the rejected ones, else on the shortest input"""
    rank = {"stim": 0, "rt": 1, "pair": 2, "fmt": 3, "step": 4, "stepover": 5}.get(ev.get("ev"), 6)
    xs = [dy_to_float(i) for (i, _) in inputs_of(ev)]
    pref = min((PREFERRED.index(x) for x in xs if x in PREFERRED), default=len(PREFERRED))
    return (rank, pref, min((len(repr(x)) for x in xs), default=99), len(json.dumps(ev)))


def report_grouped(ctx, rejected):
    """Thousands of events fail for one reason on a defective tree: one finding per (class, from, to), with counts, a
    few examples and the simplest event as the replay."""
    groups = {}
    for (line, ev, info, _scen) in rejected:
        why = info.strip().strip('"')
        key = (classify(ev), ev.get("from") or ev.get("a"), ev.get("to") or ev.get("b"))
        groups.setdefault(key, []).append((simplicity(ev), line, ev, why))
    for key in sorted(groups, key=lambda k: (k[0], str(k[1]), INTS.get(k[2], 0), str(k[2]))):
        evs = sorted(groups[key], key=lambda t: t[0])
        _, line, ev, why = evs[0]
        kinds = {}
        for (_, _, e, _) in evs:
            kinds[e["ev"]] = kinds.get(e["ev"], 0) + 1
        ex = []
        for (_, _, e, _) in evs:
            if e["ev"] == "stim" and len(ex) < 4 and describe(e) not in ex:
                ex.append(describe(e))
        x0 = None
        for (i, _) in inputs_of(ev):
            x0 = dy_to_float(i)
            break
        coords = {"kind": "stim", "class": key[0], "from": key[1], "to": key[2], "ev": ev.get("ev"), "x": x0}
        what = "%s [%s] - %s; %d rejected events in this group (%s)%s" % (
            describe(ev), key[0], REASONS.get(why, why), len(evs), ", ".join("%s %d" % kv for kv in sorted(kinds.items())),
            ("; also: " + "; ".join(ex[1:])) if len(ex) > 1 else "")
        report(ctx, coords, what, {"bin": "stim", "event": ev, "trace_line": line, "reason": why, "how": "./check C06 --replay <this file>"})
    return {"%s %s->%s" % k: len(v) for k, v in groups.items()}


# ----------------------------------------------------------------------------- run

def deal(paths, out, chunk):
    """Events are independent, so their order is free: deal them round-robin over the validation chunks so that the
    expensive ones (1e300, subnormals, u128) do not all land in one TLC process. Streaming (thorough recordings are large)."""
    n = 0
    for p in paths:
        with open(p) as f:
            for _ in f:
                n += 1
    k = max(1, -(-n // chunk))
    parts = [open("%s.part%04d" % (out, j), "w") for j in range(k)]
    i = 0
    for p in paths:
        with open(p) as f:
            for line in f:
                parts[i % k].write(line)
                i += 1
    with open(out, "w") as o:
        for j, pf in enumerate(parts):
            pf.close()
            with open(pf.name) as f:
                for line in f:
                    o.write(line)
            os.unlink(pf.name)
    return n


def no_wrapped_rejects(ctx, tag):
    for out in ctx.work.glob(tag + ".chunk*.tlc.out"):
        for line in open(out):
            if line.startswith('<< "REJECT"'):
                raise ToolError("wrapped REJECT line in %s: shorten the reason texts of TraceStimulus.tla" % out)


def nontrivial(e):
    k = e.get("ev")
    if k in ("stim", "pair", "fmt"):
        return e["from"] != e["to"]
    return True


def run(ctx):
    bins = cargo_build(["stim"])
    # the model run (6 TLC workers) proceeds while the recording of palette is made and validated
    pool = ThreadPoolExecutor(max_workers=1)
    model = pool.submit(model_run, ctx)
    recs, stats = [], {}
    tp = ctx.p("stim.ndjson")
    r = run_bin(bins["stim"], ["--tier", ctx.tier, "--out", tp], env={"VERIF_SEED": ctx.seed})
    stats["calls"] = json.loads((r.stderr or "{}").strip().splitlines()[-1])
    recs.append(tp)
    if not ctx.quick:
        sweep_bin = build_sweep()
        tp = ctx.p("stim.sweep.ndjson")
        r = run_bin(sweep_bin, ["--tier", ctx.tier, "--sweep-only", "--threads", min(12, max(2, NCPU - 4)), "--out", tp])
        stats["sweeps"] = json.loads((r.stderr or "{}").strip().splitlines()[-1])
        recs.append(tp)
    dealt = ctx.p("stim.dealt.ndjson")
    n = sum(1 for p in recs for _ in open(p))
    jobs = min(8 if ctx.quick else 12, max(2, NCPU - 8))          # the model run holds 6 cores meanwhile
    chunk = max(4000, -(-n // jobs)) if ctx.quick else 20000
    deal(recs, dealt, chunk)
    res = validate_trace(ctx, "TraceStimulus", dealt, stateless=True, chunk_events=chunk, jobs=jobs, tag="stim")
    no_wrapped_rejects(ctx, "stim")
    # spec -> code: the model's own lattice inputs, executed by the harness and judged the same way
    try:
        cases, n_cases = model.result()
    finally:
        pool.shutdown(wait=True)
    tp = ctx.p("stim.cases.ndjson")
    r = run_bin(bins["stim"], ["--cases", cases, "--out", tp])
    stats["model_cases"] = json.loads((r.stderr or "{}").strip().splitlines()[-1])
    res2 = validate_trace(ctx, "TraceStimulus", tp, stateless=True, chunk_events=4000, tag="stimcases")
    no_wrapped_rejects(ctx, "stimcases")
    ctx.cov["traces_validated_against_impl"] += res.events - len(res.rejected) + res2.events - len(res2.rejected)
    add_samples(ctx, dealt, n=5, every=7919)
    groups = report_grouped(ctx, res.rejected + res2.rejected)
    cal = calibrate(dealt, {r[0] for r in res.rejected}, every=1 if ctx.quick else 5)
    ctx.cov["distinct_nontrivial"] = count_distinct(
        dealt, lambda e: json.dumps([e.get(k) for k in ("ev", "from", "to", "a", "b", "ty", "via", "in", "in1", "in2", "fi", "li", "block", "count")]), nontrivial)
    ctx.cov["distinct_nontrivial"] += count_distinct(tp, lambda e: json.dumps([e.get(k) for k in ("ev", "from", "to", "in")]), nontrivial)
    sweeps = {}
    if not ctx.quick:
        with open(recs[-1]) as f:
            for line in f:
                e = json.loads(line)
                if e["ev"] == "stepend":
                    sweeps["%s->%s" % (e["from"], e["to"])] = {"runs": e["runs"], "inputs": 0xff000002 if e["from"] == "f32" else 1 << 32}
                elif e["ev"] == "nans":
                    sweeps["f32 NaN->%s" % e["to"]] = {"inputs": e["count"], "not_max": e["bad"]}
    return finish(ctx, "model_checking",
                  rule="a case is one conversion call (ordered pair of formats, exact input), one pair of calls on neighbouring "
                       "inputs (monotonicity), one round trip, one colour-type into_format/from_format call, or one run of an "
                       "exhaustive sweep; distinct by that tuple; non-trivial when source and target format differ",
                  explanation="Stimulus.tla states the contract on exact values (limb integers, exact dyadics): saturation at 0 and "
                              "MAX incl. NaN and the infinities, nearest integer of value x MAX within one rounding of the product "
                              "(53 significant bits for the 64/128-bit targets), exact ends, exact widening (bit replication), "
                              "narrowing within one rounding, monotonicity, the statement's round trips. TLC checks the contract on "
                              "the model (all u8, lattices of wider integers and floats: satisfiable, implies the round trips, "
                              "rejects wrong answers), hands %d lattice inputs to the harness, and validates every recorded call of "
                              "palette for all 49 ordered pairs (TraceStimulus.tla)%s." % (
                                  n_cases, "" if ctx.quick else "; the thorough tier records f32->u8/u16 over all 2^32 bit patterns and "
                                  "u32->u8/u16 over all 2^32 codes as runs of equal output, each run judged at both ends and linked to its "
                                  "predecessor, which settles saturation and monotonicity for every input"),
                  trusted=["the exact encoding of numbers in the harness (pvh::ex64 / exu, unit-tested)", "TLC, JVM, rustc",
                           "sweeps: that every input between the two recorded ends of a run gave the recorded code (a counter loop in "
                           "stim.rs); the tiling of the line by the runs is checked by TLC",
                           "grouping of rejected events into findings (class, from, to) is done in Python; each group's replay is one "
                           "TLC-rejected event"],
                  extra={"harness": stats, "rejected_by_group": groups, "max_deviation_observed": cal, "sweeps": sweeps,
                         "tolerances": {"RoundUlps": "float->int and f64->f32: half a code step + 4 ulp of the working precision "
                                                     "(f32 for f32->u8/u16, else f64 = the statement's 53 significant bits)",
                                        "NarrowUlps": "int->narrower int: half a code step + 16 ulp of the working precision",
                                        "U2FBits": "int->float: relative 16 u (u = 2^-Prec) + one subnormal unit",
                                        "widening, identity, ends (0, MAX / 1.0), NaN/inf saturation, round trips": "exact"}})


def replay(ctx, path):
    rp = json.load(open(path))["replay"]
    ev = rp["event"]
    heavy = ev.get("ev") in ("step", "stepover", "stepend", "nans")
    binp = build_sweep() if heavy else cargo_build(["stim"])["stim"]
    tp = ctx.p("replay.ndjson")
    run_bin(binp, ["--one", json.dumps(ev), "--out", tp])
    res = validate_trace(ctx, "TraceStimulus", tp, stateless=True, tag="replay")
    no_wrapped_rejects(ctx, "replay")
    if res.rejected:
        print("VIOLATION property=C06 replay=%s" % path)
        print("  still rejected: %s - %s" % (describe(res.rejected[0][1]), res.rejected[0][2]))
        return 1
    print("replay accepted: %s" % describe(json.loads(open(tp).readline())))
    return 0
