SPECIFICATION MCSpec
CONSTANTS
  NT = 3
  MaxOps = 4
  MaxDepth = 3
  MaxCells = 2
  Emit = TRUE
INVARIANTS Inv EmitDone
CHECK_DEADLOCK FALSE
