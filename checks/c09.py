"""C09 - colour difference measures satisfy their defining formulas and metric laws; WCAG relative contrast.
Spec: spec/Diff.tla - relations on events diff(measure, type, c1, c2, out12, out21) and wcag(...): the laws (non-negative,
zero on identical colours, symmetric), the algebraic closed forms (sum of squares, root, the power laws of Huang et al. as
integer-power relations, HyAB, polar = rectangular), the WCAG ratio / range / threshold predicates, and the COMPLETE
CIEDE2000 formula of Sharma, Wu, Dalal (2005) with its hue case analysis, evaluated by TLC in 104-bit fixed point
(spec/lib/ExpSeries.tla: square root, quotient, exp, atan2, sine, cosine). MC_Diff validates the reference before the code
is consulted (the 34 published pairs to 4 decimals; symmetric, non-negative, zero on identical colours on a grid whose
pairs inhabit every feasible class of the hue case lattice) and emits the structured pairs; harness/src/bin/diff.rs calls
palette on them and on hue-discontinuity, achromatic, near, identical and seeded random pairs for
Lab/Lch/Luv/Oklab/Cam16UcsJab/Cam16UcsJmh/Rgb/Luma x f32/f64; TraceDiff.tla judges every recorded call.
The Python arithmetic in this file only describes rejected events (hue case of a pair, decimal values); the verdict is TLC's."""
import json, math, os, re, collections
from common import *

REASONS = {
    "panic": "palette panicked",
    "not finite": "the result is NaN or infinite for finite colours",
    "negative": "the measure is negative",
    "identical colours, not 0": "the measure of a colour with itself is not exactly 0",
    "asymmetric": "d(a, b) and d(b, a) disagree beyond rounding",
    "closed form": "the result does not satisfy the closed form of the measure",
    "improved dE00 # 1.43 dE00^0.7": "improved_difference is not 1.43 * difference^0.7",
    "dE00 differs from the Sharma reference": "CIEDE2000 differs from the reference formula of Sharma, Wu, Dalal (2005)",
    "polar # rectangular": "the polar (Lch / Jmh) result differs from the rectangular result on the converted colours",
    "conversion": "the colours converted for the polar measure are not the polar form of the inputs",
    "predicate # ratio >= constant": "a has_*_contrast_* predicate disagrees with the returned ratio compared with its documented constant",
    "identical colours, ratio # 1": "the contrast of a colour with itself is not exactly 1",
    "luminance outside [0, 1]": "relative luminance of an in-gamut colour outside [0, 1]",
    "ratio outside [1, 21]": "contrast ratio of in-gamut colours outside [1, 21]",
    "ratio # (Lmax+0.05)/(Lmin+0.05)": "the ratio is not (Lmax + 0.05) / (Lmin + 0.05) on the recorded relative luminances",
    "no step of the specification matches this line": "malformed event",
}


def fl(xs):
    return [dy_to_float(x) for x in xs]


def hue_case(ev):
    """which arm of the CIEDE2000 hue logic the pair is in (float arithmetic, description only)"""
    try:
        c1, c2 = fl(ev["c1"]), fl(ev["c2"])
        if ev["ty"] == "lch":
            c1 = [c1[0], c1[1] * math.cos(math.radians(c1[2])), c1[1] * math.sin(math.radians(c1[2]))]
            c2 = [c2[0], c2[1] * math.cos(math.radians(c2[2])), c2[1] * math.sin(math.radians(c2[2]))]
        cb = (math.hypot(c1[1], c1[2]) + math.hypot(c2[1], c2[2])) / 2
        g = 0.5 * (1 - math.sqrt(cb ** 7 / (cb ** 7 + 25.0 ** 7)))
        def hp(c):
            if c[1] == 0 and c[2] == 0:
                return None
            h = math.degrees(math.atan2(c[2], c[1] * (1 + g)))
            return h + 360 if h < 0 else h
        h1, h2 = hp(c1), hp(c2)
        if h1 is None or h2 is None:
            return "zero-chroma"
        if abs(h2 - h1) <= 180:
            return "narrow"
        return "wide-sum-lt-360" if h1 + h2 < 360 else "wide-sum-ge-360"
    except Exception:
        return "?"


def describe(ev):
    if ev.get("ev") == "wcag":
        return "%s<%s> %s contrast API: c1=%r c2=%r -> luminance %r ratio %r predicates %r / %r%s" % (
            ev["ty"], ev["t"], ev["api"], fl(ev["c1"]), fl(ev["c2"]), fl(ev["lum"]), fl(ev["ratio"]), ev["p12"], ev["p21"],
            " PANIC " + ev.get("msg", "") if ev.get("panic") else "")
    s = "%s<%s> %s: c1=%r c2=%r -> %r (swapped %r)" % (ev["ty"], ev["t"], ev["m"], fl(ev["c1"]), fl(ev["c2"]),
                                                       dy_to_float(ev["out"][0]), dy_to_float(ev["out"][1]))
    if ev.get("aux"):
        s += " aux=%r" % fl(ev["aux"])
    if ev.get("rect"):
        s += " rectangular=%r on %r, %r" % (fl(ev["rect"]), fl(ev["r1"]), fl(ev["r2"]))
    if ev.get("panic"):
        s += " PANIC " + ev.get("msg", "")
    return s


def coords_of(ev, why):
    d = {"kind": ev.get("ev"), "class": why, "ty": ev.get("ty"), "t": ev.get("t"), "src": ev.get("src")}
    if ev.get("ev") == "wcag":
        d["api"] = ev.get("api")
    else:
        d["m"] = ev.get("m")
        if ev.get("m") in ("de00", "ide00"):
            d["hue_case"] = hue_case(ev)
    return d


def model_run(ctx):
    """MC_Diff: validates the reference, emits the structured pairs; every feasible class of the hue lattice inhabited"""
    r = tlc_mc(ctx, "MC_Diff", constants={"Scales": "{1}" if ctx.quick else "{1, 3}", "Emit": "TRUE"}, tag="diff_model",
               workers=6, coverage=False, timeout=1500)
    pairs = [json.loads(s) for s in extract_prints(r.out_path, "REPLAY")]
    feas = [json.loads(s) for s in extract_prints(r.out_path, "FEASIBLE")]
    if not pairs or not feas:
        raise ToolError("MC_Diff printed no pairs / no feasible classes, see %s" % r.out_path)
    feasible = {tuple(c) for c in feas[0]}
    seen = collections.Counter(tuple(p["cls"]) for p in pairs)
    missing = feasible - set(seen)
    if missing or set(seen) - feasible:
        raise ToolError("vacuity: hue-logic classes (C1=0, C2=0, |dh|>180, h2<=h1, h1+h2<360) feasible but not inhabited: %s; "
                        "inhabited but not feasible: %s" % (sorted(missing), sorted(set(seen) - feasible)))
    n_sharma = sum(1 for p in pairs if p["want"] >= 0)
    if n_sharma != 34:
        raise ToolError("MC_Diff: %d published pairs instead of 34" % n_sharma)
    path = ctx.p("pairs.ndjson")
    with open(path, "w") as f:
        for p in sorted(pairs, key=lambda p: p["n"]):
            f.write(json.dumps(p) + "\n")
    return path, pairs, {"".join(map(str, k)): v for k, v in sorted(seen.items())}


def interleave(ctx, path, k):
    """Events are independent, so their order is free: deal them round-robin over the validation chunks so that the
    expensive ones (CIEDE2000) do not all land in one TLC process."""
    lines = open(path).readlines()
    out = ctx.p("diff.dealt.ndjson")
    with open(out, "w") as f:
        for j in range(k):
            f.writelines(lines[j::k])
    return out, len(lines)


def no_wrapped_rejects(ctx, tag):
    for out in ctx.work.glob(tag + ".chunk*.tlc.out"):
        for line in open(out):
            if line.startswith('<< "REJECT"'):
                raise ToolError("wrapped REJECT line in %s: shorten the reason texts of TraceDiff.tla" % out)


RE_N = re.compile(r'^"(\w+)", "(\w+)", "(\w+)", "(\w+)", (-?\d+), (\d+)$')


def worst_bits(notes):
    """NOTE lines: (measure | api, type, component type, kind, bits, line) -> smallest bits per (measure, component type, kind)"""
    mn = {}
    for s in notes:
        m = RE_N.match(s)
        if m:
            k = "%s/%s/%s" % (m.group(1), m.group(3), m.group(4))
            b = int(m.group(5))
            if k not in mn or b < mn[k][0]:
                mn[k] = (b, m.group(2))
    return {k: "%d (%s)" % v for k, v in sorted(mn.items())}


def run(ctx):
    bins = cargo_build(["diff"])
    pairs_path, pairs, classes = model_run(ctx)
    tp = ctx.p("diff.ndjson")
    r = run_bin(bins["diff"], ["--tier", ctx.tier, "--pairs", pairs_path, "--out", tp], env={"VERIF_SEED": ctx.seed})
    stats = json.loads((r.stderr or "{}").strip().splitlines()[-1])
    jobs = min(14, max(2, NCPU - 2))                # as validate_trace
    n = stats["events"]
    rounds = -(-n // (jobs * 20000))                # at most 20k events per TLC process, whole rounds of `jobs` processes
    chunk = max(500, -(-n // (jobs * rounds)))
    k = -(-n // chunk)
    tp2, n2 = interleave(ctx, tp, k)
    calib = os.environ.get("C09_CALIB") == "1"
    res = validate_trace(ctx, "TraceDiff", tp2, stateless=True, chunk_events=chunk, tag="diff", xmx="2g",
                         env={"CALIB": "1"} if calib else None, timeout=3000)
    no_wrapped_rejects(ctx, "diff")
    ctx.cov["traces_validated_against_impl"] += res.events - len(res.rejected)
    add_samples(ctx, tp2, n=5, every=4999)
    ctx.cov["distinct_nontrivial"] = count_distinct(
        tp2, lambda e: json.dumps([e.get("ev"), e.get("m") or e.get("api"), e["ty"], e["t"], e["c1"], e["c2"]]), lambda e: e["c1"] != e["c2"])
    for (line, ev, info, _scen) in res.rejected:
        why = info.strip().strip('"')
        report(ctx, coords_of(ev, why), "%s - %s" % (describe(ev), REASONS.get(why, why)),
               {"bin": "diff", "event": ev, "trace_line": line, "how": "./check C09 --replay <this file>"})
    wb = worst_bits(res.notes)
    if calib:
        for kk, v in wb.items():
            log("calibration: %-28s %s" % (kk, v))
    return finish(ctx, "model_checking",
                  rule="a case is one call of a difference measure or of the contrast API (measure, colour type, component type, "
                       "exact pair of colours), recorded with the result for the swapped pair; distinct by that tuple; non-trivial "
                       "when the two colours differ",
                  explanation="MC_Diff: the CIEDE2000 reference of Diff.tla reproduces the 34 published pairs of Sharma et al. to 4 "
                              "decimals and is symmetric, non-negative and zero on identical colours on %d grid pairs that inhabit all "
                              "%d feasible classes of the hue case lattice; the elementary functions and every relation are checked "
                              "against known exact and perturbed points. TraceDiff validates every recorded palette call: laws, closed "
                              "forms (integer-power relations), polar = rectangular, the full CIEDE2000 reference (pairs within "
                              "rounding of a 180 degree hue difference or of a mean hue of 0/360 may be on either side of the jump), "
                              "WCAG ratio, range and threshold predicates." % (len(pairs) - 34, len(classes)),
                  trusted=["the exact encoding of floats in the harness (pvh::ex64, unit-tested)", "TLC, JVM, rustc",
                           "the transcription of the CIEDE2000 formula in spec/Diff.tla (validated against the 34 published pairs)",
                           "spec/lib/ExpSeries.tla (fixed-point sqrt / exp / atan2 / sin / cos, cross-checked in MC_Diff)",
                           "thresholds and exclusion bands of spec/trace/TraceDiff.tla"],
                  extra={"per_measure": stats.get("per"), "panics": stats.get("panics"), "hue_classes_inhabited": classes,
                         "agreement_bits_within_4_of_threshold_or_calibration": wb,
                         "thresholds_bits": {"algebraic": "f64 46 / f32 18", "power": "f64 45 / f32 17", "de00": "f64 44 / f32 16 (relative to the coordinates)",
                                             "polar": "f64 44 / f32 16", "wcag": "f64 46 / f32 18",
                                             "bands": "180-degree and mean-hue-0 jumps: 2^-40 deg (f64), 2^-11 deg (f32)"}})


def replay(ctx, path):
    rp = json.load(open(path))["replay"]
    bins = cargo_build(["diff"])
    tp = ctx.p("replay.ndjson")
    run_bin(bins["diff"], ["--one", json.dumps(rp["event"]), "--out", tp])
    res = validate_trace(ctx, "TraceDiff", tp, stateless=True, tag="replay")
    no_wrapped_rejects(ctx, "replay")
    if res.rejected:
        print("VIOLATION property=C09 replay=%s" % path)
        print("  still rejected: %s - %s" % (describe(res.rejected[0][1]), res.rejected[0][2]))
        return 1
    print("replay accepted: %s" % describe(json.loads(open(tp).readline())))
    return 0
