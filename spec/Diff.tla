-------------------------------- MODULE Diff --------------------------------
(***************************************************************************)
(* C09 - colour difference measures satisfy their defining formulas and      *)
(* metric laws; WCAG relative contrast.                                      *)
(*                                                                         *)
(* Relations on events  diff(measure, type, c1, c2, out12, out21)  and        *)
(* wcag(type, c1, c2, lum1, lum2, ratio12, ratio21, predicates), written from  *)
(* the publications over the exact values the code consumed and produced       *)
(* (104-bit fixed point, modules Fx / Trig / ExpSeries).  A relation returns    *)
(* the number of BITS OF AGREEMENT between the recorded result and the          *)
(* defining formula; the trace specification compares it with a threshold per    *)
(* measure class and component type.                                          *)
(*                                                                         *)
(* Laws (every measure): out >= 0; out = 0 for identical colours; the result     *)
(* for the swapped pair agrees.                                               *)
(*                                                                         *)
(* Closed forms (all algebraic, no function is inverted):                       *)
(*   distance_squared = sum d_i^2                                             *)
(*   distance, Delta E*ab, Delta E' (CAM16-UCS) = its root:  out^2 = sum d^2     *)
(*   improved Delta E (Huang et al., "Power functions improving the performance   *)
(*     of color-difference formulas", Opt. Express 23 (2015), table 2; the        *)
(*     coefficients are the ones quoted in the doc comments of palette):          *)
(*       CIELAB     out = 1.26 DE^0.55   i.e.  out^40  = 1.26^40  (sum d^2)^11       *)
(*       CAM16-UCS  out = 1.41 DE^0.63   i.e.  out^200 = 1.41^200 (sum d^2)^63       *)
(*       CIEDE2000  out = 1.43 DE00^0.70 i.e.  out^10  = 1.43^10  DE00^7             *)
(*   HyAB (Abasi, Amani Tehran, Fairchild 2019): out = |dL| + sqrt(da^2 + db^2)     *)
(*   polar (Lch, Jmh) = rectangular on the converted colours                     *)
(*   CIEDE2000: the complete formula of G. Sharma, W. Wu, E. N. Dalal, "The         *)
(*     CIEDE2000 color-difference formula: implementation notes, supplementary      *)
(*     test data, and mathematical observations", Color Res. Appl. 30 (2005),       *)
(*     equations (2)-(22), with k_L = k_C = k_H = 1 - operator De00 below.          *)
(*   WCAG 2.1 contrast ratio (L_max + 0.05) / (L_min + 0.05), thresholds 4.5 / 3 /  *)
(*     7 / 4.5 / 3 (SC 1.4.3, 1.4.3 large, 1.4.6, 1.4.6 large, 1.4.11).             *)
(***************************************************************************)
EXTENDS ExpSeries, Sequences

(* bits of agreement of x and y relative to scale (> 0): -log2(|x - y| / scale), 200 if equal *)
AgreeBits(x, y, scale) == IF x = y THEN 200
                          ELSE LET d == IAbs(ISub(x, y)) IN BitLen(scale[2]) - BitLen(d[2])
MinI(a, b) == IF a <= b THEN a ELSE b
MaxI(a, b) == IF a >= b THEN a ELSE b
AtLeast(s, n) == FxMax(s, FxEps(n))              \* keeps a scale away from zero: 2^-n is the absolute floor
FxDy(f) == <<f[1], IF f[1] = 0 THEN 0 ELSE -FL, f[2]>>       \* a fixed-point value as an exact dyadic
DyOne == DyFromInt(1)

(* constants that are expensive to derive: built once by the trace / model specification and passed as `k` *)
DiffConsts == [ e |-> ExpConsts,
                p25_7 |-> FxPow(FxInt(25), 7),                     \* 25^7 = 6103515625
                c126_40 |-> FxPow(FxRat(126, 100), 40),
                c141_200 |-> FxPow(FxRat(141, 100), 200),
                c143_10 |-> FxPow(FxRat(143, 100), 10) ]

-----------------------------------------------------------------------------
(* laws *)
NonNegative(out) == IsFin(out) /\ out[1] >= 0
ZeroOnIdentical(c1, c2, out) == (c1 = c2) => (out[1] = 0)          \* the encoding of a float is canonical

-----------------------------------------------------------------------------
(* exact sum of squared component differences (sequences of Dy of equal length) *)
RECURSIVE SumSqFrom(_, _, _)
SumSqFrom(c1, c2, i) == IF i > Len(c1) THEN DyZero
                        ELSE LET d == DySub(c1[i], c2[i]) IN DyAdd(DyMul(d, d), SumSqFrom(c1, c2, i + 1))
SumSq(c1, c2) == SumSqFrom(c1, c2, 1)

(* relative agreement of two non-negative dyadics of any magnitude *)
RelBits(x, y) ==
  IF DyIsZero(x) /\ DyIsZero(y) THEN 200
  ELSE IF DyIsZero(x) \/ DyIsZero(y) \/ x[1] < 0 \/ y[1] < 0 THEN 0
  ELSE LET e == MaxI(DyLog2(x), DyLog2(y))
       IN AgreeBits(FxOfDy(DyMulPow2(x, -e)), FxOfDy(DyMulPow2(y, -e)), FxOne)

(* agreement of  out^q  with  c^q x^p  (cq = c^q), out and x non-negative dyadics of any magnitude:
   both are brought into [1, 2) by exact powers of two, out = o 2^a, x = t 2^b, and
   o^q 2^(q a - p b) is compared with c^q t^p.  The result is expressed for `out` itself:
   a relative error e of out is an error q e of out^q, so floor(log2 q) bits are given back. *)
Log2Floor(n) == BitLen(FromNat(n)) - 1
PowRelBits(cq, out, x, p, q) ==
  IF DyIsZero(out) /\ DyIsZero(x) THEN 200
  ELSE IF DyIsZero(out) \/ DyIsZero(x) \/ out[1] < 0 \/ x[1] < 0 THEN 0
  ELSE LET a == DyLog2(out)  b == DyLog2(x)
           o == FxOfDy(DyMulPow2(out, -a))
           t == FxOfDy(DyMulPow2(x, -b))
           lhs == FxPow(o, q)
           rhs == FxMul(cq, FxPow(t, p))
           s == q * a - p * b
       IN IF s > 400 \/ s < -400 THEN 0
          ELSE LET L == IF s > 0 THEN FxShl(lhs, s) ELSE lhs
                   R == IF s < 0 THEN FxShl(rhs, -s) ELSE rhs
               IN MinI(200, AgreeBits(L, R, FxMax(L, R)) + Log2Floor(q))

(* closed forms on rectangular coordinates; c1, c2 sequences of Dy, out a Dy *)
DistSqBits(out, c1, c2) == RelBits(out, SumSq(c1, c2))
RootBits(out, c1, c2) == PowRelBits(FxOne, out, SumSq(c1, c2), 1, 2)
ImprovedLabBits(k, out, c1, c2) == PowRelBits(k.c126_40, out, SumSq(c1, c2), 11, 40)
ImprovedCam16Bits(k, out, c1, c2) == PowRelBits(k.c141_200, out, SumSq(c1, c2), 63, 200)
Improved00Bits(k, out, plain) == PowRelBits(k.c143_10, out, plain, 7, 10)

(* HyAB: out = |dL| + sqrt(da^2 + db^2), lightness first *)
HyabBits(out, c1, c2) ==
  LET dl == FxAbs(FxOfDy(DySub(c1[1], c2[1])))
      e == FxSqrt(FxOfDy(DyAdd(DyMul(DySub(c1[2], c2[2]), DySub(c1[2], c2[2])), DyMul(DySub(c1[3], c2[3]), DySub(c1[3], c2[3])))))
      ref == FxAdd(dl, e)
      o == FxOfDy(out)
  IN AgreeBits(o, ref, AtLeast(FxMax(o, ref), 60))

-----------------------------------------------------------------------------
(* polar -> rectangular: (L, C, h) -> (L, C cos h, C sin h), C >= 0, h in degrees (any turn) *)
PolarToRect(k, c) == <<c[1], FxMul(c[2], CosDegK(k.e, c[3])), FxMul(c[2], SinDegK(k.e, c[3]))>>
(* a recorded conversion agrees with it, relative to the radius *)
ConvBits(k, pol, rect) ==
  LET r == PolarToRect(k, pol)
      s == AtLeast(FxMax(FxAbs(pol[2]), FxAbs(pol[1])), 20)
  IN MinI(AgreeBits(rect[1], r[1], s), MinI(AgreeBits(rect[2], r[2], s), AgreeBits(rect[3], r[3], s)))

-----------------------------------------------------------------------------
(* CIEDE2000, Sharma, Wu, Dalal (2005), section 2, equations numbered as in the paper.
   Inputs c = <<L*, a*, b*>> in fixed point.

   Step 1 - C'_i, h'_i:
     (2) C*_i = sqrt(a_i^2 + b_i^2)            (3) Cbar = (C*_1 + C*_2) / 2
     (4) G = 0.5 (1 - sqrt(Cbar^7 / (Cbar^7 + 25^7)))
     (5) a'_i = (1 + G) a_i                    (6) C'_i = sqrt(a'_i^2 + b_i^2)
     (7) h'_i = 0 if b_i = a'_i = 0, else atan2(b_i, a'_i) in degrees, in [0, 360)        *)
De00Primes(k, c1, c2) ==
  LET C1 == FxSqrt(FxAdd(FxSqr(c1[2]), FxSqr(c1[3])))
      C2 == FxSqrt(FxAdd(FxSqr(c2[2]), FxSqr(c2[3])))
      Cb7 == FxPow(FxHalf(FxAdd(C1, C2)), 7)
      G == FxHalf(FxSub(FxOne, FxSqrt(FxDiv(Cb7, FxAdd(Cb7, k.p25_7)))))
      a1p == FxMul(FxAdd(FxOne, G), c1[2])
      a2p == FxMul(FxAdd(FxOne, G), c2[2])
      z1 == FxIsZero(c1[2]) /\ FxIsZero(c1[3])
      z2 == FxIsZero(c2[2]) /\ FxIsZero(c2[3])
  IN [ C1 |-> C1, C2 |-> C2, a1p |-> a1p, a2p |-> a2p,
       C1p |-> FxSqrt(FxAdd(FxSqr(a1p), FxSqr(c1[3]))),
       C2p |-> FxSqrt(FxAdd(FxSqr(a2p), FxSqr(c2[3]))),
       z1 |-> z1, z2 |-> z2,
       h1p |-> IF z1 THEN FxZero ELSE Atan2Deg(k.e, c1[3], a1p),
       h2p |-> IF z2 THEN FxZero ELSE Atan2Deg(k.e, c2[3], a2p) ]

(* Steps 2 and 3.
     (8) dL' = L2 - L1        (9) dC' = C'_2 - C'_1
     (10) dh' = 0                 if C'_1 C'_2 = 0
              = h'_2 - h'_1        if |h'_2 - h'_1| <= 180
              = h'_2 - h'_1 - 360  if h'_2 - h'_1 > 180
              = h'_2 - h'_1 + 360  if h'_2 - h'_1 < -180
     (11) dH' = 2 sqrt(C'_1 C'_2) sin(dh' / 2)
     (12) Lbar' = (L1 + L2) / 2    (13) Cbar' = (C'_1 + C'_2) / 2
     (14) hbar' = (h'_1 + h'_2) / 2        if |h'_1 - h'_2| <= 180, C'_1 C'_2 # 0
                = (h'_1 + h'_2 + 360) / 2  if |h'_1 - h'_2| > 180, h'_1 + h'_2 < 360, C'_1 C'_2 # 0
                = (h'_1 + h'_2 - 360) / 2  if |h'_1 - h'_2| > 180, h'_1 + h'_2 >= 360, C'_1 C'_2 # 0
                = h'_1 + h'_2              if C'_1 C'_2 = 0
     (15) T = 1 - 0.17 cos(hbar' - 30) + 0.24 cos(2 hbar') + 0.32 cos(3 hbar' + 6) - 0.20 cos(4 hbar' - 63)
     (16) dtheta = 30 exp(-((hbar' - 275) / 25)^2)
     (17) R_C = 2 sqrt(Cbar'^7 / (Cbar'^7 + 25^7))
     (18) S_L = 1 + 0.015 (Lbar' - 50)^2 / sqrt(20 + (Lbar' - 50)^2)
     (19) S_C = 1 + 0.045 Cbar'    (20) S_H = 1 + 0.015 Cbar' T    (21) R_T = -sin(2 dtheta) R_C
     (22) dE00 = sqrt((dL'/S_L)^2 + (dC'/S_C)^2 + (dH'/S_H)^2 + R_T (dC'/S_C) (dH'/S_H))

   The formula jumps in two places, and near them the recorded result may lie on either side:
     flip = TRUE evaluates the OTHER side of the case split at |h'_2 - h'_1| = 180 (both in (10) and (14));
     wrap = +1 / -1 adds / subtracts a whole turn to hbar' (hbar' lies in [0, 360) and wraps around at a mean
            hue of 0 degrees; T is periodic but the Gaussian in (16) is not, so dE00 has a second, small jump
            there - at most 5e-6 relative).
   The regular formula is flip = FALSE, wrap = 0.                                                       *)
De00Tail(k, c1, c2, P, flip, wrap) ==
  LET zero == P.z1 \/ P.z2
      dL == FxSub(c2[1], c1[1])
      dC == FxSub(P.C2p, P.C1p)
      hd == FxSub(P.h2p, P.h1p)
      wide0 == FxLt(Fx180, FxAbs(hd))
      wide == IF flip THEN ~wide0 ELSE wide0
      dh == IF zero THEN FxZero
            ELSE IF ~wide THEN hd
            ELSE IF FxLt(FxZero, hd) THEN FxSub(hd, Fx360T)          \* h'_2 - h'_1 > 180
            ELSE FxAdd(hd, Fx360T)                                    \* h'_2 - h'_1 < -180
      dH == FxMul(FxMulInt(FxSqrt(FxMul(P.C1p, P.C2p)), 2), SinDegK(k.e, FxHalf(dh)))
      Lb == FxHalf(FxAdd(c1[1], c2[1]))
      Cbp == FxHalf(FxAdd(P.C1p, P.C2p))
      hsum == FxAdd(P.h1p, P.h2p)
      hbar0 == IF zero THEN hsum
               ELSE IF ~wide THEN FxHalf(hsum)
               ELSE IF FxLt(hsum, Fx360T) THEN FxHalf(FxAdd(hsum, Fx360T))
               ELSE FxHalf(FxSub(hsum, Fx360T))
      hbar == FxAdd(hbar0, FxInt(360 * wrap))
      T == FxSub(FxAdd(FxAdd(FxSub(FxOne,
                                   FxMul(FxRat(17, 100), CosDegK(k.e, FxSub(hbar, FxInt(30))))),
                             FxMul(FxRat(24, 100), CosDegK(k.e, FxMulInt(hbar, 2)))),
                       FxMul(FxRat(32, 100), CosDegK(k.e, FxAdd(FxMulInt(hbar, 3), FxInt(6))))),
                 FxMul(FxRat(20, 100), CosDegK(k.e, FxSub(FxMulInt(hbar, 4), FxInt(63)))))
      dtheta == FxMulInt(FxExpNeg(FxSqr(FxDivInt(FxSub(hbar, FxInt(275)), 25))), 30)
      Cbp7 == FxPow(Cbp, 7)
      RC == FxMulInt(FxSqrt(FxDiv(Cbp7, FxAdd(Cbp7, k.p25_7))), 2)
      x2 == FxSqr(FxSub(Lb, FxInt(50)))
      SL == FxAdd(FxOne, FxDiv(FxMul(FxRat(15, 1000), x2), FxSqrt(FxAdd(FxInt(20), x2))))
      SC == FxAdd(FxOne, FxMul(FxRat(45, 1000), Cbp))
      SH == FxAdd(FxOne, FxMul(FxMul(FxRat(15, 1000), Cbp), T))
      RT == FxNeg(FxMul(SinDegK(k.e, FxMulInt(dtheta, 2)), RC))
      tl == FxDiv(dL, SL)
      tc == FxDiv(dC, SC)
      th == FxDiv(dH, SH)
      sq == FxAdd(FxAdd(FxSqr(tl), FxSqr(tc)), FxAdd(FxSqr(th), FxMul(RT, FxMul(tc, th))))
  IN [ de |-> FxSqrt(sq),                         \* sq is a positive definite form (|R_T| < 2): never negative
       hdabs |-> FxAbs(hd), hbar |-> hbar0, zero |-> zero, wide |-> wide0,
       le |-> FxLe(P.h2p, P.h1p), lt360 |-> FxLt(hsum, Fx360T) ]

(* the regular formula, as a function *)
De00Full(k, c1, c2) == De00Tail(k, c1, c2, De00Primes(k, c1, c2), FALSE, 0)
De00(k, c1, c2) == De00Full(k, c1, c2).de

(* Agreement of recorded results (a sequence of fixed-point values: the result, the result for the swapped
   pair, ...) with the reference, relative to the magnitude of the coordinates (the formula subtracts chromas
   and hues of that magnitude, so that is what rounding errors scale with).  `band` (degrees) is the width
   around the two jumps inside which the other side is accepted as well. *)
CoordScale(c1, c2) == AtLeast(FxMax(FxMax(FxAbs(c1[1]), FxAbs(c2[1])),
                                    FxMax(FxMax(FxAbs(c1[2]), FxAbs(c1[3])), FxMax(FxAbs(c2[2]), FxAbs(c2[3])))), 10)
RECURSIVE WorstBits(_, _, _, _)
WorstBits(outs, ref, s, i) == IF i > Len(outs) THEN 200 ELSE MinI(AgreeBits(outs[i], ref, s), WorstBits(outs, ref, s, i + 1))
NearWrap(r, band) == ~r.zero /\ (FxLe(r.hbar, band) \/ FxLe(FxSub(Fx360T, band), r.hbar))
NearWrapZ(r, band) == FxLe(r.hbar, band) \/ FxLe(FxSub(Fx360T, band), r.hbar)
De00SideBits(k, c1, c2, P, flip, outs, s, band) ==
  LET r == De00Tail(k, c1, c2, P, flip, 0)
      b0 == WorstBits(outs, r.de, s, 1)
  IN IF NearWrapZ(r, band)
     THEN MaxI(b0, WorstBits(outs, De00Tail(k, c1, c2, P, flip, IF FxLe(r.hbar, band) THEN 1 ELSE -1).de, s, 1))
     ELSE b0
De00Bits(k, c1, c2, outs, band) ==
  LET P == De00Primes(k, c1, c2)
      s == CoordScale(c1, c2)
      r == De00Tail(k, c1, c2, P, FALSE, 0)
      near180 == ~r.zero /\ FxLe(FxAbs(FxSub(r.hdabs, Fx180)), band)
      reg == De00SideBits(k, c1, c2, P, FALSE, outs, s, band)
  IN IF near180 THEN MaxI(reg, De00SideBits(k, c1, c2, P, TRUE, outs, s, band)) ELSE reg

-----------------------------------------------------------------------------
(* WCAG 2.1: contrast ratio = (L_max + 0.05) / (L_min + 0.05) on the relative luminances;
   judged as  ratio (L_min + 0.05) = L_max + 0.05 *)
ContrastBits(ratio, l1, l2) ==
  LET mn == FxMin(l1, l2)  mx == FxMax(l1, l2)
      lhs == FxMul(ratio, FxAdd(mn, FxRat(5, 100)))
      rhs == FxAdd(mx, FxRat(5, 100))
  IN AgreeBits(lhs, rhs, AtLeast(FxMax(FxAbs(lhs), FxAbs(rhs)), 10))
(* success criteria, in the order has_min_contrast_text (SC 1.4.3, 4.5:1), has_min_contrast_large_text (SC 1.4.3, 3:1),
   has_enhanced_contrast_text (SC 1.4.6, 7:1), has_enhanced_contrast_large_text (SC 1.4.6, 4.5:1),
   has_min_contrast_graphics (SC 1.4.11, 3:1): twice the constant, to stay in the integers *)
WcagTwice == <<9, 6, 14, 9, 6>>
(* each predicate is exactly the comparison of the RETURNED ratio (a dyadic) with its constant; p: sequence of 0/1 *)
PredicatesAgree(ratio, p) ==
  /\ Len(p) = Len(WcagTwice)
  /\ \A i \in DOMAIN WcagTwice : (p[i] = 1) <=> DyLe(DyFromInt(WcagTwice[i]), DyMulInt(ratio, 2))
InGamut(c) == \A i \in DOMAIN c : c[i][1] >= 0 /\ DyLe(c[i], DyOne)
(* 1 <= ratio <= 21 up to `ulps` units in the last place of the component type with `prec` bits (21 < 32 = 2^5) *)
RatioInRange(ratio, prec, ulps) == DyLe(DyOne, ratio) /\ DyLe(ratio, DyAdd(DyFromInt(21), DyMulInt(DyPow2(5 - prec), ulps)))
LumInRange(lum) == lum[1] >= 0 /\ DyLe(lum, DyOne)
=============================================================================
