"""C10 - colour operators obey their algebra and all their variants agree.
Spec: spec/Ops.tla (exact semantics of mix / lighten / saturate / hue shift and set / arithmetic / colour schemes on the
dyadic numbers the floats denote, the capability table, and the "same call, same result" machine of DESIGN 3.4).
MC_Ops proves the algebra on the model (end points, factor saturation, betweenness, shorter way round, monotone toward the
limit and reaching it at 1, range preservation, untouched components, darken = lighten(-f)) exhaustively on a grid.
The harness (harness/src/bin/ops.rs) runs every operator of every colour type x f32/f64 in every form that exists and
TraceOps.tla judges every recorded call: the by-value form against the model, every other form bit for bit against the
by-value form. The Python arithmetic in this file only produces calibration figures for the evidence; the verdict is TLC's."""
import json
from fractions import Fraction as F
from common import *
from colours import NODES
OPS_EXTRA = {"cam16ucsjab": [(0, 100), (-50, 50), (-50, 50)], "cam16ucsjmh": [(0, 100), (0, 50), None]}    # operator driver only

B = 8192
SECTIONS = '{"mix", "mixhue", "inc", "colour", "scheme", "arith", "machine"}'


def expected_states(ncol):
    """blocks + cases of MC_Ops (one state each) + the 26 states of its machine section"""
    return (36 + 288) + (100 + 800) + (18 + 288) + (3 * ncol + 432 * ncol) + (30 + 90) + (36 + 36) + 26


def model_run(ctx):
    # vacuity: the named actions of the model are all taken. -coverage builds a cost model of every invariant and runs out
    # of memory on the bignum theorems, so this run (MC_Ops_cov.cfg) carries the machine invariant only; that every case
    # of the theorem grid is reached is guarded by the state count below and by ASSUME Witnesses in MC_Ops.tla
    r = tlc_mc(ctx, "MC_Ops", cfg="MC_Ops_cov.cfg", tag="ops_model_cov", workers=2, xmx="2g")
    zero = coverage_zero_actions(r.out_path, {"Ops", "MC_Ops"})
    if zero:
        raise ToolError("vacuity: actions never taken in MC_Ops: %s" % zero)
    ncol = 4 if ctx.quick else 8
    r = tlc_mc(ctx, "MC_Ops", constants={"NCol": ncol, "Secs": SECTIONS}, tag="ops_model", workers=6, coverage=False, timeout=1500)
    if r.distinct != expected_states(ncol):
        raise ToolError("MC_Ops enumerated %d states, expected %d: a section of the grid was not reached" % (r.distinct, expected_states(ncol)))
    return ncol


# ----------------------------------------------------------------------------- calibration (evidence only)

def fr(j):
    if j[0] in (2, 3, -3):
        return None
    m = 0
    for i, limb in enumerate(j[2:]):
        m += limb << (13 * i)
    return F(j[0] * m) * F(B) ** j[1]


HUE_IDX = {"lch": 2, "lchuv": 2, "oklch": 2, "cam16ucsjmh": 2, "hsluv": 0, "okhsl": 0, "okhsv": 0, "okhwb": 0, "hsl": 0, "hsv": 0, "hwb": 0}
LIGHT_IDX = {"xyz": (0, 1, 2), "linsrgb": (0, 1, 2), "srgb": (0, 1, 2), "yxy": (2,), "hsluv": (2,), "okhsl": (2,), "okhsv": (2,),
             "hsl": (2,), "hsv": (2,)}


def circ(d):
    r = d - 360 * (d // 360)
    return min(r, 360 - r)


def clampf(x, lo, hi):
    return lo if x < lo else hi if x > hi else x


def calibrate(trace_path, every=1):
    """largest deviation of a by-value result from the exact model, in units of 2^-Prec * M (the unit of Ops!Tol)"""
    mx = {}

    def up(k, v, e):
        if k not in mx or v > mx[k][0]:
            mx[k] = (v, e)
    n = 0
    with open(trace_path) as f:
        for line in f:
            if '"form":"val"' not in line:
                continue
            n += 1
            if n % every:
                continue
            e = json.loads(line)
            if e.get("panic") or not e["out"]:
                continue
            u = F(1, 2 ** (24 if e["t"] == "f32" else 53))
            a = [fr(x) for x in e["in"]]
            o = [fr(x) for x in e["out"][0]]
            if any(v is None for v in a + o):
                continue
            fam, node, m = e["fam"], e["node"], e["m"]
            h = HUE_IDX.get(node)
            if fam == "Mix":
                b = [fr(x) for x in e["in2"]]
                fc = clampf(fr(e["args"][0]), 0, 1)
                for i in range(len(a)):
                    if i == h:
                        d = b[i] - a[i]
                        r = d - 360 * (d // 360)
                        if r > 180:
                            r -= 360
                        M = max(abs(a[i]), abs(b[i]), abs(d), 360)
                        dev = min(circ(o[i] - (a[i] + rr * fc)) for rr in ([r] if abs(r) != 180 else [180, -180]))
                        up("mix.hue", float(dev / (u * M)), e)
                    else:
                        M = max(abs(a[i]), abs(b[i]), abs(b[i] - a[i]))
                        if M:
                            up("mix.component", float(abs(o[i] - (a[i] + (b[i] - a[i]) * fc)) / (u * M)), e)
                            lo_, hi_ = min(a[i], b[i]), max(a[i], b[i])
                            up("mix.outside_inputs", float(max(lo_ - o[i], o[i] - hi_, 0) / (u * M)), e)
            elif fam in ("Lighten", "Saturate") and node not in ("hwb", "okhwb"):
                fct = fr(e["args"][0])
                idx = LIGHT_IDX.get(node, (0,)) if fam == "Lighten" else (1,)
                for i in idx:
                    lo_, hi_ = fr(e["lo"][i]), fr(e["hi"][i])
                    if m in ("lighten", "saturate"):
                        raw = a[i] + (max(hi_ - a[i], 0) if fct >= 0 else max(a[i] - lo_, 0)) * fct
                    else:
                        raw = a[i] + (hi_ - lo_) * fct
                    M = max(abs(a[i]), abs(lo_), abs(hi_), abs(raw))
                    up("increase." + m, float(abs(o[i] - clampf(raw, lo_, hi_)) / (u * M)), e)
            elif fam in ("Add", "Sub", "Mul"):
                for i in range(len(a)):
                    y = fr(e["in2"][i]) if e["in2"] else fr(e["args"][0])
                    ex = a[i] + y if fam == "Add" else a[i] - y if fam == "Sub" else a[i] * y
                    M = max(abs(a[i]), abs(y), abs(ex))
                    if M:
                        up("arith." + fam, float(abs(o[i] - ex) / (u * M)), e)
            elif fam == "ShiftHue":
                s = a[h] + fr(e["args"][0])
                up("shift_hue", float(circ(o[h] - s) / (u * max(abs(a[h]), abs(fr(e["args"][0])), abs(s), 360))), e)
    return {k: round(v[0], 4) for k, v in sorted(mx.items())}


# ----------------------------------------------------------------------------- reporting

REASONS = {
    "mix-value": "the mixed colour differs from a + (b - a) * clamp(f, 0, 1) (hue: by the shorter signed difference) beyond rounding",
    "mix-not-between": "the mixed colour is not between the two inputs (hue: not on the shorter arc between the two hues)",
    "value": "the affected component differs from the documented formula (towards the limit by the factor, clamped) beyond rounding",
    "leaves-range": "an in-range colour and an amount in [-1, 1] gave an affected component outside its documented range",
    "not-monotone": "along increasing factors the affected component moved back from its limit",
    "touched-other-component": "a component the operator does not affect changed",
    "hue-not-set": "with_hue did not store the given hue",
    "hue-shift-value": "the shifted hue is not hue + amount modulo 360",
    "scheme-hue": "a colour of the scheme is not the documented rotation of the hue",
    "scheme-lab": "a colour of the scheme is not the documented negation / quarter turn of (a, b)",
    "scheme-size": "the scheme returned the wrong number of colours",
    "arith-value": "a component differs from the correctly rounded arithmetic result",
    "non-finite": "a finite in-range input gave a non-finite component",
    "inputs-differ-from-group": "harness error: a variant was recorded with inputs that differ from its group's by-value call",
    "differs-from-by-value": "this form returned a different colour than the by-value form on the bare colour (bit for bit)",
    "alpha-touched": "the wrapper changed the transparency although the operator does not concern it",
    "alpha-not-mixed-linearly": "the wrapper did not mix the transparency linearly with the clamped factor",
    "alpha-not-clamped": "the wrapper did not clamp the transparency to [0, 1]",
    "alpha-arith-value": "the wrapper did not apply the arithmetic operation to the transparency",
    "alpha-assign-differs": "the assigning form on Alpha differs from the by-value form on Alpha (bit for bit, transparency included)",
    "prealpha-assign-differs": "the assigning form on PreAlpha differs from the by-value form on PreAlpha (bit for bit)",
    "panic": "palette panicked",
    "capability-table-differs": "the operator families this colour type implements differ from the table in Ops.tla",
    "min-accessor-differs-from-documentation": "a min_ accessor differs from the documented bound",
    "max-accessor-differs-from-documentation": "a max_ accessor differs from the documented bound",
}


def vals(xs):
    return [dy_to_float(x) for x in xs]


def describe(e):
    if e.get("ev") != "op":
        return "%s %s<%s>" % (e.get("ev"), e.get("node"), e.get("t"))
    return "%s<%s> %s%s [%s form, %s::%s] in=%r%s args=%r -> %s%s" % (
        e["node"], e["t"], e.get("call"), "", e["form"], e["fam"], e["m"], vals(e["in"]),
        (" in2=%r" % vals(e["in2"])) if e.get("in2") else "", vals(e.get("args", [])),
        [vals(c) for c in e.get("out", [])], " PANIC " + e.get("msg", "") if e.get("panic") else "")


def one_spec(ev, scen):
    """the --one command that re-executes the sweep this event belongs to"""
    n = len((NODES.get(ev["node"]) or OPS_EXTRA[ev["node"]]))
    grp = [s for s in scen if s.get("ev") == "op" and s.get("gid") == ev.get("gid")] or [ev]
    alpha_ev = next((s for s in grp if "alpha" in s["form"]), None)
    base = next((s for s in grp if s["form"] == "val"), None)

    def four(key):
        src = alpha_ev if alpha_ev else ev
        xs = vals(src[key])
        if not xs:
            return None
        c = xs[:n] + [0.0] * (3 - n)
        return [hx(v) for v in c + [xs[n] if len(xs) > n else 0.5]]
    factors = []
    for s in scen:
        if s.get("ev") == "op" and s.get("form") == "val" and s.get("fam") == ev["fam"] and s.get("m") == ev["m"] and s.get("args"):
            factors.append(s["args"][0])
            if s.get("gid") == ev.get("gid"):
                break
    if not factors and base is not None and base.get("args"):
        factors = [base["args"][0]]
    if not factors and ev.get("args"):
        a = ev["args"][0]
        factors = [[-a[0]] + a[1:] if "blanket" in ev["form"] and len(a) > 2 else a]
    pos = next((s.get("pos", 1) for s in grp if "slice" in s["form"]), 1)
    return {"node": ev["node"], "t": ev["t"], "fam": ev["fam"], "m": ev["m"], "in": four("in"), "in2": four("in2"),
            "factors": [hx(dy_to_float(x)) for x in factors], "pos": pos}


def hx(x):
    import struct
    return struct.pack(">d", float(x)).hex()


def judge(ctx, tp, tag, chunk):
    res = validate_trace(ctx, "TraceOps", tp, stateless=False, chunk_events=chunk, tag=tag, timeout=3000)
    for out in ctx.work.glob(tag + ".chunk*.tlc.out"):
        for line in open(out):
            if line.startswith('<< "REJECT"'):
                raise ToolError("wrapped REJECT line in %s" % out)
    seen = {}
    items = []
    for (line, ev, info, scen) in res.rejected:
        why = info.strip().strip('"')
        if ev.get("ev") == "op":
            coords = {"kind": "op", "class": why, "trait": ev["fam"], "m": ev["m"], "node": ev["node"], "form": ev["form"], "t": ev["t"]}
            replay = {"bin": "ops", "one": one_spec(ev, scen), "event": ev, "trace_line": line, "how": "./check C10 --replay <this file>"}
        else:
            coords = {"kind": ev.get("ev"), "class": why, "node": ev.get("node"), "t": ev.get("t")}
            replay = {"bin": "ops", "event": ev, "trace_line": line}
        key = json.dumps([coords.get(k) for k in ("class", "trait", "m", "node", "form", "t")])
        seen[key] = seen.get(key, 0) + 1
        items.append((seen[key], key, coords, ev, why, replay))
    # one event of every distinct kind first, so that the printed violations show every kind
    items.sort(key=lambda it: (it[0] > 1, it[0]))
    for (nth, key, coords, ev, why, replay) in items:
        what = "%s - %s%s" % (describe(ev), REASONS.get(why, why), (" (%d events of this kind in this run)" % seen[key]) if nth == 1 and seen[key] > 1 else "")
        report(ctx, coords, what, replay if nth <= 2 else {"bin": "ops", "one": replay.get("one"), "trace_line": replay.get("trace_line")})
    return res


def run(ctx):
    bins = cargo_build(["ops"])
    # the model run (6 TLC workers) proceeds while the recording is produced and validated
    pool = ThreadPoolExecutor(max_workers=1)
    model = pool.submit(model_run, ctx)
    nodes = ctx.p("nodes.json")
    json.dump({k: [None if r is None else list(r) for r in v] for k, v in list(NODES.items()) + list(OPS_EXTRA.items())}, open(nodes, "w"))
    tp = ctx.p("ops.ndjson")
    r = run_bin(bins["ops"], ["--tier", ctx.tier, "--nodes", nodes, "--out", tp], env={"VERIF_SEED": ctx.seed})
    stats = json.loads((r.stderr or "{}").strip().splitlines()[-1])
    res = judge(ctx, tp, "ops", 8000 if ctx.quick else 40000)
    ctx.cov["traces_validated_against_impl"] += res.events - len(res.rejected)
    add_samples(ctx, tp, n=5, every=20011)
    ctx.cov["distinct_nontrivial"] = stats.get("groups", 0)
    try:      # margins for the evidence file only: never between the verdict and its report
        cal = calibrate(tp, every=1 if ctx.quick else 5)
    except Exception as ex:
        log("C10: margin book-keeping failed (%s: %s); the verdict is unaffected" % (type(ex).__name__, ex))
        cal = {}
    ncol = model.result()
    return finish(ctx, "model_checking",
                  rule="a case is one call signature (operator family, method, colour type, component type, exact input colours "
                       "and amount) executed in every form that exists; cases are distinct by construction (lattice x factors, "
                       "seeded random dyadics) and all count: each one is compared with the exact model and across its forms",
                  explanation="MC_Ops proves the operator algebra on Ops.tla for every case of a grid of components (eighths of the "
                              "range, a hue lattice with opposite / wrapping pairs) x factors {-1,-1/2,0,1/4,1/2,1,3/2,2} (%d colour "
                              "types in the whole-colour section). TLC then judges every recorded palette call (TraceOps.tla): the "
                              "by-value form against the exact model within Arith(%d) plus range / untouched / betweenness / "
                              "monotone-sweep clauses, every other form bit for bit against the by-value form (transparency per the "
                              "wrapper's rule)." % (ncol, 16),
                  trusted=["the exact encoding of floats in the harness (pvh::ex64, unit-tested)", "TLC, JVM, rustc",
                           "the harness' macro table of (operator, colour type) pairs (compared by TLC with Ops!Caps; a pair missing "
                           "from both would not be exercised)",
                           "bit identity is decided on the logged exact values: +0.0 and -0.0 are not distinguished",
                           "Clamp's value semantics is C03's; here only the agreement of its forms"],
                  extra={"harness": stats, "max_deviation_observed": cal,
                         "tolerances": {"Arith": "16 * 2^-Prec * M + min-subnormal (M = largest magnitude among inputs and exact intermediates; "
                                                 "angles: M >= 360, compared modulo 360)", "monotone_sweep_slack": "1 ulp of the component's range"}})


def replay(ctx, path):
    rp = json.load(open(path))["replay"]
    bins = cargo_build(["ops"])
    tp = ctx.p("replay.ndjson")
    if rp.get("one"):
        run_bin(bins["ops"], ["--one", json.dumps(rp["one"]), "--out", tp])
    else:
        nodes = ctx.p("nodes.json")
        json.dump({k: [None if r is None else list(r) for r in v] for k, v in list(NODES.items()) + list(OPS_EXTRA.items())}, open(nodes, "w"))
        run_bin(bins["ops"], ["--tier", "quick", "--nodes", nodes, "--out", ctx.p("all.ndjson")])
        with open(tp, "w") as f:
            for line in open(ctx.p("all.ndjson")):
                if '"ev":"caps"' in line or '"ev":"consts"' in line:
                    f.write(line)
    res = validate_trace(ctx, "TraceOps", tp, stateless=False, tag="replay")
    if res.rejected:
        print("VIOLATION property=C10 replay=%s" % path)
        (line, ev, info, _) = res.rejected[0]
        print("  still rejected: %s - %s" % (describe(ev), REASONS.get(info.strip().strip('"'), info)))
        return 1
    print("replay accepted (%d events)" % res.events)
    return 0
