---------------------------- MODULE TraceInPlace ----------------------------
(* Trace validation for C13.  Every recorded guard operation must be a step  *)
(* of InPlace.tla; after it the harness' claimed terms must be the model's    *)
(* terms, the raw arrays seen in place must be bit-identical to the terms     *)
(* evaluated out of place (`ref`), and address, length and capacity must be   *)
(* those of the original buffer.                                              *)
EXTENDS InPlace, Json, IOUtils, TLC

Rec == ndJsonDeserialize(IOEnv.TRACE)

VARIABLES l, skip, cap
tvars == <<vars, l, skip, cap>>

TInit == InitWith(0, 0) /\ l = 1 /\ skip = FALSE /\ cap = 0

ModelStep(e) ==
  CASE e.op = "guard" -> NewGuard(e.t, e.cl)
    [] e.op = "then" -> ThenInto(e.t, e.cl)
    [] e.op = "flip" -> Flip
    [] e.op = "restore" -> Restore
    [] e.op = "drop" -> DropGuard
    [] e.op = "forget" -> Forget
    [] e.op = "write" -> Write(e.i, 1)
    [] e.op = "owned" -> OwnedConv(e.t, e.cl)

Agrees(e) ==
  /\ e.terms = cells'            \* the harness evaluated the terms the specification prescribes
  /\ e.arrays = e.ref            \* in place = out of place, bit for bit
  /\ e.ptr_eq = 1                \* same memory
  /\ e.len = Len(cells')
  /\ e.cap = cap

TReset == /\ l <= Len(Rec) /\ Rec[l].ev = "reset"
          /\ base' = Rec[l].t0
          /\ cells' = [i \in 1..Rec[l].n |-> << <<"init", i, Rec[l].t0>> >>]
          /\ guards' = <<>> /\ forgotten' = FALSE
          /\ cap' = Rec[l].cap /\ skip' = FALSE /\ l' = l + 1

TCall == /\ l <= Len(Rec) /\ Rec[l].ev = "guard" /\ ~skip
         /\ ModelStep(Rec[l])
         /\ IF Agrees(Rec[l]) THEN skip' = FALSE
            ELSE skip' = TRUE /\ PrintT(<<"REJECT", l, "model terms", cells'>>)
         /\ l' = l + 1 /\ UNCHANGED cap

TSkip == /\ l <= Len(Rec) /\ Rec[l].ev = "guard" /\ skip
         /\ UNCHANGED <<vars, skip, cap>> /\ l' = l + 1

TNext == TReset \/ TCall \/ TSkip
TSpec == TInit /\ [][TNext]_tvars

Consumed == TLCGet("stats").diameter = Len(Rec) + 1 \/ PrintT(<<"UNCONSUMED", TLCGet("stats").diameter>>)
TInv == WellTyped /\ StackChain /\ TermChain /\ ClosedWalk
=============================================================================
