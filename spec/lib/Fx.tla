--------------------------------- MODULE Fx ---------------------------------
(***************************************************************************)
(* Exact dyadic numbers as logged by the harness, and 104-bit fixed point.  *)
(*                                                                         *)
(* Logged number (JSON):  [s, q, m1, m2, ...]  denotes s * M * BASE^q with  *)
(* M = m1 + m2*BASE + ... (limbs base 2^13, least significant first),       *)
(* s in {-1,0,1}; every finite f32/f64 is exactly representable this way.  *)
(* Specials are logged as [2,0] (NaN), [3,0] (+inf), [-3,0] (-inf): arrays  *)
(* as well, because TLC cannot compare a tuple with a string.               *)
(*                                                                         *)
(* Dy  : <<s, q, M>>   exact                                               *)
(* Fx  : BigInt n denoting n * BASE^-FL  (FL = 8 limbs = 104 fractional     *)
(*       bits).  Fx products are truncated toward zero, so each Fx          *)
(*       operation is off by less than 2^-104 * (1 + |operands|); every     *)
(*       comparison made on Fx values uses a tolerance of 2^-70 or more,    *)
(*       with operand magnitudes below 2^24, so truncation never decides.   *)
(***************************************************************************)
EXTENDS BigNat
LOCAL INSTANCE TLC

FL == 8          \* fractional limbs
FBITS == 104

IsSpecial(j) == j[1] \in {2, 3, -3}
IsNaN(j) == j[1] = 2
IsPosInf(j) == j[1] = 3
IsNegInf(j) == j[1] = -3
IsFin(j) == ~IsSpecial(j)
AllFin(js) == \A i \in DOMAIN js : IsFin(js[i])

(* logged array -> Dy *)
Dy(j) == <<j[1], j[2], IF Len(j) <= 2 THEN <<>> ELSE SubSeq(j, 3, Len(j))>>
DySign(d) == d[1]
DyIsZero(d) == d[1] = 0
DyZero == <<0, 0, <<>>>>
DyFromInt(n) == IF n = 0 THEN DyZero ELSE IF n > 0 THEN <<1, 0, FromNat(n)>> ELSE <<-1, 0, FromNat(-n)>>
DyNeg(d) == <<-d[1], d[2], d[3]>>
DyAbs(d) == <<IF d[1] = 0 THEN 0 ELSE 1, d[2], d[3]>>

(* as BigInt at scale BASE^q, q <= d.q *)
DyAt(d, q) == IMk(d[1], ShiftLimbs(d[3], d[2] - q))
LOCAL MinQ(a, b) == IF a[1] = 0 THEN b[2] ELSE IF b[1] = 0 THEN a[2] ELSE IF a[2] <= b[2] THEN a[2] ELSE b[2]

DyMk(x, q) == <<x[1], IF x[1] = 0 THEN 0 ELSE q, x[2]>>      \* BigInt at scale BASE^q -> Dy
DyAdd(a, b) == LET q == MinQ(a, b) IN DyMk(IAdd(DyAt(a, q), DyAt(b, q)), q)
DySub(a, b) == DyAdd(a, DyNeg(b))
DyMul(a, b) == IF a[1] = 0 \/ b[1] = 0 THEN DyZero ELSE <<a[1] * b[1], a[2] + b[2], Mul(a[3], b[3])>>
DyMulInt(a, n) == DyMul(a, DyFromInt(n))
DyCmp(a, b) == LET q == MinQ(a, b) IN ICmp(DyAt(a, q), DyAt(b, q))
DyLt(a, b) == DyCmp(a, b) = -1
DyLe(a, b) == DyCmp(a, b) # 1
DyEq(a, b) == DyCmp(a, b) = 0
DyMax(a, b) == IF DyLe(a, b) THEN b ELSE a
DyMin(a, b) == IF DyLe(a, b) THEN a ELSE b
(* 2^k as Dy, any integer k *)
DyPow2(k) == LET q == IF k >= 0 THEN k \div LIMB_BITS ELSE -((-k + LIMB_BITS - 1) \div LIMB_BITS)
                 r == k - q * LIMB_BITS
             IN <<1, q, <<Pow2Small(r)>>>>
DyMulPow2(a, k) == DyMul(a, DyPow2(k))
(* floor(|d|) as BigNat, and the floor of d as BigInt *)
DyTruncMag(d) == ShiftLimbs(d[3], d[2])
DyIsInteger(d) == d[1] = 0 \/ d[2] >= 0 \/ (\A i \in 1..(IF -d[2] <= Len(d[3]) THEN -d[2] ELSE Len(d[3])) : d[3][i] = 0)
DyFloor(d) == LET t == IMk(d[1], DyTruncMag(d))
              IN IF d[1] >= 0 \/ DyIsInteger(d) THEN t ELSE ISub(t, IOne)
(* magnitude: position of the leading bit, i.e. floor(log2 |d|), d # 0 *)
DyLog2(d) == BitLen(d[3]) - 1 + d[2] * LIMB_BITS

-----------------------------------------------------------------------------
(* fixed point *)

FxOfDy(d) == DyAt(d, -FL)                 \* truncates below 2^-104
FxOf(j) == FxOfDy(Dy(j))
FxInt(n) == IShiftLimbs(IFromInt(n), FL)
FxZero == IZero
FxOne == FxInt(1)
(* p / q for ordinary integers, 0 < q < 2^17, |p| < 2^31 *)
FxRat(p, q) == IF p = 0 THEN IZero
               ELSE IMk(IF p > 0 THEN 1 ELSE -1,
                        DivSmall(ShiftLimbs(FromNat(IF p > 0 THEN p ELSE -p), FL), q))
(* decimal constant  sgn * (ip + 0.c1c2c3...)  with the fraction given in groups of four digits *)
RECURSIVE FxFracGroups(_, _)
FxFracGroups(g, i) == IF i > Len(g) THEN IZero
                      ELSE LET t == IAdd(FxInt(g[i]), FxFracGroups(g, i + 1))
                           IN IMk(t[1], DivSmall(t[2], 10000))
FxDec(sgn, ip, groups) == LET v == IAdd(FxInt(ip), FxFracGroups(groups, 1)) IN IF sgn < 0 THEN INeg(v) ELSE v

FxAdd(x, y) == IAdd(x, y)
FxSub(x, y) == ISub(x, y)
FxNeg(x) == INeg(x)
FxAbs(x) == IAbs(x)
FxMul(x, y) == IShiftLimbs(IMul(x, y), -FL)
FxSqr(x) == IShiftLimbs(ISqr(x), -FL)
FxCube(x) == FxMul(x, FxSqr(x))
FxMulInt(x, k) == IMulSmall(x, k)            \* |k| < 2^17
FxDivInt(x, k) == IMk(x[1], DivSmall(x[2], k))   \* 0 < k < 2^17
FxHalf(x) == IShr(x, 1)
FxShr(x, k) == IShr(x, k)
FxShl(x, k) == IShl(x, k)
RECURSIVE FxPow(_, _)
FxPow(x, k) == IF k = 0 THEN FxOne ELSE IF k = 1 THEN x
               ELSE LET h == FxPow(x, k \div 2) h2 == FxSqr(h) IN IF k % 2 = 0 THEN h2 ELSE FxMul(h2, x)
(* general quotient by bitwise long division: exact floor, slow - kept as the reference for FxDiv *)
FxDivSlow(x, y) == IMk(x[1] * y[1], Div(ShiftLimbs(x[2], FL), y[2]))

(* 2^k * x for any integer k (floor of the magnitude for k < 0) *)
FxScale2(x, k) == IF k >= 0 THEN IShl(x, k) ELSE IShr(x, -k)
(* reciprocal of d > 0 by Newton iteration on the normalised divisor d' = d * 2^(FBITS - n) in [1/2, 1):
   x0 = 48/17 - 32/17 d' (error <= 1/17), x <- x (2 - d' x) six times (error < 2^-100), then rescaled *)
RECURSIVE NewtonRecip(_, _, _)
NewtonRecip(dn, x, k) == IF k = 0 THEN x ELSE NewtonRecip(dn, FxMul(x, FxSub(FxInt(2), FxMul(dn, x))), k - 1)
FxRecipPos(d) == LET n == BitLen(d[2])
                     dn == FxScale2(d, FBITS - n)
                     x0 == FxSub(FxRat(48, 17), FxMul(FxRat(32, 17), dn))
                 IN FxScale2(NewtonRecip(dn, x0, 6), FBITS - n)
(* general quotient, relative error below 2^-96 *)
FxDiv(x, y) == IF x[1] = 0 THEN IZero
               ELSE LET q == FxMul(IAbs(x), FxRecipPos(IAbs(y))) IN IMk(x[1] * y[1], q[2])

FxCmp(x, y) == ICmp(x, y)
FxLt(x, y) == ILt(x, y)
FxLe(x, y) == ILe(x, y)
FxMax(x, y) == IMax(x, y)
FxMin(x, y) == IMin(x, y)
FxIsNeg(x) == x[1] < 0
FxIsZero(x) == x[1] = 0

(* 2^-k *)
FxEps(k) == IF k > FBITS THEN IZero ELSE <<1, Pow2(FBITS - k)>>

(* |x - y| <= tol *)
FxNearAbs(x, y, tol) == ILe(IAbs(ISub(x, y)), tol)
(* |x - y| <= 2^-absBits + 2^-relBits * max(|x|, |y|) *)
FxNear(x, y, absBits, relBits) ==
  ILe(IAbs(ISub(x, y)), IAdd(FxEps(absBits), IShr(IMax(IAbs(x), IAbs(y)), relBits)))
(* lo <= x <= hi with slack *)
FxBetween(x, lo, hi, slack) == ILe(ISub(lo, slack), x) /\ ILe(x, IAdd(hi, slack))

(* dot product of two triples *)
FxDot3(a, b) == IAdd(FxMul(a[1], b[1]), IAdd(FxMul(a[2], b[2]), FxMul(a[3], b[3])))
(* row-major 3x3 (sequence of 9) times vector *)
FxMatVec(m, v) == << FxDot3(<<m[1], m[2], m[3]>>, v), FxDot3(<<m[4], m[5], m[6]>>, v), FxDot3(<<m[7], m[8], m[9]>>, v) >>
=============================================================================
