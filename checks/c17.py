"""C17 - results do not depend on the component representation.
Spec: spec/Simd.tla (a SIMD colour is a function lane -> scalar colour; Pack/Unpack are the transposition array <-> component
vectors; every operation is lane-wise; masks are functions lane -> BOOLEAN; agreement relation with named tolerances),
spec/mc/MC_Simd.tla (pack/unpack, select and comparison laws for 2, 4, 8 lanes; TLC enumerates the LANE GROUPINGS: for every
family of abstract input classes all assignments to 2 lanes and the rows of two Latin squares for 4 and 8 lanes),
spec/trace/TraceSimd.tla (judges every recorded lane / pack / mask / op / prec event).
Harness: harness/src/bin/simd.rs - every conversion pair and operator that exists for wide::{f32x4, f32x8, f64x2, f64x4}
(decided at compile time), one SIMD call per group and one scalar call per lane; f32 versus f64 on the scalar universe."""
import json, math, os, random
from common import *
from colours import hx

VTS = {2: ["f64x2"], 4: ["f32x4", "f64x4"], 8: ["f32x8"]}
# targets in which the family's piecewise definition sits (preferred when only some targets are run)
PREFER = {"rgbmax": ["hsv", "hsl", "hwb"], "rgbtf": ["linsrgb", "srgb", "xyz"], "xyzjoin": ["lab", "yxy", "oklab"], "labjoin": ["xyz", "lch", "srgb"],
          "polar": ["lab", "oklab", "luv", "srgb"], "cart": ["lch", "oklch", "lchuv", "xyz"], "yxy": ["xyz", "lab"],
          "hexhue": ["srgb", "hsl", "hsv", "hwb", "okhwb", "okhsv"], "hexsv": ["srgb", "hsl", "hsv", "hwb", "okhwb", "okhsv"], "luma": ["linluma", "srgbluma", "lab"]}
OK_CYL = ("okhsl", "okhsv", "okhwb")
RANGE = {"xyz": [0.95047, 1, 1.08883], "yxy": [1, 1, 1], "lab": [100, 255, 255], "lch": [100, 128, None], "luv": [100, 260, 243],
         "lchuv": [100, 180, None], "hsluv": [None, 100, 100], "oklab": [1, 1, 1], "oklch": [1, 1, None], "okhsl": [None, 1, 1], "okhsv": [None, 1, 1],
         "okhwb": [None, 1, 1], "linsrgb": [1, 1, 1], "srgb": [1, 1, 1], "hsl": [None, 1, 1], "hsv": [None, 1, 1], "hwb": [None, 1, 1],
         "linluma": [1], "srgbluma": [1]}


def build():
    # ~2600 monomorphised conversions / operators on wide types: front-end and LLVM bound (150 s at the harness' opt-level 1,
    # 40 s at 0, output bit-identical: Rust float semantics do not depend on the optimisation level); it runs for seconds
    os.environ.setdefault("CARGO_PROFILE_RELEASE_OPT_LEVEL", "0")
    return cargo_build(["simd"])["simd"]


def caps_of(exe, ctx):
    p = ctx.p("caps.cmds")
    open(p, "w").write(json.dumps({"op": "caps"}) + "\n")
    out = ctx.p("caps.ndjson")
    run_bin(exe, ["--cmds", p, "--out", out])
    return json.loads(open(out).readline())


def gen(ctx, groupings, caps, path):
    """commands for the harness; quick: one or two targets per grouping, thorough: every existing target"""
    rnd = random.Random(ctx.seed)
    names = caps["names"]
    conv = caps["conv"]["f32x4"]
    exists = {a: [b for j, b in enumerate(names) if conv[i][j]] for i, a in enumerate(names)}
    q = ctx.quick
    n = 0
    with open(path, "w") as f:
        def add(**kw):
            nonlocal n
            f.write(json.dumps(kw) + "\n")
            n += 1
        add(op="caps")
        add(op="pack", count=3 if q else 40)
        add(op="mask", count=30 if q else 300)
        add(op="num", count=3 if q else 40)
        if q:
            add(op="ops", count=1, vts=["f32x4", "f64x2"])
        else:
            add(op="ops", count=12)
        # lane groupings enumerated by TLC
        for g in groupings:
            for src in g["src"]:
                tg = exists.get(src, [])
                if not tg:
                    continue
                if q or g.get("sq") == 3:      # mask groupings (sq = 3) are many: one target each in either tier
                    pref = [t for t in PREFER[g["fam"]] if t in tg]
                    to = [rnd.choice(pref)] if pref and rnd.random() < 0.6 else [rnd.choice(tg)]
                    add(op="group", fam=g["fam"], lanes=g["lanes"], to=to, **{"from": src})
                else:
                    add(op="group", fam=g["fam"], lanes=g["lanes"], **{"from": src})
        # seeded random in-gamut colours
        for src in names:
            if exists.get(src):
                add(op="random", groups=2 if q else 20, pick=2 if q else 0, **{"from": src})
        # f32 versus f64 on the scalar universe: one input per class of every family, and random colours
        fams = {}
        for g in groupings:
            fams.setdefault(g["fam"], (g["src"], set()))[1].update(g["lanes"])
        for fam, (srcs, classes) in sorted(fams.items()):
            extra = ["okhsl"] if fam in ("hexhue", "hexsv") else []
            for src in list(srcs) + extra:
                for _ in range(1 if q else 5):
                    add(op="prec", fam=fam, lanes=sorted(classes), pick=3 if q else 0, **{"from": src})
        for src in names:
            add(op="prec", count=12 if q else 200, pick=6 if q else 0, **{"from": src})
    return n


def hue_dist(a, b):
    d = abs(a - b) % 360.0
    return min(d, 360.0 - d)


def kappa(node, v):
    """conditioning quantity per component, as in Simd.tla (only for the maxima reported in the evidence)"""
    k = [1.0] * len(v)
    if node in ("lch", "lchuv", "oklch"):
        k[2] = max(0, v[1]) / RANGE[node][1]
    elif node in ("hsv", "okhsv"):
        k[0] = max(0, min(1, v[1])) * max(0, min(1, v[2])); k[1] = max(0, v[2])
    elif node in ("hsl", "okhsl"):
        lc = max(0, 1 - abs(2 * v[2] - 1)); k[0] = max(0, min(1, v[1])) * lc; k[1] = lc
    elif node == "hsluv":
        lc = max(0, 1 - abs(2 * v[2] / 100 - 1)); k[0] = max(0, min(100, v[1])) / 100 * lc; k[1] = lc
    elif node in ("hwb", "okhwb"):
        k[0] = max(0, 1 - v[1] - v[2])
    elif node == "yxy":
        k[0] = k[1] = max(0, v[2])
    return [min(1, x) for x in k]


def deviation(node, s, c, hs, hc):
    """(own-coordinate deviation scaled by the conditioning, XYZ image deviation relative to its magnitude)"""
    if node not in RANGE or len(s) != len(c) or not all(map(math.isfinite, s + c)):
        return None, None
    rg = RANGE[node]
    ks, kc = kappa(node, s[:len(rg)]), kappa(node, c[:len(rg)])
    own = 0.0
    for i, (a, b) in enumerate(zip(s, c)):
        r = rg[i] if i < len(rg) else 1
        k = min(ks[i], kc[i]) if i < len(rg) else 1
        own = max(own, hue_dist(a, b) / 360 * k if r is None else abs(a - b) * k / max(r, abs(a), abs(b)))
    hub = None
    if len(hs) == 3 and len(hc) == 3 and all(map(math.isfinite, hs + hc)):
        mag = max(map(abs, hs + hc))
        hub = max(abs(a - b) for a, b in zip(hs, hc)) / mag if mag > 0 else 0.0
    return own, hub


def fl(a):
    return [dy_to_float(x) for x in a]


def scan(ctx, tp, rejected_lines):
    """largest deviations among ACCEPTED events (the margin of the tolerances is visible in the evidence), event counts"""
    worst = {}
    counts = {}
    def upd(k, v, what):
        if v is not None and v > worst.get(k, (0, None))[0]:
            worst[k] = (v, what)
    with open(tp) as f:
        for i, line in enumerate(f):
            e = json.loads(line)
            counts[e["ev"]] = counts.get(e["ev"], 0) + 1
            if i in rejected_lines:
                continue
            if e["ev"] == "lane" and not (e["sp"] or e["cp"]):
                own, hub = deviation(e["to"], fl(e["simd"]), fl(e["scalar"]), fl(e["hs"]), fl(e["hc"]))
                upd("lane %s own-coordinates" % e["t"], own, "%s>%s" % (e["from"], e["to"]))
                upd("lane %s xyz-image" % e["t"], hub, "%s>%s" % (e["from"], e["to"]))
            elif e["ev"] == "op" and not (e["sp"] or e["cp"]) and e["kind"] != "mask":
                s, c = fl(e["simd"]), fl(e["scalar"])
                if e["kind"] == "colour":
                    own, _ = deviation(e["node"], s, c, [], [])
                else:
                    own = max([abs(a - b) / max(1, abs(a), abs(b)) for a, b in zip(s, c) if math.isfinite(a) and math.isfinite(b)] or [0.0])
                upd("op %s %s" % (e["t"], "numbers" if e["kind"] == "num" else "colours"), own, "%s %s" % (e["node"], e["op"]))
            elif e["ev"] == "prec" and not (e["p32"] or e["p64"]):
                own, hub = deviation(e["to"], fl(e["o32"]), fl(e["o64"]), fl(e["h32"]), fl(e["h64"]))
                if own is not None:
                    upd("f32-vs-f64 min(own, xyz-image)", min(own, hub) if hub is not None else own, "%s>%s" % (e["from"], e["to"]))
    return {k: {"deviation": float("%.3g" % v[0]), "log2": round(math.log2(v[0]), 1) if v[0] > 0 else None, "where": v[1]} for k, v in sorted(worst.items())}, counts


def group_of(tp, line0, ev):
    """all lanes of the group the rejected lane / op event belongs to (adjacent lines with the same gid)"""
    lines = open(tp).read().splitlines() if not hasattr(group_of, "cache") or group_of.cache[0] != tp else group_of.cache[1]
    group_of.cache = (tp, lines)
    lo = line0
    while lo > 0 and '"gid":%d,' % ev["gid"] in lines[lo - 1]:
        lo -= 1
    hi = line0
    while hi + 1 < len(lines) and '"gid":%d,' % ev["gid"] in lines[hi + 1]:
        hi += 1
    evs = [json.loads(x) for x in lines[lo:hi + 1]]
    return sorted(evs, key=lambda e: e["lane"])


def replay_cmd(tp, line0, ev):
    k = ev["ev"]
    if k == "lane":
        g = group_of(tp, line0, ev)
        return {"op": "lanes", "from": ev["from"], "to": [ev["to"]], "vt": [ev["vt"]], "in": [[hx(x) for x in fl(e["in"])] for e in g]}
    if k == "op" and ev["node"] != "num":
        g = group_of(tp, line0, ev)
        return {"op": "ops", "nodes": [ev["node"]], "only": [ev["op"]], "vt": ev["vt"],
                "a": [[hx(x) for x in fl(e["in"])] for e in g], "b": [[hx(x) for x in fl(e["in2"])] for e in g],
                "f": [hx(fl(e["f"])[0]) for e in g], "g": [hx(fl(e["f"])[1]) for e in g]}
    if k == "op":
        return {"op": "num", "count": 40}
    if k == "prec":
        return {"op": "prec", "from": ev["from"], "to": [ev["to"]], "in": [hx(x) for x in fl(ev["in"])]}
    if k == "pack":
        return {"op": "pack", "count": 40}
    return {"op": "mask", "count": 300}


def coords_of(ev, why):
    k = ev["ev"]
    d = {"kind": k, "class": why, "t": ev.get("t", "f32")}
    if k == "lane":
        d.update({"vt": ev["vt"], "from": ev["from"], "to": ev["to"], "fam": ev["fam"], "cls": ev["cls"]})
        own, hub = deviation(ev["to"], fl(ev["simd"]), fl(ev["scalar"]), fl(ev["hs"]), fl(ev["hc"]))
        d["dev"] = own if own is not None else float("inf")
        # f32 lanes: Lab -> Xyz multiplies by Recip::recip(116), (500), (200), which is `wide`'s 12-bit hardware estimate
        d["via_f32_lab_to_xyz"] = ev["t"] == "f32" and ev["from"] in ("lab", "lch") and ev["to"] not in ("lab", "lch")
    elif k == "op":
        d.update({"vt": ev["vt"], "node": ev["node"], "op": ev["op"], "opkind": ev["kind"]})
    elif k == "prec":
        d.update({"from": ev["from"], "to": ev["to"], "fam": ev["fam"], "cls": ev["cls"], "hue": ev["okh_mdeg"] / 1000.0})
        # known finding of C15 (recorded there): f32 Okhsl / Okhsv / Okhwb on the blue edge of the sRGB gamut
        if (ev["to"] in OK_CYL or ev["from"] in OK_CYL) and 263.9 <= d["hue"] <= 264.2 and ev["rg_max_e6"] <= 1000:
            d["class"] = "f32-ok-blue-edge"
    elif k in ("pack", "mask"):
        d.update({"vt": ev["vt"], "node": ev.get("node", ""), "op": ev.get("op", ""), "alpha": ev.get("alpha", 0)})
    return d


def describe(ev, why, d):
    k = ev["ev"]
    if k == "lane":
        return "%s lane %d of %s -> %s (%s %s): %s; in %s simd %s scalar %s (deviation %.3g of the range)" % (
            ev["vt"], ev["lane"], ev["from"], ev["to"], ev["fam"], ev["cls"], why, fl(ev["in"]), fl(ev["simd"]), fl(ev["scalar"]), d.get("dev", 0))
    if k == "op":
        return "%s lane %d of %s::%s: %s; in %s %s f %s simd %s scalar %s" % (
            ev["vt"], ev["lane"], ev["node"], ev["op"], why, fl(ev["in"]), fl(ev["in2"]), fl(ev["f"]), fl(ev["simd"]), fl(ev["scalar"]))
    if k == "prec":
        return "f32 vs f64 %s -> %s: %s; in %s f32 %s f64 %s" % (ev["from"], ev["to"], d["class"], fl(ev["in"]), fl(ev["o32"]), fl(ev["o64"]))
    if k == "pack":
        return "%s %s alpha=%d: %s; in %s comps %s back %s" % (ev["vt"], ev["node"], ev["alpha"], why, ev["in"], ev["comps"], ev["back"])
    return "%s %s: %s; a %s b %s m1 %s m2 %s out %s scalar %s %s flag %s" % (
        ev.get("vt"), ev.get("op"), why, ev.get("abits"), ev.get("bbits"), ev.get("m1"), ev.get("m2"), ev.get("out"), ev.get("sm"), ev.get("sv"), ev.get("flag"))


def run(ctx):
    exe = build()
    r = tlc_mc(ctx, "MC_Simd", tag="simd", workers=4, constants={"Masks": '"few"' if ctx.quick else '"all"'})
    groupings = [json.loads(x) for x in extract_prints(r.out_path, "REPLAY")]
    if len(groupings) < 2000 or not any(g.get("sq") == 3 for g in groupings):
        raise ToolError("MC_Simd emitted only %d lane groupings" % len(groupings))
    ctx.cov["samples"].append({"lane_grouping_emitted_by_TLC": groupings[len(groupings) // 2]})
    caps = caps_of(exe, ctx)
    pairs = {vt: sum(map(sum, m)) for vt, m in caps["conv"].items()}
    opn = {vt: sum(map(sum, m)) for vt, m in caps["ops"].items() if vt != "groups"}
    cmds = ctx.p("c17.cmds")
    n = gen(ctx, groupings, caps, cmds)
    tp = ctx.p("c17.ndjson")
    run_bin(exe, ["--cmds", cmds, "--out", tp])
    nev = sum(1 for _ in open(tp))
    log("C17: %d lane groupings, %d commands, %d events" % (len(groupings), n, nev))
    res = validate_trace(ctx, "TraceSimd", tp, stateless=True, chunk_events=max(500, nev // 13 + 1), tag="c17")
    ctx.cov["traces_validated_against_impl"] += res.events - len(res.rejected)
    add_samples(ctx, tp, n=2, every=max(1, nev // 5))
    ctx.cov["distinct_nontrivial"] += count_distinct(tp, lambda e: json.dumps([e.get(k) for k in ("ev", "op", "from", "to", "node", "vt", "lane", "in", "in2", "f", "a", "b", "m1", "m2", "alpha")]),
                                                     lambda e: e["ev"] != "caps")
    worst, counts = scan(ctx, tp, set(x[0] for x in res.rejected))
    summary = {}
    for (line, ev, info, _) in res.rejected:
        why = info.strip().strip('"')
        d = coords_of(ev, why)
        key = "%s %s %s %s" % (d["kind"], d["class"], d["t"], d.get("op") or ("%s>%s" % (d.get("from"), d.get("to"))))
        summary[key] = summary.get(key, 0) + 1
        report(ctx, d, describe(ev, why, d), {"bin": "simd", "cmd": replay_cmd(tp, line, ev), "event": ev, "trace_line": line})
    if summary:
        log("C17 rejected events by kind: " + "; ".join("%s x%d" % kv for kv in sorted(summary.items())))
    names = caps["names"]
    return finish(ctx, "model_checking",
                  rule="a case is one lane of one SIMD call together with the scalar call on that lane's input (conversion or operator), one "
                       "packed array, one mask operation on one vector, or one f32/f64 pair of scalar conversions; distinct by operation, "
                       "vector type, lane and exact inputs; every case calls palette at least once in each representation (non-trivial)",
                  explanation="MC_Simd (7277 states): pack/unpack inverse and order preserving for 2, 4, 8 lanes, lifted operations lane-independent, "
                              "select / De Morgan / comparison laws incl. NaN; TLC enumerates the lane groupings (all class pairs for 2 lanes, rows "
                              "of two Latin squares for 4 and 8 lanes, 10 families of branch classes). The harness runs every grouping through "
                              "the conversions that exist for wide types as ONE SIMD call plus one scalar call per lane; TraceSimd.tla judges "
                              "every lane with the agreement relation of Simd.tla, packing / masks / selection bit for bit, and f32 against f64.",
                  trusted=["the scalar implementation as the reference of each lane (what the scalar code must compute is C02's)",
                           "tolerances LaneBits / LaneHubBits / PrecTable of spec/Simd.tla (calibrated on the pinned tree, >= 8x margin)",
                           "the code's own f64 conversion to Xyz as the abstraction function for ill-conditioned coordinates"],
                  extra={"largest_deviation_accepted": worst, "rejected_by_kind": summary, "events_by_kind": counts,
                         "conversion_pairs_existing_for_wide": pairs, "operator_impls_existing_for_wide": opn,
                         "conversion_existence_matrix_f32x4": {a: "".join("1" if x else "." for x in caps["conv"]["f32x4"][i]) for i, a in enumerate(names)},
                         "operator_groups": caps["ops"]["groups"],
                         "operator_existence_matrix_f32x4": {a: "".join("1" if x else "." for x in caps["ops"]["f32x4"][i]) for i, a in enumerate(names)}})


def replay(ctx, path):
    rp = json.load(open(path))["replay"]
    exe = build()
    cmds = ctx.p("replay.cmds")
    open(cmds, "w").write(json.dumps(rp["cmd"]) + "\n")
    tp = ctx.p("replay.ndjson")
    run_bin(exe, ["--cmds", cmds, "--out", tp])
    res = validate_trace(ctx, "TraceSimd", tp, stateless=True, tag="replay")
    if res.rejected:
        print("VIOLATION property=C17 replay=%s" % path)
        line, ev, info, _ = res.rejected[0]
        why = info.strip().strip('"')
        print("  still rejected: " + describe(ev, why, coords_of(ev, why))[:400])
        return 1
    print("replay accepted")
    return 0


def calibrate(ctx, seeds=(1, 2, 3)):
    """Development tool (not part of the check): print the PrecTable of spec/Simd.tla from a large f32-versus-f64 recording."""
    exe = build()
    r = tlc_mc(ctx, "MC_Simd", tag="simd", workers=4)
    groupings = [json.loads(x) for x in extract_prints(r.out_path, "REPLAY")]
    fams = {}
    for g in groupings:
        fams.setdefault(g["fam"], (g["src"], set()))[1].update(g["lanes"])
    names = list(RANGE)
    cmds = ctx.p("cal.cmds")
    with open(cmds, "w") as f:
        for fam, (srcs, classes) in sorted(fams.items()):
            for src in list(srcs) + (["okhsl"] if fam in ("hexhue", "hexsv") else []):
                for _ in range(40):
                    f.write(json.dumps({"op": "prec", "fam": fam, "from": src, "lanes": sorted(classes)}) + "\n")
        for src in names:
            f.write(json.dumps({"op": "prec", "from": src, "count": 6000}) + "\n")
    worst = {}
    for s in seeds:
        tp = ctx.p("cal.%d.ndjson" % s)
        run_bin(exe, ["--cmds", cmds, "--out", tp], env={"VERIF_SEED": s})
        for line in open(tp):
            e = json.loads(line)
            if e["p32"] or e["p64"]:
                continue
            own, hub = deviation(e["to"], fl(e["o32"]), fl(e["o64"]), fl(e["h32"]), fl(e["h64"]))
            if own is None:
                continue
            v = min(own, hub) if hub is not None else own
            k = (e["from"], e["to"])
            worst[k] = max(worst.get(k, 0.0), v)
        os.unlink(tp)
    rows = []
    for a in names:
        rows.append([12 if (a, b) not in worst else 19 if worst[(a, b)] == 0 else max(12, min(19, math.floor(-math.log2(8 * worst[(a, b)])))) for b in names])
    print("PrecTable == <<\n" + ",\n".join("  <<" + ", ".join(map(str, r)) + ">>" for r in rows) + "\n>>")
    print("largest:", sorted(((v, k) for k, v in worst.items()), reverse=True)[:8])
