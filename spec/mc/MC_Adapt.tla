------------------------------ MODULE MC_Adapt ------------------------------
(* The reference of C14 checked against itself before any code is consulted    *)
(* (facts of the publication, one state per case):                             *)
(*  space  for every RGB space the matrix derived from the published primaries   *)
(*         and white point maps (1, 1, 1) to the white point and inverts;        *)
(*  pair   for every ordered pair of white points (a, b) and every method the     *)
(*         reference adaptation matrix maps white a onto white b, is the identity  *)
(*         when a = b, and A(b -> a) A(a -> b) = I;                                *)
(*  cone   the published seven-decimal inverse cone matrices are the inverses of    *)
(*         the published cone matrices to seven decimals (this is where the          *)
(*         Published7 tolerance of adaptation comes from);                          *)
(*  neg    perturbed constants are told apart (no relation is vacuous).             *)
(* Full = FALSE samples the pairs: all pairs with D65 or D50 on one side, the        *)
(* diagonal and a ring; Full = TRUE takes all 16 x 16.                                *)
(* TLC computes initial states and the successors of one state sequentially, so the    *)
(* cases hang two levels below a root (root -> group -> case): the groups are spread     *)
(* over the workers.                                                                  *)
EXTENDS Adapt, TLC

CONSTANT Full
VARIABLE case

NearSeq(a, b, bits) == Len(a) = Len(b) /\ \A i \in DOMAIN a : FxNear(a[i], b[i], bits, 200)
Tight == 88        \* Fx truncation (2^-104 per operation) and the Newton quotient (2^-96 relative) on entries below 8
SpaceTight == 86   \* ProPhoto's blue primary has y = 0.0001 (a column of magnitude 10^4 in the primaries matrix): 2^-89 there

NW == Len(WhiteNames)
AllPairs == {<<i, j>> : i \in 1..NW, j \in 1..NW}
Hub(i) == WhiteNames[i] \in {"D65", "D50"}
Pairs == IF Full THEN AllPairs
         ELSE {p \in AllPairs : Hub(p[1]) \/ Hub(p[2]) \/ p[1] = p[2] \/ p[2] = (p[1] % NW) + 1}

MiscCases == {<<"space", SpaceNames[i], "", "">> : i \in DOMAIN SpaceNames}
             \cup {<<"cone", MethodNames[k], "", "">> : k \in DOMAIN MethodNames}
             \cup {<<"neg", n, "", "">> : n \in {"white", "whitepair", "space", "method", "digit"}}
PairCases(i) == {<<"pair", WhiteNames[p[1]], WhiteNames[p[2]], MethodNames[k]>> : p \in {q \in Pairs : q[1] = i}, k \in DOMAIN MethodNames}
Root == <<"root", "", "", "">>
Groups == {<<"group", "misc", "", "">>} \cup {<<"group", WhiteNames[i], "", "">> : i \in 1..NW}
CasesOf(g) == IF g = "misc" THEN MiscCases ELSE UNION {PairCases(i) : i \in {j \in 1..NW : WhiteNames[j] = g}}

SpaceOK(sp) ==
  LET m == RefRgbToXyz(sp, SpaceWhite(sp))
  IN /\ NearSeq(FxMatVec(m, Ones3), WP(SpaceWhite(sp)), SpaceTight)
     /\ NearSeq(MatMul3T(m, Inv3T(m)), I3, Tight)
     /\ NearSeq(MatMul3T(Inv3T(m), m), I3, Tight)

PairOK(a, b, mth) ==
  LET M == Cone(mth)
      Minv == Inv3T(M)
      ab == AdaptRef(WP(a), WP(b), M, Minv)
      ba == AdaptRef(WP(b), WP(a), M, Minv)
  IN /\ NearSeq(FxMatVec(ab, WP(a)), WP(b), Tight)
     /\ (a = b => NearSeq(ab, I3, Tight))
     /\ NearSeq(MatMul3T(ba, ab), I3, Tight)

ConeOK(mth) ==
  /\ NearSeq(ConeInvPublished(mth), Inv3T(Cone(mth)), 24)              \* 5e-8: correctly rounded to seven decimals
  /\ NearSeq(MatMul3T(ConeInvPublished(mth), Cone(mth)), I3, 21)       \* hence only Published7 close to the identity
  /\ (mth # "xyzscaling" => ~NearSeq(MatMul3T(ConeInvPublished(mth), Cone(mth)), I3, 40))

NegOK(n) ==
  CASE n = "white" ->      \* D50 with two digits of z transposed (0.82512) is not D50
         ~NearSeq(FxMatVec(Adapt("D65", "D50", "bradford"), WP("D65")), <<D5(96422), FxOne, D5(82512)>>, 20)
    [] n = "whitepair" ->  \* adapting with the gains inverted does not reach the destination
         ~NearSeq(FxMatVec(Adapt("D50", "D65", "bradford"), WP("D65")), WP("D50"), 10)
    [] n = "space" ->      \* Adobe RGB differs from sRGB only in the green primary: the matrices are told apart
         ~NearSeq(RefRgbToXyz("adobe", "D65"), RefRgbToXyz("srgb", "D65"), 5)
         /\ NearSeq(RefRgbToXyz("srgb", "D65"), SrgbToXyz, 100)
    [] n = "method" ->     \* the methods differ between different white points
         ~NearSeq(Adapt("A", "D65", "bradford"), Adapt("A", "D65", "vonkries"), 6)
         /\ ~NearSeq(Adapt("A", "D65", "xyzscaling"), Adapt("A", "D65", "vonkries"), 6)
    [] n = "digit" ->      \* published sRGB and Adobe RGB entries (Lindbloom): seven decimals of the derived ones,
                           \* and a change in the sixth decimal is told apart at the Published7 entry tolerance
         LET s == RefRgbToXyz("srgb", "D65")  a == Inv3T(RefRgbToXyz("adobe", "D65"))
         IN /\ FxNear(s[1], FxDec(1, 0, <<4124, 5640>>), 24, 200) /\ FxNear(s[9], FxDec(1, 0, <<9503, 410>>), 24, 200)
            /\ FxNear(a[1], FxDec(1, 2, <<413, 6900>>), 24, 200)
            /\ MatBitsAbs(<<FxDec(1, 2, <<413, 6900>>)>>, <<a[1]>>) >= Need("space.hard=ref", "f64")
            /\ MatBitsAbs(<<FxDec(1, 2, <<413, 7900>>)>>, <<a[1]>>) < Need("space.hard=ref", "f64")

CaseOK(c) == CASE c[1] = "space" -> SpaceOK(c[2])
               [] c[1] = "pair" -> PairOK(c[2], c[3], c[4])
               [] c[1] = "cone" -> ConeOK(c[2])
               [] c[1] = "neg" -> NegOK(c[2])
               [] OTHER -> TRUE                      \* root and group states carry no claim

Init == case = Root
Next == \/ case = Root /\ case' \in Groups
        \/ case[1] = "group" /\ case' \in CasesOf(case[2])
Spec == Init /\ [][Next]_case
Holds == IF CaseOK(case) THEN TRUE ELSE PrintT(<<"case fails", case>>) /\ FALSE
=============================================================================
