#!/bin/sh
# usage: tools/confirm_seeded.sh <ID> <n>
# Confirms a seeded change produced under /tmp/seed/<ID>.work/<n>/ in the scratch worktree /tmp/seed/<ID>:
# applies patch.diff, runs the existing suite (must pass), runs the demonstration (must fail), undoes the patch,
# runs the demonstration again (must pass). Prints CONFIRMED or the step that failed.
ID="$1"; N="$2"; R=${SEED_ROOT:-/tmp/seed}; WT=$R/$ID; W=$R/$ID.work; D=$W/$N
export CARGO_TARGET_DIR=$W/target CARGO_NET_OFFLINE=true
git -C $WT checkout -- . ; git -C $WT clean -fdq
git -C $WT apply $D/patch.diff || { echo "NOT-CONFIRMED $ID/$N: patch does not apply"; exit 1; }
( cd $WT && timeout 3000 cargo test --workspace --no-fail-fast --offline > $D/confirm_suite.log 2>&1 ); rc=$?
fails=$(grep -c "^test result: FAILED" $D/confirm_suite.log); passed=$(grep "^test result: ok" $D/confirm_suite.log | awk '{s+=$4} END{print s}')
if [ $rc -ne 0 ] || [ "$fails" != "0" ]; then echo "NOT-CONFIRMED $ID/$N: suite fails with the change (rc=$rc)"; git -C $WT checkout -- .; exit 1; fi
rundemo() {
  if [ -d $D/demo ]; then ( cd $D/demo && if grep -q "\[\[bin\]\]\|src/main.rs" Cargo.toml || [ -f src/main.rs ]; then timeout 1800 cargo run --offline -q --release > $D/confirm_demo_$1.log 2>&1; else timeout 1800 cargo test --offline -q > $D/confirm_demo_$1.log 2>&1; fi ); echo $?;
  elif [ -f $D/demo.sh ]; then ( cd $D && timeout 1200 sh ./demo.sh > $D/confirm_demo_$1.log 2>&1 ); echo $?;
  else echo 99; fi
}
r1=$(rundemo with)
git -C $WT checkout -- .
r2=$(rundemo without)
if [ "$r1" != "0" ] && [ "$r1" != "99" ] && [ "$r2" = "0" ]; then echo "CONFIRMED $ID/$N: suite passes ($passed tests), demo exit $r1 with the change, 0 without"; else echo "NOT-CONFIRMED $ID/$N: demo exit with=$r1 without=$r2"; fi
