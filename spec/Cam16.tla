------------------------------- MODULE Cam16 -------------------------------
(***************************************************************************)
(* C16 - CAM16 appearance correlates round-trip and are mutually consistent. *)
(*                                                                         *)
(* Reference: C. Li, Z. Li, Z. Wang, Y. Xu, M. R. Luo, G. Cui, M. Melgosa,    *)
(* M. H. Brill, M. Pointer, "Comprehensive color solutions: CAM16, CAT16,     *)
(* and CAM16-UCS", Color Research & Application 42 (2017) 703-718.            *)
(*                                                                         *)
(* The viewing conditions (palette's BakedParameters) are an OPAQUE TOKEN:     *)
(* every event carries a `params` id and nothing of what was derived from it.  *)
(* What the specification decides, as RELATIONS over the exact values the code  *)
(* consumed and produced:                                                    *)
(*  (1) into_xyz(from_xyz(x)) is the colour x, for the full Cam16 and each of   *)
(*      the six partial types (tolerance relative to the XYZ vector);          *)
(*  (2) black maps to black: every attribute 0, and back to (0, 0, 0);          *)
(*  (3) Partial::from_full(full) is EXACTLY the projection of full on its        *)
(*      fields; Partial::from_xyz(x) ~ that projection; into_full(partial) ~ full;*)
(*  (4) the published links between the attributes,                            *)
(*        Q = (4/c) sqrt(J/100) (A_w + 4) F_L^(1/4),   C = alpha sqrt(J/100),     *)
(*        M = C F_L^(1/4),   s = 100 sqrt(M/Q)  [ = 50 sqrt(c alpha/(A_w + 4)),   *)
(*        the form palette documents ],                                       *)
(*      contain derived parameters (c, A_w, F_L) the API does not expose; their  *)
(*      parameter-free CONSEQUENCES are checked instead: for one colour          *)
(*        s^2 Q = 10^4 M,                                                      *)
(*      and between any TWO colours converted under the same conditions          *)
(*        M1 C2 = M2 C1,   Q1^2 J2 = Q2^2 J1,   s1^2 Q1 M2 = s2^2 Q2 M1          *)
(*      (MC_Cam16 proves on a grid that the published formulas imply them);     *)
(*      and the adopted white has J = 100 (A = A_w by definition);              *)
(*  (5) CAM16-UCS (Li et al. 2017, section 5):  J' = 1.7 J / (1 + 0.007 J),       *)
(*      M' = ln(1 + 0.0228 M) / 0.0228,  a' = M' cos h,  b' = M' sin h, and the   *)
(*      published inverses J = J'/(1.7 - 0.007 J'), M = (exp(0.0228 M') - 1)/0.0228;*)
(*      Cam16Jmh <-> Cam16UcsJmh <-> Cam16UcsJab round trips.                  *)
(* NOT decided (DESIGN.md section 5): that the forward model J, C, h of x agrees   *)
(* with Li et al.'s equations - its exponents c z and 0.29^n are computed reals.  *)
(*                                                                         *)
(* Logged numbers are compared exactly as dyadics (Dy); only the transcendental *)
(* UCS relations (ln, exp, sin, cos) use fixed point (65 / 39 fractional bits     *)
(* for f64 / f32 recordings, 104 in the model checks).  A relation returns BITS   *)
(* of agreement; the verdict compares them with the named thresholds below.      *)
(***************************************************************************)
EXTENDS ColourMath, LnExp

(* Evaluation note: TLC re-evaluates a LET definition at every use but evaluates an operator ARGUMENT once;
   every expensive value used more than once below is therefore passed as an argument (operators named ...1). *)

DyV(js) == [i \in DOMAIN js |-> Dy(js[i])]
FxV(js) == [i \in DOMAIN js |-> FxOf(js[i])]
(* an Fx value as an exact dyadic / as a logged number (used by the model checks) *)
DyOfFx(x) == IF x[1] = 0 THEN DyZero ELSE <<x[1], -FL, x[2]>>
JOfFx(x) == IF x[1] = 0 THEN <<0, 0>> ELSE <<x[1], -FL>> \o x[2]
JV(xs) == [i \in DOMAIN xs |-> JOfFx(xs[i])]

(* exact comparison: bits of agreement of a and b relative to scale, 200 if equal *)
DyMaxAbs(a, b) == DyMax(DyAbs(a), DyAbs(b))
DyBits(a, b, scale) == IF DyEq(a, b) THEN 200
                       ELSE IF DyIsZero(scale) THEN 0
                       ELSE DyLog2(scale) - DyLog2(DySub(a, b))
DyRelBits(a, b) == DyBits(a, b, DyMaxAbs(a, b))
DyMag3(v) == DyMax(DyAbs(v[1]), DyMax(DyAbs(v[2]), DyAbs(v[3])))
Dy360 == DyFromInt(360)
(* two hues in degrees (raw, within two turns of each other) describe the same direction *)
DyHueBits2(dd) == IF DyIsZero(dd) THEN 200 ELSE DyLog2(Dy360) - DyLog2(dd)
DyHueBits1(d) == DyHueBits2(DyMin(d, DyMin(DyAbs(DySub(d, Dy360)), DyAbs(DySub(d, DyFromInt(720))))))
DyHueBits(h1, h2) == IF h1 = h2 THEN 200 ELSE DyHueBits1(DyAbs(DySub(h1, h2)))

-----------------------------------------------------------------------------
(* Domain.  CAT16 (Li et al. 2017, eq. (3)): cone-like responses (R, G, B) = M16 (X, Y, Z); the matrix is published
   with six decimals, so 10^6 M16 is an integer matrix and the responses of a recorded colour are computed exactly. *)
M16E6 == << 401288, 650173, -51461,
            -250268, 1204414, 45854,
            -2079, 48952, 953127 >>
ConeRow(x, i) == DyAdd(DyMulInt(x[1], M16E6[3 * i - 2]), DyAdd(DyMulInt(x[2], M16E6[3 * i - 1]), DyMulInt(x[3], M16E6[3 * i])))
Cone(x) == <<ConeRow(x, 1), ConeRow(x, 2), ConeRow(x, 3)>>          \* 10^6 (R, G, B), x a vector of dyadics
DyMedian3(a, b, d) == DyMax(DyMin(a, b), DyMin(DyMax(a, b), d))
(* CAM16 is defined where the achromatic signal A = N_bb (2 R_a + G_a + B_a/20) is positive (J = 100 (A/A_w)^(c z))
   and t >= 0, i.e. R_a + G_a + 21/20 B_a + 0.305 > 0.  The adapted responses are sign(c) f(D_c |c|) with f increasing
   and compressive (f(a y) <= 0.4 f(y) for a <= 1/10 over the whole range used) and D_c within [0.84, 1.31] for the
   whites D65, D50, E and the custom whites of the harness.  Sufficient, from the input alone:
     - all three cone responses non-negative (contains the whole sRGB gamut: its primaries have positive responses), or
     - the sign-sensitive collar: one response negative, at most 1/16 of the smaller of the other two in magnitude.
   Inputs below 2^-34 in magnitude (other than exact black) are not judged (underflow of f32 intermediates). *)
InDomain2(x, mn, mid) == /\ DyLe(DyPow2(-34), DyMag3(x))
                         /\ (DySign(mn) >= 0 \/ DyLe(DyMulInt(DyNeg(mn), 16), mid))
InDomain1(x, c) == InDomain2(x, DyMin(c[1], DyMin(c[2], c[3])), DyMedian3(c[1], c[2], c[3]))
InDomain(x) == InDomain1(x, Cone(x))
InCollar1(x, c) == InDomain1(x, c) /\ DySign(DyMin(c[1], DyMin(c[2], c[3]))) < 0
InCollar(x) == InCollar1(x, Cone(x))

-----------------------------------------------------------------------------
(* The attribute vector of a full colour is <<J, C, h, Q, M, s>> (declaration order of palette's Cam16);
   a partial colour is <<luminance-like, chromaticity-like, h>>. *)
Kinds == <<"jch", "jmh", "jsh", "qch", "qmh", "qsh">>
LumIdx(k) == IF k \in {"jch", "jmh", "jsh"} THEN 1 ELSE 4
ChrIdx(k) == IF k \in {"jch", "qch"} THEN 2 ELSE IF k \in {"jmh", "qmh"} THEN 5 ELSE 6
Project(full, k) == <<full[LumIdx(k)], full[ChrIdx(k)], full[3]>>
MagIdx == {1, 2, 4, 5, 6}

(* (1) round trip: every component within 2^-bits of the magnitude of the XYZ vector *)
RoundTripBits1(x, back, sc) == Min3i(DyBits(back[1], x[1], sc), DyBits(back[2], x[2], sc), DyBits(back[3], x[3], sc))
RoundTripBits(x, back) == RoundTripBits1(x, back, DyMax(DyMag3(x), DyMag3(back)))

(* (3) attribute vectors agree: magnitudes relatively (every link between them is a product, a quotient or a
   square root, so rounding stays relative), hues as directions *)
Min5i(a, b, c, d, e) == Min2i(Min2i(a, b), Min3i(c, d, e))
FullBits(f, g) == Min2i(Min5i(DyRelBits(f[1], g[1]), DyRelBits(f[2], g[2]), DyRelBits(f[4], g[4]),
                              DyRelBits(f[5], g[5]), DyRelBits(f[6], g[6])),
                        DyHueBits(f[3], g[3]))
PartBits(p, q) == Min3i(DyRelBits(p[1], q[1]), DyRelBits(p[2], q[2]), DyHueBits(p[3], q[3]))

(* (4) consequences of the published links; s2 = s^2.  Exact products, compared relative to their size. *)
SatLinkBits(s2, Q, M) == DyRelBits(DyMul(s2, Q), DyMulInt(M, 10000))                       \* s^2 Q = 10^4 M
PairMCBits(M1, C1, M2, C2) == DyRelBits(DyMul(M1, C2), DyMul(M2, C1))                      \* M1 C2 = M2 C1
PairQJBits(Q1, J1, Q2, J2) == DyRelBits(DyMul(DyMul(Q1, Q1), J2), DyMul(DyMul(Q2, Q2), J1)) \* Q1^2 J2 = Q2^2 J1
PairSQMBits(s21, Q1, M1, s22, Q2, M2) ==                                                  \* s1^2 Q1 M2 = s2^2 Q2 M1
  DyRelBits(DyMul(DyMul(s21, Q1), M2), DyMul(DyMul(s22, Q2), M1))
PairBits(f1, f2) == Min3i(PairMCBits(f1[5], f1[2], f2[5], f2[2]), PairQJBits(f1[4], f1[1], f2[4], f2[1]),
                          PairSQMBits(DyMul(f1[6], f1[6]), f1[4], f1[5], DyMul(f2[6], f2[6]), f2[4], f2[5]))

(* the published definitions themselves (Li et al. 2017, appendix A, steps 5-9), with jr = sqrt(J/100) and
   alpha = t^0.9 (1.64 - 0.29^n)^0.73, for given derived parameters p = [c, aw, fl4]; used by MC_Cam16 to prove
   that the relations above are consequences, and to build exact events *)
PubJ(jr) == FxMulInt(FxSqr(jr), 100)
PubQ(p, jr) == FxMul(FxMul(FxDiv(FxInt(4), p.c), jr), FxMul(FxAdd(p.aw, FxInt(4)), p.fl4))
PubC(jr, alpha) == FxMul(alpha, jr)
PubM(p, jr, alpha) == FxMul(PubC(jr, alpha), p.fl4)
PubS2(p, jr, alpha) == FxDiv(FxMulInt(PubM(p, jr, alpha), 10000), PubQ(p, jr))                 \* s = 100 sqrt(M/Q)
PaletteS2(p, alpha) == FxDiv(FxMulInt(FxMul(p.c, alpha), 2500), FxAdd(p.aw, FxInt(4)))        \* s = 50 sqrt(c alpha/(A_w+4))

-----------------------------------------------------------------------------
(* (5) CAM16-UCS, Li et al. 2017 section 5: c1 = 0.007, c2 = 0.0228.  The rational relations are evaluated exactly on
   the dyadics; logarithm, exponential, sine and cosine in fixed point with fl fractional limbs (module LnExp):
   fl = 8 in the model checks, Prec(t) when judging recordings. *)
Prec(t) == IF t = "f32" THEN 3 ELSE 5
(* J' (1 + 0.007 J) = 1.7 J, as J' (1000 + 7 J) = 1700 J *)
UcsJBits(J, Jp) == DyRelBits(DyMul(Jp, DyAdd(DyFromInt(1000), DyMulInt(J, 7))), DyMulInt(J, 1700))
(* the published inverse J = J' / (1.7 - 0.007 J'), as J (1700 - 7 J') = 1000 J' *)
UcsJInvBits(Jp, J) == DyRelBits(DyMul(J, DySub(DyFromInt(1700), DyMulInt(Jp, 7))), DyMulInt(Jp, 1000))
C0228P(fl) == PRat(228, 10000, fl)
(* 0.0228 M' = ln(1 + 0.0228 M): the code rounds 1 + 0.0228 M to the grid of 1, so the error is judged against max(1, ln) *)
UcsMBits1(l, ln, fl) == AgreeBits(l, ln, IMax(POne(fl), IAbs(ln)))
UcsMBitsP(M, Mp, fl) == UcsMBits1(PMul(C0228P(fl), Mp, fl), LnP(IAdd(POne(fl), PMul(C0228P(fl), M, fl)), fl), fl)
UcsMBits(M, Mp, fl) == UcsMBitsP(POfDy(M, fl), POfDy(Mp, fl), fl)
(* the published inverse M = (exp(0.0228 M') - 1)/0.0228, as exp(0.0228 M') = 1 + 0.0228 M *)
UcsMInvBits1(ex, r, fl) == AgreeBits(ex, r, IMax(POne(fl), ex))
UcsMInvBitsP(Mp, M, fl) == UcsMInvBits1(ExpP(PMul(C0228P(fl), Mp, fl), fl), IAdd(POne(fl), PMul(C0228P(fl), M, fl)), fl)
UcsMInvBits(Mp, M, fl) == UcsMInvBitsP(POfDy(Mp, fl), POfDy(M, fl), fl)
(* (J', a', b') is the rectangular form of (J', M', h): J' unchanged, M' >= 0, a' = M' cos h, b' = M' sin h; the three
   magnitudes are first scaled by the same power of two so that the largest lies in [1, 2) *)
PolarMag(rect, pol) == DyMax(DyAbs(pol[2]), DyMax(DyAbs(rect[2]), DyAbs(rect[3])))
UcsPolarBits2(a, b, m, sc, fl) == Min2i(AgreeBits(a, PMul(m, sc[2], fl), POne(fl)), AgreeBits(b, PMul(m, sc[1], fl), POne(fl)))
UcsPolarBits1(rect, pol, k, fl) ==
  UcsPolarBits2(POfDy(DyMulPow2(rect[2], k), fl), POfDy(DyMulPow2(rect[3], k), fl), POfDy(DyMulPow2(pol[2], k), fl),
                SinCosP(POfDy(pol[3], fl), fl), fl)
UcsPolarBits(rect, pol, fl) ==
  IF DySign(pol[2]) < 0 THEN 0
  ELSE Min2i(DyRelBits(rect[1], pol[1]),
             IF DyIsZero(PolarMag(rect, pol)) THEN 200 ELSE UcsPolarBits1(rect, pol, -DyLog2(PolarMag(rect, pol)), fl))
(* model-side functions (TLC only evaluates them on its own grid, in Fx) *)
C007 == FxRat(7, 1000)
C17 == FxRat(17, 10)
C0228 == FxRat(228, 10000)
UcsJFwd(J) == FxDiv(FxMul(C17, J), FxAdd(FxOne, FxMul(C007, J)))
UcsJInv(Jp) == FxDiv(Jp, FxSub(C17, FxMul(C007, Jp)))
UcsMFwd(M) == FxDiv(FxLn(FxAdd(FxOne, FxMul(C0228, M))), C0228)
UcsMInv(Mp) == FxDiv(FxSub(FxExp(FxMul(C0228, Mp)), FxOne), C0228)

-----------------------------------------------------------------------------
(* Thresholds (bits of agreement required; one bit = a factor 2 of deviation).  Principled bounds: a round trip chains
   about 40 roundings and three power functions with exponents up to 2.4, i.e. some 2^6 u of the XYZ magnitude; the
   attribute links a dozen roundings; the UCS transformations 4 roundings around a logarithm.  Calibration on the pinned
   tree, thorough tier (all 4320 lattice conditions x 6 partial kinds x 3 colours, 30000 random conditions incl. custom
   whites and clamped surround / discounting, dark colours down to 1e-9, 4x white; 318480 events), worst case observed:
                                         f64  bits (deviation)  -> threshold     f32  bits (deviation) -> threshold
     XYZ round trip, responses >= 0        47  (7.1e-15)           42            18  (3.8e-6)            13
     XYZ round trip, one negative response 45  (2.8e-14)           42            16  (1.5e-5)            13     (8x)
     from_xyz vs projection                bit-identical           45            bit-identical           16
     into_full(partial) vs full            49  (1.8e-15)           45            20  (9.5e-7)            16
     s^2 Q = 10^4 M, two-colour ratios     49  (1.8e-15)           45            20  (9.5e-7)            16
     adopted white J = 100                 bit-identical           45            bit-identical           16
     UCS relations (J', M', polar, inverses) 49 (1.8e-15)          46            20  (9.5e-7)            17     (8x)
     UCS round trips                       48  (3.6e-15)           44            19  (1.9e-6)            15
   No corner of the lattice (percent-0 / dark surround, adapting luminance 0.1, background 0.01, discounting 0) is worse
   conditioned than the rest: relative to the XYZ magnitude the round trip is uniformly good down to 1e-9.  The margins of
   every run are recorded in the evidence file (coverage.margins). *)
F32(t) == t = "f32"
RtThr(t) == IF F32(t) THEN 13 ELSE 42
AttrThr(t) == IF F32(t) THEN 16 ELSE 45
LinkThr(t) == IF F32(t) THEN 16 ELSE 45
UcsThr(t) == IF F32(t) THEN 17 ELSE 46
UcsRtThr(t) == IF F32(t) THEN 15 ELSE 44

-----------------------------------------------------------------------------
(* Verdicts over events.  A `conv` event: params, t, pk (partial kind), w (1: x is the adopted white of params),
   x, full = Cam16::from_xyz(x), fback = full.into_xyz(), part = Partial::from_xyz(x), proj = Partial::from_full(full),
   pback = part.into_xyz(), exp = proj.into_full().  *)
IsZeroV(js) == \A i \in DOMAIN js : js[i][1] = 0
ZeroAt(js, idx) == \A i \in idx : js[i][1] = 0
ConvFinite(e) == AllFin(e.full) /\ AllFin(e.fback) /\ AllFin(e.part) /\ AllFin(e.proj) /\ AllFin(e.pback) /\ AllFin(e.exp)
(* (2) black: every attribute exactly 0 (the hue of black is only required to be a number), and back exactly 0 *)
BlackOK(e) == /\ ConvFinite(e)
              /\ ZeroAt(e.full, MagIdx) /\ ZeroAt(e.exp, MagIdx) /\ ZeroAt(e.part, {1, 2}) /\ ZeroAt(e.proj, {1, 2})
              /\ IsZeroV(e.fback) /\ IsZeroV(e.pback)
ConvBits1(e, x, full) ==
  [ rtf |-> RoundTripBits(x, DyV(e.fback)),
    rtp |-> IF e.pback = e.fback THEN 999 ELSE RoundTripBits(x, DyV(e.pback)),      \* 999: same as rtf
    pp  |-> IF e.part = e.proj THEN 200 ELSE PartBits(DyV(e.part), DyV(e.proj)),
    ef  |-> FullBits(DyV(e.exp), full),
    sat |-> SatLinkBits(DyMul(full[6], full[6]), full[4], full[5]),
    wj  |-> IF e.w = 1 THEN DyRelBits(full[1], DyFromInt(100)) ELSE 200 ]
ConvBits(e) == ConvBits1(e, DyV(e.x), DyV(e.full))
ConvJudged(e) == e.panic = 0 /\ AllFin(e.x) /\ ~IsZeroV(e.x) /\ InDomain(DyV(e.x)) /\ ConvFinite(e)
ConvVerdict(b, t) ==
  IF b.rtf < RtThr(t) THEN "full-round-trip"
  ELSE IF b.rtp < RtThr(t) THEN "partial-round-trip"
  ELSE IF b.pp < AttrThr(t) THEN "from-xyz-differs-from-projection"
  ELSE IF b.ef < AttrThr(t) THEN "into-full-differs-from-full"
  ELSE IF b.sat < LinkThr(t) THEN "saturation-link"
  ELSE IF b.wj < AttrThr(t) THEN "white-not-100"
  ELSE "ok"
(* b = ConvBits(e): an operator argument is evaluated at most once, and only if it is used *)
(* The transparency-carrying forms (Alpha<Cam16>, Alpha<partial>; the brief calls them the same conversions "with
   transparency") give exactly the bare results followed by the transparency that went in; the partial colour obtained
   through From<Alpha<Cam16>>, through from_color_unclamped(full) and from itself is the projection. *)
WithAl(v, a) == Append(v, a)
AlphaFormsAgree(e) ==
  /\ e.afull = WithAl(e.full, e.al) /\ e.afback = WithAl(e.fback, e.al)
  /\ e.apart = WithAl(e.part, e.al) /\ e.aproj = WithAl(e.proj, e.al)
  /\ e.apback = WithAl(e.pback, e.al) /\ e.aexp = WithAl(e.exp, e.al)
  /\ Len(e.extra) = 3 /\ e.extra[1] = WithAl(e.proj, e.al) /\ e.extra[2] = e.proj /\ e.extra[3] = e.proj

ConvWhyB(e, b) ==
  IF e.panic = 1 THEN "panic"
  ELSE IF ~AllFin(e.x) THEN "ok"
  ELSE IF IsZeroV(e.x) THEN (IF BlackOK(e) THEN "ok" ELSE "black-not-black")
  ELSE IF ~InDomain(DyV(e.x)) THEN "ok"
  ELSE IF ~ConvFinite(e) THEN "non-finite"
  ELSE IF e.proj # Project(e.full, e.pk) THEN "projection-not-exact"
  ELSE IF "afull" \in DOMAIN e /\ ~AlphaFormsAgree(e) THEN "alpha-form-differs-or-loses-transparency"
  ELSE ConvVerdict(b, e.t)
ConvWhy(e) == ConvWhyB(e, ConvBits(e))

(* A `pair` event: two colours x1, x2 converted under the same params; f1, f2 their full attribute vectors *)
PairInDomain(e) == (IsZeroV(e.x1) \/ InDomain(DyV(e.x1))) /\ (IsZeroV(e.x2) \/ InDomain(DyV(e.x2)))
PairJudged(e) == e.panic = 0 /\ AllFin(e.x1) /\ AllFin(e.x2) /\ PairInDomain(e) /\ AllFin(e.f1) /\ AllFin(e.f2)
PairWhyB(e, b) ==
  IF e.panic = 1 THEN "panic"
  ELSE IF ~(AllFin(e.x1) /\ AllFin(e.x2)) THEN "ok"
  ELSE IF ~PairInDomain(e) THEN "ok"
  ELSE IF ~(AllFin(e.f1) /\ AllFin(e.f2)) THEN "non-finite"
  ELSE IF b < LinkThr(e.t) THEN "attribute-ratios"
  ELSE "ok"
PairWhy(e) == PairWhyB(e, PairBits(DyV(e.f1), DyV(e.f2)))

(* A `ucs` event: jmh (Cam16Jmh: J, M, h) -> ujmh (Cam16UcsJmh) -> ujab (Cam16UcsJab) -> ujmhb (Cam16UcsJmh) ->
   jmhb (Cam16Jmh); ujabd = Cam16UcsJab from jmh and jmhd = Cam16Jmh from ujab by the derived routes;
   ujmhc = the clamping FromColor of the first step *)
UcsInDomain(jmh) == DySign(jmh[1]) >= 0 /\ DySign(jmh[2]) >= 0 /\ DyLe(jmh[1], DyFromInt(200)) /\ DyLe(jmh[2], DyFromInt(1000))
                    /\ DyLe(DyAbs(jmh[3]), DyFromInt(1080))
UcsFinite(e) == AllFin(e.ujmh) /\ AllFin(e.ujab) /\ AllFin(e.ujabd) /\ AllFin(e.ujmhb) /\ AllFin(e.jmhb) /\ AllFin(e.jmhd) /\ AllFin(e.ujmhc)
(* colourfulness round trip, relative to max(1, M): 1 + 0.0228 M absorbs a small M *)
MRtBits(a, b) == DyBits(a, b, DyMax(DyFromInt(1), DyMaxAbs(a, b)))
HueRtBits(h1, h2, m) == IF DyLt(m, DyPow2(-40)) THEN 200            \* no direction left to preserve
                        ELSE DyHueBits(h1, h2)
UcsBits1(e, jmh, ujmh, ujab, ujmhb, jmhb, fl) ==
  [ fj  |-> UcsJBits(jmh[1], ujmh[1]),
    fm  |-> UcsMBits(jmh[2], ujmh[2], fl),
    pol |-> Min3i(UcsPolarBits(ujab, ujmh, fl), IF e.ujabd = e.ujab THEN 999 ELSE UcsPolarBits(DyV(e.ujabd), ujmh, fl),
                  UcsPolarBits(ujab, ujmhb, fl)),
    ij  |-> Min2i(UcsJInvBits(ujmhb[1], jmhb[1]), UcsJInvBits(ujab[1], Dy(e.jmhd[1]))),
    im  |-> Min2i(UcsMInvBits(ujmhb[2], jmhb[2], fl), IF e.jmhd[2] = e.jmhb[2] THEN 999 ELSE UcsMInvBits(ujmhb[2], Dy(e.jmhd[2]), fl)),
    rt  |-> Min2i(Min3i(DyRelBits(jmhb[1], jmh[1]), MRtBits(jmhb[2], jmh[2]), HueRtBits(jmhb[3], jmh[3], ujmh[2])),
                  Min3i(DyRelBits(ujmhb[1], ujmh[1]), MRtBits(ujmhb[2], ujmh[2]), HueRtBits(ujmhb[3], ujmh[3], ujmh[2]))) ]
UcsBits(e) == UcsBits1(e, DyV(e.jmh), DyV(e.ujmh), DyV(e.ujab), DyV(e.ujmhb), DyV(e.jmhb), Prec(e.t))
UcsJudged(e) == e.panic = 0 /\ AllFin(e.jmh) /\ UcsInDomain(DyV(e.jmh)) /\ UcsFinite(e)
UcsVerdict(b, t) ==
  IF b.fj < UcsThr(t) THEN "ucs-lightness"
  ELSE IF b.fm < UcsThr(t) THEN "ucs-colourfulness"
  ELSE IF b.pol < UcsThr(t) THEN "ucs-polar"
  ELSE IF b.ij < UcsThr(t) THEN "ucs-lightness-inverse"
  ELSE IF b.im < UcsThr(t) THEN "ucs-colourfulness-inverse"
  ELSE IF b.rt < UcsRtThr(t) THEN "ucs-round-trip"
  ELSE "ok"
UcsWhyB(e, b) ==
  IF e.panic = 1 THEN "panic"
  ELSE IF ~AllFin(e.jmh) \/ ~UcsInDomain(DyV(e.jmh)) THEN "ok"
  ELSE IF ~UcsFinite(e) THEN "non-finite"
  ELSE IF e.ujmh[3] # e.jmh[3] THEN "ucs-hue-not-copied"
  ELSE IF DyLe(Dy(e.ujmh[1]), DyFromInt(100)) /\ e.ujmhc # e.ujmh THEN "clamped-differs-in-bounds"
  ELSE UcsVerdict(b, e.t)
UcsWhy(e) == UcsWhyB(e, UcsBits(e))
=============================================================================
