------------------------------ MODULE TraceHex ------------------------------
(* Trace validation for C12.  Every recorded observation of palette's hex     *)
(* parser / formatter, packed-integer conversions and named-colour lookup     *)
(* must agree with Hex.tla, Packed.tla and Named.tla.  Events are stateless   *)
(* (each line is judged on its own): a line that disagrees is printed as      *)
(* REJECT and validation continues with the next line; a line no action       *)
(* matches stops the run and is reported through UNCONSUMED.                  *)
(*                                                                            *)
(* Event kinds (field `ev`):                                                  *)
(*   parse     one call of FromStr / from_hex: type, string (sequence of      *)
(*             characters), r = 1 accepted / 0 rejected with an error /       *)
(*             -1 panicked / -3 accepted with a non-finite value, value       *)
(*   count     full-space sweep of one type over all strings of one length:   *)
(*             numbers of accepted / rejected / panicking strings             *)
(*   fmt       {:x}, {:X} of a colour, and what parsing those strings (and    *)
(*             '#' + the first) returned                                      *)
(*   rtsweep   number of colours swept through parse(format(c)) and the       *)
(*             number of mismatches                                           *)
(*   pack, lpack, packdef, packsweep, lpacksweep    packing / unpacking       *)
(*   name, entries, const, constset                 named colours             *)
EXTENDS Hex, Packed, Named, Fx, Json, IOUtils, TLC

Rec == ndJsonDeserialize(IOEnv.TRACE)

VARIABLE l      \* next line of the recording
tvars == <<l>>

TInit == l = 1

ToSet(s) == {s[i] : i \in DOMAIN s}

-----------------------------------------------------------------------------
(* parse *)

(* Float targets: the model's channel is a numerator over ffffffff (Hex.tla).  The logged f32/f64 v
   must satisfy |v * ffffffff - num| <= num * 2^-FloatRelBits.
   Justification of the tolerance: palette computes u8 -> f32 as x * (1/255) (two roundings, relative
   error < 2^-23), u16 -> f32 and uN -> f64 as one correctly rounded division (2^-24 resp. 2^-53),
   u32 -> f32 via f64 (2^-24).  Calibrated on the pinned tree over the 11 690 float channels of the
   quick tier's recording: largest relative deviation 2^-23.32 (f32, "#a2B3c4" blue) and 2^-53.37 (f64);
   the bounds below leave a factor 8 over the principled bounds (f32: 2^-20, f64: 2^-50).  How the last
   bit is rounded is C06's subject, not C12's. *)
FloatRelBits(ty) == IF ty \in {"rgb_f32", "rgba_f32"} THEN 20 ELSE 50

RECURSIVE BigOfDigits(_)
BigOfDigits(d) == IF d = <<>> THEN Zero
                  ELSE Add(MulSmall(BigOfDigits(SubSeq(d, 1, Len(d) - 1)), 16), FromNat(d[Len(d)]))
DyOfBig(n) == IF n = <<>> THEN DyZero ELSE <<1, 0, n>>
AllF == BigOfDigits(<<15, 15, 15, 15, 15, 15, 15, 15>>)

FloatNear(j, digits, bits) ==
  LET v == Dy(j)
      num == DyOfBig(BigOfDigits(digits))
  IN /\ DySign(v) >= 0
     /\ DyLe(DyAbs(DySub(DyMul(v, DyOfBig(AllF)), num)), DyMulPow2(num, -bits))

ValueAgrees(ty, logged, model) ==
  IF HexTypes[ty].float
  THEN /\ Len(logged) = Len(model)
       /\ \A k \in 1..Len(model) : FloatNear(logged[k], model[k], FloatRelBits(ty))
  ELSE logged = model

ParseAgrees(e) ==
  LET m == Parse(e.ty, e.sy) IN
  /\ e.r \in {0, 1}                         \* never a panic, never a non-finite colour
  /\ (e.r = 1) <=> m.ok                     \* accepted exactly when the grammar says so
  /\ (e.r = 1 /\ m.ok) => ValueAgrees(e.ty, e.val, m.val)

ParseInfo(e) == LET m == Parse(e.ty, e.sy) IN IF m.ok THEN <<"model accepts", m.val>> ELSE <<"model rejects">>

TParse == /\ Rec[l].ev = "parse"
          /\ ParseAgrees(Rec[l]) \/ PrintT(<<"REJECT", l, "parse", ParseInfo(Rec[l])>>)

(* full-space sweep: set equality through counting.  Every accepted string of the sweep is also a
   `parse` event (checked above to be in the model's accepting set with the model's value); if the number
   of accepted strings equals the size of the model's accepting set for that length, the sets are equal. *)
CountAgrees(e) ==
  LET nd == Cardinality({c \in ToSet(e.alphabet) : IsHexDigit(c)})
      ns == Cardinality(ToSet(e.alphabet))
  IN /\ ns = Len(e.alphabet) /\ "#" \in ToSet(e.alphabet)
     /\ e.pan = 0
     /\ e.acc = AcceptCount(e.ty, e.len, nd)
     /\ e.acc + e.rej + e.pan = IPow(ns, e.len)      \* the sweeper visited the whole space

TCount == /\ Rec[l].ev = "count"
          /\ CountAgrees(Rec[l])
             \/ PrintT(<<"REJECT", l, "count", AcceptCount(Rec[l].ty, Rec[l].len,
                                                          Cardinality({c \in ToSet(Rec[l].alphabet) : IsHexDigit(c)}))>>)

-----------------------------------------------------------------------------
(* format, round trip *)

FmtAgrees(e) ==
  /\ e.lo = Format(e.ty, e.val, FALSE)
  /\ e.up = Format(e.ty, e.val, TRUE)
  /\ \A i \in 1..3 : e.b[i] = 1 /\ e.bv[i] = e.val      \* parse(format(c)) = c for {:x}, {:X}, #{:x}
  /\ RoundTrip(e.ty, e.val)

TFmt == /\ Rec[l].ev = "fmt"
        /\ FmtAgrees(Rec[l]) \/ PrintT(<<"REJECT", l, "fmt", Format(Rec[l].ty, Rec[l].val, FALSE)>>)

RtSweepAgrees(e) == /\ e.mism = 0
                    /\ e.n > 0
                    /\ (e.full = 1) => e.n = 16777216         \* all 2^24 Rgb<u8>

TRtSweep == /\ Rec[l].ev = "rtsweep"
            /\ RtSweepAgrees(Rec[l]) \/ PrintT(<<"REJECT", l, "rtsweep">>)

-----------------------------------------------------------------------------
(* packing *)

PackAgrees(e) ==
  LET o == RgbaOrders[e.order]
      p == Pack(RgbaChannels, o, e.c)
      u == Unpack(RgbaChannels, o, e.c)
  IN /\ e.panic = 0
     /\ \A i \in DOMAIN e.packs : e.packs[i] = p                       \* array, u32 (big-endian), into_u32, From
     /\ \A i \in DOMAIN e.packs_rgb : e.packs_rgb[i] = PackRgb(o, SubSeq(e.c, 1, 3), 255)
     /\ \A i \in DOMAIN e.unpacks : e.unpacks[i] = u
     /\ \A i \in DOMAIN e.unpacks_rgb : e.unpacks_rgb[i] = UnpackRgb(o, e.c)
     /\ Len(e.packs) = 4 /\ Len(e.packs_rgb) = 2 /\ Len(e.unpacks) = 4 /\ Len(e.unpacks_rgb) = 2
     /\ e.arr16 = Pack(RgbaChannels, o, e.c16)
     /\ e.un16 = Unpack(RgbaChannels, o, e.c16)
     \* 32-bit channels in an array: positions only
     /\ e.arr32 = Pack(RgbaChannels, o, e.c32) /\ e.un32 = Unpack(RgbaChannels, o, e.c32)
     \* the integer forms u8, u64, u128 over a byte-keeping order: the first byte is the most significant one, both ways
     /\ Len(e.wide_out) = 6 /\ e.wide_out = e.wide_in

TPack == /\ Rec[l].ev = "pack"
         /\ PackAgrees(Rec[l])
            \/ PrintT(<<"REJECT", l, "pack", Pack(RgbaChannels, RgbaOrders[Rec[l].order], Rec[l].c),
                        Unpack(RgbaChannels, RgbaOrders[Rec[l].order], Rec[l].c)>>)

LPackAgrees(e) ==
  LET o == LumaOrders[e.order] IN
  /\ e.panic = 0
  /\ Len(e.packs) = 3 /\ Len(e.unpacks) = 3 /\ Len(e.packs_l) = 1 /\ Len(e.unpacks_l) = 1
  /\ \A i \in DOMAIN e.packs : e.packs[i] = Pack(LumaChannels, o, e.c)                 \* array, u16, into_u16
  /\ \A i \in DOMAIN e.unpacks : e.unpacks[i] = Unpack(LumaChannels, o, e.c)           \* array, u16, from_u16
  /\ e.packs_l[1] = Pack(LumaChannels, o, <<e.c[1], 255>>)                              \* Luma::into_u16: opaque
  /\ e.unpacks_l[1] = <<Unpack(LumaChannels, o, e.c)[1]>>                               \* Luma::from_u16 drops the alpha byte

TLPack == /\ Rec[l].ev = "lpack"
          /\ LPackAgrees(Rec[l])
             \/ PrintT(<<"REJECT", l, "lpack", Pack(LumaChannels, LumaOrders[Rec[l].order], Rec[l].c)>>)

PackDefAgrees(e) ==
  /\ e.panic = 0
  /\ e.rgb_into = PackRgb(DefaultOrderRgb, SubSeq(e.c, 1, 3), 255)
  /\ e.rgba_into = Pack(RgbaChannels, DefaultOrderRgba, e.c)
  /\ e.rgb_from = UnpackRgb(DefaultOrderRgb, e.c)
  /\ e.rgba_from = Unpack(RgbaChannels, DefaultOrderRgba, e.c)

TPackDef == /\ Rec[l].ev = "packdef"
            /\ PackDefAgrees(Rec[l]) \/ PrintT(<<"REJECT", l, "packdef">>)

(* sweeps of packed values: the harness compared every unpacked channel with the byte at the position
   `pos`; the positions must be the model's, the space complete, no mismatch *)
PackSweepAgrees(e) ==
  /\ e.pos = [k \in 1..4 |-> PosOf(RgbaOrders[e.order], RgbaChannels[k])]
  /\ e.mism = 0
  /\ (e.full = 1) => (e.n_hi = 65536 /\ e.n_lo = 0)       \* 2^32 = 65536 * 2^16
  /\ e.n_hi > 0
TPackSweep == /\ Rec[l].ev = "packsweep"
              /\ PackSweepAgrees(Rec[l]) \/ PrintT(<<"REJECT", l, "packsweep">>)

LPackSweepAgrees(e) ==
  /\ e.pos = [k \in 1..2 |-> PosOf(LumaOrders[e.order], LumaChannels[k])]
  /\ e.mism = 0 /\ e.n = 65536
TLPackSweep == /\ Rec[l].ev = "lpacksweep"
               /\ LPackSweepAgrees(Rec[l]) \/ PrintT(<<"REJECT", l, "lpacksweep">>)

-----------------------------------------------------------------------------
(* named colours *)

NameAgrees(e) == <<e.found, e.val>> = Lookup(e.q)
TName == /\ Rec[l].ev = "name"
         /\ NameAgrees(Rec[l]) \/ PrintT(<<"REJECT", l, "name", Lookup(Rec[l].q)>>)

EntriesAgrees(e) ==
  /\ Len(e.names) = Len(e.vals) /\ Len(e.names) = e.len
  /\ {<<e.names[i], e.vals[i]>> : i \in DOMAIN e.names} = Entries      \* names as a set equal the model's
  /\ e.len = Cardinality(Names)                                         \* and no name twice
  /\ ToSet(e.names_iter) = Names /\ Len(e.names_iter) = Cardinality(Names)
  /\ ToSet(e.colors_iter) = {NamedColors[n] : n \in Names} /\ Len(e.colors_iter) = Cardinality(Names)
TEntries == /\ Rec[l].ev = "entries"
            /\ EntriesAgrees(Rec[l])
               \/ PrintT(<<"REJECT", l, "entries", "missing", Names \ ToSet(Rec[l].names), "extra", ToSet(Rec[l].names) \ Names>>)

ConstAgrees(e) == /\ e.lower \in Names
                  /\ e.val = NamedColors[e.lower]
                  /\ e.found = 1 /\ e.fval = e.val            \* found under its lower-case name
TConst == /\ Rec[l].ev = "const"
          /\ ConstAgrees(Rec[l]) \/ PrintT(<<"REJECT", l, "const", Lookup(Rec[l].lower)>>)

TConstSet == /\ Rec[l].ev = "constset"
             /\ (ToSet(Rec[l].names) = Names /\ Len(Rec[l].names) = Cardinality(Names))
                \/ PrintT(<<"REJECT", l, "constset", "missing", Names \ ToSet(Rec[l].names), "extra", ToSet(Rec[l].names) \ Names>>)

-----------------------------------------------------------------------------
TNext == /\ l <= Len(Rec)
         /\ l' = l + 1
         /\ \/ TParse \/ TCount \/ TFmt \/ TRtSweep
            \/ TPack \/ TLPack \/ TPackDef \/ TPackSweep \/ TLPackSweep
            \/ TName \/ TEntries \/ TConst \/ TConstSet
TSpec == TInit /\ [][TNext]_tvars

(* every line was consumed *)
Consumed == TLCGet("stats").diameter = Len(Rec) + 1 \/ PrintT(<<"UNCONSUMED", TLCGet("stats").diameter>>)
=============================================================================
