--------------------------------- MODULE Ops ---------------------------------
(***************************************************************************)
(* C10 - colour operators obey their algebra and all their variants agree. *)
(*                                                                         *)
(* A colour is a sequence of EXACT dyadic numbers (`Dy` of Fx.tla), one per *)
(* component in declared order.  Every float is a dyadic, sums, differences *)
(* and products of dyadics are dyadics, so every operator below except the  *)
(* quotient is computed exactly; the quotient is judged by cross-           *)
(* multiplication.  There is no floating point in this module.             *)
(*                                                                         *)
(* Part 1  the capability table (which operator family exists for which     *)
(*         colour type) and which components an operator moves;            *)
(* Part 2  the exact semantics of each operator;                           *)
(* Part 3  the judges: "may the call with these exact inputs return this    *)
(*         exact output?" (value within Arith, range, untouched components, *)
(*         betweenness, monotone along a factor sweep);                    *)
(* Part 4  the machine: "same call, same result" (DESIGN 3.4) as the        *)
(*         adjacent-group refinement - state = current group + the previous *)
(*         reference result of the running factor sweep.                   *)
(***************************************************************************)
EXTENDS Types, Sequences

(* Exact arithmetic modulo 360 on dyadics, and the float formats, are C11's (Hue.tla); that module's state variable
   is irrelevant here. *)
HueM == INSTANCE Hue WITH last <- <<"none", "f32">>
Prec(t) == HueM!Prec(t)                            \* significand bits: 24 / 53
MinExp(t) == HueM!MinExp(t)                        \* log2 of the smallest positive value
UlpExp(t, v) == HueM!UlpExp(t, v)                  \* log2 of the unit in the last place of v # 0 stored in type t
HueMod360(d) == HueM!Mod360(d)                     \* d mod 360 in [0, 360), exact
HueCircDist(d) == HueM!CircDist(d)                 \* distance from the nearest multiple of 360, in [0, 180]
HueCongruent(x1, x2) == HueM!Congruent(x1, x2)     \* the same point of the circle
HueCanonSigned(x) == HueM!CanonSigned(x)           \* the representative in (-180, 180]
D0 == DyZero
D1 == DyFromInt(1)
D180 == DyFromInt(180)
D360 == DyFromInt(360)
Absent(b) == b = <<>>

Mag2(a, b) == DyMax(DyAbs(a), DyAbs(b))
Mag3(a, b, c) == DyMax(DyAbs(a), Mag2(b, c))
Mag4(a, b, c, d) == DyMax(Mag2(a, b), Mag2(c, d))

-----------------------------------------------------------------------------
(* Part 1: capabilities *)

Base == {"Mix", "Lighten", "Clamp", "Add", "Sub"}
Lin == Base \cup {"Mul", "Div", "PreAlpha"}            \* component-wise spaces: also premultipliable
HueFam == {"ShiftHue", "WithHue", "Complementary", "SplitComplementary", "Analogous", "Triadic", "Tetradic"}
LabFam == {"Complementary", "Tetradic"}                \* without a hue: by negation / quarter turn of (a, b)
Cyl == Base \cup HueFam

(* from the "Trait Implementations" of each palette colour type (documentation); the harness reports the
   table it was compiled with and TraceOps compares the two *)
Caps ==
  [ xyz |-> Lin, yxy |-> Lin, lab |-> Lin \cup LabFam, lch |-> Cyl \cup {"Saturate"},
    luv |-> Lin \cup LabFam, lchuv |-> Cyl \cup {"Saturate"}, hsluv |-> Cyl \cup {"Saturate"},
    oklab |-> Lin \cup LabFam, oklch |-> Cyl, okhsl |-> Cyl \cup {"Saturate"}, okhsv |-> Cyl \cup {"Saturate"},
    okhwb |-> Cyl, linsrgb |-> Lin, srgb |-> Lin, hsl |-> Cyl \cup {"Saturate"}, hsv |-> Cyl \cup {"Saturate"},
    hwb |-> Cyl, linluma |-> Lin, srgbluma |-> Lin,
    \* outside the XYZ conversion group, built from the same operator macros
    cam16ucsjab |-> Lin \cup LabFam, cam16ucsjmh |-> Cyl \cup {"Saturate"}, lmsvk |-> Lin \ {"Lighten"} ]

IsHwb(node) == node \in {"hwb", "okhwb"}
(* components moved by Lighten / Saturate ("the affected component") *)
LightIdx(node) == CASE node \in {"xyz", "linsrgb", "srgb"} -> {1, 2, 3}      \* every channel toward its own maximum
                    [] node \in {"yxy", "hsluv", "okhsl", "okhsv", "hsl", "hsv"} -> {3}
                    [] IsHwb(node) -> {2, 3}                                  \* whiteness up, blackness down
                    [] OTHER -> {1}                                           \* l / luma
SatIdx(node) == {2}                                                           \* saturation / chroma, where Saturate exists
AffIdx(tr, node) == IF tr = "Lighten" THEN LightIdx(node) ELSE SatIdx(node)
(* (a, b)-like pair of the Lab-like spaces *)
ABIdx(node) == <<2, 3>>

(* the colour-scheme helpers as hue shifts in degrees (color_theory.rs: "rotated by 180", "(hue+150, hue+210)",
   "(hue-30, hue+30)", "(hue-60, hue+60)", "(hue+120, hue+240)", "(hue+90, hue+180, hue+270)") *)
SchemeShifts(m) == CASE m = "complementary" -> <<180>>
                     [] m = "split_complementary" -> <<150, 210>>
                     [] m = "analogous" -> <<-30, 30>>
                     [] m = "analogous_secondary" -> <<-60, 60>>
                     [] m = "triadic" -> <<120, 240>>
                     [] m = "tetradic" -> <<90, 180, 270>>
SchemeFams == {"Complementary", "SplitComplementary", "Analogous", "Triadic", "Tetradic"}
FactorFams == {"Lighten", "Saturate"}
ArithFams == {"Add", "Sub", "Mul", "Div"}

-----------------------------------------------------------------------------
(* Part 2: exact semantics *)

ClampTo(x, lo, hi) == IF DyLt(x, lo) THEN lo ELSE IF DyLt(hi, x) THEN hi ELSE x
Clamp01(f) == ClampTo(f, D0, D1)

(* ---- Mix: a + (b - a) * clamp(f, 0, 1) per component *)
MixLin(a, b, f) == DyAdd(a, DyMul(DySub(b, a), Clamp01(f)))
(* hue: by the signed shortest difference r in (-180, 180] of hb - ha.  At |r| = 180 exactly the two ways
   round are equally short and BOTH directions are admissible (palette's normalisation happens to give +180). *)
SignedDiff(ha, hb) == HueCanonSigned(DySub(hb, ha))
OtherWay(r) == IF DySign(r) > 0 THEN DySub(r, D360) ELSE DyAdd(r, D360)
MixHueWith(ha, r, f) == DyAdd(ha, DyMul(r, Clamp01(f)))
MixHueSet(ha, hb, f) == LET r == SignedDiff(ha, hb)
                        IN IF DyEq(DyAbs(r), D180) THEN {MixHueWith(ha, r, f), MixHueWith(ha, OtherWay(r), f)}
                           ELSE {MixHueWith(ha, r, f)}
(* all admissible exact results of mix (one, or two when the hues are opposite) *)
MixSet(node, a, b, f) ==
  LET h == HueIdx(node)
      lin == [i \in DOMAIN a |-> IF i = h THEN D0 ELSE MixLin(a[i], b[i], f)]
  IN IF h = 0 THEN {lin} ELSE {[lin EXCEPT ![h] = x] : x \in MixHueSet(a[h], b[h], f)}

(* ---- Lighten / Saturate on one component with documented range [lo, hi]
   relative ("scale towards the maximum / minimum by factor"):
       f >= 0:  x + (hi - x) * f          f < 0:  x + (x - lo) * f        then clamped to [lo, hi]
   fixed ("by an amount independent of the current value"):  x + (hi - lo) * f  clamped to [lo, hi].
   The differences are taken as max(.., 0) as in _impl_increase_value_trait (matters only for inputs outside
   the range).  Every documented minimum of an affected component is 0, so palette's `x` and `max * amount`
   coincide with (x - lo) and (hi - lo) * amount. *)
TowardRaw(x, lo, hi, f) == IF DySign(f) >= 0 THEN DyAdd(x, DyMul(DyMax(DySub(hi, x), D0), f))
                           ELSE DyAdd(x, DyMul(DyMax(DySub(x, lo), D0), f))
FixedRaw(x, lo, hi, f) == DyAdd(x, DyMul(DySub(hi, lo), f))
IncRaw(m, x, lo, hi, f) == IF m \in {"lighten", "saturate"} THEN TowardRaw(x, lo, hi, f) ELSE FixedRaw(x, lo, hi, f)
Inc(m, x, lo, hi, f) == ClampTo(IncRaw(m, x, lo, hi, f), lo, hi)

(* ---- Lighten on the HWB-like types (hue, whiteness, blackness): whiteness moves like a lightness, blackness
   the opposite way (impl_lighten_hwb): relative f >= 0: w + (1 - w) f, b - b f;  f < 0: w + w f, b - (1 - b) f;
   fixed: w + f, b - f;  each clamped to its range [0, 1].
   palette clamps these two at the LOWER bound only; see HwbCompOK / RangeOK for how that is judged. *)
HwbRaw(m, c, lo, hi, f) ==
  LET w == c[2]  b == c[3]
  IN IF m = "lighten"
     THEN IF DySign(f) >= 0
          THEN <<c[1], DyAdd(w, DyMul(DyMax(DySub(hi[2], w), D0), f)), DySub(b, DyMul(DyMax(DySub(b, lo[3]), D0), f))>>
          ELSE <<c[1], DyAdd(w, DyMul(DyMax(DySub(w, lo[2]), D0), f)), DySub(b, DyMul(DyMax(DySub(hi[3], b), D0), f))>>
     ELSE <<c[1], DyAdd(w, DyMul(DySub(hi[2], lo[2]), f)), DySub(b, DyMul(DySub(hi[3], lo[3]), f))>>
HwbLighten(m, c, lo, hi, f) == LET r == HwbRaw(m, c, lo, hi, f)
                               IN <<r[1], ClampTo(r[2], lo[2], hi[2]), ClampTo(r[3], lo[3], hi[3])>>

(* the whole colour; lo, hi: sequences of Dy (<<>> where the documentation gives no bound) *)
Increase(tr, m, node, c, lo, hi, f) ==
  IF tr = "Lighten" /\ IsHwb(node) THEN HwbLighten(m, c, lo, hi, f)
  ELSE [i \in DOMAIN c |-> IF i \in AffIdx(tr, node) THEN Inc(m, c[i], lo[i], hi[i], f) ELSE c[i]]
(* darken = lighten with the negated amount, desaturate = saturate with the negated amount *)
Decrease(tr, m, node, c, lo, hi, f) == Increase(tr, m, node, c, lo, hi, DyNeg(f))

(* ---- hue shift and set *)
ShiftHue(node, c, amount) == [c EXCEPT ![HueIdx(node)] = DyAdd(@, amount)]
WithHue(node, c, h) == [c EXCEPT ![HueIdx(node)] = h]

(* ---- colour-scheme helpers: k-th colour of the scheme *)
SchemeHue(node, c, m, k) == ShiftHue(node, c, DyFromInt(SchemeShifts(m)[k]))
(* Lab-like: complementary = (-a, -b); tetradic = quarter turn (-b, a), half turn (-a, -b), three quarters (b, -a) *)
SchemeLab(node, c, m, k) ==
  LET ia == ABIdx(node)[1]  ib == ABIdx(node)[2]
      turn == IF m = "complementary" THEN 2 ELSE k
  IN CASE turn = 1 -> [c EXCEPT ![ia] = DyNeg(c[ib]), ![ib] = c[ia]]
       [] turn = 2 -> [c EXCEPT ![ia] = DyNeg(c[ia]), ![ib] = DyNeg(c[ib])]
       [] turn = 3 -> [c EXCEPT ![ia] = c[ib], ![ib] = DyNeg(c[ia])]
SchemeLen(node, m) == IF HueIdx(node) = 0 THEN (IF m = "complementary" THEN 1 ELSE 3) ELSE Len(SchemeShifts(m))

(* ---- component arithmetic (the quotient is a relation, see DivOK) *)
Arith2(tr, x, y) == CASE tr = "Add" -> DyAdd(x, y) [] tr = "Sub" -> DySub(x, y) [] tr = "Mul" -> DyMul(x, y)

(* ---- membership of the documented range *)
CompWithin(x, lo, hi) == (Absent(lo) \/ DyLe(lo, x)) /\ (Absent(hi) \/ DyLe(x, hi))
Within(node, c, lo, hi) == /\ \A i \in DOMAIN c : CompWithin(c[i], lo[i], hi[i])
                           /\ (IsHwb(node) => DyLe(DyAdd(c[2], c[3]), D1))

-----------------------------------------------------------------------------
(* Part 3: judging what the implementation returned *)

(* TOLERANCE Arith(k): |returned - exact| <= k * 2^-Prec * M (or at most the smallest positive value of the type),
   M the largest magnitude among the inputs and the exact intermediates of the formula.  One correctly rounded
   operation errs by at most half an ulp <= 2^-Prec * |value|; mix is 3 operations, relative lighten 3, the hue mix 8
   (difference; normalisation = add, divide, subtract, multiply, subtract; scale; add): principled bound Arith(8).
   Calibration on the pinned tree (thorough tier, 2.3 million calls; evidence: max_deviation_observed, in units of
   2^-Prec * M): mix component 1.43, mix hue 1.19, relative lighten 1.33, fixed lighten 0.92, saturate 0.72,
   add/sub/mul 1.00, hue shift 0.93, mixed component outside the two inputs by 1.25.  Arith(16) is 11 x the largest. *)
ArithK == 16
TolRel(t, M) == DyMulInt(DyMulPow2(M, -Prec(t)), ArithK)
(* the absolute floor (results in the subnormal range) is a separate disjunct: adding 2^MinExp to every tolerance
   would align every comparison at 2^-1074 (83 limbs) *)
Near(t, x, y, M) == LET d == DyAbs(DySub(x, y)) IN DyLe(d, TolRel(t, M)) \/ DyLe(d, DyPow2(MinExp(t)))
(* angles: equal as points of the circle; magnitudes of at least a turn are involved in every normalisation *)
TolAngle(t, M) == TolRel(t, DyMax(M, D360))
NearAngle(t, x, y, M) == DyLe(HueCircDist(DySub(x, y)), TolAngle(t, M))

(* ---- Mix *)
MixCompOK(t, a, b, f, out) == Near(t, out, MixLin(a, b, f), Mag3(a, b, DySub(b, a)))
(* the direction is decided by hb - ha, which the implementation rounds: within TolAngle of opposite hues either
   direction is admissible *)
MixHueOK(t, ha, hb, f, out) ==
  LET d == DySub(hb, ha)  r == HueCanonSigned(d)
      M == DyMax(Mag3(ha, hb, d), D360)
      opposite == DyLe(DySub(D180, DyAbs(r)), TolAngle(t, M))
  IN \/ NearAngle(t, out, MixHueWith(ha, r, f), M)
     \/ opposite /\ NearAngle(t, out, MixHueWith(ha, OtherWay(r), f), M)
MixOK(node, t, a, b, f, out) ==
  \A i \in DOMAIN a : IF i = HueIdx(node) THEN MixHueOK(t, a[i], b[i], f, out[i]) ELSE MixCompOK(t, a[i], b[i], f, out[i])

(* betweenness, up to rounding: component-wise between the two inputs; the hue on the shorter arc between the two
   hues (x is on a shortest arc from p to q iff dist(p, x) + dist(x, q) = dist(p, q) on the circle) *)
BetweenComp(t, a, b, out) == LET s == TolRel(t, Mag3(a, b, DySub(b, a)))
                             IN DyLe(DySub(DyMin(a, b), s), out) /\ DyLe(out, DyAdd(DyMax(a, b), s))
BetweenHue(t, ha, hb, out) ==
  LET s == TolAngle(t, Mag3(ha, hb, DySub(hb, ha)))
  IN DyLe(DyAdd(HueCircDist(DySub(out, ha)), HueCircDist(DySub(hb, out))), DyAdd(HueCircDist(DySub(hb, ha)), s))
Between(node, t, a, b, out) ==
  \A i \in DOMAIN a : IF i = HueIdx(node) THEN BetweenHue(t, a[i], b[i], out[i]) ELSE BetweenComp(t, a[i], b[i], out[i])

(* ---- Lighten / Saturate *)
IncCompOK(t, m, x, lo, hi, f, out) ==
  LET raw == IncRaw(m, x, lo, hi, f) IN Near(t, out, ClampTo(raw, lo, hi), Mag4(x, lo, hi, raw))
(* HWB-like: the value is judged against the formula clamped to the range; a result that was clamped at the lower
   bound only is accepted here too - whether it may leave the range is RangeOK's business (only for |f| <= 1) *)
HwbCompOK(t, raw, lo, hi, x, out) ==
  LET M == Mag4(x, lo, hi, raw)
  IN Near(t, out, ClampTo(raw, lo, hi), M) \/ Near(t, out, DyMax(raw, lo), M)
IncreaseOK(tr, m, node, t, c, lo, hi, f, out) ==
  IF tr = "Lighten" /\ IsHwb(node)
  THEN LET raw == HwbRaw(m, c, lo, hi, f)
       IN HwbCompOK(t, raw[2], lo[2], hi[2], c[2], out[2]) /\ HwbCompOK(t, raw[3], lo[3], hi[3], c[3], out[3])
  ELSE \A i \in AffIdx(tr, node) : IncCompOK(t, m, c[i], lo[i], hi[i], f, out[i])

(* "never leave its range": an in-range colour and an amount in [-1, 1] (lighten and darken by a factor in [0, 1]) *)
RangeApplies(node, c, lo, hi, f) == Within(node, c, lo, hi) /\ DyLe(DyAbs(f), D1)
RangeOK(tr, node, lo, hi, out) == \A i \in AffIdx(tr, node) : CompWithin(out[i], lo[i], hi[i])

(* "monotonically toward the limit": along a sweep of one colour over increasing factors the affected component
   does not move back (blackness of the HWB-like types: does not move up).  Floating point addition and
   multiplication are monotone, so the principled slack is 0; one ulp of the component's range is allowed. *)
MonoSlack(t, lo, hi) == DyPow2(UlpExp(t, Mag2(lo, hi)))
MonoOK(tr, node, t, lo, hi, prevOut, out) ==
  \A i \in AffIdx(tr, node) :
     IF tr = "Lighten" /\ IsHwb(node) /\ i = 3
     THEN DyLe(out[i], DyAdd(prevOut[i], MonoSlack(t, lo[i], hi[i])))
     ELSE DyLe(DySub(prevOut[i], MonoSlack(t, lo[i], hi[i])), out[i])

(* ---- hue shift / set, schemes *)
ShiftHueOK(node, t, c, amount, out) ==
  LET h == HueIdx(node) IN NearAngle(t, out[h], DyAdd(c[h], amount), Mag3(c[h], amount, DyAdd(c[h], amount)))
SchemeHueOK(node, t, c, m, k, out) ==
  LET h == HueIdx(node) IN NearAngle(t, out[h], DyAdd(c[h], DyFromInt(SchemeShifts(m)[k])), c[h])

(* ---- arithmetic: one correctly rounded operation per component *)
DivOK(t, n, d, out) ==
  \/ DyIsZero(d)
  \/ LET e == DyAbs(DySub(DyMul(out, d), n)) IN DyLe(e, TolRel(t, DyAbs(n))) \/ DyLe(e, DyMul(DyAbs(d), DyPow2(MinExp(t))))
ArithCompOK(tr, t, x, y, out) ==
  IF tr = "Div" THEN DivOK(t, x, y, out)
  ELSE LET e == Arith2(tr, x, y) IN Near(t, out, e, Mag3(x, y, e))

-----------------------------------------------------------------------------
(* Part 4: the machine.  A call is a record
     [gid, fam (operator family), m (by-value method name), form, node, t, in, in2, args, out, lo, hi]
   with in / in2 / args / out as the harness logs them (exact numbers, bit for bit).  Calls with the same
   signature are adjacent; the first one of a group is the by-value form on the bare colour. *)

VARIABLES grp,      \* current group: [gid, sig, ref (by-value result), aref, pref (results on Alpha / PreAlpha by value)]
          prev      \* previous reference call of the running factor sweep: <<key, factor, out>> or <<>>
vars == <<grp, prev>>

NoGroup == [gid |-> 0, sig |-> <<>>, ref |-> <<>>, aref |-> <<>>, pref |-> <<>>]
Init == grp = NoGroup /\ prev = <<>>

Sig(e) == <<e.fam, e.m, e.node, e.t, e.in, e.in2, e.args>>
SweepKey(e) == <<e.fam, e.m, e.node, e.t, e.in, e.in2>>

Reset == grp' = NoGroup /\ prev' = <<>>

(* a new group: strictly larger gid, by-value form *)
Open(e) == /\ e.gid > grp.gid /\ e.form = "val"
           /\ grp' = [gid |-> e.gid, sig |-> Sig(e), ref |-> e.out, aref |-> <<>>, pref |-> <<>>]
           /\ prev' = IF e.fam \in FactorFams THEN <<SweepKey(e), e.args[1], e.out>> ELSE <<>>
(* a variant of the current group; wrapped by-value forms leave their result for the wrapped assigning form *)
Join(e) == /\ e.gid = grp.gid /\ e.form # "val"
           /\ grp' = [grp EXCEPT !.aref = IF e.form = "alpha" THEN e.out ELSE @,
                                 !.pref = IF e.form = "prealpha" THEN e.out ELSE @]
           /\ UNCHANGED prev

TypeOK == grp.gid \in Nat /\ DOMAIN grp = DOMAIN NoGroup
=============================================================================
