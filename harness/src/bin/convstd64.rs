//! Conversion universe of the non-sRGB standards and white points, f64 components (see ../convstdlib.rs).
type T = f64;
const TNAME: &str = "f64";
include!("../convstdlib.rs");
fn main() { convmain() }
