------------------------------ MODULE TraceMath ------------------------------
(* Trace validation for C02: every recorded single conversion (a `walk` event    *)
(* with one hop) along a hand-written edge is judged by the relation of          *)
(* ColourMath.tla; the agreement in bits must reach the threshold of the edge      *)
(* class and component type.  With CALIB=1 in the environment the measured bits     *)
(* are printed as NOTE lines (calibration runs), nothing is rejected.              *)
EXTENDS OkColour, HsluvRef, LnExp, Json, IOUtils, TLC

Rec == ndJsonDeserialize(IOEnv.TRACE)
Calib == "CALIB" \in DOMAIN IOEnv /\ IOEnv.CALIB = "1"
VARIABLES l, K

FxSeq(js) == [i \in DOMAIN js |-> FxOf(js[i])]

(* IEC 61966-2-1: linear = e / 12.92 for e <= 0.04045, else ((e + 0.055) / 1.055)^2.4 (real power by exp and ln, 65 fractional
   bits); odd for negative values; agreement absolute (relative to 1); within 2^-20 of the join either piece is accepted *)
TfFl == 5
SrgbLin(e) == FxOfP(ExpP(PMul(PRat(24, 10, TfFl), LnP(POfFx(FxDiv(FxAdd(e, FxRat(55, 1000)), FxRat(1055, 1000)), TfFl), TfFl), TfFl), TfFl), TfFl)
SrgbTfBits1(e, lin) ==
  LET lo == AgreeBits(FxDiv(e, FxRat(1292, 100)), lin, FxOne)
      join == FxRat(4045, 100000)
  IN IF FxLt(e, FxSub(join, FxEps(20))) THEN lo
     ELSE LET hi == AgreeBits(SrgbLin(e), lin, FxOne) IN IF FxLt(FxAdd(join, FxEps(20)), e) THEN hi ELSE IF lo >= hi THEN lo ELSE hi
SrgbTfBits(e, lin) == IF e[1] * lin[1] < 0 THEN AgreeBits(e, lin, FxOne) ELSE SrgbTfBits1(FxAbs(e), FxAbs(lin))
(* the transfer curves of the other standards, encoded -> linear, for encoded values in [0, 1] (real powers as above):
     Adobe RGB (1998): e^(563/256);  ProPhoto / ROMM: e / 16 below 1/32, else e^1.8;  DCI-P3: e^2.6;  Display P3: the sRGB curve;
     ITU-R BT.709 / BT.2020: e / 4.5 below 4.5 beta, else ((e + alpha - 1) / alpha)^(1/0.45), alpha = 1.09929682680944, beta = 0.018053968510807 *)
PowP5(x, num, den) == IF x[1] <= 0 THEN FxZero ELSE FxOfP(ExpP(PMul(PRat(num, den, TfFl), LnP(POfFx(x, TfFl), TfFl), TfFl), TfFl), TfFl)
RecAlpha == FxDec(1, 1, <<992, 9682, 6809, 4400>>)
RecBeta45 == FxMul(FxRat(45, 10), FxDec(1, 0, <<180, 5396, 8510, 8070>>))
TfPieces(std, e) ==      \* <<join (encoded), value below the join, value above it>>
  CASE std = "srgb" -> <<FxRat(4045, 100000), FxDiv(e, FxRat(1292, 100)), SrgbLin(e)>>
    [] std = "adobe" -> <<FxZero, FxZero, PowP5(e, 563, 256)>>
    [] std = "prophoto" -> <<FxRat(1, 32), FxDivInt(e, 16), PowP5(e, 18, 10)>>
    [] std = "dci" -> <<FxZero, FxZero, PowP5(e, 26, 10)>>
    [] std = "rec" -> <<RecBeta45, FxDiv(e, FxRat(45, 10)), PowP5(FxDiv(FxAdd(e, FxSub(RecAlpha, FxOne)), RecAlpha), 100, 45)>>
TfBits(std, e, lin) ==
  IF FxIsNeg(e) \/ FxIsNeg(lin) THEN 999                      \* outside [0, 1]: the odd extension is C05's
  ELSE LET p == TfPieces(std, e)
           lo == AgreeBits(p[2], lin, FxOne)  hi == AgreeBits(p[3], lin, FxOne)
       IN IF FxLt(e, FxSub(p[1], FxEps(20))) THEN lo ELSE IF FxLt(FxAdd(p[1], FxEps(20)), e) THEN hi ELSE IF lo >= hi THEN lo ELSE hi
TfBits3(std, enc, lin) == Min3i(TfBits(std, enc[1], lin[1]), TfBits(std, enc[2], lin[2]), TfBits(std, enc[3], lin[3]))
StdOfEnc(n) == CASE n \in {"srgb", "p3"} -> "srgb" [] n = "adobe" -> "adobe" [] n = "prophoto" -> "prophoto" [] n = "dcip3" -> "dci"
                 [] n \in {"rec709", "rec2020"} -> "rec" [] OTHER -> ""
LinOfEnc(n) == CASE n = "srgb" -> "linsrgb" [] n = "rec709" -> "linsrgb" [] n = "p3" -> "linp3" [] n = "adobe" -> "linadobe"
                 [] n = "prophoto" -> "linprophoto" [] n = "dcip3" -> "lindcip3" [] n = "rec2020" -> "linrec2020" [] OTHER -> ""

CrossTfBits(enc, lin) == Min3i(SrgbTfBits(enc[1], lin[1]), SrgbTfBits(enc[2], lin[2]), SrgbTfBits(enc[3], lin[3]))

(* which relation, and oriented how: <<name, first argument, second argument>> *)
EdgeBits(a, b, in, out) ==
  CASE StdOfEnc(a) # "" /\ b = LinOfEnc(a) -> TfBits3(StdOfEnc(a), in, out)           \* encoded -> linear of the same primaries
    [] StdOfEnc(b) # "" /\ a = LinOfEnc(b) -> TfBits3(StdOfEnc(b), out, in)           \* linear -> encoded
    [] a = "linsrgb" /\ b = "xyz" -> MatBits(K.rgb2xyz, in, out)
    [] a = "xyz" /\ b = "linsrgb" -> MatBits(K.xyz2rgb, in, out)
    [] a = "xyz" /\ b = "lab" -> LabBits(in, out)
    [] a = "lab" /\ b = "xyz" -> LabBits(out, in)
    [] a = "xyz" /\ b = "luv" -> LuvBits(in, out)
    [] a = "luv" /\ b = "xyz" -> LuvBits(out, in)
    [] a = "xyz" /\ b = "yxy" -> YxyBits(in, out)
    [] a = "yxy" /\ b = "xyz" -> YxyBits(out, in)
    [] a = "xyz" /\ b = "oklab" -> OklabFromXyzBits(K, in, out)
    [] a = "oklab" /\ b = "xyz" -> OklabFromXyzBits(K, out, in)
    [] a = "linsrgb" /\ b = "oklab" -> OklabFromRgbBits(K, in, out)
    [] a = "oklab" /\ b = "linsrgb" -> OklabFromRgbBits(K, out, in)
    [] a = "lab" /\ b = "lch" -> PolarBits(in, out)
    [] a = "lch" /\ b = "lab" -> PolarBits(out, in)
    [] a = "luv" /\ b = "lchuv" -> PolarBits(in, out)
    [] a = "lchuv" /\ b = "luv" -> PolarBits(out, in)
    [] a = "oklab" /\ b = "oklch" -> PolarBits(in, out)
    [] a = "oklch" /\ b = "oklab" -> PolarBits(out, in)
    [] a = "srgb" /\ b = "hsv" -> HsvBits(in, out)
    [] a = "hsv" /\ b = "srgb" -> HsvBits(out, in)
    [] a = "srgb" /\ b = "hsl" -> HslBits(in, out)
    [] a = "hsl" /\ b = "srgb" -> HslBits(out, in)
    [] a = "hsv" /\ b = "hwb" -> HwbFromHsvBits(in, out)
    [] a = "hwb" /\ b = "hsv" -> HwbFromHsvBits(out, in)
    [] a = "okhsv" /\ b = "okhwb" -> HwbFromHsvBits(in, out)
    [] a = "okhwb" /\ b = "okhsv" -> HwbFromHsvBits(out, in)
    [] a = "hsv" /\ b = "hsl" -> HsvHslBits(in, out)
    [] a = "hsl" /\ b = "hsv" -> HsvHslBits(out, in)
    [] a = "xyz" /\ b = "linluma" -> LumaFromXyzBits(in, out)
    [] a = "linluma" /\ b = "xyz" -> XyzFromLumaBits(in, out)
    [] a = "okhsv" /\ b = "oklab" -> OkhsvBits(in, out)
    [] a = "oklab" /\ b = "okhsv" -> OkhsvBits(out, in)
    [] a = "okhsl" /\ b = "oklab" -> OkhslBits(in, out)
    [] a = "oklab" /\ b = "okhsl" -> OkhslBits(out, in)
    \* the same definitions relative to other white points (nodes of the harness' universe of other standards)
    [] a = "xyz50" /\ b = "lab50" -> LabBitsW(WhiteD50, in, out)
    [] a = "lab50" /\ b = "xyz50" -> LabBitsW(WhiteD50, out, in)
    [] a = "xyz50" /\ b = "luv50" -> LuvBitsW(WhiteD50, in, out)
    [] a = "luv50" /\ b = "xyz50" -> LuvBitsW(WhiteD50, out, in)
    [] a = "lab50" /\ b = "lch50" -> PolarBits(in, out)
    [] a = "lch50" /\ b = "lab50" -> PolarBits(out, in)
    [] a = "xyzdci" /\ b = "labdci" -> LabBitsW(WhiteDci, in, out)
    [] a = "labdci" /\ b = "xyzdci" -> LabBitsW(WhiteDci, out, in)
    \* hexcone colours of two standards with the same primaries: the RGB triples behind them are one transfer curve apart
    [] a = "hsv" /\ b = "hsv_linsrgb" -> CrossTfBits(HsvRgb(in), HsvRgb(out))
    [] a = "hsv_linsrgb" /\ b = "hsv" -> CrossTfBits(HsvRgb(out), HsvRgb(in))
    [] a = "hsl" /\ b = "hsl_linsrgb" -> CrossTfBits(HslRgb(in), HslRgb(out))
    [] a = "hsl_linsrgb" /\ b = "hsl" -> CrossTfBits(HslRgb(out), HslRgb(in))
    [] a = "lchuv" /\ b = "hsluv" -> HsluvBits(in, out)
    [] a = "hsluv" /\ b = "lchuv" -> HsluvBits(out, in)
    [] a = "xyz" /\ b = "lmsvk" -> MatBits(K.vk, in, out)
    [] a = "lmsvk" /\ b = "xyz" -> MatBits(K.vkinv, in, out)
    [] a = "xyz" /\ b = "lmsbfd" -> MatBits(K.bfd, in, out)
    [] a = "lmsbfd" /\ b = "xyz" -> MatBits(K.bfdinv, in, out)
    [] OTHER -> 999

(* thresholds: bits of agreement required.  Calibration on the pinned tree (DESIGN.md C02), worst case over
   lattice, threshold-straddling and random inputs: exact-formula edges 49..55 bits in f64 and 21..25 in f32;
   edges through palette's hard-coded 7-digit RGB matrices 23..24 (the publication itself is 7 digits);
   Oklab edges 22..24 (10-digit published matrices, two published M1).  Thresholds leave 4..5 bits (>= 16x). *)
(* Okhsv / Okhsl against the transcription of the published procedure (OkColour.tla).  Calibration on the pinned tree:
   cylinder -> Oklab 48..58 bits in f64 and 20..29 in f32; Oklab -> cylinder (reference applied to the result) 48 / 17 *)
OkCyl(a, b) == {a, b} \in {{"okhsv", "oklab"}, {"okhsl", "oklab"}}
Published7(a, b) == {a, b} = {"linsrgb", "xyz"} \/ (a \in {"lmsvk", "lmsbfd"} /\ b = "xyz")    \* 7-decimal inverses
OkEdge(a, b) == "oklab" \in {a, b} /\ ({a, b} \cap {"xyz", "linsrgb"}) # {}
Threshold(a, b, t) ==
  IF OkCyl(a, b) THEN (IF t = "f32" THEN (IF a = "oklab" THEN 12 ELSE 15) ELSE 42)
  ELSE IF {a, b} = {"lchuv", "hsluv"} THEN (IF t = "f32" THEN 16 ELSE 38)      \* calibration: 21 / 43 (L* = 99.9, chroma 176: S = 67414)
  ELSE IF t = "f32" THEN (IF OkEdge(a, b) THEN 16 ELSE 17)
  ELSE IF Published7(a, b) THEN 19
  ELSE IF OkEdge(a, b) THEN 18
  ELSE 44

(* inputs on which the code deliberately deviates from the bare formula (modelled, not judged):
   xyY with y = 0 and XYZ with X+Y+Z = 0 give zeros; the L*u*v* inverse returns black for L* < 1e-5;
   the hexcone conversions clamp negative RGB components first *)
InFormulaDomain(a, b, in) ==
  CASE a = "yxy" /\ b = "xyz" -> FxLt(FxEps(20), in[2])
    [] a = "xyz" /\ b = "yxy" -> FxLt(FxEps(20), FxAdd(in[1], FxAdd(in[2], in[3])))
    [] a = "luv" /\ b = "xyz" -> FxLt(FxEps(10), in[1])
    [] a = "xyz" /\ b = "luv" -> FxLt(FxEps(30), in[2])
    [] a = "luv50" /\ b = "xyz50" -> FxLt(FxEps(10), in[1])
    [] a = "xyz50" /\ b = "luv50" -> FxLt(FxEps(30), in[2])
    [] a = "srgb" /\ b \in {"hsv", "hsl"} -> \A i \in 1..3 : FxLe(FxZero, in[i]) /\ FxLe(in[i], FxOne)
    \* Okhsl: black and white are special-cased (also for chromatic input, unlike the listing); within 2^-12 of them
    \* the fourth powers of get_Cs leave the fixed-point range of the reference, so those inputs are not judged
    [] a = "okhsl" /\ b = "oklab" -> FxLe(FxEps(12), in[3]) /\ FxLe(in[3], FxSub(FxOne, FxEps(12)))
    \* ... and the published inverse has a pole in the saturation beyond the gamut surface (t = (C - k0) / (k1 + k2 (C - k0))
    \* with k2 < 0), so Oklab -> Okhsl is judged for colours of the sRGB gamut: linear components not below -2^-7 of the
    \* largest one (the gamut of a dark colour is small) and not above 1 + 2^-10
    [] a = "oklab" /\ b = "okhsl" -> /\ FxLe(FxEps(12), in[1]) /\ FxLe(in[1], FxSub(FxOne, FxEps(12)))
                                      /\ LET rgb == OkToLin(in[1], in[2], in[3])
                                         IN \A i \in 1..3 : FxLe(FxNeg(FxShr(Max3(rgb), 7)), rgb[i]) /\ FxLe(rgb[i], FxAdd(FxOne, FxEps(10)))
    \* HSLuv: the reference sets chroma / saturation to 0 below L = 1e-8 and above 99.9999999 (palette has the first guard
    \* only, see C15); judged for lightness in [2^-20, 100 - 2^-10]
    [] a = "lchuv" /\ b = "hsluv" -> FxLe(FxEps(20), in[1]) /\ FxLe(in[1], FxSub(FxInt(100), FxEps(10)))
    [] a = "hsluv" /\ b = "lchuv" -> FxLe(FxEps(20), in[3]) /\ FxLe(in[3], FxSub(FxInt(100), FxEps(10)))
    [] a = "okhsv" /\ b = "oklab" -> FxLe(FxEps(40), in[3])
    [] a = "oklab" /\ b = "okhsv" -> FxLe(FxEps(40), in[1])
    [] OTHER -> TRUE

(* a saturation sweep of one Okhsl hue and lightness, converted to Oklch: out[i] = (L, C, h) *)
SweepWhy(e) ==
  IF e.panic = 1 THEN "panic"
  ELSE IF \E i \in DOMAIN e.out : ~AllFin(e.out[i]) THEN "ok"
  ELSE LET ss == FxSeq(e.s)
           cs == [i \in DOMAIN e.out |-> FxOf(e.out[i][2])]
       IN IF FxLt(cs[3], FxEps(10)) THEN "ok"             \* (almost) no chroma available at this lightness
          ELSE LET bits == OkhslInterpBits(ss, cs)
               IN IF Calib THEN (IF PrintT(<<"NOTE", "okhsl", "sweep", e.t, bits, l>>) THEN "ok" ELSE "ok")
                  ELSE IF bits < (IF e.t = "f32" THEN 16 ELSE 44) THEN "okhsl-interpolation-differs-from-published-definition"   \* calibration: 23 / 51 bits
                  ELSE "ok"

Why(e) ==
  IF e.ev = "sweep" THEN SweepWhy(e)
  ELSE IF e.ev # "walk" \/ Len(e.nodes) # 2 THEN "ok"
  ELSE IF e.panic = 1 THEN "panic"
  ELSE IF e.missing = 1 THEN "ok"
  ELSE IF ~AllFin(e.vals[1]) \/ ~AllFin(e.vals[2]) THEN "ok"      \* finiteness is C07's
  ELSE IF ~InFormulaDomain(e.nodes[1], e.nodes[2], FxSeq(e.vals[1])) THEN "ok"
  ELSE LET bits == EdgeBits(e.nodes[1], e.nodes[2], FxSeq(e.vals[1]), FxSeq(e.vals[2]))
       IN IF Calib THEN (IF PrintT(<<"NOTE", e.nodes[1], e.nodes[2], e.t, bits, l>>) THEN "ok" ELSE "ok")
          ELSE IF bits < Threshold(e.nodes[1], e.nodes[2], e.t) THEN "differs-from-published-definition"
          ELSE "ok"

TInit == l = 1 /\ K = Consts
TNext == /\ l <= Len(Rec)
         /\ LET w == Why(Rec[l]) IN IF w = "ok" THEN TRUE ELSE PrintT(<<"REJECT", l, w>>)
         /\ l' = l + 1 /\ UNCHANGED K
TSpec == TInit /\ [][TNext]_<<l, K>>
Consumed == TLCGet("stats").diameter = Len(Rec) + 1 \/ PrintT(<<"UNCONSUMED", TLCGet("stats").diameter>>)
=============================================================================
