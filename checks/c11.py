"""C11 - hues behave as angles on a circle.
Spec: spec/Hue.tla (exact arithmetic modulo 360 on the dyadic a stored float denotes; no floating point, no
trigonometry). MC_Hue checks the model itself on all integer angles in a range and all 256 8-bit hues; the harness
(harness/src/bin/hue.rs) calls palette's hue API for the five hue types x f32/f64 and TraceHue.tla validates every
recorded call. The Python arithmetic in this file only produces calibration figures for the evidence file; the
verdict is TLC's."""
import json, math
from fractions import Fraction as F
from common import *

B = 8192


def fr(j):
    """exact value of a logged number (None for NaN/inf)"""
    if j[0] in (2, 3, -3):
        return None
    m = 0
    for i, limb in enumerate(j[2:]):
        m += limb << (13 * i)
    return F(j[0] * m) * F(B) ** j[1]


def ulp(t, v):
    p, mn = (24, -149) if t == "f32" else (53, -1074)
    v = max(abs(v), F(360))
    n, d = v.numerator, v.denominator
    lg = n.bit_length() - d.bit_length()
    if F(2) ** lg > v:
        lg -= 1
    return F(2) ** max(lg - (p - 1), mn)


def circ(d):
    r = d - 360 * math.floor(d / 360)
    return min(r, 360 - r)


PI = F("3.14159265358979323846264338327950288419716939937510582097494459")


def calibrate(trace_path, every=1):
    """largest observed deviation per operation, in units of the quantity its tolerance is expressed in"""
    mx, n_band = {}, 0
    def up(k, v, ev):
        if k not in mx or v > mx[k][0]:
            mx[k] = (v, ev)
    with open(trace_path) as f:
        for i, line in enumerate(f):
            if i % every:
                continue
            e = json.loads(line)
            if e.get("ev") != "hue":
                continue
            t, op = e["t"], e["op"]
            xs = [fr(j) for j in e["in"]]
            ys = [fr(j) for j in e["out"]]
            if any(v is None for v in xs + ys) or any(abs(v) > 10 ** 6 for v in xs if op != "cartesian"):
                continue
            u = 2.0 ** -(24 if t == "f32" else 53)
            if op in ("signed", "unsigned"):
                x, y = xs[0], ys[0]
                lo, hi = (-180, 180) if op == "signed" else (0, 360)
                up(op + ".congruence_ulps", float(circ(y - x) / ulp(t, x)), e)
                up(op + ".range_overshoot_ulps", float(max(lo - y, y - hi, 0) / ulp(t, x)), e)
            elif op == "eq":
                cd = circ(xs[0] - xs[1])
                band = cd / (ulp(t, xs[0]) + ulp(t, xs[1]))
                if e["n"] == 1:
                    up("eq.equal_at_distance_ulps", float(band), e)
                if 0 < band <= 8:
                    n_band += 1
            elif op == "radians":
                deg, rad = ys
                err = abs(rad * 180 - deg * PI)
                mn, p = (-149, 24) if t == "f32" else (-1074, 53)
                if abs(rad) >= F(2) ** (mn + p + 2):
                    up("radians.rel_err_over_u", float(err / abs(deg * PI)) / u, e)
                # fraction of the whole tolerance of Hue.tla!RadOK used (relative part + absolute part for tiny results)
                up("radians.err_over_tolerance", float(err / (abs(deg * PI) / 2 ** (p - 4) + F(2) ** (mn + 10))), e)
            elif op == "cartesian":
                a, b = xs
                _, a2, b2 = ys
                n1 = abs(a) + abs(b)
                up("cartesian.norm_err_over_u", float(abs(a2 * a2 + b2 * b2 - 1)) / u, e)
                if n1:
                    up("cartesian.dir_err_over_u", float(abs(a2 * b - b2 * a) / n1) / u, e)
            elif op == "to_u8":
                x, n = xs[0], e["n"]
                P = 256 * (x - 360 * math.floor(x / 360))
                d = min(abs(P - 360 * m) for m in ([n, 256] if n == 0 else [n]))
                up("to_u8.beyond_half_step_ulps", float(max(d - 180, 0) / (256 * ulp(t, x))), e)
            elif op in ("add", "sub"):
                s = xs[0] + xs[1] if op == "add" else xs[0] - xs[1]
                big = max(abs(xs[0]), abs(xs[1]), abs(s))
                up(op + ".congruence_ulps", float(circ(ys[0] - s) / ulp(t, big)), e)
    return {k: round(v[0], 4) for k, v in sorted(mx.items())}, n_band


def nontrivial(e):
    op = e["op"]
    if op in ("signed", "unsigned"):
        x = dy_to_float(e["in"][0])
        return x < 0 or x > 180
    if op == "eq":
        return e["in"][0] != e["in"][1]
    if op == "cartesian":
        return e["in"][0][0] != 0 or e["in"][1][0] != 0
    return True


def describe(e):
    ins = [dy_to_float(j) for j in e["in"]]
    outs = [dy_to_float(j) for j in e["out"]]
    return "%s<%s> %s%s: in=%r k=%s -> out=%r n=%s%s" % (e["ty"], e["t"], e["op"], ("/" + e["m"]) if e.get("m") else "", ins,
                                                       e.get("k"), outs, e.get("n"), " PANIC " + e.get("msg", "") if e.get("panic") else "")


def model_run(ctx):
    # vacuity control on a small instance with -coverage (coverage slows the bignum arithmetic down 2-3x) ...
    r = tlc_mc(ctx, "MC_Hue", constants={"N": 20, "FullN": 20, "Block": 7}, tag="hue_model_cov", workers=6)
    zero = coverage_zero_actions(r.out_path, {"Hue", "MC_Hue"})
    if zero:
        raise ToolError("vacuity: actions never taken in MC_Hue: %s" % zero)
    # ... and the full range without
    n, full = (2000, 400) if ctx.quick else (100000, 2000)
    r = tlc_mc(ctx, "MC_Hue", constants={"N": n, "FullN": full, "Block": 100 if ctx.quick else 500}, tag="hue_model",
               workers=6, coverage=False, timeout=3000)
    return n, extract_notes(r.out_path)


def extract_notes(out_path):
    out = []
    for line in open(out_path):
        m = RE_NOTE.match(line.rstrip("\n"))
        if m:
            out.append(m.group(1))
    return out


def interleave(ctx, path, chunk):
    """Events are independent, so their order is free: deal them round-robin over the validation chunks so that the
    expensive ones (f64 subnormals, cartesian magnitudes of 1e+-300) do not all land in one TLC process."""
    lines = open(path).readlines()
    k = max(1, -(-len(lines) // chunk))
    out = ctx.p("hue.dealt.ndjson")
    with open(out, "w") as f:
        for j in range(k):
            f.writelines(lines[j::k])
    return out


REASONS = {
    "signed: range or congruence": "the signed normal form is outside [-180,180] or not congruent to the stored angle modulo 360 (beyond rounding error), or not finite",
    "unsigned: range or congruence": "the unsigned normal form is outside [0,360] or not congruent to the stored angle modulo 360 (beyond rounding error), or not finite",
    "eq: disagrees with congruence mod 360": "equality disagrees with congruence modulo 360 (exactly congruent angles must be equal, angles further apart than rounding error must be unequal)",
    "radians: inconsistent with degrees": "rad*180 differs from deg*pi beyond rounding, or the degree value is not the accessor's normal form",
    "cartesian: direction or unit length": "from_cartesian then into_cartesian does not give a unit vector in the direction of the input",
    "to_u8: not round(r*256/360) mod 256": "the 8-bit code is not round(r*256/360) mod 256 (r = angle mod 360), beyond the accepted rounding band at ties",
    "from_u8: not k*360/256 or no round trip": "the float hue of code k is not exactly k*360/256, or converting it back does not give k",
    "add: not congruent to the exact sum": "the sum is not congruent to the exact sum modulo 360 within rounding error",
    "sub: not congruent to the exact difference": "the difference is not congruent to the exact difference modulo 360 within rounding error",
}


def no_wrapped_rejects(ctx, tag):
    """TLC wraps printed tuples wider than 80 columns; common.validate_trace only recognises one-line REJECTs. The reasons
    in TraceHue.tla are short enough, this is the safety net."""
    for out in ctx.work.glob(tag + ".chunk*.tlc.out"):
        for line in open(out):
            if line.startswith('<< "REJECT"'):
                raise ToolError("wrapped REJECT line in %s: shorten the reason texts of TraceHue.tla" % out)


def equality_run(ctx, exe):
    """Comparisons of whole colours (spec/Equality.tla): MC_Equality checks the laws of the component-wise model on every
    pair of a small lattice of every shape and emits the pairs; harness/src/bin/eqcmp.rs runs them and its own
    float-specific neighbourhoods of the thresholds on 38 types x f32/f64; TraceEquality.tla validates every call.
    `==` departures where only the hue decides are C11's equality clause; all other departures are notes."""
    # vacuity control on the shapes of up to two components with -coverage, then the full lattice without
    r0 = tlc_mc(ctx, "MC_Equality", constants={"MaxN": 2, "Emit": "FALSE"}, tag="eq_model_cov", workers=4)
    zero = coverage_zero_actions(r0.out_path, {"MC_Equality"})
    if zero:
        raise ToolError("vacuity: actions never taken in MC_Equality: %s" % zero)
    r = tlc_mc(ctx, "MC_Equality", constants={"MaxN": 3 if ctx.quick else 4}, tag="eq_model", workers=6, coverage=False,
               timeout=3000)
    cases = extract_prints(r.out_path, "REPLAY")
    if len(cases) < 1500:
        raise ToolError("MC_Equality emitted only %d cases" % len(cases))
    cp = ctx.p("eq.cases.ndjson")
    with open(cp, "w") as f:
        f.write("\n".join(cases) + "\n")
    tp = ctx.p("eq.ndjson")
    rr = run_bin(exe, ["--tlc", cp, "--tier", ctx.tier, "--out", tp], env={"VERIF_SEED": ctx.seed})
    stats = json.loads((rr.stderr or "{}").strip().splitlines()[-1])
    res = validate_trace(ctx, "TraceEquality", tp, stateless=True, chunk_events=4000 if ctx.quick else 12000, tag="eq")
    no_wrapped_rejects(ctx, "eq")
    ctx.cov["traces_validated_against_impl"] += res.events - len(res.rejected)
    add_samples(ctx, tp, n=2, every=9973)
    for (line, ev, info, _scen) in res.rejected:
        fa, fb = [dy_to_float(x) for x in ev.get("a", [])], [dy_to_float(x) for x in ev.get("b", [])]
        coords = {"kind": "colour-eq", "op": ev.get("op"), "ty": ev.get("ty"), "t": ev.get("t")}
        what = ("%s<%s>: %r == %r answered %s (!= answered %s), but the two differ only in the hue component and %s" % (
            ev.get("ty"), ev.get("t"), fa, fb, ev.get("r"), ev.get("nr"),
            "equality of hues is congruence modulo 360 (exactly congruent angles are equal, angles further apart than "
            "rounding error are not), and != is its negation"))
        report(ctx, coords, what, {"bin": "eqcmp", "event": ev, "trace_line": line, "how": "./check C11 --replay <this file>"})
    notes = sorted(set(res.notes))
    for n in notes[:40]:
        print("NOTE: outside the listed properties, a colour comparison departs from the component-wise model: " + n)
    return {"events": res.events, "model_cases": len(cases), "per_op": stats.get("per_op"), "panics": stats.get("panics"),
            "types": stats.get("types"), "departures_outside_the_listed_properties": notes[:40],
            "model": "MC_Equality: %s distinct states" % r.distinct}


def run(ctx):
    bins = cargo_build(["hue", "eqcmp"])
    n_int, notes = model_run(ctx)
    eq_info = equality_run(ctx, bins["eqcmp"])
    tp = ctx.p("hue.ndjson")
    r = run_bin(bins["hue"], ["--tier", ctx.tier, "--out", tp], env={"VERIF_SEED": ctx.seed})
    stats = json.loads((r.stderr or "{}").strip().splitlines()[-1])
    tp = interleave(ctx, tp, 5000 if ctx.quick else 20000)
    res = validate_trace(ctx, "TraceHue", tp, stateless=True, chunk_events=5000 if ctx.quick else 20000, tag="hue")
    no_wrapped_rejects(ctx, "hue")
    ctx.cov["traces_validated_against_impl"] += res.events - len(res.rejected)
    add_samples(ctx, tp, n=5, every=7919)
    for (line, ev, info, _scen) in res.rejected:
        x0 = dy_to_float(ev["in"][0]) if ev.get("in") else float(ev.get("k", 0))
        coords = {"kind": "hue", "op": ev.get("op"), "ty": ev.get("ty"), "t": ev.get("t"), "m": ev.get("m"), "x": x0}
        what = "%s - %s" % (describe(ev), REASONS.get(info.strip().strip('"'), info))
        report(ctx, coords, what, {"bin": "hue", "event": ev, "trace_line": line, "how": "./check C11 --replay <this file>"})
    try:      # book-keeping of the margins only: it must never stand between the verdict and its report
        cal, n_band = calibrate(tp, every=1 if ctx.quick else 7)
    except Exception as ex:
        log("C11: margin book-keeping failed on this recording (%s: %s); the verdict is unaffected" % (type(ex).__name__, ex))
        cal, n_band = {}, 0
    ctx.cov["distinct_nontrivial"] = count_distinct(tp, lambda e: json.dumps([e["op"], e["t"], e["ty"], e["m"], e["in"], e["k"]]), nontrivial)
    return finish(ctx, "model_checking",
                  rule="a case is one call of the hue API (operation, hue type, component type, exact inputs); distinct by "
                       "that tuple; non-trivial when the stored angle is not already its own normal form (normal forms), "
                       "the two angles differ (equality), the vector is not zero (cartesian); all other calls count",
                  explanation="Hue.tla decides every clause by exact integer arithmetic modulo 360 on the dyadic each float "
                              "denotes. TLC checks the model on all integer angles in +-%d and all 256 codes (normal forms "
                              "exist and are unique up to the interval ends, equality is an equivalence compatible with whole "
                              "turns, the 8-bit map is onto with wrap-around), then validates every recorded palette call "
                              "(TraceHue.tla)." % n_int,
                  trusted=["the exact encoding of floats in the harness (pvh::ex64, unit-tested)", "TLC, JVM, rustc",
                           "pi to 48 decimals as written in Hue.tla",
                           "thorough f32 sweep: the Rust keep-filter (strict range, f64 residue estimate) only selects events; "
                           "unselected events are covered by the every-4096th full sample"],
                  extra={"per_op": stats.get("per_op"), "panics": stats.get("panics"),
                         "sweep_evaluations": stats.get("sweep_evaluations"), "sweep_kept": stats.get("sweep_kept"),
                         "max_deviation_observed": cal, "eq_events_inside_tolerance_band": n_band,
                         "tolerances": {"Eps": "8 ulp_T(max(|x|,360))", "eq_unequal_band": "Eps(x1)+Eps(x2)",
                                        "radians": "rel 16u (u = 2^-Prec) + 2^10 min-subnormal", "cartesian_dir": "128u * (|a|+|b|)",
                                        "cartesian_norm": "16u", "to_u8": "half a code step + 256*Eps"},
                         "model_notes": notes, "colour_comparisons": eq_info})


def replay(ctx, path):
    rp = json.load(open(path))["replay"]
    if rp.get("bin") == "eqcmp":
        bins = cargo_build(["eqcmp"])
        tp = ctx.p("replay.ndjson")
        run_bin(bins["eqcmp"], ["--one", json.dumps(rp["event"]), "--out", tp])
        res = validate_trace(ctx, "TraceEquality", tp, stateless=True, tag="replay")
        no_wrapped_rejects(ctx, "replay")
        if res.rejected:
            print("VIOLATION property=C11 replay=%s" % path)
            print("  still rejected: %s" % json.dumps(res.rejected[0][1])[:300])
            return 1
        print("replay accepted: %s" % open(tp).readline()[:300])
        return 0
    bins = cargo_build(["hue"])
    tp = ctx.p("replay.ndjson")
    run_bin(bins["hue"], ["--one", json.dumps(rp["event"]), "--out", tp])
    res = validate_trace(ctx, "TraceHue", tp, stateless=True, tag="replay")
    no_wrapped_rejects(ctx, "replay")
    if res.rejected:
        print("VIOLATION property=C11 replay=%s" % path)
        print("  still rejected: %s - %s" % (describe(res.rejected[0][1]), res.rejected[0][2]))
        return 1
    print("replay accepted: %s" % describe(json.loads(open(tp).readline())))
    return 0
