#!/bin/sh
# Parses every specification module with SANY (no model checking): a syntax / level check of the whole specification.
cd /verif/spec || exit 2
rc=0
for f in *.tla lib/*.tla mc/*.tla trace/*.tla; do
  out=$(java -cp /opt/veriftools/tla/tla2tools.jar:/opt/veriftools/tla/CommunityModules-deps.jar -DTLA-Library=/verif/spec:/verif/spec/lib:/verif/spec/mc:/verif/spec/trace tla2sany.SANY "$f" 2>&1)
  if echo "$out" | grep -q "Semantic errors\|Parse Error\|Fatal errors\|Could not"; then echo "FAIL $f"; echo "$out" | grep -A6 "rror" | head -12; rc=1; else echo "ok   $f"; fi
done
exit $rc
