//! Comparisons of colours (spec/Equality.tla, spec/trace/TraceEquality.tla): `==` / `!=` and the approximate
//! comparisons of the `approx` crate on every colour type, the hue types, `Alpha` and `PreAlpha`.
//!
//!   eqcmp --out <ndjson> [--tlc <file with REPLAY cases of MC_Equality>] [--tier quick|thorough]
//!   eqcmp --one '<event json>' --out <ndjson>          re-runs one recorded comparison
//!
//! One event per call: {"ev":"cmp","op":"eq"|"abs"|"rel"|"ulps","ty":..,"t":..,"hi":..,"a":[..],"b":[..],
//! "eps":..,"mr":..,"k":..,"r":0|1,"nr":0|1,"src":"tlc"|"own"}; r is the answer of the "equal" form, nr of the
//! "not equal" form (-1: the call panicked).
use approx::{AbsDiffEq, RelativeEq, UlpsEq};
use palette::blend::PreAlpha;
use palette::cam16::{Cam16UcsJab, Cam16UcsJmh};
use palette::cast::from_array;
use palette::encoding::{Linear, Srgb as SrgbEnc};
use palette::luma::{Luma, Lumaa};
use palette::rgb::{Rgb, Rgba};
use palette::hues::Cam16Hue;
use palette::white_point::D65;
use palette::{
    Hsl, Hsla, Hsluv, Hsluva, Hsv, Hsva, Hwb, Lab, LabHue, Laba, Lch, Lcha, Lchuv, Lchuva, Luv, LuvHue, Okhsl, Okhsla, Okhsv,
    Okhwb, Oklab, OklabHue, Oklch, Oklcha, RgbHue, Xyz, Xyza, Yxy,
};
use pvh::*;
use serde_json::{json, Value};

trait Fl: Ex + PartialOrd + 'static {
    fn f(x: f64) -> Self;
    /// the value `k` representable steps away (k may be negative)
    fn step(self, k: i64) -> Self;
    fn plus(self, d: Self) -> Self;
}
impl Fl for f32 {
    fn f(x: f64) -> f32 { x as f32 }
    fn step(self, k: i64) -> f32 {
        let b = self.to_bits();
        let o: i64 = if b >> 31 != 0 { -((b & 0x7fff_ffff) as i64) } else { b as i64 };
        let o = o + k;
        f32::from_bits(if o < 0 { (-o) as u32 | 0x8000_0000 } else { o as u32 })
    }
    fn plus(self, d: f32) -> f32 { self + d }
}
impl Fl for f64 {
    fn f(x: f64) -> f64 { x }
    fn step(self, k: i64) -> f64 {
        let b = self.to_bits();
        let o: i128 = if b >> 63 != 0 { -((b & 0x7fff_ffff_ffff_ffff) as i128) } else { b as i128 };
        let o = o + k as i128;
        f64::from_bits(if o < 0 { (-o) as u64 | 0x8000_0000_0000_0000 } else { o as u64 })
    }
    fn plus(self, d: f64) -> f64 { self + d }
}

type CmpFn<T> = Box<dyn Fn(&str, &[T], &[T], T, T, u32) -> (bool, bool)>;
struct Ty<T> {
    name: &'static str,
    n: usize,
    hi: usize,
    cmp: CmpFn<T>,
}

fn mkty<C, T>(name: &'static str, n: usize, hi: usize, mk: impl Fn(&[T]) -> C + 'static) -> Ty<T>
where
    C: PartialEq + AbsDiffEq<Epsilon = T> + RelativeEq + UlpsEq,
    T: Copy + 'static,
{
    Ty {
        name,
        n,
        hi,
        cmp: Box::new(move |op, a, b, eps, mr, k| {
            let (ca, cb) = (mk(a), mk(b));
            match op {
                "eq" => (ca == cb, ca != cb),
                "abs" => (ca.abs_diff_eq(&cb, eps), ca.abs_diff_ne(&cb, eps)),
                "rel" => (ca.relative_eq(&cb, eps, mr), ca.relative_ne(&cb, eps, mr)),
                "ulps" => (ca.ulps_eq(&cb, eps, k), ca.ulps_ne(&cb, eps, k)),
                _ => panic!("unknown op {}", op),
            }
        }),
    }
}

macro_rules! arr {
    ($name:expr, $hi:expr, $c:ty, 1) => { mkty::<$c, T>($name, 1, $hi, |v: &[T]| from_array::<$c>([v[0]])) };
    ($name:expr, $hi:expr, $c:ty, 2) => { mkty::<$c, T>($name, 2, $hi, |v: &[T]| from_array::<$c>([v[0], v[1]])) };
    ($name:expr, $hi:expr, $c:ty, 3) => { mkty::<$c, T>($name, 3, $hi, |v: &[T]| from_array::<$c>([v[0], v[1], v[2]])) };
    ($name:expr, $hi:expr, $c:ty, 4) => { mkty::<$c, T>($name, 4, $hi, |v: &[T]| from_array::<$c>([v[0], v[1], v[2], v[3]])) };
}

macro_rules! types_for {
    ($fname:ident, $t:ty) => {
        fn $fname() -> Vec<Ty<$t>> {
            type T = $t;
            vec![
                arr!("SrgbLuma", 0, Luma<SrgbEnc, T>, 1),
                arr!("LinLuma", 0, Luma<Linear<D65>, T>, 1),
                arr!("SrgbLumaa", 0, Lumaa<SrgbEnc, T>, 2),
                arr!("Srgb", 0, Rgb<SrgbEnc, T>, 3),
                arr!("LinSrgb", 0, Rgb<Linear<SrgbEnc>, T>, 3),
                arr!("Xyz", 0, Xyz<D65, T>, 3),
                arr!("Yxy", 0, Yxy<D65, T>, 3),
                arr!("Lab", 0, Lab<D65, T>, 3),
                arr!("Luv", 0, Luv<D65, T>, 3),
                arr!("Oklab", 0, Oklab<T>, 3),
                arr!("Cam16UcsJab", 0, Cam16UcsJab<T>, 3),
                arr!("Srgba", 0, Rgba<SrgbEnc, T>, 4),
                arr!("Laba", 0, Laba<D65, T>, 4),
                arr!("Xyza", 0, Xyza<D65, T>, 4),
                arr!("PreAlphaLinSrgb", 0, PreAlpha<Rgb<Linear<SrgbEnc>, T>>, 4),
                mkty::<RgbHue<T>, T>("RgbHue", 1, 1, |v: &[T]| RgbHue::from_degrees(v[0])),
                mkty::<LabHue<T>, T>("LabHue", 1, 1, |v: &[T]| LabHue::from_degrees(v[0])),
                mkty::<LuvHue<T>, T>("LuvHue", 1, 1, |v: &[T]| LuvHue::from_degrees(v[0])),
                mkty::<OklabHue<T>, T>("OklabHue", 1, 1, |v: &[T]| OklabHue::from_degrees(v[0])),
                mkty::<Cam16Hue<T>, T>("Cam16Hue", 1, 1, |v: &[T]| Cam16Hue::from_degrees(v[0])),
                arr!("Hsl", 1, Hsl<SrgbEnc, T>, 3),
                arr!("Hsv", 1, Hsv<SrgbEnc, T>, 3),
                arr!("Hwb", 1, Hwb<SrgbEnc, T>, 3),
                arr!("Hsluv", 1, Hsluv<D65, T>, 3),
                arr!("Okhsl", 1, Okhsl<T>, 3),
                arr!("Okhsv", 1, Okhsv<T>, 3),
                arr!("Okhwb", 1, Okhwb<T>, 3),
                arr!("Lch", 3, Lch<D65, T>, 3),
                arr!("Lchuv", 3, Lchuv<D65, T>, 3),
                arr!("Oklch", 3, Oklch<T>, 3),
                arr!("Cam16UcsJmh", 3, Cam16UcsJmh<T>, 3),
                arr!("Hsla", 1, Hsla<SrgbEnc, T>, 4),
                arr!("Hsva", 1, Hsva<SrgbEnc, T>, 4),
                arr!("Okhsla", 1, Okhsla<T>, 4),
                arr!("Hsluva", 1, Hsluva<D65, T>, 4),
                arr!("Lcha", 3, Lcha<D65, T>, 4),
                arr!("Oklcha", 3, Oklcha<T>, 4),
                arr!("Lchuva", 3, Lchuva<D65, T>, 4),
            ]
        }
    };
}
types_for!(types32, f32);
types_for!(types64, f64);

struct Stats {
    events: u64,
    panics: u64,
    per_op: std::collections::BTreeMap<String, u64>,
}

#[allow(clippy::too_many_arguments)]
fn one<T: Fl>(rec: &mut Rec, st: &mut Stats, ty: &Ty<T>, op: &str, a: &[T], b: &[T], eps: T, mr: T, k: u32, src: &str) {
    let res = catch(|| (ty.cmp)(op, a, b, eps, mr, k));
    let (r, nr) = match res {
        Ok((r, nr)) => (r as i32, nr as i32),
        Err(_) => {
            st.panics += 1;
            (-1, -1)
        }
    };
    rec.ev(json!({"ev": "cmp", "op": op, "ty": ty.name, "t": T::NAME, "hi": ty.hi, "a": ex_arr(a), "b": ex_arr(b),
                  "eps": eps.ex(), "mr": mr.ex(), "k": k, "r": r, "nr": nr, "src": src}));
    st.events += 1;
    *st.per_op.entry(op.to_string()).or_insert(0) += 1;
}

fn all_ops<T: Fl>(rec: &mut Rec, st: &mut Stats, ty: &Ty<T>, a: &[T], b: &[T], deps: T, src: &str) {
    let z = T::f(0.0);
    let e3 = T::f(1e-3);
    one(rec, st, ty, "eq", a, b, z, z, 0, src);
    one(rec, st, ty, "abs", a, b, z, z, 0, src);
    one(rec, st, ty, "abs", a, b, e3, z, 0, src);
    one(rec, st, ty, "rel", a, b, z, e3, 0, src);
    one(rec, st, ty, "rel", a, b, deps, deps, 0, src);
    one(rec, st, ty, "ulps", a, b, z, z, 4, src);
    one(rec, st, ty, "ulps", a, b, deps, z, 1, src);
}

/// the harness's own cases: float-specific neighbourhoods of the thresholds, per component
fn own_cases<T: Fl>(rec: &mut Rec, st: &mut Stats, tys: &[Ty<T>], rng: &mut Sm64, deps: T, reps: usize) {
    let hues = [0.0, 37.5, 90.0, 179.75, -179.75, 180.0, -180.0, 270.0, 359.5, 360.0, 725.25, -1000.5];
    for ty in tys {
        for rep in 0..reps {
            // a base colour: plain components in [0, 1] (or exactly 0 / 1), the hue from the list or random
            let mut a: Vec<T> = (0..ty.n)
                .map(|_| match rng.below(6) { 0 => T::f(0.0), 1 => T::f(1.0), _ => T::f(rng.range(0.01, 0.99)) })
                .collect();
            if ty.hi != 0 {
                a[ty.hi - 1] = if rep % 3 == 2 { T::f(rng.range(-400.0, 400.0)) } else { T::f(*rng.pick(&hues)) };
            }
            let mut bs: Vec<Vec<T>> = vec![a.clone()];
            for i in 0..ty.n {
                let with = |v: T| { let mut b = a.clone(); b[i] = v; b };
                let x = a[i];
                bs.push(with(x.step(1)));
                bs.push(with(x.step(-3)));
                bs.push(with(x.step(6)));
                bs.push(with(x.plus(T::f(1e-3))));
                bs.push(with(x.plus(T::f(1e-3)).step(2)));
                bs.push(with(x.plus(T::f(5e-4))));
                bs.push(with(x.plus(T::f(-2e-3))));
                bs.push(with(x.plus(T::f(0.25))));
                if i + 1 == ty.hi {
                    for d in [360.0, -360.0, 720.0, 359.9995, 180.0, 0.0009] {
                        bs.push(with(x.plus(T::f(d))));
                    }
                    bs.push(with(T::f(-x.as_f64())));
                }
            }
            // two components at once: one inside, one outside the tolerances
            if ty.n >= 2 {
                let mut b = a.clone();
                b[0] = b[0].step(1);
                b[ty.n - 1] = b[ty.n - 1].plus(T::f(0.25));
                bs.push(b);
                let mut b = a.clone();
                b[0] = b[0].plus(T::f(0.25));
                b[ty.n - 1] = b[ty.n - 1].step(1);
                bs.push(b);
                let mut b = a.clone();
                for v in b.iter_mut() { *v = v.step(1); }
                bs.push(b);
            }
            for b in &bs {
                all_ops(rec, st, ty, &a, b, deps, "own");
                if rng.below(4) == 0 {
                    all_ops(rec, st, ty, b, &a, deps, "own");      // and the other way round
                }
            }
        }
    }
}

/// the cases TLC enumerated on the model (MC_Equality): integer component values, dealt over the types of each shape
fn tlc_cases<T: Fl>(rec: &mut Rec, st: &mut Stats, tys: &[Ty<T>], cases: &[Value], parity: usize) {
    let mut next: std::collections::HashMap<(usize, usize), usize> = Default::default();
    for (ci, c) in cases.iter().enumerate() {
        if ci % 2 != parity { continue; }
        let n = c["n"].as_u64().unwrap() as usize;
        let hi = c["hi"].as_u64().unwrap() as usize;
        let pool: Vec<&Ty<T>> = tys.iter().filter(|t| t.n == n && t.hi == hi).collect();
        if pool.is_empty() { continue; }
        let k = next.entry((n, hi)).or_insert(0);
        let ty = pool[*k % pool.len()];
        *k += 1;
        let a: Vec<T> = c["a"].as_array().unwrap().iter().map(|v| T::f(v.as_f64().unwrap())).collect();
        let b: Vec<T> = c["b"].as_array().unwrap().iter().map(|v| T::f(v.as_f64().unwrap())).collect();
        let z = T::f(0.0);
        one(rec, st, ty, "eq", &a, &b, z, z, 0, "tlc");
        one(rec, st, ty, "abs", &a, &b, z, z, 0, "tlc");
        one(rec, st, ty, "abs", &a, &b, T::f(1.0), z, 0, "tlc");
        one(rec, st, ty, "rel", &a, &b, T::f(0.5), z, 0, "tlc");
        one(rec, st, ty, "ulps", &a, &b, z, z, 0, "tlc");
    }
}

fn dy_to_f64(j: &Value) -> f64 {
    let v = j.as_array().expect("exact number");
    let s = v[0].as_i64().unwrap();
    match s { 2 => return f64::NAN, 3 => return f64::INFINITY, -3 => return f64::NEG_INFINITY, 0 => return 0.0, _ => {} }
    let q = v[1].as_i64().unwrap();
    let mut m: u128 = 0;
    for (i, limb) in v[2..].iter().enumerate() { m |= (limb.as_u64().unwrap() as u128) << (13 * i); }
    // exact: m has at most 53 + 12 bits and the value is a float by construction
    let tz = m.trailing_zeros();
    let mant = (m >> tz) as f64;
    let e = 13 * q + tz as i64;
    s as f64 * mant * (2.0f64).powi(e as i32)
}

fn replay_one<T: Fl>(rec: &mut Rec, st: &mut Stats, tys: &[Ty<T>], e: &Value) {
    let ty = tys.iter().find(|t| t.name == e["ty"].as_str().unwrap()).expect("type of the event");
    let a: Vec<T> = e["a"].as_array().unwrap().iter().map(|v| T::f(dy_to_f64(v))).collect();
    let b: Vec<T> = e["b"].as_array().unwrap().iter().map(|v| T::f(dy_to_f64(v))).collect();
    one(rec, st, ty, e["op"].as_str().unwrap(), &a, &b, T::f(dy_to_f64(&e["eps"])), T::f(dy_to_f64(&e["mr"])),
        e["k"].as_u64().unwrap() as u32, "replay");
}

fn main() {
    let mut rec = Rec::create(&arg_or("--out", "-"));
    let mut st = Stats { events: 0, panics: 0, per_op: Default::default() };
    let (t32, t64) = (types32(), types64());
    if let Some(ev) = arg("--one") {
        let e: Value = serde_json::from_str(&ev).expect("event json");
        if e["t"] == "f32" { replay_one(&mut rec, &mut st, &t32, &e) } else { replay_one(&mut rec, &mut st, &t64, &e) }
        rec.finish();
        return;
    }
    let thorough = arg_or("--tier", "quick") == "thorough";
    let mut rng = Sm64::new(seed_from_env() ^ 0xE9);
    if let Some(p) = arg("--tlc") {
        let cases: Vec<Value> = std::fs::read_to_string(p).expect("tlc cases").lines().filter(|l| !l.trim().is_empty())
            .map(|l| serde_json::from_str(l).expect("case json")).collect();
        tlc_cases(&mut rec, &mut st, &t32, &cases, 0);
        tlc_cases(&mut rec, &mut st, &t64, &cases, 1);
    }
    let reps = if thorough { 8 } else { 1 };
    own_cases(&mut rec, &mut st, &t32, &mut rng, f32::EPSILON, reps);
    own_cases(&mut rec, &mut st, &t64, &mut rng, f64::EPSILON, reps);
    rec.finish();
    eprintln!("{}", json!({"events": st.events, "panics": st.panics, "per_op": st.per_op, "types": t32.len()}));
}
