SPECIFICATION MCSpec
CONSTANTS
  Block = 256
  ClsStride = 1
  Stride16 = 16
  Emit = TRUE
INVARIANTS Inv
CHECK_DEADLOCK FALSE
