INIT Init
NEXT Next
