def fx(s):
    """exact FxDec(..) term of a decimal literal (4-digit groups, the last one padded with zeros)"""
    sgn = 1
    if s.startswith("-"):
        sgn, s = -1, s[1:]
    ip, fp = s.split(".")
    while len(fp) % 4:
        fp += "0"
    groups = [str(int(fp[i:i + 4])) for i in range(0, len(fp), 4)]
    return "FxDec(%d, %d, <<%s>>)" % (sgn, int(ip), ", ".join(groups))
