SPECIFICATION Spec
INVARIANTS BoxContract HwbContract
CHECK_DEADLOCK FALSE
