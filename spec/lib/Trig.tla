-------------------------------- MODULE Trig --------------------------------
(***************************************************************************)
(* Sine and cosine of an angle given in degrees, in 104-bit fixed point.    *)
(* The angle is reduced exactly to [0, 45] degrees by symmetries, converted  *)
(* to radians with a 120-bit pi, and evaluated by Taylor series up to x^27   *)
(* (remainder below 2^-100 for |x| <= pi/4).  Error of the result < 2^-95.   *)
(***************************************************************************)
EXTENDS Fx

(* pi = 3.14159265358979323846264338327950288419716939937510... (groups of four decimals) *)
PiFx == FxDec(1, 3, <<1415, 9265, 3589, 7932, 3846, 2643, 3832, 7950, 2884, 1971>>)
Fx180 == FxInt(180)
Fx360T == FxInt(360)
Fx90 == FxInt(90)
Fx45 == FxInt(45)

(* floor(|x| / 360) * 360 removed: x mod 360 into [0, 360) for any sign *)
FxMod360(x) == LET k == IMk(1, Div(x[2], Fx360T[2]))                    \* floor(|x| / 360), as a bare integer
                   r == FxSub(FxAbs(x), IMul(k, Fx360T))                 \* |x| mod 360
               IN IF x[1] >= 0 \/ FxIsZero(r) THEN r ELSE FxSub(Fx360T, r)

RECURSIVE SinTerms(_, _, _, _)
(* sum_{k >= n} of the alternating series given current term `term` = x^n / n! (signed), x2 = x^2 *)
SinTerms(term, x2, n, last) ==
  IF n > last \/ FxIsZero(term) THEN FxZero
  ELSE FxAdd(term, SinTerms(FxNeg(FxDivInt(FxMul(term, x2), (n + 1) * (n + 2))), x2, n + 2, last))

SinRad(x) == SinTerms(x, FxSqr(x), 1, 27)                 \* |x| <= pi/4
CosRad(x) == SinTerms(FxOne, FxSqr(x), 0, 26)

ToRad(d) == FxDivInt(FxMul(d, PiFx), 180)

(* <<sin, cos>> of d degrees, d in [0, 90] *)
SinCos90(d) == IF FxLe(d, Fx45) THEN <<SinRad(ToRad(d)), CosRad(ToRad(d))>>
               ELSE LET e == FxSub(Fx90, d) IN <<CosRad(ToRad(e)), SinRad(ToRad(e))>>

(* <<sin, cos>> of any angle in degrees *)
SinCosDeg(h) ==
  LET r == FxMod360(h)                       \* [0, 360)
  IN IF FxLe(r, Fx90) THEN SinCos90(r)
     ELSE IF FxLe(r, Fx180) THEN LET sc == SinCos90(FxSub(Fx180, r)) IN <<sc[1], FxNeg(sc[2])>>
     ELSE IF FxLe(r, FxInt(270)) THEN LET sc == SinCos90(FxSub(r, Fx180)) IN <<FxNeg(sc[1]), FxNeg(sc[2])>>
     ELSE LET sc == SinCos90(FxSub(Fx360T, r)) IN <<FxNeg(sc[1]), sc[2]>>
=============================================================================
