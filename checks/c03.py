"""C03 - clamped, checked and unclamped conversions obey one bounds contract.
Spec: spec/Bounds.tla (+ documented bounds in spec/Types.tla). MC_Bounds proves the contract on the model over a
lattice (all component kinds, HWB coupling in exact rationals); the harness runs clamp / clamp_assign / slice /
is_within_bounds and the three conversion APIs on lattices reaching outside every bound; TraceBounds.tla judges."""
import json, itertools, random
from common import *
from colours import *

PAIRS = [("lab", "srgb"), ("oklch", "srgb"), ("lch", "hsv"), ("srgb", "hwb"), ("luv", "hsl"), ("xyz", "lab"),
         ("srgb", "okhsv"), ("lchuv", "hsluv"), ("srgb", "oklab"), ("xyz", "linsrgb"), ("hsv", "hwb"), ("okhsv", "okhwb"),
         ("yxy", "xyz"), ("lab", "lch"), ("srgb", "srgbluma"), ("oklab", "okhsl"), ("linsrgb", "lchuv"), ("hwb", "srgb")]


ALPHAS = (0.5, -3.0, 1.0, -2.0 ** -18, 0.0, 1 + 2.0 ** -18, 3.0, 0.25)


def gen(ctx, path):
    rnd = random.Random(ctx.seed)
    c = Cmds(path)
    c.add(op="consts", acc=1)
    for node in ORDER:
        pts = lattice_out(node)
        if ctx.quick and len(pts) > 320:
            pts = rnd.sample(pts, 320) + pts[:8]
        for p in pts:
            c.add(op="bounds", node=node, **{"in": p})
        # random points, half of them in bounds
        for p in random_in(node, rnd, 40 if ctx.quick else 400):
            c.add(op="bounds", node=node, **{"in": p})
    # the coupled HWB-like types: many points with whiteness + blackness > 1
    for node in HWB:
        for _ in range(1500 if ctx.quick else 30000):
            w, b = rnd.uniform(-0.2, 1.5), rnd.uniform(-0.2, 1.5)
            c.add(op="bounds", node=node, **{"in": (rnd.uniform(0, 360), w, b)})
    # with transparency attached (alpha clamps separately)
    for node in ("srgb", "hwb", "lab", "oklch"):
        pts = [p + (a,) for p in rnd.sample(lattice_out(node), 60 if ctx.quick else 300) for a in (-0.5, 0.0, 0.25, 1.0, 1.5)]
        for p in pts:
            c.add(op="bounds", node=node, alpha=1, **{"in": p})
    # colour types outside the XYZ group: CAM16-UCS (lightness 0..100, colourfulness >= 0) and CAM16 (attributes >= 0)
    XB = {"cam16ucsjab": [(0, 100), (-50, 50), (-50, 50)], "cam16ucsjmh": [(0, 100), (0, 50), None], "cam16jch": [(0, 100), (0, 100), None],
          "cam16qsh": [(0, 100), (0, 100), None], "cam16": [(0, 100), (0, 100), None, (0, 100), (0, 100), (0, 100)]}
    for node, rs in XB.items():
        axes = [comp_values_out(r) for r in rs]
        pts = list(itertools.product(*axes))
        if len(pts) > 400:
            pts = rnd.sample(pts, min(len(pts), 400 if ctx.quick else 4000)) + pts[:8]
        for p in pts:
            c.add(op="xbounds", node=node, **{"in": p})
    # colours with integer components (bounds 0 .. MAX of the type: every value is inside, clamping is the identity)
    for node, mx, n in (("srgb_u8", 255, 3), ("srgb_u16", 65535, 3), ("linsrgb_u32", 2 ** 32 - 1, 3), ("srgbluma_u8", 255, 1), ("linluma_u16", 65535, 1),
                         ("srgba_u8", 255, 4), ("srgba_u16", 65535, 4), ("srgblumaa_u8", 255, 2)):     # integer alpha as well
        vals = [0, 1, mx // 2, mx // 2 + 1, mx - 1, mx] if n < 4 else [0, 2, mx // 2 + 1, mx]
        for p in itertools.product(vals, repeat=n):
            c.add(op="ibounds", node=node, iin=list(p))
    # the three conversion APIs on sources whose results leave the target's range
    for (a, b) in PAIRS:
        pts = rnd.sample(lattice_out(a), min(len(lattice_out(a)), 40 if ctx.quick else 300)) + random_in(a, rnd, 60 if ctx.quick else 600)
        for k, p in enumerate(pts):
            # the Alpha-wrapped forms of the same three APIs ride along, with a transparency from its own lattice
            c.add(op="conv3", to=b, a=hx(ALPHAS[k % len(ALPHAS)]), **{"from": a, "in": p})
    return c.close()


def coords_of(ev, why):
    d = {"kind": ev.get("ev"), "class": why, "t": ev.get("t")}
    if ev.get("ev") == "bounds":
        d["node"] = ev.get("node")
        vals = [dy_to_float(x) for x in ev.get("in", [])]
        for i, v in enumerate(vals):
            d["in%d" % i] = v
    elif ev.get("ev") == "conv3":
        d["from"], d["to"] = ev.get("from"), ev.get("to")
    else:
        d["node"] = ev.get("node")
    return d


def judge(ctx, bins, cmds, tag):
    for b in ("conv64", "conv32"):
        tp = ctx.p("%s.%s.ndjson" % (tag, b))
        run_bin(bins[b], ["--cmds", cmds, "--out", tp])
        res = validate_trace(ctx, "TraceBounds", tp, stateless=True, chunk_events=4000, tag=tag + "." + b)
        ctx.cov["traces_validated_against_impl"] += res.events - len(res.rejected)
        add_samples(ctx, tp, n=2, every=5003)
        ctx.cov["distinct_nontrivial"] += count_distinct(
            tp, lambda e: json.dumps([e.get("node"), e.get("from"), e.get("to"), e.get("in"), e.get("alpha")]),
            lambda e: e.get("ev") in ("bounds", "conv3") and (e.get("within_in") == 0 or e.get("t_ok") == 0))
        for (line, ev, info, _) in res.rejected:
            why = info.strip().strip('"')
            if ev.get("ev") == "acc":
                # accessors that bound nothing (clamp and is_within_bounds do not use them): their values are not part of
                # the statement, a departure from the values of the pinned tree is a NOTE, never a violation
                msg = "%s: %s; values %s" % (ev.get("t"), why, {k: dy_to_float(v) for k, v in ev.get("vals", {}).items()})
                print("NOTE: outside C03's statement, an accessor that bounds nothing changed its value: " + msg)
                ctx.cov.setdefault("notes_outside_the_statement", []).append(msg)
                continue
            d = coords_of(ev, why)
            what = "%s %s: %s on input %s -> %s" % (ev.get("t"), ev.get("node") or (ev.get("from"), ev.get("to")), why,
                                                    [dy_to_float(x) for x in ev.get("in", [])],
                                                    {k: (dy_to_float(ev[k]) if k == "a" else [dy_to_float(x) for x in ev[k]] if isinstance(ev.get(k), list) else ev.get(k))
                                                     for k in ("clamp", "clamp_assign", "slice", "clamp2", "u", "c", "tv", "within_in",
                                                               "within_out", "within_out_assign", "t_ok", "a", "au", "ac", "atv", "at_ok") if k in ev})
            report(ctx, d, what, {"bin": b, "event": ev, "trace_line": line})


def run(ctx):
    bins = cargo_build(["conv64", "conv32"])
    tlc_mc(ctx, "MC_Bounds", tag="bounds_mc")
    cmds = ctx.p("c03.cmds")
    n = gen(ctx, cmds)
    log("C03: %d commands" % n)
    judge(ctx, bins, cmds, "c03")
    return finish(ctx, "model_checking",
                  rule="a case is one colour (or conversion input) of one type run through clamp, clamp_assign, slice clamp_assign, "
                       "is_within_bounds (or the three conversion APIs); distinct by exact input, non-trivial when the input (or the "
                       "unclamped result) is outside the bounds",
                  explanation="MC_Bounds proves Within(Clamp(c)), idempotence and identity-on-in-bounds on the model for every component "
                              "kind and the HWB coupling (exact rationals). Every recorded API result is then judged by TLC against "
                              "Bounds.tla with the type's own accessor values as bounds; the accessors are compared with the documented "
                              "table in Types.tla.",
                  trusted=["documented bounds table in spec/Types.tla"])


def replay(ctx, path):
    rp = json.load(open(path))["replay"]
    bins = cargo_build(["conv64", "conv32"])
    ev = rp["event"]
    tp = ctx.p("replay.ndjson")
    # re-execute the same input on the current tree
    vals = [dy_to_float(x) for x in ev["in"]]
    c = Cmds(ctx.p("replay.cmds"))
    if ev["ev"] == "bounds" and ev["node"].startswith("cam16"):
        c.add(op="xbounds", node=ev["node"], **{"in": vals})
    elif ev["ev"] == "bounds" and ev.get("t") in ("u8", "u16", "u32"):
        c.add(op="ibounds", node=ev["node"], iin=[int(v) for v in vals])
    elif ev["ev"] == "bounds":
        c.add(op="bounds", node=ev["node"], alpha=ev.get("alpha", 0), **{"in": vals})
    elif ev["ev"] == "conv3":
        kw = {"a": hx(dy_to_float(ev["a"]))} if "a" in ev else {}
        c.add(op="conv3", to=ev["to"], **{"from": ev["from"], "in": vals}, **kw)
    else:
        c.add(op="consts", acc=1)
    c.close()
    run_bin(bins[rp["bin"]], ["--cmds", ctx.p("replay.cmds"), "--out", tp])
    res = validate_trace(ctx, "TraceBounds", tp, stateless=True, tag="replay")
    if res.rejected:
        print("VIOLATION property=C03 replay=%s" % path)
        print("  still rejected: %s" % res.rejected[0][2])
        return 1
    print("replay accepted")
    return 0
