---------------------------- MODULE TraceRandom ----------------------------
(* Trace validation for C19.  Every recorded sample of palette's Standard and  *)
(* Uniform distributions must be an event the model accepts (Random.tla):      *)
(* within the documented bounds / between the ends and on the hue arc, and -   *)
(* for the cone and bicone shaped spaces - the inverse-CDF image of the raw    *)
(* variates the sampler consumed, for some assignment of variates to           *)
(* coordinates.  Samplers have no state, events are independent: a rejected    *)
(* line never hides the following ones.                                        *)
(*                                                                            *)
(* Event: {"ev":"sample","dist":"standard"|"uniform","incl":0|1,"ty":<node>,   *)
(*         "t":"f32"|"f64","alpha":0|1,"lo":[exact..],"hi":[exact..],          *)
(*         "vs":[exact..],"vu":[exact..],"out":[exact..],"panic":0|1, ...}     *)
(*   lo, hi  the two ends, components in declared order, alpha last ([] for    *)
(*           standard)                                                         *)
(*   vs, vu  the first k numbers drawn from a clone of the generator the way   *)
(*           rand's Standard (vs: rng.gen::<T>()) and rand's Uniform (vu:      *)
(*           Uniform::new(0, 1).sample(rng)) draw them; k = number of          *)
(*           components.  Either list may be the one the sampler consumed.     *)
(*   out     the sample ([] after a panic)                                     *)
(* The harness drives only ends that satisfy rand's precondition (low < high   *)
(* in every component for `new`, low <= high for `new_inclusive`; for the HWB  *)
(* forms: in the HSV image), so a panic is a rejected event.                   *)
EXTENDS Random, Json, IOUtils, TLC

Rec == ndJsonDeserialize(IOEnv.TRACE)

VARIABLE l
tvars == <<vars, l>>

Why(e) ==
  IF e.panic # 0 THEN "panic"
  ELSE IF ~(e.ty \in Nodes /\ e.t \in FloatTypes /\ e.alpha \in {0, 1}) THEN "unknown-type"
  ELSE IF ~AllFin(e.out) THEN "non-finite"
  ELSE Verdict(e.dist, e.ty, e.t, e.alpha, DySeq(e.lo), DySeq(e.hi), {DySeq(e.vs), DySeq(e.vu)}, DySeq(e.out))

(* the model's action for the event's distribution; when the model refuses the event the refusal is reported
   (short reason: TLC wraps wide tuples) and the next line is examined *)
TSample ==
  /\ l <= Len(Rec) /\ Rec[l].ev = "sample" /\ Rec[l].dist \in {"standard", "uniform"}
  /\ LET e == Rec[l]  w == Why(e)
     IN /\ IF w = "ok" THEN TRUE ELSE PrintT(<<"REJECT", l, w>>)
        /\ last' = <<e.dist, IF e.ty \in Nodes THEN e.ty ELSE "none">>
  /\ l' = l + 1

TInit == Init /\ l = 1
TNext == TSample
TSpec == TInit /\ [][TNext]_tvars

Consumed == TLCGet("stats").diameter = Len(Rec) + 1 \/ PrintT(<<"UNCONSUMED", TLCGet("stats").diameter>>)
TInv == TypeOK
=============================================================================
