//! C04 driver: executes cast chains (emitted by TLC from spec/mc/MC_Cast.tla) on real palette types
//! and records, after every call, what the returned buffer looks like: form, element unit, length,
//! observed capacity, whether its address is the scenario's original address, its flat contents
//! decoded back to tokens, the error kind, and size_of / align_of of the element type.
//!
//! usage: cast --hist <file, one JSON chain per line> [--types all|name,name] [--rotate R] --out trace.ndjson
//!        cast --list            (prints the type table)
//!
//! Tokens: component token t (1, 2, 3, ...) is the bit pattern `K::enc(t)`; `K::dec` is its exact inverse
//! (anything that is not the image of a token decodes to -9), so the recorded token sequence is a
//! bit-for-bit statement.  Colours are built and read BY FIELD NAME; `names()` lists the fields in the order
//! in which the harness numbers them, and TraceCast.tla compares that list with the specification's table.

#![allow(clippy::type_complexity)]

use core::marker::PhantomData;
use core::mem::{align_of, size_of};
use palette::blend::PreAlpha;
use palette::cast::{
    self, ArrayCast, ArraysAs, ArraysAsMut, ArraysFrom, ArraysInto, AsArrays, AsArraysMut, AsComponents,
    AsComponentsMut, AsUints, AsUintsMut, ComponentsAs, ComponentsAsMut, ComponentsFrom, ComponentsInto, FromArrays,
    FromComponents, FromUints, IntoArrays, IntoComponents, IntoUints, Packed, TryComponentsAs, TryComponentsAsMut,
    TryComponentsInto, TryFromComponents, UintCast, UintsAs, UintsAsMut, UintsFrom, UintsInto, VecCastErrorKind,
};
use palette::encoding::{Linear, Srgb as SrgbStd};
use palette::white_point::D65;
use palette::{
    Alpha, Hsl, Hsluv, Hsv, Hwb, Lab, LabHue, Lch, Lchuv, Luv, LuvHue, Okhsl, Okhsv, Okhwb, Oklab, OklabHue, Oklch,
    RgbHue, Xyz, Yxy,
};
use palette::cam16::{Cam16Jch, Cam16Jmh, Cam16Jsh, Cam16Qch, Cam16Qmh, Cam16Qsh, Cam16UcsJab, Cam16UcsJmh};
use palette::hues::Cam16Hue;
use palette::lms::Lms;
use palette::luma::Luma;
use palette::rgb::Rgb;
use pvh::*;
use serde_json::{json, Value};

const BAD: i64 = -9;
const MAXTOK: i64 = 255;
const MAP_DELTA: i64 = 50;

const OK: i64 = 0;
const LENGTH: i64 = 1;
const CAPACITY: i64 = 2;
const EXACT: i64 = 3;
const PANIC: i64 = 9;

// ------------------------------------------------------------------------------------------- tokens

/// multiplicative inverse of an odd number modulo 2^128 (its low w bits are the inverse modulo 2^w)
const fn inv_odd(a: u128) -> u128 {
    let mut x = a; // correct to 3 bits
    let mut i = 0;
    while i < 7 {
        x = x.wrapping_mul(2u128.wrapping_sub(a.wrapping_mul(x)));
        i += 1;
    }
    x
}

trait Comp: Copy + PartialEq + 'static {
    const NAME: &'static str;
    fn enc(tok: i64) -> Self;
    fn dec(self) -> i64;
}

macro_rules! comp_uint {
    ($t:ty, $a:expr, $b:expr) => {
        impl Comp for $t {
            const NAME: &'static str = stringify!($t);
            fn enc(tok: i64) -> $t { (tok as $t).wrapping_mul($a).wrapping_add($b) }
            fn dec(self) -> i64 {
                const INV: $t = inv_odd($a as u128) as $t;
                let t = self.wrapping_sub($b).wrapping_mul(INV);
                if t >= 1 && (t as u128) <= MAXTOK as u128 { t as i64 } else { BAD }
            }
        }
    };
}
comp_uint!(u8, 167, 13);
comp_uint!(u16, 40503, 12345);
comp_uint!(u32, 0x9E37_79B1, 0x7F4A_7C15);
comp_uint!(u64, 0x9E37_79B9_7F4A_7C15, 0xD1B5_4A32_D192_ED03);
comp_uint!(u128, 0x9E37_79B9_7F4A_7C15_F39C_C060_5CED_C835, 0x0123_4567_89AB_CDEF_FEDC_BA98_7654_3211);

const F32_BASE: u32 = 0x3DCC_CCCD;
const F32_STEP: u32 = 0x0013_579B;
impl Comp for f32 {
    const NAME: &'static str = "f32";
    fn enc(tok: i64) -> f32 { f32::from_bits(F32_BASE + (tok as u32) * F32_STEP) }
    fn dec(self) -> i64 {
        let b = self.to_bits();
        if b > F32_BASE && (b - F32_BASE) % F32_STEP == 0 && ((b - F32_BASE) / F32_STEP) as i64 <= MAXTOK {
            ((b - F32_BASE) / F32_STEP) as i64
        } else {
            BAD
        }
    }
}
const F64_BASE: u64 = 0x3FB9_9999_9999_999A;
const F64_STEP: u64 = 0x0002_4681_3579_BDF1;
impl Comp for f64 {
    const NAME: &'static str = "f64";
    fn enc(tok: i64) -> f64 { f64::from_bits(F64_BASE + (tok as u64) * F64_STEP) }
    fn dec(self) -> i64 {
        let b = self.to_bits();
        if b > F64_BASE && (b - F64_BASE) % F64_STEP == 0 && ((b - F64_BASE) / F64_STEP) as i64 <= MAXTOK {
            ((b - F64_BASE) / F64_STEP) as i64
        } else {
            BAD
        }
    }
}

fn mv<T>(t: T) -> T { t }

// ------------------------------------------------------------------------------------------- chains

#[derive(Clone, Debug)]
struct Init {
    fam: String,
    n: usize,
    form: String,
    unit: String,
    len: usize,
    cap: usize,
}
#[derive(Clone, Debug)]
struct Op {
    name: String,
    api: u8,
    m: u8,
}

fn parse_chain(line: &str) -> (Init, Vec<Op>) {
    let v: Value = serde_json::from_str(line).expect("chain json");
    let a = v.as_array().expect("chain array");
    let i = a[0].as_array().expect("init");
    assert_eq!(i[0].as_str(), Some("init"));
    let s = |x: &Value| x.as_str().unwrap().to_string();
    let u = |x: &Value| x.as_u64().unwrap() as usize;
    let init = Init { fam: s(&i[1]), n: u(&i[2]), form: s(&i[3]), unit: s(&i[4]), len: u(&i[5]), cap: u(&i[6]) };
    let ops = a[1..]
        .iter()
        .map(|o| {
            let o = o.as_array().unwrap();
            Op { name: s(&o[0]), api: u(&o[1]) as u8, m: u(&o[2]) as u8 }
        })
        .collect();
    (init, ops)
}

struct Cx<'r> {
    rec: &'r mut Rec,
    base: usize,
}

fn unsupported(what: &str, op: &Op) -> ! {
    eprintln!("cast harness: {} cannot take {:?} (specification and harness out of step)", what, op);
    std::process::exit(3)
}

struct Obs {
    form: &'static str,
    unit: &'static str,
    len: usize,
    cap: usize,
    ptr: usize, // 0: by value
    data: Vec<i64>,
    elsize: usize,
    elalign: usize,
}

fn obs_json(o: &Obs, base: usize) -> Value {
    let addr = if o.ptr == 0 { 0 } else if o.ptr == base { 1 } else { 2 };
    json!({"form": o.form, "unit": o.unit, "len": o.len, "cap": o.cap, "addr": addr, "data": o.data,
           "elsize": o.elsize, "elalign": o.elalign})
}

fn log_cast(cx: &mut Cx, op: &Op, o: Option<&Obs>, err: i64) {
    let mut v = match o {
        Some(o) => obs_json(o, cx.base),
        None => json!({"form": "dead", "unit": "none", "len": 0, "cap": 0, "addr": 0, "data": [], "elsize": 0, "elalign": 0}),
    };
    let m = v.as_object_mut().unwrap();
    m.insert("ev".into(), json!("cast"));
    m.insert("op".into(), json!(op.name));
    m.insert("api".into(), json!(op.api));
    m.insert("m".into(), json!(op.m));
    m.insert("err".into(), json!(err));
    cx.rec.ev(v);
}

// ------------------------------------------------------------------------------------------- ArrayCast family

trait Col<K: Comp, const N: usize>: ArrayCast<Array = [K; N]> + Sized + 'static {
    const TY: &'static str;
    const BASE: &'static str;
    const WRAP: &'static str;
    /// a colour type with the same array, used as the target of map_*_in_place
    type Partner: Col<K, N>;
    /// field names in the order in which `make` / `read` number them
    fn names() -> Vec<&'static str>;
    /// BY FIELD NAME
    fn make(v: [K; N]) -> Self;
    /// BY FIELD NAME
    fn read(&self) -> [K; N];
    // the std-trait spellings (From / AsRef / AsMut / TryFrom) generated by impl_array_casts!
    fn s_into_array(self) -> [K; N];
    fn s_from_array(a: [K; N]) -> Self;
    fn s_ref_into(&self) -> &[K; N];
    fn s_ref_from(a: &[K; N]) -> &Self;
    fn s_mut_into(&mut self) -> &mut [K; N];
    fn s_mut_from(a: &mut [K; N]) -> &mut Self;
    fn s_box_into(b: Box<Self>) -> Box<[K; N]>;
    fn s_box_from(b: Box<[K; N]>) -> Box<Self>;
    fn s_ref_slice(&self) -> &[K];
    fn s_mut_slice(&mut self) -> &mut [K];
    fn s_try_ref(s: &[K]) -> Option<&Self>;
    fn s_try_mut(s: &mut [K]) -> Option<&mut Self>;
    // by-value component arrays need concrete lengths (2N and 2N+1)
    fn a_into_components(a: [Self; 2], api: u8) -> Vec<K>;
    fn a_from_components(v: &[K], api: u8) -> [Self; 2];
}

enum Buf<'a, C, K, const N: usize> {
    ValC(C),
    ValA([K; N]),
    RefC(&'a C),
    RefA(&'a [K; N]),
    MutC(&'a mut C),
    MutA(&'a mut [K; N]),
    BoxC(Box<C>),
    BoxA(Box<[K; N]>),
    ArrC([C; 2]),
    ArrA([[K; N]; 2]),
    ArrK(Vec<K>), // a by-value [K; M]: held as a copy, rebuilt as a real array for every call
    SlC(&'a [C]),
    SlA(&'a [[K; N]]),
    SlK(&'a [K]),
    SmC(&'a mut [C]),
    SmA(&'a mut [[K; N]]),
    SmK(&'a mut [K]),
    BsC(Box<[C]>),
    BsA(Box<[[K; N]]>),
    BsK(Box<[K]>),
    VecC(Vec<C>),
    VecA(Vec<[K; N]>),
    VecK(Vec<K>),
}

fn dc<C: Col<K, N>, K: Comp, const N: usize>(s: &[C]) -> Vec<i64> {
    s.iter().flat_map(|c| c.read().into_iter().map(|k| k.dec())).collect()
}
fn da<K: Comp, const N: usize>(s: &[[K; N]]) -> Vec<i64> { s.iter().flat_map(|a| a.iter().map(|k| k.dec())).collect() }
fn dk<K: Comp>(s: &[K]) -> Vec<i64> { s.iter().map(|k| k.dec()).collect() }

fn observe<C: Col<K, N>, K: Comp, const N: usize>(b: &Buf<C, K, N>) -> Obs {
    use Buf::*;
    let (sc, ac) = (size_of::<C>(), align_of::<C>());
    let (sa, aa) = (size_of::<[K; N]>(), align_of::<[K; N]>());
    let (sk, ak) = (size_of::<K>(), align_of::<K>());
    let o = |form, unit, len, cap, ptr, data, (elsize, elalign)| Obs { form, unit, len, cap, ptr, data, elsize, elalign };
    let one = core::slice::from_ref;
    match b {
        ValC(c) => o("value", "colour", 1, 1, 0, dc(one(c)), (sc, ac)),
        ValA(a) => o("value", "array", 1, 1, 0, da(one(a)), (sa, aa)),
        RefC(c) => o("ref", "colour", 1, 1, *c as *const C as usize, dc(one(*c)), (sc, ac)),
        RefA(a) => o("ref", "array", 1, 1, *a as *const [K; N] as usize, da(one(*a)), (sa, aa)),
        MutC(c) => o("mut", "colour", 1, 1, &**c as *const C as usize, dc(one(&**c)), (sc, ac)),
        MutA(a) => o("mut", "array", 1, 1, &**a as *const [K; N] as usize, da(one(&**a)), (sa, aa)),
        BoxC(c) => o("box", "colour", 1, 1, &**c as *const C as usize, dc(one(&**c)), (sc, ac)),
        BoxA(a) => o("box", "array", 1, 1, &**a as *const [K; N] as usize, da(one(&**a)), (sa, aa)),
        ArrC(x) => o("array", "colour", 2, 2, 0, dc(&x[..]), (sc, ac)),
        ArrA(x) => o("array", "array", 2, 2, 0, da(&x[..]), (sa, aa)),
        ArrK(v) => o("array", "component", v.len(), v.len(), 0, dk(v), (sk, ak)),
        SlC(s) => o("slice", "colour", s.len(), s.len(), s.as_ptr() as usize, dc(s), (sc, ac)),
        SlA(s) => o("slice", "array", s.len(), s.len(), s.as_ptr() as usize, da(s), (sa, aa)),
        SlK(s) => o("slice", "component", s.len(), s.len(), s.as_ptr() as usize, dk(s), (sk, ak)),
        SmC(s) => o("slice_mut", "colour", s.len(), s.len(), s.as_ptr() as usize, dc(s), (sc, ac)),
        SmA(s) => o("slice_mut", "array", s.len(), s.len(), s.as_ptr() as usize, da(s), (sa, aa)),
        SmK(s) => o("slice_mut", "component", s.len(), s.len(), s.as_ptr() as usize, dk(s), (sk, ak)),
        BsC(s) => o("boxed_slice", "colour", s.len(), s.len(), s.as_ptr() as usize, dc(s), (sc, ac)),
        BsA(s) => o("boxed_slice", "array", s.len(), s.len(), s.as_ptr() as usize, da(s), (sa, aa)),
        BsK(s) => o("boxed_slice", "component", s.len(), s.len(), s.as_ptr() as usize, dk(s), (sk, ak)),
        VecC(s) => o("vec", "colour", s.len(), s.capacity(), s.as_ptr() as usize, dc(s), (sc, ac)),
        VecA(s) => o("vec", "array", s.len(), s.capacity(), s.as_ptr() as usize, da(s), (sa, aa)),
        VecK(s) => o("vec", "component", s.len(), s.capacity(), s.as_ptr() as usize, dk(s), (sk, ak)),
    }
}

/// log the outcome of a call and continue the chain on the returned buffer
fn step<C: Col<K, N>, K: Comp, const N: usize>(r: Result<(Buf<C, K, N>, i64), String>, op: &Op, rest: &[Op], cx: &mut Cx) {
    match r {
        Ok((b, err)) => {
            let o = observe(&b);
            log_cast(cx, op, Some(&o), err);
            exec(b, rest, cx)
        }
        Err(_) => log_cast(cx, op, None, PANIC), // the call panicked and consumed the buffer
    }
}

fn vec_err(k: VecCastErrorKind) -> i64 {
    match k {
        VecCastErrorKind::LengthMismatch => LENGTH,
        VecCastErrorKind::CapacityMismatch => CAPACITY,
    }
}

fn map_fn<A: Col<K, N>, K: Comp, const N: usize>(a: A) -> A::Partner {
    <A::Partner as Col<K, N>>::make(a.read().map(|k| K::enc(k.dec() + MAP_DELTA)))
}

fn exec<C: Col<K, N>, K: Comp, const N: usize>(buf: Buf<C, K, N>, ops: &[Op], cx: &mut Cx) {
    use Buf::*;
    let Some((op, rest)) = ops.split_first() else { return };
    let (a, m) = (op.api, op.m);
    // run a palette call that takes the buffer by value / by the reference we hold
    macro_rules! st {
        ($v:ident, $e:expr) => {
            step(catch(move || $e).map(|x| (Buf::<C, K, N>::$v(x), OK)), op, rest, cx)
        };
    }
    // run a palette call that borrows from the local holder, which stays alive below the rest of the chain
    macro_rules! bw {
        ($v:ident, $e:expr) => {
            step(catch(|| $e).map(|x| (Buf::<C, K, N>::$v(x), OK)), op, rest, cx)
        };
    }
    match (op.name.as_str(), buf) {
        // ------------------------------------------------------------------ into_array
        ("into_array", ValC(c)) => st!(ValA, if a == 0 { cast::into_array(c) } else { c.s_into_array() }),
        ("into_array", RefC(c)) => st!(RefA, if a == 0 { cast::into_array_ref(c) } else { c.s_ref_into() }),
        ("into_array", MutC(c)) => st!(MutA, if a == 0 { cast::into_array_mut(mv(c)) } else { mv(c).s_mut_into() }),
        ("into_array", BoxC(c)) => st!(BoxA, if a == 0 { cast::into_array_box(c) } else { C::s_box_into(c) }),
        ("into_array", ArrC(mut x)) => match (a, m) {
            (0, _) => st!(ArrA, cast::into_array_array(x)),
            (1, _) => st!(ArrA, IntoArrays::<[[K; N]; 2]>::into_arrays(x)),
            (3, _) => st!(ArrA, <[[K; N]; 2]>::arrays_from(x)),
            (2, 0) => { cx.base = x.as_ptr() as usize; bw!(SlA, AsArrays::<[[K; N]]>::as_arrays(&x)) }
            (2, _) => { cx.base = x.as_ptr() as usize; bw!(SmA, AsArraysMut::<[[K; N]]>::as_arrays_mut(&mut x)) }
            (_, 0) => { cx.base = x.as_ptr() as usize; bw!(SlA, IntoArrays::<&[[K; N]]>::into_arrays(&x)) }
            (_, _) => { cx.base = x.as_ptr() as usize; bw!(SmA, IntoArrays::<&mut [[K; N]]>::into_arrays(&mut x)) }
        },
        ("into_array", SlC(s)) => match a {
            0 => st!(SlA, cast::into_array_slice(s)),
            1 => st!(SlA, IntoArrays::<&[[K; N]]>::into_arrays(s)),
            3 => st!(SlA, <&[[K; N]]>::arrays_from(s)),
            _ => st!(SlA, AsArrays::<[[K; N]]>::as_arrays(s)),
        },
        ("into_array", SmC(s)) => match (a, m) {
            (0, _) => st!(SmA, cast::into_array_slice_mut(mv(s))),
            (1, _) => st!(SmA, IntoArrays::<&mut [[K; N]]>::into_arrays(mv(s))),
            (3, _) => st!(SmA, <&mut [[K; N]]>::arrays_from(mv(s))),
            (_, 0) => st!(SlA, AsArrays::<[[K; N]]>::as_arrays(&*mv(s))),
            (_, _) => st!(SmA, AsArraysMut::<[[K; N]]>::as_arrays_mut(mv(s))),
        },
        ("into_array", BsC(mut b)) => match (a, m) {
            (0, _) => st!(BsA, cast::into_array_slice_box(b)),
            (1, _) => st!(BsA, IntoArrays::<Box<[[K; N]]>>::into_arrays(b)),
            (3, _) => st!(BsA, Box::<[[K; N]]>::arrays_from(b)),
            (2, 0) => bw!(SlA, AsArrays::<[[K; N]]>::as_arrays(&b)),
            (2, _) => bw!(SmA, AsArraysMut::<[[K; N]]>::as_arrays_mut(&mut b)),
            (_, 0) => bw!(SlA, IntoArrays::<&[[K; N]]>::into_arrays(&b)),
            (_, _) => bw!(SmA, IntoArrays::<&mut [[K; N]]>::into_arrays(&mut b)),
        },
        ("into_array", VecC(mut v)) => match (a, m) {
            (0, _) => st!(VecA, cast::into_array_vec(v)),
            (1, _) => st!(VecA, IntoArrays::<Vec<[K; N]>>::into_arrays(v)),
            (3, _) => st!(VecA, Vec::<[K; N]>::arrays_from(v)),
            (2, 0) => bw!(SlA, AsArrays::<[[K; N]]>::as_arrays(&v)),
            (2, _) => bw!(SmA, AsArraysMut::<[[K; N]]>::as_arrays_mut(&mut v)),
            (_, 0) => bw!(SlA, IntoArrays::<&[[K; N]]>::into_arrays(&v)),
            (_, _) => bw!(SmA, IntoArrays::<&mut [[K; N]]>::into_arrays(&mut v)),
        },
        // ------------------------------------------------------------------ from_array
        ("from_array", ValA(x)) => st!(ValC, if a == 0 { cast::from_array::<C>(x) } else { C::s_from_array(x) }),
        ("from_array", RefA(x)) => st!(RefC, if a == 0 { cast::from_array_ref::<C>(x) } else { C::s_ref_from(x) }),
        ("from_array", MutA(x)) => st!(MutC, if a == 0 { cast::from_array_mut::<C>(mv(x)) } else { C::s_mut_from(mv(x)) }),
        ("from_array", BoxA(x)) => st!(BoxC, if a == 0 { cast::from_array_box::<C>(x) } else { C::s_box_from(x) }),
        ("from_array", ArrA(mut x)) => match (a, m) {
            (0, _) => st!(ArrC, cast::from_array_array::<C, 2>(x)),
            (1, _) => st!(ArrC, <[C; 2]>::from_arrays(x)),
            (3, _) => st!(ArrC, ArraysInto::<[C; 2]>::arrays_into(x)),
            (2, 0) => { cx.base = x.as_ptr() as usize; bw!(SlC, ArraysAs::<[C]>::arrays_as(&x)) }
            (2, _) => { cx.base = x.as_ptr() as usize; bw!(SmC, ArraysAsMut::<[C]>::arrays_as_mut(&mut x)) }
            (_, 0) => { cx.base = x.as_ptr() as usize; bw!(SlC, <&[C]>::from_arrays(&x)) }
            (_, _) => { cx.base = x.as_ptr() as usize; bw!(SmC, <&mut [C]>::from_arrays(&mut x)) }
        },
        ("from_array", SlA(s)) => match a {
            0 => st!(SlC, cast::from_array_slice::<C>(s)),
            1 => st!(SlC, <&[C]>::from_arrays(s)),
            3 => st!(SlC, ArraysInto::<&[C]>::arrays_into(s)),
            _ => st!(SlC, ArraysAs::<[C]>::arrays_as(s)),
        },
        ("from_array", SmA(s)) => match (a, m) {
            (0, _) => st!(SmC, cast::from_array_slice_mut::<C>(mv(s))),
            (1, _) => st!(SmC, <&mut [C]>::from_arrays(mv(s))),
            (3, _) => st!(SmC, ArraysInto::<&mut [C]>::arrays_into(mv(s))),
            (_, 0) => st!(SlC, ArraysAs::<[C]>::arrays_as(&*mv(s))),
            (_, _) => st!(SmC, ArraysAsMut::<[C]>::arrays_as_mut(mv(s))),
        },
        ("from_array", BsA(mut b)) => match (a, m) {
            (0, _) => st!(BsC, cast::from_array_slice_box::<C>(b)),
            (1, _) => st!(BsC, Box::<[C]>::from_arrays(b)),
            (3, _) => st!(BsC, ArraysInto::<Box<[C]>>::arrays_into(b)),
            (2, 0) => bw!(SlC, ArraysAs::<[C]>::arrays_as(&b)),
            (2, _) => bw!(SmC, ArraysAsMut::<[C]>::arrays_as_mut(&mut b)),
            (_, 0) => bw!(SlC, <&[C]>::from_arrays(&b)),
            (_, _) => bw!(SmC, <&mut [C]>::from_arrays(&mut b)),
        },
        ("from_array", VecA(mut v)) => match (a, m) {
            (0, _) => st!(VecC, cast::from_array_vec::<C>(v)),
            (1, _) => st!(VecC, Vec::<C>::from_arrays(v)),
            (3, _) => st!(VecC, ArraysInto::<Vec<C>>::arrays_into(v)),
            (2, 0) => bw!(SlC, ArraysAs::<[C]>::arrays_as(&v)),
            (2, _) => bw!(SmC, ArraysAsMut::<[C]>::arrays_as_mut(&mut v)),
            (_, 0) => bw!(SlC, <&[C]>::from_arrays(&v)),
            (_, _) => bw!(SmC, <&mut [C]>::from_arrays(&mut v)),
        },
        // ------------------------------------------------------------------ into_component
        ("into_component", ArrC(mut x)) => match (a, m) {
            (0, _) | (1, _) | (3, _) => st!(ArrK, C::a_into_components(x, a)),
            (2, 0) => { cx.base = x.as_ptr() as usize; bw!(SlK, AsComponents::<[K]>::as_components(&x)) }
            (2, _) => { cx.base = x.as_ptr() as usize; bw!(SmK, AsComponentsMut::<[K]>::as_components_mut(&mut x)) }
            (_, 0) => { cx.base = x.as_ptr() as usize; bw!(SlK, IntoComponents::<&[K]>::into_components(&x)) }
            (_, _) => { cx.base = x.as_ptr() as usize; bw!(SmK, IntoComponents::<&mut [K]>::into_components(&mut x)) }
        },
        ("into_component", SlC(s)) => match a {
            0 => st!(SlK, cast::into_component_slice(s)),
            1 => st!(SlK, IntoComponents::<&[K]>::into_components(s)),
            3 => st!(SlK, <&[K]>::components_from(s)),
            _ => st!(SlK, AsComponents::<[K]>::as_components(s)),
        },
        ("into_component", SmC(s)) => match (a, m) {
            (0, _) => st!(SmK, cast::into_component_slice_mut(mv(s))),
            (1, _) => st!(SmK, IntoComponents::<&mut [K]>::into_components(mv(s))),
            (3, _) => st!(SmK, <&mut [K]>::components_from(mv(s))),
            (_, 0) => st!(SlK, AsComponents::<[K]>::as_components(&*mv(s))),
            (_, _) => st!(SmK, AsComponentsMut::<[K]>::as_components_mut(mv(s))),
        },
        ("into_component", BsC(mut b)) => match (a, m) {
            (0, _) => st!(BsK, cast::into_component_slice_box(b)),
            (1, _) => st!(BsK, IntoComponents::<Box<[K]>>::into_components(b)),
            (3, _) => st!(BsK, Box::<[K]>::components_from(b)),
            (2, 0) => bw!(SlK, AsComponents::<[K]>::as_components(&b)),
            (2, _) => bw!(SmK, AsComponentsMut::<[K]>::as_components_mut(&mut b)),
            (_, 0) => bw!(SlK, IntoComponents::<&[K]>::into_components(&b)),
            (_, _) => bw!(SmK, IntoComponents::<&mut [K]>::into_components(&mut b)),
        },
        ("into_component", VecC(mut v)) => match (a, m) {
            (0, _) => st!(VecK, cast::into_component_vec(v)),
            (1, _) => st!(VecK, IntoComponents::<Vec<K>>::into_components(v)),
            (3, _) => st!(VecK, Vec::<K>::components_from(v)),
            (2, 0) => bw!(SlK, AsComponents::<[K]>::as_components(&v)),
            (2, _) => bw!(SmK, AsComponentsMut::<[K]>::as_components_mut(&mut v)),
            (_, 0) => bw!(SlK, IntoComponents::<&[K]>::into_components(&v)),
            (_, _) => bw!(SmK, IntoComponents::<&mut [K]>::into_components(&mut v)),
        },
        ("try_from_component", b) => exec_try(b, op, rest, cx),
        ("from_component", b) => exec_from(b, op, rest, cx),
        // ------------------------------------------------------------------ map_*_in_place
        ("map", VecC(v)) => match catch(move || cast::map_vec_in_place::<C, C::Partner, _>(v, map_fn::<C, K, N>)) {
            Ok(w) => {
                let nb = Buf::<C::Partner, K, N>::VecC(w);
                log_cast(cx, op, Some(&observe(&nb)), OK);
                exec(nb, rest, cx)
            }
            Err(_) => log_cast(cx, op, None, PANIC),
        },
        ("map", BsC(v)) => match catch(move || cast::map_slice_box_in_place::<C, C::Partner, _>(v, map_fn::<C, K, N>)) {
            Ok(w) => {
                let nb = Buf::<C::Partner, K, N>::BsC(w);
                log_cast(cx, op, Some(&observe(&nb)), OK);
                exec(nb, rest, cx)
            }
            Err(_) => log_cast(cx, op, None, PANIC),
        },
        // ------------------------------------------------------------------ one colour <-> exactly n components
        ("ref_as_slice", RefC(c)) => st!(SlK, c.s_ref_slice()),
        ("ref_as_slice", MutC(c)) => st!(SmK, mv(c).s_mut_slice()),
        ("try_slice_as_ref", SlK(s)) => match catch(|| C::s_try_ref(s)) {
            Ok(Some(c)) => step(Ok((RefC::<C, K, N>(c), OK)), op, rest, cx),
            Ok(None) => step(Ok((SlK::<C, K, N>(s), EXACT)), op, rest, cx),
            Err(e) => step::<C, K, N>(Err(e), op, rest, cx),
        },
        ("try_slice_as_ref", SmK(s)) => {
            let p: *mut [K] = s;
            // SAFETY (harness): at most one of the two reborrows of *p is ever used
            match catch(|| C::s_try_mut(unsafe { &mut *p })) {
                Ok(Some(c)) => step(Ok((MutC::<C, K, N>(c), OK)), op, rest, cx),
                Ok(None) => step(Ok((SmK::<C, K, N>(unsafe { &mut *p }), EXACT)), op, rest, cx),
                Err(e) => step::<C, K, N>(Err(e), op, rest, cx),
            }
        }
        (_, b) => unsupported(&format!("{}/{}", observe(&b).form, observe(&b).unit), op),
    }
}

/// try_from_component_*: Ok -> colours; Err -> the buffer that came back, with the error kind
fn exec_try<C: Col<K, N>, K: Comp, const N: usize>(buf: Buf<C, K, N>, op: &Op, rest: &[Op], cx: &mut Cx) {
    use Buf::*;
    let (a, m) = (op.api, op.m);
    macro_rules! fin {
        ($r:expr) => {
            match $r {
                Ok(x) => step(Ok(x), op, rest, cx),
                Err(e) => step::<C, K, N>(Err(e), op, rest, cx),
            }
        };
    }
    match buf {
        SlK(s) => fin!(catch(|| {
            let r = match a {
                0 => cast::try_from_component_slice::<C>(s),
                1 => <&[C]>::try_from_components(s),
                3 => TryComponentsInto::<&[C]>::try_components_into(s),
                _ => TryComponentsAs::<[C]>::try_components_as(s),
            };
            match r { Ok(v) => (SlC(v), OK), Err(_) => (SlK(s), LENGTH) }
        })),
        SmK(s) => {
            let p: *mut [K] = s;
            // SAFETY (harness): the error value does not borrow the slice; only one reborrow of *p is used
            fin!(catch(|| {
                let s = unsafe { &mut *p };
                if m == 0 && a == 2 {
                    match TryComponentsAs::<[C]>::try_components_as(&*s) { Ok(v) => (SlC(v), OK), Err(_) => (SmK(unsafe { &mut *p }), LENGTH) }
                } else {
                    let r = match a {
                        0 => cast::try_from_component_slice_mut::<C>(s),
                        1 => <&mut [C]>::try_from_components(s),
                        3 => TryComponentsInto::<&mut [C]>::try_components_into(s),
                        _ => TryComponentsAsMut::<[C]>::try_components_as_mut(s),
                    };
                    match r { Ok(v) => (SmC(v), OK), Err(_) => (SmK(unsafe { &mut *p }), LENGTH) }
                }
            }))
        }
        BsK(mut b) => match (a, m) {
            (0, _) | (1, _) | (3, _) => fin!(catch(move || {
                let r = match a {
                    0 => cast::try_from_component_slice_box::<C>(b),
                    1 => Box::<[C]>::try_from_components(b),
                    _ => TryComponentsInto::<Box<[C]>>::try_components_into(b),
                };
                match r { Ok(v) => (BsC(v), OK), Err(e) => (BsK(e.values), LENGTH) }
            })),
            (_, 0) => {
                let r = catch(|| if a == 2 { TryComponentsAs::<[C]>::try_components_as(&b).ok() } else { <&[C]>::try_from_components(&b).ok() });
                match r {
                    Ok(Some(v)) => step(Ok((SlC::<C, K, N>(v), OK)), op, rest, cx),
                    Ok(None) => step(Ok((BsK::<C, K, N>(b), LENGTH)), op, rest, cx),
                    Err(e) => step::<C, K, N>(Err(e), op, rest, cx),
                }
            }
            (_, _) => {
                let p: *mut Box<[K]> = &mut b;
                let r = catch(|| {
                    let bb = unsafe { &mut *p };
                    if a == 2 { TryComponentsAsMut::<[C]>::try_components_as_mut(bb).ok() } else { <&mut [C]>::try_from_components(bb).ok() }
                });
                match r {
                    Ok(Some(v)) => step(Ok((SmC::<C, K, N>(v), OK)), op, rest, cx),
                    Ok(None) => step(Ok((BsK::<C, K, N>(b), LENGTH)), op, rest, cx),
                    Err(e) => step::<C, K, N>(Err(e), op, rest, cx),
                }
            }
        },
        VecK(mut v) => match (a, m) {
            (0, _) | (1, _) | (3, _) => fin!(catch(move || {
                let r = match a {
                    0 => cast::try_from_component_vec::<C>(v),
                    1 => Vec::<C>::try_from_components(v),
                    _ => TryComponentsInto::<Vec<C>>::try_components_into(v),
                };
                match r { Ok(w) => (VecC(w), OK), Err(e) => { let k = vec_err(e.kind); (VecK(e.values), k) } }
            })),
            (_, 0) => {
                let r = catch(|| if a == 2 { TryComponentsAs::<[C]>::try_components_as(&v).ok() } else { <&[C]>::try_from_components(&v).ok() });
                match r {
                    Ok(Some(w)) => step(Ok((SlC::<C, K, N>(w), OK)), op, rest, cx),
                    Ok(None) => step(Ok((VecK::<C, K, N>(v), LENGTH)), op, rest, cx),
                    Err(e) => step::<C, K, N>(Err(e), op, rest, cx),
                }
            }
            (_, _) => {
                let p: *mut Vec<K> = &mut v;
                let r = catch(|| {
                    let vv = unsafe { &mut *p };
                    if a == 2 { TryComponentsAsMut::<[C]>::try_components_as_mut(vv).ok() } else { <&mut [C]>::try_from_components(vv).ok() }
                });
                match r {
                    Ok(Some(w)) => step(Ok((SmC::<C, K, N>(w), OK)), op, rest, cx),
                    Ok(None) => step(Ok((VecK::<C, K, N>(v), LENGTH)), op, rest, cx),
                    Err(e) => step::<C, K, N>(Err(e), op, rest, cx),
                }
            }
        },
        b => unsupported(&format!("{}/{}", observe(&b).form, observe(&b).unit), op),
    }
}

/// from_component_* (panicking): Ok -> colours; a panic consumes a buffer passed by value and leaves a borrowed one alone
fn exec_from<C: Col<K, N>, K: Comp, const N: usize>(buf: Buf<C, K, N>, op: &Op, rest: &[Op], cx: &mut Cx) {
    use Buf::*;
    let (a, m) = (op.api, op.m);
    macro_rules! st {
        ($v:ident, $e:expr) => {
            step(catch(move || $e).map(|x| (Buf::<C, K, N>::$v(x), OK)), op, rest, cx)
        };
    }
    match buf {
        ArrK(v) => {
            if v.len() != 2 * N && v.len() != 2 * N + 1 {
                unsupported("component array of this length", op)
            }
            st!(ArrC, C::a_from_components(&v, a))
        }
        SlK(s) => {
            let r = catch(|| match a {
                0 => cast::from_component_slice::<C>(s),
                1 => <&[C]>::from_components(s),
                3 => ComponentsInto::<&[C]>::components_into(s),
                _ => ComponentsAs::<[C]>::components_as(s),
            });
            match r {
                Ok(v) => step(Ok((SlC::<C, K, N>(v), OK)), op, rest, cx),
                Err(_) => step(Ok((SlK::<C, K, N>(s), PANIC)), op, rest, cx),
            }
        }
        SmK(s) => {
            let p: *mut [K] = s;
            // SAFETY (harness): a panic returns nothing that borrows the slice; only one reborrow of *p is used
            if m == 0 && a == 2 {
                match catch(|| ComponentsAs::<[C]>::components_as(unsafe { &*p })) {
                    Ok(v) => step(Ok((SlC::<C, K, N>(v), OK)), op, rest, cx),
                    Err(_) => step(Ok((SmK::<C, K, N>(unsafe { &mut *p }), PANIC)), op, rest, cx),
                }
            } else {
                let r = catch(|| {
                    let s = unsafe { &mut *p };
                    match a {
                        0 => cast::from_component_slice_mut::<C>(s),
                        1 => <&mut [C]>::from_components(s),
                        3 => ComponentsInto::<&mut [C]>::components_into(s),
                        _ => ComponentsAsMut::<[C]>::components_as_mut(s),
                    }
                });
                match r {
                    Ok(v) => step(Ok((SmC::<C, K, N>(v), OK)), op, rest, cx),
                    Err(_) => step(Ok((SmK::<C, K, N>(unsafe { &mut *p }), PANIC)), op, rest, cx),
                }
            }
        }
        BsK(mut b) => match (a, m) {
            (0, _) => st!(BsC, cast::from_component_slice_box::<C>(b)),
            (1, _) => st!(BsC, Box::<[C]>::from_components(b)),
            (3, _) => st!(BsC, ComponentsInto::<Box<[C]>>::components_into(b)),
            (_, 0) => match catch(|| if a == 2 { ComponentsAs::<[C]>::components_as(&b) } else { <&[C]>::from_components(&b) }) {
                Ok(v) => step(Ok((SlC::<C, K, N>(v), OK)), op, rest, cx),
                Err(_) => step(Ok((BsK::<C, K, N>(b), PANIC)), op, rest, cx),
            },
            (_, _) => {
                let p: *mut Box<[K]> = &mut b;
                let r = catch(|| {
                    let bb = unsafe { &mut *p };
                    if a == 2 { ComponentsAsMut::<[C]>::components_as_mut(bb) } else { <&mut [C]>::from_components(bb) }
                });
                match r {
                    Ok(v) => step(Ok((SmC::<C, K, N>(v), OK)), op, rest, cx),
                    Err(_) => step(Ok((BsK::<C, K, N>(b), PANIC)), op, rest, cx),
                }
            }
        },
        VecK(mut v) => match (a, m) {
            (0, _) => st!(VecC, cast::from_component_vec::<C>(v)),
            (1, _) => st!(VecC, Vec::<C>::from_components(v)),
            (3, _) => st!(VecC, ComponentsInto::<Vec<C>>::components_into(v)),
            (_, 0) => match catch(|| if a == 2 { ComponentsAs::<[C]>::components_as(&v) } else { <&[C]>::from_components(&v) }) {
                Ok(w) => step(Ok((SlC::<C, K, N>(w), OK)), op, rest, cx),
                Err(_) => step(Ok((VecK::<C, K, N>(v), PANIC)), op, rest, cx),
            },
            (_, _) => {
                let p: *mut Vec<K> = &mut v;
                let r = catch(|| {
                    let vv = unsafe { &mut *p };
                    if a == 2 { ComponentsAsMut::<[C]>::components_as_mut(vv) } else { <&mut [C]>::from_components(vv) }
                });
                match r {
                    Ok(w) => step(Ok((SmC::<C, K, N>(w), OK)), op, rest, cx),
                    Err(_) => step(Ok((VecK::<C, K, N>(v), PANIC)), op, rest, cx),
                }
            }
        },
        b => unsupported(&format!("{}/{}", observe(&b).form, observe(&b).unit), op),
    }
}
