#!/bin/sh
# usage: tools/rmsandbox.sh <name>   removes the scratch worktree, its harness copy and build output
n="$1"; d=/tmp/pvsb/$n
git -C /repo worktree remove --force "$d/repo" 2>/dev/null || true
rm -rf "$d"
git -C /repo worktree prune
