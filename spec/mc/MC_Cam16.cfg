SPECIFICATION Spec
CONSTANTS
  Emit = TRUE
  Mode = "all"
  Stride = 1
INVARIANTS Holds EmitDone
CHECK_DEADLOCK FALSE
