"""C07 - finite valid colours never produce NaN, infinity or a panic.
The invariant `every call on a colour of the statement's domain returns finite components and does not panic` is
judged by TLC (spec/trace/TraceFinite.tla, which also decides membership in the domain from the documented bounds
of spec/Types.tla) over the boundary lattice x the API surface: every conversion pair, the clamp family, and - as
the other modules' drivers are built - operators, blends and differences."""
import json, random, itertools
from common import *
from colours import *
OPS_EXTRA = {"cam16ucsjab": [(0, 100), (-50, 50), (-50, 50)], "cam16ucsjmh": [(0, 100), (0, 50), None]}    # operator driver only


def gen(ctx, path):
    rnd = random.Random(ctx.seed)
    c = Cmds(path)
    for A in ORDER:
        pts = lattice_in(A, hues=[0.0, 29.999, 30.0, 60.0, 90.0, 120.0, 180.0, 239.5, 240.0, 300.0, 359.999, 360.0, -180.0])
        if A in HWB:
            pts = [p for p in pts if p[1] + p[2] <= 1.0]
        if ctx.quick and len(pts) > 150:
            # always keep the degenerate boundary: every component on a bound, zero, or a billionth inside a bound,
            # for a few hues; thin only the interior of the lattice
            def edge(v, r):
                if r is None:
                    return v in (0.0, 60.0, 180.0, 359.999)
                lo, hi = r
                t = 1e-9 * (hi - lo)
                return v in (lo, hi, 0.0) or abs(v - (lo + t)) < t / 2 or abs(v - (hi - t)) < t / 2
            edges = [p for p in pts if all(edge(v, r) for v, r in zip(p, NODES[A]))]
            rest = [p for p in pts if p not in set(edges)]
            pts = edges + rnd.sample(rest, min(len(rest), 90))
        for p in pts:
            for B in ORDER:
                if A != B:
                    c.add(**{"from": A, "in": p, "path": [B], "mode": "u"})
            c.add(op="bounds", node=A, **{"in": p})
        # with alpha on the lattice {0, tiny, 1/2, 1}
        for p in rnd.sample(pts, min(len(pts), 12 if ctx.quick else 60)):
            for a in (0.0, 1e-9, 0.5, 1.0):
                B = rnd.choice([b for b in ORDER if b != A])
                c.add(**{"from": A, "in": p + (a,), "path": [B], "mode": "a"})
    # hue sweeps over the degenerate boundaries: every hue-bearing type with its other components on a bound or a
    # billionth inside it, the hue stepping through the whole circle (phase drawn from the seed), to every other type
    step = 1.0 if ctx.quick else 0.25
    phase = rnd.uniform(0, step)
    hues = [phase + k * step for k in range(int(360 / step))] + OK_PRIMARY_HUES
    for A in ORDER:
        rs = NODES[A]
        if None not in rs:
            continue
        axes = []
        for r in rs:
            if r is None:
                axes.append(hues)
            else:
                lo, hi = r
                t = 1.001e-9 * (hi - lo)
                axes.append([lo, lo + t, hi - t, hi] + ([] if ctx.quick else [(lo + hi) / 2]))
        for p in itertools.product(*axes):
            if A in HWB and p[1] + p[2] > 1.0:
                continue
            c.add(op="fan", **{"from": A, "in": p})
    return c.close()


# Oklab hues of the sRGB primaries and secondaries (sector edges of the Ok cusp search) and their last-digit neighbours
OK_PRIMARY_HUES = [h + d for h in (29.2338851923426, 109.769232492044, 142.495338887664, 194.768947627317, 264.052020638055, 328.363418050535)
                   for d in (-1e-6, 0.0, 1e-6)]


def coords_of(ev, why):
    d = {"kind": ev["ev"], "class": why, "t": ev.get("t")}
    if ev["ev"] == "walk":
        d["from"] = ev["nodes"][0]
        d["to"] = ev["nodes"][-1] if len(ev["nodes"]) > 1 else "?"
        vals = [dy_to_float(x) for x in ev["vals"][0]]
        for i, v in enumerate(vals):
            d["in%d" % i] = v
    elif ev["ev"] == "bounds":
        d["from"] = d["to"] = ev["node"]
    return d


STD_NODES = {"xyz": NODES["xyz"], "lab": NODES["lab"], "xyz50": [(0, 0.96422), (0, 1), (0, 0.82521)], "lab50": NODES["lab"],
             "lch50": NODES["lch"], "luv50": NODES["luv"], "xyzdci": [(0, 0.89459), (0, 1), (0, 0.95442)], "labdci": NODES["lab"]}
for _n in ("srgb", "linsrgb", "adobe", "linadobe", "p3", "linp3", "rec2020", "linrec2020", "rec709", "prophoto", "linprophoto", "dcip3", "lindcip3", "dcip3plus", "lindcip3plus"):
    STD_NODES[_n] = NODES["srgb"]
for _n in ("hsv_adobe", "hsl_p3", "hwb_rec2020", "hsv_prophoto", "hsv", "hsl", "hwb", "hsv_linsrgb", "hsl_linsrgb", "hwb_rec709"):
    STD_NODES[_n] = NODES["hsv"]


def gen_std(ctx, path):
    """the boundary lattice of the other RGB standards and white points (convstd* binaries); pairs that do not exist
    (different white points) are recorded as missing and not judged"""
    rnd = random.Random(ctx.seed + 3)
    c = Cmds(path)
    names = list(STD_NODES)
    for A in names:
        axes = [[0.0, 60.0, 180.0, 359.999] if r is None else in_lattice(*r) for r in STD_NODES[A]]
        pts = list(itertools.product(*axes))
        if A.startswith("hwb"):
            pts = [p for p in pts if p[1] + p[2] <= 1.0]
        if ctx.quick and len(pts) > 60:
            pts = rnd.sample(pts, 60)
        for p in pts:
            for B in names:
                if A != B:
                    c.add(**{"from": A, "in": p, "path": [B], "mode": "u"})
    return c.close()


def other_surfaces(ctx):
    """operators (C10 driver) and blends / compositing (C08 driver) on their quick lattices, judged for finiteness here"""
    bins = cargo_build(["ops", "blend", "cam16", "diff"])
    nodes = ctx.p("nodes.json")
    json.dump({k: [None if r is None else list(r) for r in v] for k, v in list(NODES.items()) + list(OPS_EXTRA.items())}, open(nodes, "w"))
    out = []
    tp = ctx.p("c07.ops.ndjson")
    run_bin(bins["ops"], ["--tier", "quick", "--nodes", nodes, "--out", tp], env={"VERIF_SEED": ctx.seed})
    out.append(("ops", tp))
    tp = ctx.p("c07.blend.ndjson")
    run_bin(bins["blend"], ["--tier", "quick", "--out", tp], env={"VERIF_SEED": ctx.seed})
    out.append(("blend", tp))
    # CAM16 partial colours given directly (lightness / brightness x chroma-like attribute on their boundary lattice):
    # expansion to the full colour and the way back to XYZ, under several viewing conditions
    tp = ctx.p("c07.cam16.ndjson")
    run_bin(bins["cam16"], ["--pfin", 6 if ctx.quick else 40, "--out", tp], env={"VERIF_SEED": ctx.seed})
    out.append(("cam16", tp))
    # colour differences (C09 driver) of pairs that differ in one component by nothing, a last place, a billionth ... a thousandth
    tp = ctx.p("c07.diff.ndjson")
    run_bin(bins["diff"], ["--fin", "--tier", ctx.tier, "--out", tp], env={"VERIF_SEED": ctx.seed})
    out.append(("diff", tp))
    return out


def run(ctx):
    bins = cargo_build(["conv64", "conv32"])
    cmds = ctx.p("c07.cmds")
    n = gen(ctx, cmds)
    log("C07: %d commands" % n)
    for b in ("conv64", "conv32"):
        tp = ctx.p("c07.%s.ndjson" % b)
        run_bin(bins[b], ["--cmds", cmds, "--out", tp])
        res = validate_trace(ctx, "TraceFinite", tp, stateless=True, chunk_events=8000, tag="c07." + b)
        ctx.cov["traces_validated_against_impl"] += res.events - len(res.rejected)
        add_samples(ctx, tp, n=1, every=20011)
        ctx.cov["distinct_nontrivial"] += count_distinct(
            tp, lambda e: json.dumps([e.get("nodes"), e.get("node"), e.get("vals", [""])[0] if "vals" in e else e.get("in")]),
            lambda e: True)
        for (line, ev, info, _) in res.rejected:
            why = info.strip().strip('"')
            if ev["ev"] == "fan":
                # one report per failing target, as the single conversion it stands for (replayable as such)
                for to in (ev["panics"] if why == "panic" else ev["bad"]) or ["?"]:
                    w = {"ev": "walk", "nodes": [ev["from"], to], "vals": [ev["in"]], "mode": "u", "t": ev.get("t")}
                    d = coords_of(w, why)
                    what = "%s %s -> %s: %s for input %s" % (ev.get("t"), ev["from"], to, why, [dy_to_float(x) for x in ev["in"]])
                    report(ctx, d, what, {"bin": b, "event": w, "trace_line": line})
                continue
            d = coords_of(ev, why)
            what = "%s %s -> %s: %s for input %s" % (ev.get("t"), d.get("from"), d.get("to"), why,
                                                     [dy_to_float(x) for x in (ev["vals"][0] if "vals" in ev else ev["in"])])
            report(ctx, d, what, {"bin": b, "event": ev, "trace_line": line})
    sbins = cargo_build(["convstd64", "convstd32"])
    scmds = ctx.p("c07std.cmds")
    log("C07: %d commands on the other standards" % gen_std(ctx, scmds))
    for b in ("convstd64", "convstd32"):
        tp = ctx.p("c07.%s.ndjson" % b)
        run_bin(sbins[b], ["--cmds", scmds, "--out", tp])
        res = validate_trace(ctx, "TraceFinite", tp, stateless=True, chunk_events=8000, tag="c07." + b)
        ctx.cov["traces_validated_against_impl"] += res.events - len(res.rejected)
        for (line, ev, info, _) in res.rejected:
            why = info.strip().strip('"')
            d = coords_of(ev, why)
            what = "%s %s -> %s: %s for input %s" % (ev.get("t"), d.get("from"), d.get("to"), why, [dy_to_float(x) for x in ev["vals"][0]])
            report(ctx, d, what, {"bin": b, "event": ev, "trace_line": line})
    for tag, tp in other_surfaces(ctx):
        res = validate_trace(ctx, "TraceFinite", tp, stateless=True, chunk_events=12000, tag="c07." + tag)
        ctx.cov["traces_validated_against_impl"] += res.events - len(res.rejected)
        add_samples(ctx, tp, n=1, every=40009)
        for (line, ev, info, _) in res.rejected:
            why = info.strip().strip('"')
            d = {"kind": ev["ev"], "class": why, "t": ev.get("t"), "from": ev.get("node") or ev.get("ty") or ev.get("pk"), "to": ev.get("call") or ev.get("mode") or ev.get("m")}
            what = "%s %s %s: %s; event %s" % (ev.get("t"), d["from"], d["to"], why, json.dumps(ev)[:400])
            report(ctx, d, what, {"bin": tag, "event": ev, "trace_line": line})
    return finish(ctx, "model_checking",
                  rule="a case is one API call on one lattice colour; distinct by call and exact input; the lattice consists of the "
                       "degenerate boundaries (each component at min, max, zero, a billionth inside, quarter points; hues at sector edges)",
                  explanation="TLC decides for every recorded call whether its input lies in the statement's domain (documented bounds, "
                              "on-a-bound-or-a-billionth-away rule) and, if so, requires a finite, panic-free result.",
                  trusted=["documented bounds table in spec/Types.tla"])


def replay(ctx, path):
    rp = json.load(open(path))["replay"]
    bins = cargo_build(["conv64", "conv32"])
    ev = rp["event"]
    c = Cmds(ctx.p("replay.cmds"))
    if ev["ev"] == "walk":
        c.add(**{"from": ev["nodes"][0], "in": [dy_to_float(x) for x in ev["vals"][0]], "path": ev["nodes"][1:], "mode": ev["mode"]})
    else:
        c.add(op="bounds", node=ev["node"], **{"in": [dy_to_float(x) for x in ev["in"]]})
    c.close()
    tp = ctx.p("replay.ndjson")
    run_bin(bins[rp["bin"]], ["--cmds", ctx.p("replay.cmds"), "--out", tp])
    res = validate_trace(ctx, "TraceFinite", tp, stateless=True, tag="replay")
    if res.rejected:
        print("VIOLATION property=C07 replay=%s" % path)
        print("  still rejected: %s" % res.rejected[0][2])
        return 1
    print("replay accepted")
    return 0
