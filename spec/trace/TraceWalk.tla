------------------------------ MODULE TraceWalk ------------------------------
(* Trace validation for C01: a `walk` event is a sequence of conversions       *)
(* n0 -> n1 -> ... from one input; the abstract colour (hub image) must be      *)
(* invariant under every hop, a walk that returns to its first space must       *)
(* return the original coordinates, attaching alpha must change nothing, and    *)
(* two routes between the same spaces (`tri` events) must agree.                *)
EXTENDS ColourEq, ConvGraph, Json, IOUtils, TLC

Rec == ndJsonDeserialize(IOEnv.TRACE)
VARIABLE l

StageFin(w) == \A i \in DOMAIN w.vals : AllFin(w.vals[i]) /\ AllFin(w.hub[i])

(* hub invariance along one walk, from stage `from` on *)
HubInvariant(w, t, from) ==
  LET bits == HubBits(t, w.nodes)
  IN \A i \in (from + 1)..Len(w.nodes) :
       IF IsLuma(w.nodes[i]) THEN HubNearY(w.hub[i], w.hub[i - 1], bits)
       ELSE HubNear(w.hub[i], w.hub[i - 1], bits)

NoLuma(w) == \A i \in DOMAIN w.nodes : ~IsLuma(w.nodes[i])

(* first stage whose space equals the last one (the walk returns there) *)
ReturnsTo(w) == IF \E i \in 1..(Len(w.nodes) - 1) : w.nodes[i] = w.nodes[Len(w.nodes)]
                THEN CHOOSE i \in 1..(Len(w.nodes) - 1) : w.nodes[i] = w.nodes[Len(w.nodes)] /\
                       \A j \in 1..(i - 1) : w.nodes[j] # w.nodes[Len(w.nodes)]
                ELSE 0

Expected(w) == \A i \in 1..(Len(w.nodes) - 1) : PairExists(w.nodes[i], w.nodes[i + 1])

WalkWhy(w, t) ==
  IF w.missing = 1 THEN (IF Expected(w) THEN "conversion-missing" ELSE "ok")
  ELSE IF w.panic = 1 THEN "panic"
  ELSE IF ~StageFin(w) THEN "non-finite"
  ELSE IF ~HubInvariant(w, t, 1) THEN "colour-changed-by-conversion"
  ELSE LET r == ReturnsTo(w)
       IN IF r # 0 /\ NoLuma(w) /\ ~OwnNear(w.nodes[r], t, [i \in 1..NComp(w.nodes[r]) |-> w.vals[r][i]],
                                            [i \in 1..NComp(w.nodes[r]) |-> w.vals[Len(w.vals)][i]])
          THEN "round-trip-differs"
          ELSE "ok"

(* with alpha attached: colour components bit-identical to the plain walk, alpha bit-identical at every stage *)
AlphaWhy(e) ==
  IF e.missing = 1 \/ e.panic = 1 THEN (IF Expected(e) THEN "alpha-walk-failed" ELSE "ok")
  ELSE IF \E i \in DOMAIN e.vals :
            LET n == Len(e.vals[i]) IN [k \in 1..(n - 1) |-> e.vals[i][k]] # e.base[i] THEN "alpha-changes-colour"
  ELSE IF \E i \in DOMAIN e.vals : e.vals[i][Len(e.vals[i])] # e.vals[1][Len(e.vals[1])] THEN "alpha-value-changed"
  ELSE "ok"

TriWhy(e) ==
  LET a == e.w1  b == e.w2  t == e.t
      la == Len(a.nodes)  lb == Len(b.nodes)
  IN IF a.missing = 1 \/ b.missing = 1 THEN (IF Expected(a) /\ Expected(b) THEN "conversion-missing" ELSE "ok")
     ELSE IF a.panic = 1 \/ b.panic = 1 THEN "panic"
     ELSE IF ~StageFin(a) \/ ~StageFin(b) THEN "non-finite"
     ELSE LET bits == HubBits(t, a.nodes \o b.nodes)
              lossy == ~NoLuma(a) \/ ~NoLuma(b)
          IN IF (IF lossy THEN ~HubNearY(a.hub[la], b.hub[lb], bits) ELSE ~HubNear(a.hub[la], b.hub[lb], bits))
             THEN "routes-disagree"
             ELSE IF ~lossy /\ ~OwnNear(a.nodes[la], t, a.vals[la], b.vals[lb]) THEN "routes-disagree-own"
             ELSE "ok"

(* a user-defined colour type with its transparency in a field of its own (derive with #[palette(alpha)]; the harness'
   UserRgb, wired in through Rgb only): Alpha<A> -> UserRgb -> Alpha<A> must carry the transparency over bit for bit in both
   directions, and the colour must be the one the bare conversions through Srgb give *)
(* WithAlpha on the colour e.in = <<components.., alpha>>: with_alpha attaches it, a second with_alpha replaces it (by 1/8), split and
   without_alpha give colour and alpha back, opaque has alpha 1 and transparent alpha 0 - the colour never changes *)
WaOk(e) == LET n == Len(e["in"])  c == SubSeq(e["in"], 1, n - 1)
               Col(x) == SubSeq(x, 1, n - 1)
           IN /\ e.wa["with"] = e["in"] /\ e.wa.split = e["in"] /\ e.wa.without = e["in"]
              /\ Col(e.wa.replaced) = c /\ e.wa.replaced[n] = <<1, -1, 1024>>
              /\ Col(e.wa.opaque) = c /\ e.wa.opaque[n] = <<1, 0, 1>>
              /\ Col(e.wa.transparent) = c /\ e.wa.transparent[n] = <<0, 0>>
UserWhy(e) ==
  IF e.panic = 1 THEN "panic"
  ELSE IF "wa" \in DOMAIN e /\ ~WaOk(e) THEN "with-alpha-helper-changes-colour-or-alpha"
  ELSE IF e.u_alpha # e.alpha_in \/ e.back_alpha # e.alpha_in THEN "alpha-value-changed"
  ELSE IF e.u # e.srgb \/ e.uo # e.srgb THEN "alpha-changes-colour"
  ELSE IF e.back # e.back_plain \/ e.back_opaque # e.back_plain THEN "alpha-changes-colour"
  ELSE "ok"

(* the compile-time existence matrix of the harness against the routing model *)
(* a conversion the model derives must exist in the code; one the code offers beyond the model (an added
   hand-written impl) is no violation of C01 and is only noted *)
CapsWhy(e) ==
  IF \E j \in DOMAIN e.to : e.to[j] = 0 /\ PairExists(e.node, e.names[j]) THEN "conversion-missing-at-compile-time"
  ELSE IF \E j \in DOMAIN e.to : e.to[j] = 1 /\ ~PairExists(e.node, e.names[j])
       THEN (IF PrintT(<<"NOTE", "extra-conversion", e.node, l>>) THEN "ok" ELSE "ok")
  ELSE "ok"

Why(e) == CASE e.ev = "walk" -> (IF e.mode = "a" THEN AlphaWhy(e) ELSE WalkWhy(e, e.t))
            [] e.ev = "tri" -> TriWhy(e)
            [] e.ev = "consts" -> CapsWhy(e)
            [] e.ev = "user" -> UserWhy(e)

TInit == l = 1
TNext == /\ l <= Len(Rec)
         /\ LET w == Why(Rec[l]) IN IF w = "ok" THEN TRUE ELSE PrintT(<<"REJECT", l, w>>)
         /\ l' = l + 1
TSpec == TInit /\ [][TNext]_l
Consumed == TLCGet("stats").diameter = Len(Rec) + 1 \/ PrintT(<<"UNCONSUMED", TLCGet("stats").diameter>>)
=============================================================================
