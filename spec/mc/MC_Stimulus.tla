---------------------------- MODULE MC_Stimulus ----------------------------
(* C06 checked on the model itself.  An exact-rounding reference conversion   *)
(* (nearest integer of the exact scaled value; bit replication; a 56-bit      *)
(* quotient) is run through the contract of Stimulus.tla for ALL u8 codes, a  *)
(* lattice of u16/u32/u64/u128 codes (0, 1, 2, powers of two +-1, MAX-1, MAX) *)
(* and a lattice of floats (subnormals, powers of two, k/255 and the rounding *)
(* ties (k+1/2)/255 on both sides, 1 -+ ulp, huge magnitudes, both signs,     *)
(* NaN and the infinities), x every target format:                            *)
(*  - the contract is satisfiable: the reference is admitted everywhere;      *)
(*  - it is consistent with the round trips of the statement: for a widened   *)
(*    value, and for every float the contract admits for a code (the 56-bit    *)
(*    quotient moved by +-8u), the model's OWN narrowing / float->integer      *)
(*    relation admits the original code and neither neighbour - so every       *)
(*    implementation of the contract round-trips;                             *)
(*  - the reference is monotone along each lattice;                           *)
(*  - wrong answers are rejected: off by 2 (or by 2^-40 relatively for the     *)
(*    64/128-bit targets), 0 for 1.0, MAX-1 for 1.0, 1 for a negative, a shift *)
(*    without replication, and the outputs the pinned tree was seen to give.   *)
(* Cases are states (kind -> case -> one step per operation of Stimulus.tla);  *)
(* with Emit = TRUE every lattice input is printed as a REPLAY line that the   *)
(* harness executes on the real code (all seven targets).                      *)
EXTENDS Stimulus, Json, TLC

CONSTANTS Emit,      \* print every lattice input as a REPLAY line
          Stride     \* every Stride-th case of each kind (and the last); 1 = all.  > 1 only for the small -coverage run

VARIABLES phase,    \* "blk": a kind of cases, "case": one case, "done"
          c         \* <<kind, index, sign>>

mcvars == <<vars, phase, c>>

WideInts == {"u16", "u32", "u64", "u128"}
Kinds == {"u8", "flt", "spc", "swp"} \cup WideInts

-----------------------------------------------------------------------------
(* integer lattice of a format: 0, 1, 2, then 2^k - 1, 2^k, 2^k + 1 for the exponents below, then MAX - 1, MAX;
   strictly increasing *)
Ks(f) == CASE f = "u16" -> <<2, 3, 4, 5, 6, 7, 8, 9, 10, 11, 12, 13, 14, 15>>
           [] f = "u32" -> <<4, 7, 8, 9, 15, 16, 17, 23, 24, 25, 31>>
           [] f = "u64" -> <<8, 16, 24, 31, 32, 33, 52, 53, 54, 63>>
           [] f = "u128" -> <<8, 16, 32, 52, 53, 54, 63, 64, 65, 100, 127>>
LatLen(f) == 3 + 3 * Len(Ks(f)) + 2
Lat(f, i) ==
  IF i <= 3 THEN FromNat(i - 1)
  ELSE IF i = LatLen(f) THEN MaxN(f)
  ELSE IF i = LatLen(f) - 1 THEN Sub(MaxN(f), One)
  ELSE LET g == (i - 4) \div 3  o == (i - 4) % 3  p == Pow2(Ks(f)[g + 1])
       IN IF o = 0 THEN Sub(p, One) ELSE IF o = 1 THEN p ELSE Add(p, One)

(* float lattice: <<positive value, representable in f32>>, strictly increasing *)
T20 == <<2048, 2056, 2057, 4096, 4112, 4113, 6168, 6169, 8224, 8225, 10280, 10281, 12336, 12337, 65536, 131072,
         261115, 261116, 262144, 263172, 263173, 522231, 522232, 524288, 524289, 526344, 526345, 528400, 528401,
         530456, 530457, 824468, 824469, 1042407, 1042408, 1044463, 1044464, 1046519, 1046520, 1048575>>
FLat == << <<DyPow2(-1074), FALSE>>, <<DyPow2(-1022), FALSE>>, <<DyPow2(-149), TRUE>>, <<DyPow2(-126), TRUE>>,
         <<DyPow2(-64), TRUE>>, <<DyPow2(-40), TRUE>>, <<DyPow2(-33), TRUE>>, <<DyPow2(-32), TRUE>>,
         <<DyPow2(-24), TRUE>>, <<DyPow2(-17), TRUE>>, <<DyPow2(-16), TRUE>>, <<DyPow2(-12), TRUE>> >>
      \o [i \in 1..Len(T20) |-> <<DyMulPow2(DyFromInt(T20[i]), -20), TRUE>>]
      \o << <<DyMulPow2(DyFromInt(16777215), -24), TRUE>>, <<DySub(DOne, DyPow2(-53)), FALSE>>, <<DOne, TRUE>>,
            <<DyAdd(DOne, DyPow2(-23)), TRUE>>, <<DyMulPow2(DyFromInt(3), -1), TRUE>>, <<DyFromInt(2), TRUE>>,
            <<DyFromInt(255), TRUE>>, <<DyFromInt(256), TRUE>>, <<DyPow2(23), TRUE>>, <<DyPow2(24), TRUE>>,
            <<<<1, 0, <<1024, 95, 149>>>>, FALSE>>,                                       \* 10^10
            <<DyPow2(52), TRUE>>, <<DyPow2(53), TRUE>>, <<DyPow2(64), TRUE>>, <<DyPow2(127), TRUE>>,
            <<DyPow2(128), FALSE>>, <<DyPow2(1000), FALSE>> >>
NFL == 12 + Len(T20) + 17

NCases(k) == CASE k = "u8" -> 256 [] k \in WideInts -> LatLen(k) [] k = "flt" -> NFL [] k = "spc" -> 4 [] k = "swp" -> 1

MCInit == Init /\ phase = "blk" /\ c \in {<<k, 0, 1>> : k \in Kinds}

Enum == /\ phase = "blk"
        /\ \E i \in {j \in 1..NCases(c[1]) : (j - 1) % Stride = 0 \/ j = NCases(c[1])} :
             \E s \in (IF c[1] = "flt" THEN {1, -1} ELSE {1}) : c' = <<c[1], i, s>>
        /\ phase' = "case" /\ UNCHANGED last

IsInt == phase = "case" /\ c[1] \in IntFormats
IsFlt == phase = "case" /\ c[1] = "flt"
IsSpc == phase = "case" /\ c[1] = "spc"
IsSwp == phase = "case" /\ c[1] = "swp"

(* the case's value *)
SrcF == c[1]                                                           \* integer cases: the source format
SrcAt(i) == IF c[1] = "u8" THEN FromNat(i - 1) ELSE Lat(c[1], i)
SrcN == SrcAt(c[2])
HasNext == c[2] < NCases(c[1])
X == IF c[3] > 0 THEN FLat[c[2]][1] ELSE DyNeg(FLat[c[2]][1])                \* float cases
XNext == IF c[3] > 0 THEN FLat[c[2] + 1][1] ELSE DyNeg(FLat[c[2] + 1][1])
FromsOf(i) == IF FLat[i][2] THEN {"f32", "f64"} ELSE {"f64"}
Spc == <<<<2, 0>>, <<3, 0>>, <<-3, 0>>, <<0, 0>>>>[c[2]]

-----------------------------------------------------------------------------
(* the reference conversion: exact rounding *)

Pred0(n) == IF n = Zero THEN Zero ELSE Sub(n, One)

RefF2U(x, to) ==
  IF DySign(x) <= 0 THEN Zero
  ELSE IF DyLe(DOne, x) THEN MaxN(to)
  ELSE DyFloor(DyAdd(DyMul(x, DyOfNat(MaxN(to))), Half))[2]             \* ties upward

RECURSIVE Rep(_, _, _)
Rep(n, w, cnt) == IF cnt = 0 THEN Zero ELSE Add(n, Shl(Rep(n, w, cnt - 1), w))   \* n repeated cnt times, w bits apart

(* narrowing by d = w_s - w_t bits: n MAX_t / MAX_s lies in (n / 2^d - 1, n / 2^d], so the nearest integer is one of
   three candidates, and it is the one with |2 r MAX_s - 2 n MAX_t| <= MAX_s (MAX_s / MAX_t is odd: there are no ties).
   A relation, not a division. *)
Nearest(from, to, n) ==
  LET r0 == Shr(n, Width(from) - Width(to))
      A2 == MulSmall(Mul(n, MaxN(to)), 2)
  IN CHOOSE r \in {Pred0(r0), r0, Add(r0, One)} :
       LET B2 == MulSmall(Mul(r, MaxN(from)), 2)
       IN Le(IF Le(A2, B2) THEN Sub(B2, A2) ELSE Sub(A2, B2), MaxN(from))

RefUU(from, to, n) ==
  IF Width(to) >= Width(from) THEN Rep(n, Width(from), Width(to) \div Width(from)) ELSE Nearest(from, to, n)

(* n / MAX from below, to 64 bits and more: a / (2^w - 1) = a / 2^w + a / 2^2w + ..., every term rounded down (the sum
   is short of the quotient of a = n 2^(w + 64) by less than the number of terms, 2^-60 relatively; monotone in n) *)
RECURSIVE GeoSum(_, _, _)
GeoSum(a, w, i) == LET t == Shr(a, i * w) IN IF t = Zero THEN Zero ELSE Add(t, GeoSum(a, w, i + 1))
RefU2F(from, n) ==
  IF n = Zero THEN DyZero
  ELSE IF n = MaxN(from) THEN DOne
  ELSE LET k == Width(from) + 64 IN DyMulPow2(DyOfNat(GeoSum(Shl(n, k), Width(from), 1)), -k)

(* y (1 + s 2^-b) *)
Nudge(y, s, b) == IF s = 0 THEN y ELSE IF s > 0 THEN DyAdd(y, DyMulPow2(y, -b)) ELSE DySub(y, DyMulPow2(y, -b))

Around(n, M) == {r \in {Pred0(n), n, Add(n, One)} : Le(r, M)}

-----------------------------------------------------------------------------
(* one step per operation of Stimulus.tla, with the reference result *)
Done == phase' = "done" /\ c' = c
McU2U == IsInt /\ \E to \in IntFormats : UintToUint(SrcF, to, NatJ(SrcN), NatJ(RefUU(SrcF, to, SrcN))) /\ Done
McU2F == IsInt /\ \E to \in FloatFormats : UintToFloat(SrcF, to, NatJ(SrcN), JOfDy(RefU2F(SrcF, SrcN))) /\ Done
McRT  == IsInt /\ \E b \in Formats : RTRequired(SrcF, b) /\ RoundTrip(SrcF, b, NatJ(SrcN), NatJ(SrcN)) /\ Done
McF2U == IsFlt /\ \E to \in IntFormats : FloatToUint("f64", to, JOfDy(X), NatJ(RefF2U(X, to))) /\ Done
McF2F == IsFlt /\ FloatToFloat("f64", "f64", JOfDy(X), JOfDy(X)) /\ Done
McMono == IsFlt /\ c[2] < NFL /\ c[3] > 0
          /\ Monotone("f64", "u16", JOfDy(X), NatJ(RefF2U(X, "u16")), JOfDy(XNext), NatJ(RefF2U(XNext, "u16"))) /\ Done
McSpc == IsSpc /\ \E to \in IntFormats :
           FloatToUint("f32", to, Spc, NatJ(IF c[2] <= 2 THEN MaxN(to) ELSE Zero)) /\ Done
(* positions on the f32 line: 2^-10 = <<47616, 1>>, 0.5 = <<48768, 1>>, 1.0 = <<48896, 1>>, +inf = <<65280, 1>> *)
McRun == IsSwp /\ SweepRun("f32", "u8", 255, <<48896, 1>>, <<65280, 1>>, 254, <<48896, 0>>) /\ Done
McEnd == IsSwp /\ SweepEnd("f32", "u8", <<65280, 1>>) /\ Done
McNaNs == IsSwp /\ SweepNaNs("u16", 16777214, 0) /\ Done

MCNext == Enum \/ McU2U \/ McU2F \/ McRT \/ McF2U \/ McF2F \/ McMono \/ McSpc \/ McRun \/ McEnd \/ McNaNs
MCSpec == MCInit /\ [][MCNext]_mcvars

-----------------------------------------------------------------------------
(* invariants on integer cases *)

IntCases ==
  IsInt =>
    LET n == SrcN  f == SrcF  jn == NatJ(n) IN
    /\ IsCode(f, jn)
    /\ \A to \in IntFormats :
         LET r == RefUU(f, to, n) IN
         /\ ConvOK(f, to, jn, NatJ(r))                                             \* satisfiable
         /\ (n = Zero => r = Zero) /\ (n = MaxN(f) => r = MaxN(to))                \* the ends
         /\ (HasNext => Le(r, RefUU(f, to, SrcAt(c[2] + 1))))                      \* the reference is monotone
         /\ ~ConvOK(f, to, jn, NatJ(Add(MaxN(to), One)))                           \* out of range
         /\ IF Width(to) >= Width(f)
            THEN /\ ~ConvOK(f, to, jn, NatJ(Add(r, One)))                          \* widening is exact
                 /\ (n # Zero => ~ConvOK(f, to, jn, NatJ(Sub(r, One))))
                 /\ ((n # Zero /\ Width(to) > Width(f)) =>
                       ~ConvOK(f, to, jn, NatJ(Shl(n, Width(to) - Width(f)))))       \* shift without replication
                 /\ (HasNext /\ Width(to) > Width(f) => Lt(r, RefUU(f, to, SrcAt(c[2] + 1))))
            ELSE (* narrowing: off by 2, and off by 2^-40 relatively, are rejected *)
                 LET far == Add(Add(r, Shr(r, 40)), <<2>>) IN
                 /\ ~ConvOK(f, to, jn, NatJ(far))
                 /\ ((Le(<<2>>, r) /\ Width(to) <= 32) => ~ConvOK(f, to, jn, NatJ(Sub(r, <<2>>))))
                 /\ (Width(to) <= 32 => ~ConvOK(f, to, jn, NatJ(Add(r, <<2>>))))
    /\ \A to \in FloatFormats :
         LET y == RefU2F(f, n) IN
         /\ ConvOK(f, to, jn, JOfDy(y))
         /\ (HasNext => DyLe(y, RefU2F(f, SrcAt(c[2] + 1))))
         /\ (n # Zero => /\ ~ConvOK(f, to, jn, JOfDy(Nudge(y, 1, Prec(to) - 6)))   \* 64 u off
                         /\ ~ConvOK(f, to, jn, JOfDy(Nudge(y, -1, Prec(to) - 6)))
                         /\ ~ConvOK(f, to, jn, <<0, 0>>))
         /\ ((n # MaxN(f) /\ Width(f) + U2FBits < Prec(to)) => ~ConvOK(f, to, jn, JOfDy(DOne)))   \* 1.0 only for MAX
         /\ ~ConvOK(f, to, jn, <<2, 0>>) /\ ~ConvOK(f, to, jn, <<3, 0>>)

(* the contract implies the round trips of the statement *)
RoundTrips ==
  IsInt =>
    LET n == SrcN  f == SrcF IN
    \A b \in Formats :
      RTRequired(f, b) =>
        IF b \in IntFormats
        THEN LET w == RefUU(f, b, n) IN
             /\ RefUU(b, f, w) = n
             /\ \A r \in Around(n, MaxN(f)) : UUOK(b, f, w, r) = (r = n)
        ELSE \A s \in {-1, 0, 1} :
               LET y == Nudge(RefU2F(f, n), IF n = MaxN(f) THEN 0 ELSE s, Prec(b) - 3) IN
               /\ U2FOK(f, b, n, JOfDy(y))                                          \* admitted by the contract
               /\ RefF2U(y, f) = n
               /\ \A r \in Around(n, MaxN(f)) : F2UOK(b, f, JOfDy(y), r) = (r = n)
(* and does not demand what the statement does not: 64 bits do not survive f64 *)
NotRequired == ~RTRequired("u64", "f64") /\ ~RTRequired("u32", "f32") /\ ~RTRequired("u64", "u128")
               /\ ~RTRequired("u16", "u8") /\ RTRequired("u8", "f32") /\ RTRequired("u32", "u128")

-----------------------------------------------------------------------------
(* invariants on float cases *)

FloatCases ==
  IsFlt =>
    LET x == X  jx == JOfDy(X)  interior == DySign(x) > 0 /\ DyLt(x, DOne) IN
    /\ \A from \in FromsOf(c[2]) : \A to \in IntFormats :
         LET r == RefF2U(x, to)  M == MaxN(to) IN
         /\ ConvOK(from, to, jx, NatJ(r))
         /\ (DySign(x) <= 0 => r = Zero /\ ~ConvOK(from, to, jx, <<1, 0, 1>>) /\ ~ConvOK(from, to, jx, NatJ(M)))
         /\ (DyLe(DOne, x) => r = M /\ ~ConvOK(from, to, jx, <<0, 0>>) /\ ~ConvOK(from, to, jx, NatJ(Sub(M, One))))
         /\ (interior =>
               /\ ~ConvOK(from, to, jx, NatJ(Add(Add(r, Shr(r, 40)), <<2>>)))
               /\ ((Le(<<2>>, r) /\ Width(to) <= 32) => ~ConvOK(from, to, jx, NatJ(Sub(r, <<2>>))))
               /\ (Width(to) <= 32 => ~ConvOK(from, to, jx, NatJ(Add(r, <<2>>)))))
         /\ ~ConvOK(from, to, jx, <<2, 0>>)                                          \* a panic is logged as NaN
         /\ (c[2] < NFL => (IF c[3] > 0 THEN Le(r, RefF2U(XNext, to)) ELSE Le(RefF2U(XNext, to), r)))
    (* float -> float *)
    /\ \A from \in FromsOf(c[2]) : ConvOK(from, from, jx, jx) /\ ConvOK(from, "f64", jx, jx)
    /\ IF FLat[c[2]][2]
       THEN ConvOK("f64", "f32", jx, jx) /\ (DyLog2(x) > -100 => ~ConvOK("f64", "f32", jx, JOfDy(Nudge(x, 1, 18))))
       ELSE LET lg == DyLog2(x)
                dn == DyMulPow2(<<x[1], 0, DyTruncMag(DyMulPow2(x, 23 - lg))>>, lg - 23)             \* truncated to 24 bits
            IN IF lg >= 128 THEN ConvOK("f64", "f32", jx, IF c[3] > 0 THEN <<3, 0>> ELSE <<-3, 0>>)
                                 /\ ~ConvOK("f64", "f32", jx, <<0, 0>>)
               ELSE IF lg < -149 THEN ConvOK("f64", "f32", jx, <<0, 0>>)
               ELSE ConvOK("f64", "f32", jx, JOfDy(dn)) /\ (lg > -100 => ~ConvOK("f64", "f32", jx, JOfDy(Nudge(dn, -1, 18))))

SpecialCases ==
  IsSpc =>
    \A from \in FloatFormats :
      /\ \A to \in IntFormats :
           /\ ConvOK(from, to, Spc, NatJ(IF c[2] <= 2 THEN MaxN(to) ELSE Zero))
           /\ ~ConvOK(from, to, Spc, NatJ(IF c[2] <= 2 THEN Zero ELSE MaxN(to)))
           /\ ~ConvOK(from, to, Spc, <<1, 0, 1>>)
      /\ \A to \in FloatFormats : ConvOK(from, to, Spc, Spc) /\ ~ConvOK(from, to, Spc, <<1, 0, 1>>)

SweepCases ==
  IsSwp =>
    /\ F32At(<<0, 0>>) = <<-3, 0>> /\ F32At(<<65280, 1>>) = <<3, 0>>
    /\ F32At(<<32640, 0>>) = <<0, 0>> /\ F32At(<<32640, 1>>) = <<0, 0>>
    /\ DyEq(Dy(F32At(<<47616, 1>>)), DyPow2(-10)) /\ DyEq(Dy(F32At(<<48896, 1>>)), DOne)
    /\ DyEq(Dy(F32At(<<32640, 2>>)), DyPow2(-149)) /\ DyEq(Dy(F32At(<<32639, 65535>>)), DyNeg(DyPow2(-149)))
    /\ DyEq(Dy(F32At(<<65280, 0>>)), F32Max) /\ DyEq(Dy(F32At(<<0, 1>>)), DyNeg(F32Max))
    /\ DyEq(Dy(F32At(<<48896, 2>>)), DyAdd(DOne, DyPow2(-23)))
    /\ U32At(<<65535, 65535>>) = NatJ(MaxN("u32")) /\ U32At(<<0, 0>>) = <<0, 0>> /\ U32At(<<1, 2>>) = <<1, 0, 2, 8>>
    /\ RunOK("f32", "u8", 0, <<0, 0>>, <<47616, 1>>) /\ ~RunOK("f32", "u8", 0, <<0, 0>>, <<48768, 1>>)
    /\ RunOK("f32", "u16", 65535, <<48896, 1>>, <<65280, 1>>) /\ ~RunOK("f32", "u16", 65535, <<48768, 1>>, <<65280, 1>>)
    /\ ~RunOK("f32", "u8", 1, <<32000, 0>>, <<32000, 5>>)                            \* a negative run must be 0
    /\ RunOK("u32", "u8", 0, <<0, 0>>, <<127, 65535>>) /\ ~RunOK("u32", "u8", 0, <<0, 0>>, <<129, 0>>)
    /\ RunOK("u32", "u16", 65535, <<65535, 32768>>, <<65535, 65535>>) /\ ~RunOK("u32", "u16", 65534, <<65535, 32768>>, <<65535, 65535>>)
    /\ LinkOK(-1, <<7, 7>>, 0, <<0, 0>>) /\ ~LinkOK(-1, <<7, 7>>, 0, <<0, 1>>)
    /\ LinkOK(3, <<5, 65535>>, 3, <<6, 0>>) /\ LinkOK(3, <<5, 1>>, 4, <<5, 2>>)
    /\ ~LinkOK(3, <<5, 1>>, 2, <<5, 2>>) /\ ~LinkOK(3, <<5, 1>>, 4, <<5, 3>>)

Inv == TypeOK /\ IntCases /\ RoundTrips /\ FloatCases /\ SpecialCases /\ SweepCases

(* spec -> code: every lattice input is handed to the harness *)
EmitCase ==
  (Emit /\ phase = "case") =>
    CASE c[1] \in IntFormats -> PrintT(<<"REPLAY", ToJson([from |-> c[1], in |-> NatJ(SrcN)])>>)
      [] c[1] = "flt" -> \A from \in FromsOf(c[2]) : PrintT(<<"REPLAY", ToJson([from |-> from, in |-> JOfDy(X)])>>)
      [] c[1] = "spc" -> \A from \in FloatFormats : PrintT(<<"REPLAY", ToJson([from |-> from, in |-> Spc])>>)
      [] OTHER -> TRUE

-----------------------------------------------------------------------------
(* fixed points, evaluated once *)
ASSUME \A f \in IntFormats : MaxN(f) = Sub(Pow2(Width(f)), One)
ASSUME DyEq(F32Max, <<1, 0, Sub(Pow2(128), Pow2(104))>>)
ASSUME NFL = Len(FLat) /\ \A i \in 1..(NFL - 1) : DyLt(FLat[i][1], FLat[i + 1][1])
ASSUME \A f \in WideInts : \A i \in 1..(LatLen(f) - 1) : Lt(Lat(f, i), Lat(f, i + 1))
ASSUME NotRequired
ASSUME WorkPrec("f32", "u8") = 24 /\ WorkPrec("f32", "u16") = 24 /\ WorkPrec("f32", "u32") = 53
       /\ WorkPrec("f64", "u8") = 53 /\ WorkPrec("u16", "u8") = 24 /\ WorkPrec("u32", "u8") = 53 /\ WorkPrec("u128", "u64") = 53
(* what the pinned tree was seen to return is outside the contract *)
ASSUME ~F2UOK("f64", "u64", <<1, 0, 1>>, <<0, 0, 0, 2, 12>>)              \* 1.0 -> 54044295040073728
ASSUME ~F2UOK("f32", "u128", <<1, -1, 4096>>, <<0, 0, 0, 4, 11>>)        \* 0.5 -> 49541794924331008
ASSUME ~F2UOK("f32", "u8", <<-1, 0, 1024, 95, 149>>, <<214>>)            \* -1e10 -> 214
ASSUME ~F2UOK("f32", "u16", <<-1, 0, 7232, 4>>, <<8036, 5>>)             \* -4e4 -> 48996
ASSUME F2UOK("f64", "u64", <<1, -1, 4096>>, Pow2(63)) /\ F2UOK("f64", "u64", <<1, -1, 4096>>, Sub(Pow2(63), One))
ASSUME F2UOK("f32", "u8", <<1, -1, 4096>>, <<128>>) /\ F2UOK("f32", "u8", <<1, -1, 4096>>, <<127>>)   \* 127.5: a tie
       /\ ~F2UOK("f32", "u8", <<1, -1, 4096>>, <<126>>) /\ ~F2UOK("f32", "u8", <<1, -1, 4096>>, <<129>>)
=============================================================================
