------------------------------- MODULE MC_Hue -------------------------------
(* C11 checked on the model itself: for ALL integer angles in -N..N and all   *)
(* 256 8-bit hues,                                                            *)
(*  - normal forms exist (the canonical residue satisfies the relation for    *)
(*    both component types) and are unique up to the ends of the interval     *)
(*    (-180/180, 0/360);                                                      *)
(*  - the equality relation is reflexive, symmetric, transitive along whole   *)
(*    turns, compatible with adding whole turns on either side, and never     *)
(*    demands "equal" and "unequal" of the same pair;                         *)
(*  - the 8-bit map is onto 0..255, wraps around at 360, is invariant under   *)
(*    whole turns, and u8 -> float -> u8 is the identity with no other code   *)
(*    admissible;                                                             *)
(*  - sums and differences may or may not be normalised.                      *)
(* Cases are enumerated as states (block -> case -> one step per operation),  *)
(* so TLC's workers share them; every named action of Hue.tla is taken        *)
(* (vacuity control through -coverage).                                       *)
EXTENDS Hue, TLC

CONSTANTS N,        \* integer angles -N..N
          FullN,    \* angles -FullN..FullN get every check below; the others the core checks (normal forms,
                    \* equality along whole turns, 8-bit map) with one shift and one component type each
          Block     \* cases per enumeration block (parallelism only)

VARIABLES phase,    \* "blk": a block of cases, "int": one integer angle, "code": one 8-bit hue, "done"
          c         \* block number / the angle / the code

mcvars == <<vars, phase, c>>

NBlocks == (2 * N + Block) \div Block
Lo(b) == b * Block - N
Hi(b) == IF Lo(b) + Block - 1 < N THEN Lo(b) + Block - 1 ELSE N

MCInit == Init /\ phase = "blk" /\ c \in 0..NBlocks      \* block NBlocks holds the 256 codes

EnumInt == /\ phase = "blk" /\ c < NBlocks
           /\ \E x \in Lo(c)..Hi(c) : c' = x
           /\ phase' = "int" /\ UNCHANGED last
EnumCode == /\ phase = "blk" /\ c = NBlocks
            /\ \E k \in 0..255 : c' = k
            /\ phase' = "code" /\ UNCHANGED last

X == DyFromInt(c)
Full == -FullN <= c /\ c <= FullN
KS == IF Full THEN {1, -1, 37, -100, 100} ELSE {IF c % 3 = 0 THEN 1 ELSE IF c % 3 = 1 THEN -100 ELSE 100}
TS == IF Full THEN FloatTypes ELSE {IF c % 2 = 0 THEN "f32" ELSE "f64"}
Near == -180 <= c /\ c <= 180
Turns(k) == DyFromInt(c + 360 * k)
ResI(x) == ToNat(DyTruncMag(Mod360(x)))         \* the residue of an integer angle as a TLC integer
SgnI(x) == IF ResI(x) <= 180 THEN ResI(x) ELSE ResI(x) - 360

(* model-level radians of a dyadic number of degrees: deg * pi / 180 truncated at 2^-104 *)
RadOf(deg) == LET f == FxDivInt(FxMul(FxOfDy(deg), PiFx), 180) IN <<f[1], IF f[1] = 0 THEN 0 ELSE -FL, f[2]>>
FxDy(f) == <<f[1], IF f[1] = 0 THEN 0 ELSE -FL, f[2]>>

(* four directions with rational unit vectors: (a, b, a/|.|, b/|.|) *)
Dir(i) == CASE i = 0 -> <<DyFromInt(7), DyZero, DOne, DyZero>>
            [] i = 1 -> <<DyZero, DyFromInt(-5), DyZero, DyFromInt(-1)>>
            [] i = 2 -> <<DyFromInt(3), DyFromInt(4), FxDy(FxRat(3, 5)), FxDy(FxRat(4, 5))>>
            [] OTHER -> <<DyFromInt(-5), DyFromInt(12), FxDy(FxRat(-5, 13)), FxDy(FxRat(12, 13))>>

(* one step per public operation from every integer angle, with the canonical result *)
Done == phase' = "done" /\ c' = c
McSigned    == phase = "int" /\ IntoDegrees("f32", X, CanonSigned(X)) /\ Done
McUnsigned  == phase = "int" /\ IntoPositiveDegrees("f64", X, CanonUnsigned(X)) /\ Done
McEq        == phase = "int" /\ HueEq("f32", X, Turns(-100), 1) /\ Done
McNe        == phase = "int" /\ Full /\ HueEq("f64", X, DyFromInt(c + 361), 0) /\ Done
McRadians   == phase = "int" /\ Near /\ IntoRadians("f64", CanonSigned(X), RadOf(CanonSigned(X))) /\ Done
McCartesian == phase = "int" /\ Near /\ LET d == Dir(c % 4) IN CartesianRoundTrip("f32", d[1], d[2], d[3], d[4]) /\ Done
McToU8      == phase = "int" /\ IntoU8("f64", X, U8Canon(X)) /\ Done
McAdd       == phase = "int" /\ Full /\ HueAdd("f32", X, DyFromInt(727), DyFromInt(c + 7)) /\ Done
McSub       == phase = "int" /\ Full /\ HueSub("f64", X, DyFromInt(727), DyFromInt(c - 727)) /\ Done
McFromU8    == phase = "code" /\ FromU8("f32", c, U8Dy(c)) /\ Done

MCNext == EnumInt \/ EnumCode \/ McSigned \/ McUnsigned \/ McEq \/ McNe \/ McRadians \/ McCartesian \/ McToU8
          \/ McAdd \/ McSub \/ McFromU8
MCSpec == MCInit /\ [][MCNext]_mcvars

-----------------------------------------------------------------------------
(* invariants, evaluated on every integer-angle state *)

Cand == {ResI(X) + 360 * j + d : j \in -2..1, d \in {-1, 0, 1}}

NormalForms ==
  phase = "int" =>
    /\ SignedExact(X, CanonSigned(X)) /\ UnsignedExact(X, CanonUnsigned(X))
    /\ \A t \in TS : SignedOK(t, X, CanonSigned(X)) /\ UnsignedOK(t, X, CanonUnsigned(X))
    (* unique up to the interval ends *)
    /\ {y \in Cand : SignedExact(X, DyFromInt(y))} = (IF ResI(X) = 180 THEN {-180, 180} ELSE {SgnI(X)})
    /\ {y \in Cand : UnsignedExact(X, DyFromInt(y))} = (IF ResI(X) = 0 THEN {0, 360} ELSE {ResI(X)})
    (* a whole turn away from the normal form is rejected by the relation with rounding slack as well *)
    /\ \A t \in TS : /\ ~SignedOK(t, X, DyFromInt(SgnI(X) + 360)) /\ ~SignedOK(t, X, DyFromInt(SgnI(X) + 1))
                     /\ ~UnsignedOK(t, X, DyFromInt(ResI(X) - 360 - 1)) /\ ~UnsignedOK(t, X, DyFromInt(ResI(X) + 1))

Equality ==
  phase = "int" =>
    /\ MustEq(X, X)
    /\ \A k \in KS :
         /\ MustEq(X, Turns(k)) /\ MustEq(Turns(k), X)
         /\ MustEq(Turns(k), Turns(-k))                                  \* transitive along whole turns
         /\ \A t \in TS :
              /\ EqOK(t, X, Turns(k), 1) /\ ~EqOK(t, X, Turns(k), 0)
              /\ MustNe(t, X, DyFromInt(c + 360 * k + 1)) /\ ~MustEq(X, DyFromInt(c + 360 * k + 1))
              /\ EqOK(t, X, DyFromInt(c + 360 * k + 1), 0) /\ ~EqOK(t, X, DyFromInt(c + 360 * k + 1), 1)
              /\ MustNe(t, X, DyFromInt(c + 360 * k + 180))
    (* compatible with adding whole turns on either side *)
    /\ Full => \A d \in {0, 1, 180, 359, 360} : \A j \in {-3, 100} :
         MustEq(X, DyFromInt(c + d)) = MustEq(Turns(j), DyFromInt(c + d - 360 * j))
    (* never both *)
    /\ Full => \A d \in {0, 1, 360} : \A t \in FloatTypes : ~(MustEq(X, DyFromInt(c + d)) /\ MustNe(t, X, DyFromInt(c + d)))

EightBitOnAngles ==
  phase = "int" =>
    /\ U8Canon(X) \in 0..255
    /\ \A k \in KS : U8Canon(X) = U8Canon(Turns(k))                            \* whole turns do not matter
    /\ \A t \in TS : ToU8OK(t, X, U8Canon(X))
    (* an integer angle is never at a tie, so in f64 no neighbouring code is admissible *)
    /\ ~ToU8OK("f64", X, (U8Canon(X) + 1) % 256) /\ ~ToU8OK("f64", X, (U8Canon(X) + 255) % 256)
    (* monotone with wrap-around: the next degree has the same or the next code *)
    /\ U8Canon(DyFromInt(c + 1)) \in {U8Canon(X), (U8Canon(X) + 1) % 256}

SumsAndDifferences ==
  (phase = "int" /\ Full) =>
    \A t \in FloatTypes :
      /\ AddOK(t, X, DyFromInt(727), DyFromInt(c + 727)) /\ AddOK(t, X, DyFromInt(727), DyFromInt(c + 7))
      /\ SubOK(t, X, DyFromInt(727), DyFromInt(c - 727)) /\ SubOK(t, X, DyFromInt(727), DyFromInt(c - 7))
      /\ ~AddOK(t, X, DyFromInt(727), DyFromInt(c + 8)) /\ ~SubOK(t, X, DyFromInt(727), DyFromInt(c + 727))

(* evaluated on every 8-bit hue *)
EightBitCodes ==
  phase = "code" =>
    LET y == U8Dy(c) IN
    /\ FromU8OK(c, y) /\ ~FromU8OK((c + 1) % 256, y)
    /\ U8Canon(y) = c                                                           \* u8 -> float -> u8 is the identity
    /\ \A t \in FloatTypes : /\ ToU8OK(t, y, c)
                             /\ ~ToU8OK(t, y, (c + 1) % 256) /\ ~ToU8OK(t, y, (c + 255) % 256)
    (* onto, already from whole degrees *)
    /\ \E x \in {(45 * c) \div 32, (45 * c) \div 32 + 1} : U8Canon(DyFromInt(x)) = c
    (* both sides of the tie above this code: below stays, at and above go to the next code (mod 256: wrap-around) *)
    /\ LET tie == <<1, -1, FromNat((2 * c + 1) * 45 * 128)>>                    \* (2c+1) * 45/64
           d == DyPow2(-20)
       IN /\ U8Canon(DySub(tie, d)) = c /\ U8Canon(tie) = (c + 1) % 256 /\ U8Canon(DyAdd(tie, d)) = (c + 1) % 256
          /\ \A t \in FloatTypes : ToU8OK(t, tie, c) /\ ToU8OK(t, tie, (c + 1) % 256)

(* degrees/radians and cartesian relations accept the truth and reject a wrong factor / direction *)
RadiansAndCartesian ==
  (phase = "int" /\ Near) =>
    LET deg == CanonSigned(X) rad == RadOf(deg) d == Dir(c % 4) IN
    /\ \A t \in FloatTypes :
         /\ RadOK(t, deg, rad)
         /\ (c % 360 # 0 => ~RadOK(t, deg, DyMul(rad, DyAdd(DOne, DyPow2(-(Prec(t) - 6))))))
         /\ CartOK(t, d[1], d[2], d[3], d[4])
         /\ ~CartOK(t, d[1], d[2], DyNeg(d[3]), DyNeg(d[4]))                    \* opposite
         /\ ~CartOK(t, d[1], d[2], DyNeg(d[4]), d[3])                            \* perpendicular
         /\ ~CartOK(t, d[1], d[2], DyMulInt(d[3], 2), DyMulInt(d[4], 2))         \* not a unit vector

Inv == TypeOK /\ NormalForms /\ Equality /\ EightBitOnAngles /\ SumsAndDifferences /\ EightBitCodes /\ RadiansAndCartesian

-----------------------------------------------------------------------------
(* fixed points of the arithmetic, evaluated once *)
ASSUME DyEq(Mod360(DyFromInt(-1)), DyFromInt(359)) /\ DyEq(Mod360(DyFromInt(720)), DyZero)
ASSUME DyEq(Mod360(<<-1, -1, <<4096>>>>), <<1, -1, <<4096, 359>>>>)                 \* -0.5 mod 360 = 359.5
ASSUME DyEq(CircDist(DyFromInt(359)), DOne) /\ DyEq(CircDist(DyFromInt(-180)), D180)
ASSUME DyEq(Eps("f32", DyFromInt(1)), DyPow2(-12)) /\ DyEq(Eps("f64", DyFromInt(1000000)), DyPow2(-30))
ASSUME U8Canon(<<1, -1, <<4096, 359>>>>) = 0 /\ U8Canon(DyFromInt(359)) = 255 /\ U8Canon(DyFromInt(180)) = 128
ASSUME PiFx = PiDec /\ PiDy[3] = PiFx[2]                                               \* the literal is the FxDec constant
ASSUME MustEq(DyFromInt(180), DyFromInt(-180)) /\ MustEq(DyZero, D360) /\ MustEq(D360, DyFromInt(-360))
=============================================================================
