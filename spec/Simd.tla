-------------------------------- MODULE Simd --------------------------------
(***************************************************************************)
(* C17 - results do not depend on the component representation.            *)
(*                                                                         *)
(* A SIMD colour is a function  lane |-> scalar colour.  In memory it is    *)
(* the transposed thing - one vector per component - and Pack / Unpack are  *)
(* that transposition: bit-identical per lane, lane order preserved.        *)
(* Every conversion / operator on a SIMD colour is the lane-wise            *)
(* application of the scalar one (Lift1, Lift2): "SIMD" adds no arithmetic to *)
(* the specification: it is the memo form of DESIGN.md 3.4 - the scalar      *)
(* call on a lane's input is the reference, the lane must agree with it.     *)
(* Masks are functions lane |-> BOOLEAN; Select, the comparisons and the     *)
(* bit operations act lane by lane.                                         *)
(*                                                                         *)
(* Agreement of arithmetic results (Agree): own coordinates with hue        *)
(* awareness and conditioning (ColourEq 3.3), or - where the coordinates are *)
(* ill-conditioned - the image in CIE XYZ.  Bit identity for packing,        *)
(* unpacking, comparison and selection.                                     *)
(***************************************************************************)
EXTENDS ColourEq

-----------------------------------------------------------------------------
(* packing: array of N scalar colours (sequence of component tuples)  <->  tuple of component vectors *)

Pack(arr) == [k \in DOMAIN arr[1] |-> [i \in DOMAIN arr |-> arr[i][k]]]
Unpack(s) == [i \in DOMAIN s[1] |-> [k \in DOMAIN s |-> s[k][i]]]
LaneOf(s, i) == [k \in DOMAIN s |-> s[k][i]]          \* the SIMD colour as a function lane |-> scalar colour
NLanes(s) == Len(s[1])
Reverse(q) == [i \in DOMAIN q |-> q[Len(q) + 1 - i]]

(* every operation is the lane-wise application of the scalar operation *)
Lift1(Op(_), s) == Pack([i \in DOMAIN s[1] |-> Op(LaneOf(s, i))])
Lift2(Op(_, _), s, t) == Pack([i \in DOMAIN s[1] |-> Op(LaneOf(s, i), LaneOf(t, i))])

-----------------------------------------------------------------------------
(* masks *)

Splat(n, b) == [i \in 1..n |-> b]
Select(m, a, b) == [i \in DOMAIN m |-> IF m[i] THEN a[i] ELSE b[i]]
SelectColour(m, s, t) == [k \in DOMAIN s |-> Select(m, s[k], t[k])]
MAnd(m1, m2) == [i \in DOMAIN m1 |-> m1[i] /\ m2[i]]
MOr(m1, m2) == [i \in DOMAIN m1 |-> m1[i] \/ m2[i]]
MXor(m1, m2) == [i \in DOMAIN m1 |-> m1[i] # m2[i]]
MNot(m) == [i \in DOMAIN m |-> ~m[i]]
IsTrue(m) == \A i \in DOMAIN m : m[i]                 \* BoolMask::is_true: every lane set
IsFalse(m) == \A i \in DOMAIN m : ~m[i]               \* BoolMask::is_false: no lane set

(* IEEE 754 comparison of two logged numbers (Fx.tla encoding, specials included) *)
Unordered(x, y) == IsNaN(x) \/ IsNaN(y)
NumLt(x, y) == /\ ~Unordered(x, y)
               /\ IF IsNegInf(x) THEN ~IsNegInf(y)
                  ELSE IF IsPosInf(x) \/ IsNegInf(y) THEN FALSE
                  ELSE IF IsPosInf(y) THEN TRUE
                  ELSE DyLt(Dy(x), Dy(y))
NumEq(x, y) == /\ ~Unordered(x, y)
               /\ IF IsSpecial(x) \/ IsSpecial(y) THEN x[1] = y[1] ELSE DyEq(Dy(x), Dy(y))
CmpOps == {"lt", "lt_eq", "eq", "neq", "gt_eq", "gt"}
NumCmp(op, x, y) == CASE op = "lt" -> NumLt(x, y)
                   [] op = "lt_eq" -> NumLt(x, y) \/ NumEq(x, y)
                   [] op = "eq" -> NumEq(x, y)
                   [] op = "neq" -> ~NumEq(x, y)
                   [] op = "gt_eq" -> NumLt(y, x) \/ NumEq(x, y)
                   [] op = "gt" -> NumLt(y, x)
CmpLanes(op, x, y) == [i \in DOMAIN x |-> NumCmp(op, x[i], y[i])]
BitOps == {"and", "or", "xor", "not"}
MaskOp(op, m1, m2) == CASE op = "and" -> MAnd(m1, m2) [] op = "or" -> MOr(m1, m2) [] op = "xor" -> MXor(m1, m2) [] op = "not" -> MNot(m1)

-----------------------------------------------------------------------------
(* Agreement of two results of the same call in different representations.

   Own coordinates: component i may differ by 2^-bits of max(documented range, magnitude), divided by the
   conditioning quantity kappa_i in [0, 1] of that coordinate (cross-multiplied, no division):
     hue of a polar space            kappa = chroma / chroma range       (i.e. the ARC is compared; a grey has no hue:
                                                                         scalar Lch hue 0, `wide` lane 180 - the same colour)
     hue of HSV, HSL, HSLuv, Okhsv..  kappa = chroma = s * v,  s * (1 - |2l - 1|)
     hue of HWB                      kappa = 1 - w - b
     saturation of HSV               kappa = v;   of HSL / HSLuv: 1 - |2l - 1|
     chromaticity x, y of Yxy        kappa = luma
   Where some kappa < 1/16 the coordinates cannot decide and the XYZ image (the code's own direct f64 conversion of both
   results, logged by the harness) decides instead.

   Tolerances, calibrated on the pinned tree (seeds 1-3; 440 k lanes of the TLC groupings and random in-gamut colours, a thorough
   run of 185 k lanes, 106 k operator lanes).  Excluded from the calibration: f32 lanes whose route crosses Lab -> Xyz - there
   `Recip for f32x4 / f32x8` is the 12-bit hardware estimate and the lane is off by up to 5e-4 (a finding, not a tolerance).
     wide lanes vs scalar  f32: largest deviation 1.33e-6 = 2^-19.5 of the range (oklch -> hsl: `wide`'s sin_cos and the
                                cancellation in the Oklab matrices); 2^-16 leaves 11x.  XYZ image 2.07e-6 of the magnitude
                                (oklch -> hwb); 2^-15 leaves 14x
                           f64: 5.7e-15 = 2^-47.3 (lch -> hsl), XYZ image 6.0e-15 (oklch -> hwb); 2^-40 leaves > 150x
     numbers (colour differences, contrast, numeric traits)  f32 8.2e-7 (ciede2000), f64 1.6e-14 (powf): the same bits.
     colour-valued operators (mix, lighten, saturate, shift_hue, clamp, arithmetic, blend, compose) were bit-identical.
   The principled bound is a few ulp of the lane type times the conditioning of the route (about 2^-21 / 2^-50 here); the
   tolerances are never tighter than that. *)

LaneBits(t) == IF t = "f32" THEN 16 ELSE 40
LaneHubBits(t) == IF t = "f32" THEN 15 ELSE 40

Pos(x) == IF FxIsNeg(x) THEN FxZero ELSE x
(* full - |2 l - full|, clipped at 0: 1 - |2l - 1| for full = 1 *)
LC(l, full) == Pos(FxSub(FxInt(full), FxAbs(FxSub(FxMulInt(l, 2), FxInt(full)))))
(* kappa_i = KNum / KDen, KDen a small integer *)
KDen(node, i) == CASE node = "lch" /\ i = 3 -> 128
                   [] node = "lchuv" /\ i = 3 -> 180
                   [] node = "hsluv" /\ i = 1 -> 10000
                   [] node = "hsluv" /\ i = 2 -> 100
                   [] OTHER -> 1
KNumRaw(node, v, i) ==
  LET c(j) == Pos(FxOf(v[j]))
      u(j) == FxMin(c(j), FxOne)
  IN CASE node \in {"lch", "lchuv", "oklch"} /\ i = 3 -> c(2)
       [] node \in {"hsv", "okhsv"} /\ i = 1 -> FxMul(u(2), u(3))
       [] node \in {"hsv", "okhsv"} /\ i = 2 -> c(3)
       [] node \in {"hsl", "okhsl"} /\ i = 1 -> FxMul(u(2), LC(FxOf(v[3]), 1))
       [] node \in {"hsl", "okhsl"} /\ i = 2 -> LC(FxOf(v[3]), 1)
       [] node = "hsluv" /\ i = 1 -> FxMul(FxMin(c(2), FxInt(100)), LC(FxOf(v[3]), 100))
       [] node = "hsluv" /\ i = 2 -> LC(FxOf(v[3]), 100)
       [] node \in {"hwb", "okhwb"} /\ i = 1 -> Pos(FxSub(FxOne, FxAdd(FxOf(v[2]), FxOf(v[3]))))
       [] node = "yxy" /\ i \in {1, 2} -> c(3)
       [] OTHER -> FxOne
KNum(node, v, i) == IF i > NComp(node) THEN FxOne ELSE FxMin(KNumRaw(node, v, i), FxInt(KDen(node, i)))
KD(node, i) == IF i > NComp(node) THEN 1 ELSE KDen(node, i)

(* scale of component i: its documented range (1 for free components and for an attached alpha) or the magnitude *)
CompScale(node, i, a, b) == FxMax(IF i > NComp(node) THEN FxOne ELSE RangeOf(node, i), FxMax(FxAbs(a), FxAbs(b)))

(* HueDist of ColourEq for the usual case |a - b| < 1080 without the long division (same value) *)
HueDistFast(a, b) == LET d == FxAbs(FxSub(a, b))
                     IN IF FxLt(d, Fx360) THEN FxMin(d, FxSub(Fx360, d))
                        ELSE IF FxLt(d, FxInt(720)) THEN LET r == FxSub(d, Fx360) IN FxMin(r, FxSub(Fx360, r))
                        ELSE IF FxLt(d, FxInt(1080)) THEN LET r == FxSub(d, FxInt(720)) IN FxMin(r, FxSub(Fx360, r))
                        ELSE HueDist(a, b)

OwnScaledNear(node, bits, v1, v2) ==
  \A i \in DOMAIN v1 :
    LET a == FxOf(v1[i])  b == FxOf(v2[i])
        k == FxMin(KNum(node, v1, i), KNum(node, v2, i))
        d == IF i = HueIdx(node) /\ i <= NComp(node) THEN HueDistFast(a, b) ELSE FxAbs(FxSub(a, b))
        scale == IF i = HueIdx(node) /\ i <= NComp(node) THEN Fx360 ELSE CompScale(node, i, a, b)
    IN FxLe(FxMul(d, k), FxMulInt(FxShr(scale, bits), KD(node, i)))

IllCond(node, v1, v2) ==
  \E i \in 1..NComp(node) : \E v \in {v1, v2} : FxLt(FxMulInt(KNum(node, v, i), 16), FxInt(KD(node, i)))

(* same kind of special value in the same place (in-gamut inputs should not produce any; whether they may is C07's) *)
SameSpecials(v1, v2) == \A i \in DOMAIN v1 : (IsSpecial(v1[i]) \/ IsSpecial(v2[i])) => v1[i][1] = v2[i][1]

HubAgree(h1, h2, bits) == Len(h1) = 3 /\ Len(h2) = 3 /\ AllFin(h1) /\ AllFin(h2) /\ HubNear(h1, h2, bits)

(* colours v1, v2 of space `node` with XYZ images h1, h2 *)
Agree(node, bits, hubbits, v1, v2, h1, h2) ==
  /\ Len(v1) = Len(v2)
  /\ IF AllFin(v1) /\ AllFin(v2)
     THEN OwnScaledNear(node, bits, v1, v2) \/ (IllCond(node, v1, v2) /\ HubAgree(h1, h2, hubbits))
     ELSE SameSpecials(v1, v2)

LaneAgree(node, t, v1, v2, h1, h2) == Agree(node, LaneBits(t), LaneHubBits(t), v1, v2, h1, h2)

(* plain numbers (distances, contrast ratios, numeric trait functions): relative, floor of magnitude 1 *)
NumNear(bits, x, y) ==
  IF IsSpecial(x) \/ IsSpecial(y) THEN x[1] = y[1]
  ELSE LET a == FxOf(x)  b == FxOf(y)
       IN FxLe(FxAbs(FxSub(a, b)), FxShr(FxMax(FxOne, FxMax(FxAbs(a), FxAbs(b))), bits))
NumsNear(bits, v1, v2) == Len(v1) = Len(v2) /\ \A i \in DOMAIN v1 : NumNear(bits, v1[i], v2[i])

-----------------------------------------------------------------------------
(* f32 versus f64 (scalar): the same input, exactly representable in both, through both.  Agreement to single-precision
   accuracy scaled by the conditioning of the conversion pair: own coordinates (conditioning-aware as above) OR the XYZ
   image, both at 2^-PrecBits(from, to).  PrecBits is calibrated per ordered pair on the pinned tree (3 seeds, 6.6 M events):
   floor(-log2(8 * largest deviation seen)) limited to 12..19 - never tighter than 2^-19 (32 ulp of f32, the principled
   bound for a route of up to six f32 stages), never looser than ColourEq's f32 class 2^-12.  Row = source, column = target,
   both in the order of PrecNodes. *)
PrecNodes == <<"xyz", "yxy", "lab", "lch", "luv", "lchuv", "hsluv", "oklab", "oklch", "okhsl", "okhsv", "okhwb",
               "linsrgb", "srgb", "hsl", "hsv", "hwb", "linluma", "srgbluma">>
NodeIx(n) == CHOOSE i \in DOMAIN PrecNodes : PrecNodes[i] = n
\* PRECTABLE-BEGIN (generated from the calibration run, see checks/c17.py calibrate())
PrecTable == <<
  <<19, 19, 19, 18, 17, 17, 16, 18, 18, 16, 16, 16, 19, 18, 18, 18, 18, 19, 19>>,
  <<19, 19, 19, 18, 17, 17, 15, 18, 18, 16, 16, 16, 19, 18, 17, 17, 17, 19, 19>>,
  <<18, 19, 19, 19, 17, 17, 15, 18, 18, 16, 16, 16, 18, 17, 17, 17, 17, 19, 19>>,
  <<18, 19, 19, 19, 17, 17, 15, 18, 18, 16, 16, 16, 17, 17, 17, 17, 17, 19, 19>>,
  <<17, 19, 17, 17, 19, 19, 16, 18, 18, 16, 16, 16, 17, 17, 16, 16, 16, 19, 19>>,
  <<17, 19, 17, 17, 19, 19, 17, 18, 18, 16, 16, 16, 17, 17, 16, 16, 16, 19, 19>>,
  <<15, 18, 17, 15, 17, 17, 19, 18, 18, 16, 16, 16, 15, 16, 16, 16, 16, 19, 19>>,
  <<18, 18, 18, 17, 17, 16, 15, 19, 19, 16, 16, 16, 17, 17, 17, 17, 17, 18, 19>>,
  <<18, 19, 18, 17, 17, 17, 15, 19, 19, 16, 16, 16, 17, 17, 17, 17, 17, 19, 19>>,
  <<15, 17, 16, 15, 16, 16, 15, 17, 17, 17, 15, 15, 15, 15, 15, 15, 15, 18, 18>>,
  <<16, 16, 17, 16, 17, 16, 15, 17, 17, 16, 16, 19, 16, 16, 16, 16, 16, 16, 17>>,
  <<16, 16, 17, 16, 17, 16, 16, 17, 17, 17, 19, 12, 16, 16, 16, 16, 16, 16, 17>>,
  <<19, 19, 19, 18, 17, 17, 15, 18, 18, 16, 16, 16, 19, 19, 12, 12, 12, 19, 19>>,
  <<19, 19, 19, 18, 17, 17, 15, 18, 18, 16, 16, 16, 19, 19, 19, 19, 19, 19, 19>>,
  <<17, 18, 19, 18, 17, 17, 15, 18, 18, 16, 16, 16, 12, 18, 19, 19, 19, 18, 19>>,
  <<17, 18, 19, 18, 17, 17, 15, 18, 18, 16, 16, 16, 12, 18, 19, 19, 19, 18, 19>>,
  <<17, 18, 19, 18, 17, 17, 15, 18, 18, 16, 16, 16, 12, 18, 19, 19, 19, 18, 19>>,
  <<19, 19, 19, 19, 18, 17, 16, 18, 19, 17, 17, 17, 19, 19, 19, 19, 19, 19, 19>>,
  <<19, 19, 19, 18, 17, 17, 16, 18, 19, 17, 17, 17, 19, 19, 19, 19, 19, 19, 19>>
>>
\* PRECTABLE-END
PrecBits(from, to) == PrecTable[NodeIx(from)][NodeIx(to)]

PrecAgree(from, to, v32, v64, h32, h64) ==
  /\ Len(v32) = Len(v64)
  /\ IF AllFin(v32) /\ AllFin(v64)
     THEN LET bits == PrecBits(from, to) IN OwnScaledNear(to, bits, v32, v64) \/ HubAgree(h32, h64, bits)
     ELSE SameSpecials(v32, v64)
=============================================================================
