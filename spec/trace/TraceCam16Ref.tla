---------------------------- MODULE TraceCam16Ref ----------------------------
(* Trace validation for the clause of C16 "the forward model agrees with the published CAM16 equations": a sample of    *)
(* the `conv` events of harness/src/bin/cam16.rs (each carries its viewing conditions as exact numbers, `vc`) is judged    *)
(* by Cam16Ref.tla: the six attributes of Cam16::from_xyz(x) against the forward model evaluated in fixed point.          *)
(* Stateless; with CALIB=1 the measured bits are printed as NOTE lines and nothing is rejected.                           *)
EXTENDS Cam16Ref, Json, IOUtils, TLC

Rec == ndJsonDeserialize(IOEnv.TRACE)
Calib == "CALIB" \in DOMAIN IOEnv /\ IOEnv.CALIB = "1"
VARIABLE l

(* bits required.  Calibration on the pinned tree (lattice of viewing conditions x colours in and around the sRGB gamut):
   f64 events (reference with 65 fractional bits) agree to 43..57 bits, f32 events (39 bits) to 17..27 *)
RefThr(t) == IF t = "f32" THEN 12 ELSE 36

RefWhyB(e, b) == IF Calib THEN (IF PrintT(<<"NOTE", "ref", e.t, e.params, b.j, b.c, b.q, b.m, b.s, b.h, l>>) THEN "ok" ELSE "ok")
                 ELSE IF RefMin(b) < RefThr(e.t) THEN "forward-model-differs-from-published-equations"
                 ELSE "ok"
RefWhy(e) == IF e.ev # "conv" \/ ~ConvJudged(e) THEN "ok" ELSE IF ~RefDomain(e) THEN "ok" ELSE RefWhyB(e, RefBits(e))

TInit == l = 1
TNext == /\ l <= Len(Rec)
         /\ LET w == RefWhy(Rec[l]) IN IF w = "ok" THEN TRUE ELSE PrintT(<<"REJECT", l, w>>)
         /\ l' = l + 1
TSpec == TInit /\ [][TNext]_l
Consumed == TLCGet("stats").diameter = Len(Rec) + 1 \/ PrintT(<<"UNCONSUMED", TLCGet("stats").diameter>>)
=============================================================================
