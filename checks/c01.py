"""C01 - colour space conversions invert and commute.
Spec: spec/ConvGraph.tla (conversion graph + the derive macro's routing algorithm, transcribed), spec/ColourEq.tla
(when two coordinate tuples are the same colour), spec/trace/TraceWalk.tla. TLC checks that every ordered pair has a
terminating route of hand-written edges and emits the routes; the harness executes round trips A->B->A, triangles
A->C vs A->B->C and alpha-carrying walks over all ordered pairs for f32 and f64; TLC requires the abstract colour
(hub image) to be invariant under every hop, round trips to return the start coordinates, alpha to change nothing."""
import json, random
from common import *
from colours import *

FAM = {}
for f, ns in {"rgb": ("linsrgb", "srgb", "hsl", "hsv", "hwb"), "ok": ("oklab", "oklch", "okhsl", "okhsv", "okhwb")}.items():
    for n in ns:
        FAM[n] = f
UNB = ["xyz", "yxy", "lab", "lch", "luv", "lchuv", "oklab", "oklch", "linsrgb"]
HUBS = ["xyz", "srgb", "lab", "oklab", "hsv"]
# linear sRGB -> XYZ (IEC 61966-2-1), only to select real colours as starting points
M = [(0.4124564, 0.3575761, 0.1804375), (0.2126729, 0.7151522, 0.0721750), (0.0193339, 0.1191920, 0.9503041)]


def gen(ctx, path):
    rnd = random.Random(ctx.seed)
    c = Cmds(path)
    c.add(op="consts")
    nst = 6 if ctx.quick else 40
    starts = in_gamut_starts(rnd, nst, 1e-3) + [(0.004, 0.006, 0.003), (0.3, 0.3001, 0.3)]
    # round trips over all ordered pairs
    for A in ORDER:
        for B in ORDER:
            if A == B:
                continue
            for s in starts:
                c.add(**{"from": "srgb", "in": s, "path": [A, B, A] if A != "srgb" else [B, A], "mode": "u"})
    # direct versus step by step through a hub
    tri_starts = starts[: (3 if ctx.quick else 12)]
    for A in ORDER:
        for C in ORDER:
            if A == C:
                continue
            for B in HUBS:
                if B in (A, C):
                    continue
                for s in tri_starts:
                    pre = [] if A == "srgb" else [A]
                    c.add(op="tri", **{"from": "srgb", "in": s, "p1": pre + [C], "p2": pre + [B, C]})
    # with transparency attached
    for A in ORDER:
        for B in ORDER:
            if A == B or (ctx.quick and rnd.random() < 0.6):
                continue
            s = rnd.choice(starts)
            for a in (0.0, 0.37, 1.0):
                c.add(**{"from": "srgb", "in": s + (a,), "path": [A, B] if A != "srgb" else [B], "mode": "a"})
    # real colours outside the sRGB gamut, between the spaces that can represent them
    n2 = 10 if ctx.quick else 80
    outs = []
    while len(outs) < n2:
        p = tuple(rnd.uniform(-0.25, 1.3) for _ in range(3))
        xyz = [sum(m * v for m, v in zip(row, p)) for row in M]
        if min(xyz) >= 0.02 and (min(p) < 0 or max(p) > 1):
            outs.append(p)
    for A in UNB:
        for B in UNB:
            if A == B:
                continue
            for s in outs:
                c.add(**{"from": "linsrgb", "in": s, "path": [A, B, A] if A != "linsrgb" else [B, A], "mode": "u"})
    return c.close()


# the universe of the other RGB standards and white points (harness binaries convstd64/convstd32)
STD_GROUPS = {"srgb": ["xyz", "lab", "srgb", "linsrgb", "adobe", "linadobe", "p3", "linp3", "rec2020", "linrec2020", "rec709", "hsv_adobe",
                       "hsl_p3", "hwb_rec2020"],
              "prophoto": ["xyz50", "lab50", "lch50", "luv50", "prophoto", "linprophoto", "hsv_prophoto"],
              "dcip3": ["xyzdci", "labdci", "dcip3", "lindcip3"]}


def gen_std(ctx, path):
    rnd = random.Random(ctx.seed + 17)
    c = Cmds(path)
    c.add(op="consts")
    starts = in_gamut_starts(rnd, 5 if ctx.quick else 30, 5e-2) + [(0.02, 0.03, 0.015)]
    for root, group in STD_GROUPS.items():
        for A in group:
            for B in group:
                if A == B:
                    continue
                for s in starts:
                    c.add(**{"from": root, "in": s, "path": ([A] if A != root else []) + [B, A], "mode": "u"})
                # direct versus through the group's Xyz and through the root RGB
                for via in (group[0], root):
                    if via in (A, B):
                        continue
                    for s in starts[:2 if ctx.quick else 8]:
                        pre = [] if A == root else [A]
                        c.add(op="tri", **{"from": root, "in": s, "p1": pre + [B], "p2": pre + [via, B]})
        # a cross-group attempt must not exist
        other = [g for r, g in STD_GROUPS.items() if r != root][0]
        c.add(**{"from": root, "in": starts[0], "path": [other[0]], "mode": "u"})
    return c.close()


def hub_dev(w):
    dev = 0.0
    hubs = [[dy_to_float(x) for x in h] for h in w["hub"]]
    for i in range(1, len(hubs)):
        if w["nodes"][i] in LUMA:      # lossy hop: only luminance survives
            dev = max(dev, abs(hubs[i][1] - hubs[i - 1][1]))
            continue
        for x, y in zip(hubs[i], hubs[i - 1]):
            dev = max(dev, abs(x - y))
    return dev


def okrgb_adjacent(nodes):
    for a, b in zip(nodes, nodes[1:]):
        if {FAM.get(a, "cie"), FAM.get(b, "cie")} == {"rgb", "ok"}:
            return True
    return False


def coords_of(ev, why):
    d = {"kind": ev["ev"], "class": why, "t": ev.get("t")}
    if ev["ev"] == "walk":
        d["nodes"] = ">".join(ev["nodes"])
        d["okrgb_adjacent"] = okrgb_adjacent(ev["nodes"])
        try:
            d["dev"] = hub_dev(ev)
        except Exception:
            d["dev"] = float("inf")
    elif ev["ev"] == "tri":
        a, b = ev["w1"], ev["w2"]
        d["nodes"] = ">".join(a["nodes"]) + " | " + ">".join(b["nodes"])
        d["okrgb_adjacent"] = okrgb_adjacent(a["nodes"]) != okrgb_adjacent(b["nodes"]) or okrgb_adjacent(a["nodes"])
        try:
            ha = [dy_to_float(x) for x in a["hub"][-1]]
            hb = [dy_to_float(x) for x in b["hub"][-1]]
            d["dev"] = max(abs(x - y) for x, y in zip(ha, hb))
        except Exception:
            d["dev"] = float("inf")
    return d


def run(ctx):
    bins = cargo_build(["conv64", "conv32", "convstd64", "convstd32"])
    r = tlc_mc(ctx, "MC_ConvGraph", tag="convgraph", workers=4)
    routes = extract_prints(r.out_path, "REPLAY")
    ctx.cov["samples"].append({"route_emitted_by_TLC": json.loads(routes[len(routes) // 2])})
    check_tables_follow_tree()
    cmds = ctx.p("c01.cmds")
    n = gen(ctx, cmds)
    log("C01: %d commands" % n)
    cmds_std = ctx.p("c01std.cmds")
    log("C01: %d commands on the other standards" % gen_std(ctx, cmds_std))
    for b in ("conv64", "conv32", "convstd64", "convstd32"):
        tp = ctx.p("c01.%s.ndjson" % b)
        run_bin(bins[b], ["--cmds", cmds_std if "std" in b else cmds, "--out", tp])
        res = validate_trace(ctx, "TraceWalk", tp, stateless=True, chunk_events=2500, tag="c01." + b)
        ctx.cov["traces_validated_against_impl"] += res.events - len(res.rejected)
        add_samples(ctx, tp, n=1, every=7001)
        ctx.cov["distinct_nontrivial"] += count_distinct(
            tp, lambda e: json.dumps([e.get("nodes") or [e["w1"]["nodes"], e["w2"]["nodes"]], e.get("vals", [""])[0] if "vals" in e else e["w1"]["vals"][0]]),
            lambda e: e.get("ev") in ("walk", "tri"))
        for (line, ev, info, _) in res.rejected:
            why = info.strip().strip('"')
            d = coords_of(ev, why)
            what = "%s %s: %s (largest step deviation of the XYZ image %.3g)" % (ev.get("t"), d.get("nodes"), why, d.get("dev", 0))
            report(ctx, d, what, {"bin": b, "event": ev, "trace_line": line})
    return finish(ctx, "model_checking",
                  rule="a case is one walk (start colour x sequence of target spaces) or one pair of routes; distinct by nodes and "
                       "exact start colour; every case performs at least one conversion (non-trivial)",
                  explanation="MC_ConvGraph: every ordered pair of the 18 colour types of the XYZ group has a terminating route of "
                              "hand-written edges under the transcribed derive algorithm (324 pairs = states). All ordered pairs of 21 "
                              "typed nodes are then exercised as round trips, triangles through five hubs and alpha-carrying walks; TLC "
                              "judges every event with ColourEq.tla.",
                  trusted=["the code's own direct conversion to Xyz as the abstraction function (a defect common to all routes is C02's)",
                           "tolerance classes of spec/ColourEq.tla"])


def check_tables_follow_tree():
    """The skip lists and preferred sources in ConvGraph.tla are a transcription of the tree: compare them with the
    working tree so that a changed route is a tool error to look at, not a silent divergence of the model."""
    import re
    spec = (SPEC / "ConvGraph.tla").read_text()
    files = {"Xyz": "xyz.rs", "Yxy": "yxy.rs", "Lab": "lab.rs", "Lch": "lch.rs", "Luv": "luv.rs", "Lchuv": "lchuv.rs",
             "Hsluv": "hsluv.rs", "Hsl": "hsl.rs", "Hsv": "hsv.rs", "Hwb": "hwb.rs", "Luma": "luma/luma.rs", "Lms": "lms/lms.rs",
             "Oklab": "oklab.rs", "Oklch": "oklch.rs", "Okhsl": "okhsl.rs", "Okhsv": "okhsv.rs", "Okhwb": "okhwb.rs", "Rgb": "rgb/rgb.rs"}
    root = Path(os.environ.get("VERIF_REPO_ROOT") or harness_repo_root())
    for name, f in files.items():
        src = (root / "palette" / "src" / f).read_text()
        m = re.search(r"skip_derives\(([^)]*)\)", src)
        tree = set(x.strip() for x in m.group(1).split(",")) if m else set()
        m2 = re.search(r"%s \|-> \{([^}]*)\}" % name, spec)
        model = set(x.strip().strip('"') for x in m2.group(1).split(","))
        if tree != model:
            raise ToolError("ConvGraph.tla skip list of %s (%s) differs from the working tree (%s): update the transcription" % (name, sorted(model), sorted(tree)))
    ct = (root / "palette_derive" / "src" / "color_types.rs").read_text()
    xyz_group = ct[ct.index("static XYZ_COLORS"):ct.index("static CAM16_JCH_COLORS")]
    xyz_group = xyz_group[xyz_group.index("colors: &["):]
    tree_pairs = re.findall(r'name: "(\w+)",.*?preferred_source: "(\w+)"', xyz_group, re.S)
    tree_pairs = [p for p in tree_pairs if p[0] != "Xyz"]
    model_pairs = re.findall(r'<<"(\w+)", "(\w+)">>', spec[spec.index("Colors =="):spec.index("Root ==")])
    if tree_pairs != model_pairs:
        raise ToolError("ConvGraph.tla preferred-source table differs from color_types.rs: %s vs %s" % (model_pairs, tree_pairs))


def harness_repo_root():
    import re
    m = re.search(r'palette = \{ path = "([^"]+)/palette"', (HARNESS / "Cargo.toml").read_text())
    return m.group(1)


def replay(ctx, path):
    rp = json.load(open(path))["replay"]
    bins = cargo_build(["conv64", "conv32", "convstd64", "convstd32"])
    ev = rp["event"]
    c = Cmds(ctx.p("replay.cmds"))
    if ev["ev"] == "walk":
        vals = [dy_to_float(x) for x in ev["vals"][0]]
        c.add(**{"from": ev["nodes"][0], "in": vals, "path": ev["nodes"][1:], "mode": ev["mode"]})
    elif ev["ev"] == "tri":
        vals = [dy_to_float(x) for x in ev["w1"]["vals"][0]]
        c.add(op="tri", **{"from": ev["w1"]["nodes"][0], "in": vals, "p1": ev["w1"]["nodes"][1:], "p2": ev["w2"]["nodes"][1:]})
    else:
        c.add(op="consts")
    c.close()
    tp = ctx.p("replay.ndjson")
    run_bin(bins[rp["bin"]], ["--cmds", ctx.p("replay.cmds"), "--out", tp])
    res = validate_trace(ctx, "TraceWalk", tp, stateless=True, tag="replay")
    if res.rejected:
        print("VIOLATION property=C01 replay=%s" % path)
        print("  still rejected: %s" % res.rejected[0][2])
        return 1
    print("replay accepted")
    return 0
