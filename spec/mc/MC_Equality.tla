---------------------------- MODULE MC_Equality ----------------------------
(* Equality.tla checked on the model itself and turned into cases for the   *)
(* implementation: for EVERY pair of colours of every shape (number of       *)
(* components, position of the hue, with/without transparency) on a small    *)
(* integer lattice - hue values 0, 90, 180, -180, 181, 360, 450; other        *)
(* components 0, 1 -                                                          *)
(*  - `==` is decided (never both "must" verdicts, exactly one answer is       *)
(*    admissible on the lattice), reflexive, symmetric, transitive along      *)
(*    whole turns of the hue, and equal colours are never "must differ" under *)
(*    any of the approximate comparisons;                                     *)
(*  - the approximate comparisons are symmetric, never contradictory, and     *)
(*    monotone in their tolerances; with a relative tolerance / ulps count of *)
(*    zero they reduce to the absolute comparison on plain components.        *)
(* Every pair state prints one REPLAY line (Emit) that the harness executes  *)
(* on a real colour type of that shape.                                       *)
EXTENDS Equality, TLC, Json

CONSTANTS Emit,        \* print the cases
          MaxN         \* largest number of components (transparency included)

(* shapes <<n, hi>>: number of components (transparency included), index of the hue component or 0 *)
Shapes == {s \in {<<1, 0>>, <<2, 0>>, <<3, 0>>, <<4, 0>>, <<1, 1>>, <<3, 1>>, <<3, 3>>, <<4, 1>>, <<4, 3>>} : s[1] <= MaxN}

VARIABLES phase, sh, ca, cb
mcvars == <<evars, phase, sh, ca, cb>>

HueGrid == {0, 90, 180, -180, 181, 360, 450}
LinGrid == {0, 1}
Vals(s) == [i \in 1..s[1] |-> IF i = s[2] THEN HueGrid ELSE LinGrid]
Colours(s) == {c \in [1..s[1] -> HueGrid \cup LinGrid] : \A i \in 1..s[1] : c[i] \in Vals(s)[i]}

MCInit == EInit /\ phase = "shape" /\ sh \in Shapes /\ ca = <<>> /\ cb = <<>>

PickA == /\ phase = "shape" /\ \E c \in Colours(sh) : ca' = c
         /\ phase' = "a" /\ UNCHANGED <<evars, sh, cb>>
PickB == /\ phase = "a" /\ \E c \in Colours(sh) : cb' = c
         /\ phase' = "pair" /\ UNCHANGED <<evars, sh, ca>>

A == [i \in 1..sh[1] |-> DyFromInt(ca[i])]
B == [i \in 1..sh[1] |-> DyFromInt(cb[i])]
HI == sh[2]
ExactEq == IF AllMustEq(HI, A, B) THEN 1 ELSE 0
EpsS == {DyZero, DOne, DyFromInt(2), DyFromInt(200)}
T == IF (ca[1] + cb[1]) % 2 = 0 THEN "f32" ELSE "f64"
(* the canonical answers of the approximate comparisons on the lattice: plain components by |x - y| <= eps,
   hue components by the distance of their signed normal forms (the lattice is far from rounding) *)
CanonAbsComp(i, eps) == IF i = HI THEN DyLe(DyAbs(DySub(CanonSigned(A[i]), CanonSigned(B[i]))), eps)
                        ELSE DyLe(DyAbs(DySub(A[i], B[i])), eps)
CanonAbs(eps) == IF \A i \in 1..sh[1] : CanonAbsComp(i, eps) THEN 1 ELSE 0

Done == phase' = "done" /\ UNCHANGED <<sh, ca, cb>>
McEq   == phase = "pair" /\ ColourEq(HI, T, A, B, ExactEq, 1 - ExactEq) /\ Done
McAbs  == phase = "pair" /\ \E e \in EpsS : ColourAbsDiffEq(HI, T, A, B, e, CanonAbs(e), 1 - CanonAbs(e)) /\ Done
McRel  == phase = "pair" /\ \E e \in EpsS : ColourRelativeEq(HI, T, A, B, e, DyZero, CanonAbs(e), 1 - CanonAbs(e)) /\ Done
McUlps == phase = "pair" /\ \E e \in EpsS : ColourUlpsEq(HI, T, A, B, e, 0, CanonAbs(e), 1 - CanonAbs(e)) /\ Done

MCNext == PickA \/ PickB \/ McEq \/ McAbs \/ McRel \/ McUlps
MCSpec == MCInit /\ [][MCNext]_mcvars

-----------------------------------------------------------------------------
Turned(c, k) == [i \in 1..sh[1] |-> IF i = HI THEN DyFromInt(c[i] + 360 * k) ELSE DyFromInt(c[i])]

EqLaws ==
  phase = "pair" =>
    /\ AllMustEq(HI, A, A) /\ PartialEqOK(HI, T, A, A, 1) /\ ~PartialEqOK(HI, T, A, A, 0)          \* reflexive
    /\ AllMustEq(HI, A, B) = AllMustEq(HI, B, A)                                                   \* symmetric
    /\ \A t \in FloatTypes :
         /\ ~(AllMustEq(HI, A, B) /\ SomeMustNe(HI, t, A, B))                                      \* never both
         /\ AllMustEq(HI, A, B) \/ SomeMustNe(HI, t, A, B)                                         \* decided on the lattice
         /\ PartialEqOK(HI, t, A, B, ExactEq) /\ ~PartialEqOK(HI, t, A, B, 1 - ExactEq)
         /\ SomeMustNe(HI, t, A, B) = SomeMustNe(HI, t, B, A)
    (* whole turns of the hue do not matter, on either side; transitive along them *)
    /\ HI # 0 => \A k \in {-100, -1, 1, 37} :
         /\ AllMustEq(HI, A, Turned(ca, k))
         /\ AllMustEq(HI, A, B) = AllMustEq(HI, Turned(ca, k), B)
         /\ AllMustEq(HI, A, B) = AllMustEq(HI, A, Turned(cb, -k))
    (* one differing plain component decides, whatever the others do *)
    /\ (\E i \in 1..sh[1] : i # HI /\ ca[i] # cb[i]) => ExactEq = 0
    /\ OnlyHueDecides(HI, A, B) = (HI # 0 /\ \A i \in 1..sh[1] : i = HI \/ ca[i] = cb[i])

ApproxLaws ==
  phase = "pair" =>
    \A t \in FloatTypes : \A e \in EpsS :
      LET allT == \A i \in 1..sh[1] : CompAbsMustT(HI, i, t, A[i], B[i], e)
          someF == \E i \in 1..sh[1] : CompAbsMustF(HI, i, t, A[i], B[i], e)
      IN /\ ~(allT /\ someF)
         /\ AbsDiffOK(HI, t, A, B, e, CanonAbs(e))
         /\ AbsDiffOK(HI, t, B, A, e, CanonAbs(e))                                                 \* symmetric
         /\ (AllMustEq(HI, A, B) => ~someF)                                                        \* equal colours are never "must differ"
         /\ (ca = cb => allT)                                   \* identical colours always pass
         (* monotone in the tolerance *)
         /\ \A e2 \in EpsS : DyLe(e, e2) =>
              /\ (allT => \A i \in 1..sh[1] : CompAbsMustT(HI, i, t, A[i], B[i], e2))
              /\ ((\E i \in 1..sh[1] : CompAbsMustF(HI, i, t, A[i], B[i], e2)) => someF)
         (* relative tolerance zero / zero ulps: the absolute comparison *)
         /\ \A i \in 1..sh[1] : i # HI =>
              /\ CompRelMustT(HI, i, t, A[i], B[i], e, DyZero) = CompAbsMustT(HI, i, t, A[i], B[i], e)
              /\ CompRelMustF(HI, i, t, A[i], B[i], e, DyZero) = CompAbsMustF(HI, i, t, A[i], B[i], e)
              /\ CompUlpsMustT(HI, i, t, A[i], B[i], e, 0) = CompAbsMustT(HI, i, t, A[i], B[i], e)
              /\ CompUlpsMustF(HI, i, t, A[i], B[i], e, 0) = CompAbsMustF(HI, i, t, A[i], B[i], e)
         /\ RelativeOK(HI, t, A, B, e, DyZero, CanonAbs(e)) /\ UlpsOK(HI, t, A, B, e, 0, CanonAbs(e))
         (* a generous relative tolerance or ulps count can only turn "differ" into "equal" *)
         /\ \A i \in 1..sh[1] :
              /\ (CompAbsMustT(HI, i, t, A[i], B[i], e) => CompRelMustT(HI, i, t, A[i], B[i], e, DOne))
              /\ (CompRelMustF(HI, i, t, A[i], B[i], e, DOne) => CompAbsMustF(HI, i, t, A[i], B[i], e))
              /\ (CompAbsMustT(HI, i, t, A[i], B[i], e) => CompUlpsMustT(HI, i, t, A[i], B[i], e, 4))
              /\ (CompUlpsMustF(HI, i, t, A[i], B[i], e, 4) => CompAbsMustF(HI, i, t, A[i], B[i], e))

(* the wrong answers are rejected where the lattice decides: a pair that differs by 1 in a plain component *)
Rejects ==
  (phase = "pair" /\ \E i \in 1..sh[1] : i # HI /\ ca[i] # cb[i]) =>
       /\ ~AbsDiffOK(HI, T, A, B, DyZero, 1) /\ ~RelativeOK(HI, T, A, B, DyZero, DyZero, 1) /\ ~UlpsOK(HI, T, A, B, DyZero, 4, 1)
       /\ ~AbsDiffOK(HI, T, A, B, DyPow2(-1), 1)

EmitCase ==
  (Emit /\ phase = "pair") =>
    PrintT(<<"REPLAY", ToJson([n |-> sh[1], hi |-> HI, a |-> ca, b |-> cb, eq |-> ExactEq])>>)

Inv == ETypeOK /\ EqLaws /\ ApproxLaws /\ Rejects /\ EmitCase
=============================================================================
