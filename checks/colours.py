"""Node metadata and input generators shared by the conversion checks (C01 C02 C03 C07 C14 C15).
Only used to GENERATE inputs; nothing here judges a result."""
import json, random, struct, itertools

# nominal ranges (documented bounds; hue: None) per node of the D65 / sRGB family, declared component order
NODES = {
    "xyz": [(0, 0.95047), (0, 1), (0, 1.08883)],
    "yxy": [(0, 1), (0, 1), (0, 1)],
    "lab": [(0, 100), (-128, 127), (-128, 127)],
    "lch": [(0, 100), (0, 128), None],
    "luv": [(0, 100), (-84, 176), (-135, 108)],
    "lchuv": [(0, 100), (0, 180), None],
    "hsluv": [None, (0, 100), (0, 100)],
    "oklab": [(0, 1), (-0.4, 0.4), (-0.4, 0.4)],
    "oklch": [(0, 1), (0, 0.4), None],
    "okhsl": [None, (0, 1), (0, 1)],
    "okhsv": [None, (0, 1), (0, 1)],
    "okhwb": [None, (0, 1), (0, 1)],
    "linsrgb": [(0, 1), (0, 1), (0, 1)],
    "srgb": [(0, 1), (0, 1), (0, 1)],
    "hsl": [None, (0, 1), (0, 1)],
    "hsv": [None, (0, 1), (0, 1)],
    "hwb": [None, (0, 1), (0, 1)],
    "linluma": [(0, 1)],
    "srgbluma": [(0, 1)],
    "lmsvk": [(0, 1), (0, 1), (0, 1)],
    "lmsbfd": [(0, 1), (0, 1), (0, 1)],
}
ORDER = list(NODES)
HWB = ("hwb", "okhwb")
LUMA = ("linluma", "srgbluma")
# spaces whose in-bounds colours are (by construction) inside the sRGB gamut
GAMUT_BOUNDED = ("hsl", "hsv", "hwb", "okhsl", "okhsv", "okhwb", "hsluv", "srgb", "linsrgb")


def hx(x):
    return struct.pack(">d", float(x)).hex()


def f32(x):
    return struct.unpack(">f", struct.pack(">f", float(x)))[0]


def out_lattice(lo, hi):
    """far below, just below, at min, inside (1/4, 1/2), at max, just above, far above"""
    r = hi - lo
    # the 2^-22 neighbours are a few last places of f32 away from the bound, inside a documented slack such as Okhsv's 1e-6
    return [lo - 3 * r - 1, lo - r * 2.0 ** -18, lo - r * 2.0 ** -22, lo, lo + r / 4, lo + r / 2, hi, hi + r * 2.0 ** -22,
            hi + r * 2.0 ** -18, hi + 2 * r + 1]


HUE_OUT = [-30.0, 0.0, 123.0, 360.0, 725.5]
HUE_IN = [0.0, 30.0, 59.999, 60.0, 120.0, 179.5, 180.0, 240.0, 299.0, 300.0, 359.999]


def comp_values_out(rng_):
    return HUE_OUT if rng_ is None else out_lattice(*rng_)


def lattice_out(node, thin=None):
    """Cartesian lattice reaching outside the bounds of every component."""
    axes = [comp_values_out(r) for r in NODES[node]]
    pts = list(itertools.product(*axes))
    return pts


def in_lattice(lo, hi, tiny=1.001e-9):   # a hair above a billionth so that the f32 rounding stays inside the domain
    r = hi - lo
    vals = [lo, lo + tiny * r, lo + r / 4, lo + r / 2, lo + 3 * r / 4, hi - tiny * r, hi]
    if lo < 0 < hi:
        vals.append(0.0)
    return vals


def lattice_in(node, hues=None):
    axes = [(hues or HUE_IN) if r is None else in_lattice(*r) for r in NODES[node]]
    return list(itertools.product(*axes))


def random_in(node, rnd, n):
    out = []
    for _ in range(n):
        out.append(tuple(rnd.uniform(0, 360) if r is None else rnd.uniform(*r) for r in NODES[node]))
    return out


def in_gamut_starts(rnd, n, margin=1e-3):
    """linear sRGB colours strictly inside the gamut (for walks through gamut-bounded spaces)"""
    pts = [(0.5, 0.5, 0.5), (0.2, 0.5, 0.9), (0.9, 0.1, 0.1), (0.1, 0.8, 0.3), (0.05, 0.05, 0.6), (0.95, 0.9, 0.2)]
    while len(pts) < n:
        pts.append(tuple(rnd.uniform(margin, 1 - margin) for _ in range(3)))
    return pts[:n]


class Cmds:
    """command file writer for the conv* binaries"""
    def __init__(self, path):
        self.f = open(path, "w")
        self.n = 0

    def add(self, **kw):
        self.n += 1
        kw["id"] = self.n
        if "in" in kw:
            kw["in"] = [hx(x) for x in kw["in"]]
        self.f.write(json.dumps(kw) + "\n")

    def close(self):
        self.f.close()
        return self.n
