SPECIFICATION TSpec
CONSTANT NT = 4
INVARIANT TInv
POSTCONDITION Consumed
CHECK_DEADLOCK FALSE
