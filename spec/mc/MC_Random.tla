----------------------------- MODULE MC_Random -----------------------------
(* C19 checked on the model itself, in exact arithmetic (grid coordinates are   *)
(* dyadic, so every Fx operation below is exact):                               *)
(*  - CDFs: HeightCdf is the normalised integral of Radius^2 - the geometry of  *)
(*    the cone / bicone, integrated cell by cell with Simpson's rule, which is  *)
(*    exact for the piecewise quadratic R^2 because the bicone's break at 1/2   *)
(*    is a cell boundary - and SatCdf the normalised integral of s; hence for   *)
(*    every one of the N^3 cells of the grid over (height, saturation, hue) the *)
(*    measure of its pre-image under the inverse-CDF map is its volume divided  *)
(*    by the volume of the solid, and cells of equal volume have pre-images of  *)
(*    equal measure; the coordinate-uniform sampler (height = r, sat = r) gives *)
(*    every cell the measure 1/N^3, which is the volume ratio of NO cell;       *)
(*  - bijection: each CDF is strictly increasing on a grid of 32 steps, maps    *)
(*    0 to 0 and 1 to 1 (bicone: 1/2 to 1/2; cone: v to v^3 exactly), and every *)
(*    target k/N is bracketed by the images of two neighbouring grid points     *)
(*    (continuity then gives a unique inverse);                                 *)
(*  - the relation of Random.tla accepts the exact inverse at every grid point  *)
(*    (for hsv, hsl and hwb - the latter through the HSV image -, f32 and f64,  *)
(*    any order of the variates) and rejects the coordinate-uniform sampler, a  *)
(*    wrong hue, and a height off by 2^-(Prec-10) relative;                     *)
(*  - containment: ends, the other end's side, a hue off the arc.               *)
(* Cases for the implementation (spec -> code): every tuple of G-grid variates  *)
(* is printed as a REPLAY line; the harness feeds exactly these variates to the *)
(* real samplers through a scripted generator (k = G stands for the largest     *)
(* variate below 1).                                                            *)
EXTENDS Random, TLC, Json

CONSTANTS LN,      \* log2 of the number of cells per axis (2: a 4 x 4 x 4 grid)
          G,       \* variate grid of the emitted cases: k / G, k \in 0..G
          Emit,
          Full     \* TRUE: every point relation for both component types; FALSE: alternating

N == Pow2Small(LN)
Fine == 32
LFine == 5

VARIABLES phase,   \* "start", "blk-<kind>", then the kind: "cell", "point", "fine", "case"; "done"
          sh,      \* "cone", "bicone", "hwb" (the cone in HWB coordinates)
          c        \* the case: a 4-tuple of grid indices
mcvars == <<vars, phase, sh, c>>

MCInit == Init /\ phase = "start" /\ sh = "none" /\ c = <<0, 0, 0, 0>>

(* cases are enumerated in two levels (block, then case) so that TLC's workers share them *)
Block(kind, shapes, top) == /\ phase = "start" /\ phase' = kind /\ UNCHANGED last
                            /\ sh' \in shapes /\ \E i \in 0..top : c' = <<i, 0, 0, 0>>
BlockCell  == Block("blk-cell", {"cone", "bicone"}, N - 1)
BlockPoint == Block("blk-point", {"cone", "bicone", "hwb"}, N)
BlockFine  == Block("blk-fine", {"cone", "bicone"}, 3)
BlockCase  == Block("blk-case", {"none"}, G)

PickCell  == /\ phase = "blk-cell" /\ phase' = "cell" /\ UNCHANGED <<last, sh>>
             /\ \E j, k \in 0..(N - 1) : c' = <<c[1], j, k, 0>>
PickPoint == /\ phase = "blk-point" /\ phase' = "point" /\ UNCHANGED <<last, sh>>
             /\ \E j \in 0..N, k \in 0..(N - 1) : c' = <<c[1], j, k, 0>>
PickFine  == /\ phase = "blk-fine" /\ phase' = "fine" /\ UNCHANGED <<last, sh>>
             /\ \E m \in 0..(Fine \div 4 - 1) : c' = <<c[1] * (Fine \div 4) + m, 0, 0, 0>>
PickCase  == /\ phase = "blk-case" /\ phase' = "case" /\ UNCHANGED <<last, sh>>
             /\ \E k2, k3, k4 \in 0..G : c' = <<c[1], k2, k3, k4>>

-----------------------------------------------------------------------------
(* numbers (products through FxMulZ of Random.tla, which an assumption below compares with the library's FxMul) *)
GridDy(m, lg) == DyMulPow2(DyFromInt(m), -lg)            \* m / 2^lg
GridFx(m, lg) == FxOfDy(GridDy(m, lg))
Geo == IF sh = "bicone" THEN "bicone" ELSE "cone"
NodeOf == CASE sh = "cone" -> "hsv" [] sh = "bicone" -> "hsl" [] sh = "hwb" -> "hwb" [] OTHER -> "srgb"

(* 6 * int_a^b R^2 over the cell [a, b] = [m/2N, (m+2)/2N] by Simpson's rule (half steps: log2 = LN + 1) *)
R2(geo, m) == FxSqrZ(Radius(geo, GridFx(m, LN + 1)))
I6(geo, i) == FxMulZ(GridFx(1, LN), FxAdd(R2(geo, 2 * i), FxAdd(FxShl(R2(geo, 2 * i + 1), 2), R2(geo, 2 * i + 2))))
RECURSIVE SumI6(_, _)
SumI6(geo, i) == IF i < 0 THEN FxZero ELSE FxAdd(I6(geo, i), SumI6(geo, i - 1))
(* 6 * int_c^d s ds *)
J6(j) == FxMulZ(GridFx(1, LN), FxAdd(GridFx(2 * j, LN + 1), FxAdd(FxShl(GridFx(2 * j + 1, LN + 1), 2), GridFx(2 * j + 2, LN + 1))))
RECURSIVE SumJ6(_)
SumJ6(j) == IF j < 0 THEN FxZero ELSE FxAdd(J6(j), SumJ6(j - 1))

(* 36 * volume of cell (i, j, k) (hue in turns) and of the solid *)
Vol(geo, i, j) == FxMulZ(FxMulZ(I6(geo, i), J6(j)), GridFx(1, LN))
TotalVol(geo) == FxMulZ(SumI6(geo, N - 1), SumJ6(N - 1))
(* measure of the pre-image of the cell under the inverse-CDF map, and under the coordinate-uniform map *)
DF(geo, i) == FxSub(HeightCdf(geo, GridFx(i + 1, LN)), HeightCdf(geo, GridFx(i, LN)))
DS(j) == FxSub(SatCdf(GridFx(j + 1, LN)), SatCdf(GridFx(j, LN)))
Pre(geo, i, j) == FxMulZ(FxMulZ(DF(geo, i), DS(j)), GridFx(1, LN))
PreCoordinateUniform == FxMulZ(FxMulZ(GridFx(1, LN), GridFx(1, LN)), GridFx(1, LN))

CellMeasure ==
  phase = "cell" =>
    /\ FxMulZ(DF(Geo, c[1]), SumI6(Geo, N - 1)) = I6(Geo, c[1])          \* height marginal = normalised int R^2
    /\ FxMulZ(DS(c[2]), SumJ6(N - 1)) = J6(c[2])                          \* saturation marginal = normalised int s
    /\ FxMulZ(Pre(Geo, c[1], c[2]), TotalVol(Geo)) = Vol(Geo, c[1], c[2]) \* pre-image measure = volume share
    /\ FxMulZ(PreCoordinateUniform, TotalVol(Geo)) # Vol(Geo, c[1], c[2]) \* the coordinate-uniform map: never
    /\ ~FxIsZero(Vol(Geo, c[1], c[2]))
    (* equal volume, equal measure - against every other cell *)
    /\ \A i, j \in 0..(N - 1) : (Vol(Geo, i, j) = Vol(Geo, c[1], c[2])) => (Pre(Geo, i, j) = Pre(Geo, c[1], c[2]))

(* vacuity: distinct cells of equal volume exist beyond those that differ in hue only (7 * 1 = 1 * 7 in the cone) *)
ASSUME Vol("cone", 1, 0) = Vol("cone", 0, 3) /\ Pre("cone", 1, 0) = Pre("cone", 0, 3)
ASSUME Vol("bicone", 0, 2) = Vol("bicone", 3, 2) /\ Vol("bicone", 1, 0) # Vol("bicone", 0, 0)

-----------------------------------------------------------------------------
(* bijection *)
FineMonotone ==
  phase = "fine" =>
    LET x == GridFx(c[1], LFine)  y == GridFx(c[1] + 1, LFine)
    IN /\ FxLt(HeightCdf(Geo, x), HeightCdf(Geo, y)) /\ FxLt(SatCdf(x), SatCdf(y))
       /\ ~FxIsNeg(Radius(Geo, x))
       /\ (Geo = "cone" => HeightCdf(Geo, x) = FxRat(c[1] * c[1] * c[1], Fine * Fine * Fine))
       /\ (Geo = "bicone" => FxAdd(HeightCdf(Geo, x), HeightCdf(Geo, FxSub(FxOne, x))) = FxOne)   \* symmetric
       /\ SatCdf(x) = FxRat(c[1] * c[1], Fine * Fine)

(* the literals and the fast product of Random.tla *)
ASSUME FxHalfC = FxRat(1, 2) /\ Tiny = FxEps(96)
ASSUME LET S == {FxRat(1, 3), FxRat(-7, 5), FxOne, FxZero, FxRat(3, 1024), FxDec(1, 0, <<1234, 5678, 9012, 3456>>), FxInt(360), FxEps(40)}
       IN \A x, y \in S : FxMulZ(x, y) = FxMul(x, y) /\ FxSqrZ(x) = FxSqr(x) /\ FxCubeZ(x) = FxCube(x)

ASSUME \A geo \in {"cone", "bicone"} : HeightCdf(geo, FxZero) = FxZero /\ HeightCdf(geo, FxOne) = FxOne
ASSUME HeightCdf("bicone", FxHalfC) = FxHalfC /\ HeightCdf("cone", FxHalfC) = FxRat(1, 8)
ASSUME HeightCdf("bicone", FxRat(1, 4)) = FxRat(1, 16) /\ HeightCdf("bicone", FxRat(3, 4)) = FxRat(15, 16)
ASSUME SatCdf(FxZero) = FxZero /\ SatCdf(FxOne) = FxOne /\ SatCdf(FxHalfC) = FxRat(1, 4)
(* onto: every target k/N lies between the images of two neighbouring grid points *)
ASSUME \A geo \in {"cone", "bicone"} : \A k \in 0..N :
         \E m \in 0..(Fine - 1) : /\ FxLe(HeightCdf(geo, GridFx(m, LFine)), GridFx(k, LN))
                                  /\ FxLe(GridFx(k, LN), HeightCdf(geo, GridFx(m + 1, LFine)))

-----------------------------------------------------------------------------
(* the relation on grid points: height c[1]/N, saturation c[2]/N, hue 360 c[3]/N *)
PH == GridFx(c[1], LN)
PS == GridFx(c[2], LN)
HueDy(k) == GridDy(360 * k, LN)
FxDy(f) == <<f[1], IF f[1] = 0 THEN 0 ELSE -FL, f[2]>>
(* the colour at (height a, saturation s, hue index k) in the coordinates of the node *)
Colour(a, s, k) == IF sh = "hwb" THEN <<HueDy(k), FxDy(FxMulZ(FxSub(FxOne, s), a)), FxDy(FxSub(FxOne, a))>>
                   ELSE <<HueDy(k), FxDy(s), FxDy(a)>>
Out == Colour(PH, PS, c[3])
ExactV == <<FxDy(HeightCdf(Geo, PH)), FxDy(SatCdf(PS)), GridDy(c[3], LN)>>
CoordV == <<FxDy(PH), FxDy(PS), GridDy(c[3], LN)>>
Rot(v) == <<v[3], v[1], v[2]>>
Std(t, V, out) == Verdict("standard", NodeOf, t, 0, <<>>, <<>>, {V}, out)
(* the HWB form of a colour of value 0 has no saturation: any saturation variate fits *)
Detectable == HeightCdf(Geo, PH) # PH \/ (SatCdf(PS) # PS /\ ~(sh = "hwb" /\ c[1] = 0))

(* both component types at every grid point, or (quick tier) alternating over the points *)
TS == IF Full THEN FloatTypes ELSE {IF (c[1] + c[2] + c[3]) % 2 = 0 THEN "f32" ELSE "f64"}
AtPoint(P(_)) == phase = "point" => \A t \in TS : P(t)

(* the exact inverse is accepted, whatever the order of the logged variates *)
P1(t) == Std(t, ExactV, Out) = "ok" /\ Std(t, Rot(ExactV), Out) = "ok" /\ Std(t, Rot(Rot(ExactV)), Out) = "ok"
(* the coordinate-uniform sampler (height = r1, saturation = r2) is rejected wherever it differs *)
Rejected == {"not-volume-uniform", "hue-not-uniform-on-arc"}    \* the latter when only the hue is left without a variate
P2(t) == Detectable => /\ Std(t, CoordV, Out) \in Rejected
                       /\ Verdict("standard", NodeOf, t, 0, <<>>, <<>>, {CoordV, Rot(CoordV)}, Out) \in Rejected
(* either candidate list of variates may be the one that fits *)
P3(t) == Verdict("standard", NodeOf, t, 0, <<>>, <<>>, {CoordV, ExactV}, Out) = "ok"
(* a hue a quarter turn off (the HWB form of value 0 has no saturation, which frees a variate) *)
P4(t) == ~(sh = "hwb" /\ c[1] = 0) =>
           Std(t, <<ExactV[1], ExactV[2], GridDy((c[3] + 1) % N, LN)>>, Out) = "hue-not-uniform-on-arc"
(* a height off by 2^-(Prec-10) relative: 3 * 1024 u on the CDF against a tolerance of 64 u *)
P5(t) == (sh = "cone" /\ c[1] >= 1 /\ c[1] < N) =>
           Std(t, ExactV, Colour(FxAdd(PH, FxShr(PH, Prec(t) - 10)), PS, c[3])) = "not-volume-uniform"
(* bounds: a standard sample outside the documented range *)
P6(t) == /\ (sh # "hwb" => Std(t, ExactV, <<Out[1], Out[2], DyAdd(Out[3], DyPow2(-10))>>)
                             = (IF c[1] = N THEN "standard-out-of-bounds" ELSE "not-volume-uniform"))
         /\ (sh = "hwb" /\ c[2] = 0 => Std(t, ExactV, <<Out[1], DyAdd(Out[2], DyPow2(-10)), Out[3]>>) = "standard-out-of-bounds")

(* uniform sampler between the grid point (low) and the far corner (high), arc from 350 to 370 degrees *)
Low == LET p == Colour(PH, PS, 0) IN <<DyFromInt(350), p[2], p[3], DyZero>>
High == LET p == Colour(FxOne, FxOne, 0) IN <<DyFromInt(370), p[2], p[3], DyFromInt(1)>>
Mid == LET p == Colour(PH, FxOne, 0) IN <<DyFromInt(360), p[2], p[3], GridDy(1, 1)>>     \* height at low, saturation at high
WithHue(col, h) == <<DyFromInt(h), col[2], col[3], col[4]>>
Uni(t, V, out) == Verdict("uniform", NodeOf, t, 1, Low, High, {V}, out)
V0101 == <<DyZero, DyFromInt(1), GridDy(1, 1), DyZero>>      \* height r = 0, saturation r = 1, hue r = 1/2
V0110 == <<DyZero, DyFromInt(1), DyFromInt(1), DyZero>>      \* height r = 0, saturation r = 1, hue r = 1
(* some coordinate is the same at both ends (any variate fits it), or the colour has value 0 in HWB form *)
FreeCoordinate == c[1] = N \/ c[2] = N \/ (sh = "hwb" /\ c[1] = 0)

U1(t) == /\ Uni(t, V0101, Mid) = "ok"
         /\ Uni(t, V0101, WithHue(Mid, 0)) = "ok"                          \* 0 is 360 on the circle
         /\ Uni(t, V0110, WithHue(Mid, -350)) = "ok"                       \* and -350 is 370
U2(t) == /\ Uni(t, V0101, WithHue(Mid, 340)) = "uniform-hue-off-arc"
         /\ Uni(t, V0101, WithHue(Mid, 371)) = "uniform-hue-off-arc"
(* on the arc, but not where the variate puts it *)
U3(t) == ~FreeCoordinate => Uni(t, V0101, WithHue(Mid, 365)) = "hue-not-uniform-on-arc"
U4(t) == Uni(t, V0101, <<Mid[1], Mid[2], Mid[3], DyFromInt(2)>>) = "uniform-component-outside-ends"   \* alpha
(* the low corner needs r = 0 three times and V0101 has two zeros *)
U5(t) == Uni(t, V0101, Low) = (IF FreeCoordinate THEN "ok" ELSE "hue-not-uniform-on-arc")
(* below the low end's height *)
U6(t) == (sh # "hwb" /\ c[1] >= 1) =>
           Uni(t, V0101, <<Mid[1], Mid[2], DyMulPow2(Mid[3], -1), Mid[4]>>) = "uniform-component-outside-ends"
(* equal ends: only the end itself *)
U7(t) == /\ Verdict("uniform", NodeOf, t, 1, Low, Low, {V0101}, Low) = "ok"
         /\ Verdict("uniform", NodeOf, t, 1, Low, Low, {V0101}, WithHue(Low, 351)) = "uniform-hue-off-arc"
         /\ (sh # "hwb" /\ c[1] < N =>
               Verdict("uniform", NodeOf, t, 1, Low, Low, {V0101}, <<Low[1], Low[2], DyAdd(Low[3], DyPow2(-10)), Low[4]>>)
                 = "uniform-component-outside-ends")

PtExact == AtPoint(P1)            PtCoordUniform == AtPoint(P2)    PtEitherList == AtPoint(P3)
PtHueOff == AtPoint(P4)           PtHeightOff == AtPoint(P5)       PtBounds == AtPoint(P6)
UniExact == AtPoint(U1)           UniOffArc == AtPoint(U2)         UniHueMisplaced == AtPoint(U3)
UniAlpha == AtPoint(U4)           UniLowCorner == AtPoint(U5)      UniBelowLow == AtPoint(U6)
UniEqualEnds == AtPoint(U7)

(* boxes, cylinder radius, arcs (types without the volume clause) *)
ASSUME LET lo == <<DyFromInt(10), DyFromInt(-20), DyFromInt(5)>>  hi == <<DyFromInt(20), DyFromInt(30), DyFromInt(5)>>
           V == {<<DyZero, DyZero, DyZero>>}
       IN /\ Verdict("uniform", "lab", "f32", 0, lo, hi, V, <<DyFromInt(20), DyFromInt(-20), DyFromInt(5)>>) = "ok"
          /\ Verdict("uniform", "lab", "f32", 0, lo, hi, V, <<DyAdd(DyFromInt(20), DyPow2(-18)), DyFromInt(0), DyFromInt(5)>>) = "uniform-component-outside-ends"
          /\ Verdict("uniform", "lab", "f64", 0, lo, hi, V, <<DyFromInt(15), DyFromInt(0), DyAdd(DyFromInt(5), DyPow2(-48))>>) = "uniform-component-outside-ends"
          /\ Verdict("standard", "lab", "f32", 0, <<>>, <<>>, V, <<DyFromInt(100), DyFromInt(-128), DyFromInt(127)>>) = "ok"
          /\ Verdict("standard", "lab", "f32", 0, <<>>, <<>>, V, <<DyFromInt(100), DyFromInt(-129), DyFromInt(127)>>) = "standard-out-of-bounds"
          /\ Verdict("standard", "lch", "f32", 0, <<>>, <<>>, V, <<DyFromInt(100), DyFromInt(500), DyFromInt(4000)>>) = "ok"   \* advisory chroma maximum, free hue
          /\ Verdict("standard", "lch", "f32", 0, <<>>, <<>>, V, <<DyFromInt(100), DyFromInt(-1), DyFromInt(0)>>) = "standard-out-of-bounds"
          /\ Verdict("standard", "hwb", "f64", 0, <<>>, <<>>, {<<DyZero, DyFromInt(1), DyZero>>}, <<DyZero, DyFromInt(1), DyPow2(-10)>>) = "standard-out-of-bounds"  \* w + b > 1
ASSUME LET lo == <<DyFromInt(10), DyFromInt(20), DyFromInt(-20)>>  hi == <<DyFromInt(50), DyFromInt(40), DyFromInt(20)>>
           V == {<<DyZero, DyZero, DyZero>>}
           o(h) == <<DyFromInt(10), DyFromInt(20), h>>
       IN /\ Verdict("uniform", "lch", "f32", 0, lo, hi, V, o(DyFromInt(340))) = "ok"
          /\ Verdict("uniform", "lch", "f32", 0, lo, hi, V, o(DyFromInt(20))) = "ok"
          /\ Verdict("uniform", "lch", "f32", 0, lo, hi, V, o(DyFromInt(-380))) = "ok"
          /\ Verdict("uniform", "lch", "f32", 0, lo, hi, V, o(DyFromInt(21))) = "uniform-hue-off-arc"
          /\ Verdict("uniform", "lch", "f32", 0, lo, hi, V, o(DyFromInt(339))) = "uniform-hue-off-arc"
          /\ Verdict("uniform", "lch", "f32", 0, lo, hi, V, o(DyFromInt(3600 + 180))) = "uniform-hue-off-arc"
          /\ Verdict("uniform", "lch", "f32", 0, lo, hi, V, <<DyFromInt(10), DyAdd(DyFromInt(40), DyPow2(-16)), DyZero>>) = "ok"   \* rooted: rounding slack
          /\ Verdict("uniform", "lch", "f32", 0, lo, hi, V, <<DyFromInt(10), DyFromInt(41), DyZero>>) = "uniform-component-outside-ends"

-----------------------------------------------------------------------------
(* the model's own actions on the exact inverse (vacuity control: both are taken) *)
McStandard == /\ phase = "point" /\ SampleStandard(NodeOf, "f64", 0, {ExactV}, Out)
              /\ phase' = "done" /\ UNCHANGED <<sh, c>>
McUniform  == /\ phase = "point" /\ SampleUniform(NodeOf, "f32", 1, 1, Low, High, {V0101}, Mid)
              /\ phase' = "done" /\ UNCHANGED <<sh, c>>

MCNext == BlockCell \/ BlockPoint \/ BlockFine \/ BlockCase \/ PickCell \/ PickPoint \/ PickFine \/ PickCase
          \/ McStandard \/ McUniform
MCSpec == MCInit /\ [][MCNext]_mcvars

EmitDone == (Emit /\ phase = "case") => PrintT(<<"REPLAY", ToJson([r |-> c, g |-> G])>>)
=============================================================================
