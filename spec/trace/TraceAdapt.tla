------------------------------ MODULE TraceAdapt ------------------------------
(* Trace validation for C14.  Every event recorded by harness/src/bin/adapt.rs   *)
(* (layout documented there) is judged against the published constants and the    *)
(* exact 3x3 algebra of Adapt.tla: each clause of the property yields a class and   *)
(* the bits of agreement reached; an event is rejected when a class stays below     *)
(* Adapt!Need(class, t).  Events are independent (stateless), so a rejected line     *)
(* never hides the following ones.  With NOTES=1 in the environment the bits of       *)
(* every class are printed as NOTE lines (calibration figures for the evidence).       *)
(*                                                                              *)
(* The inverse cone matrices are computed once per run and carried in K (TLC would      *)
(* re-evaluate a definition at every use).                                            *)
EXTENDS Adapt, Json, IOUtils, TLC

Rec == ndJsonDeserialize(IOEnv.TRACE)
Notes == "NOTES" \in DOMAIN IOEnv /\ IOEnv.NOTES = "1"
VARIABLES l, K

Fx3(js) == <<FxOf(js[1]), FxOf(js[2]), FxOf(js[3])>>
Fx9(js) == <<FxOf(js[1]), FxOf(js[2]), FxOf(js[3]), FxOf(js[4]), FxOf(js[5]), FxOf(js[6]), FxOf(js[7]), FxOf(js[8]), FxOf(js[9])>>
Fin3(js) == Len(js) = 3 /\ AllFin(js)
Fin9(js) == Len(js) = 9 /\ AllFin(js)
RECURSIVE MinSeqFrom(_, _)
MinSeqFrom(s, i) == IF i > Len(s) THEN 200 ELSE Min2i(s[i], MinSeqFrom(s, i + 1))
MinSeq(s) == MinSeqFrom(s, 1)
(* a class with its bits; -999 when the recorded values are not finite or malformed (never reaches a threshold) *)
B(cls, ok, bits) == <<cls, IF ok THEN bits ELSE -999>>
Single(x) == <<x>>

MethodSet == {MethodNames[k] : k \in DOMAIN MethodNames}
RefPair(sp, wp) == LET f == RefRgbToXyz(sp, wp) IN [f |-> f, i |-> Inv3T(f)]
KInit == [minv |-> [m \in MethodSet |-> Inv3T(Cone(m))]]
SpaceRef(sp, wp) == RefPair(sp, wp)

-----------------------------------------------------------------------------
WhiteChecks(e) ==
  IF ~IsWhiteName(e.wp) THEN Single(<<"white.unknown", -999>>)
  ELSE Single(B("white.table", Fin3(e.xyz), SeqBits(Fx3(e.xyz), WP(e.wp), FxOne)))

ConeChecks(e) ==
  IF ~IsMethodName(e.m) THEN Single(<<"cone.unknown", -999>>)
  ELSE LET ok == Fin9(e.fwd) /\ Fin9(e.inv) /\ Fin9(e.fwd2) /\ Fin9(e.inv2)
           fwd == Fx9(e.fwd)  inv == Fx9(e.inv)
       IN << B("cone.fwd", ok, Min2i(SeqBits(fwd, Cone(e.m), FxOne), SeqBits(Fx9(e.fwd2), Cone(e.m), FxOne))),
             B("cone.inv=ref", ok, Min2i(SeqBits(inv, K.minv[e.m], FxOne), SeqBits(Fx9(e.inv2), K.minv[e.m], FxOne))),
             B("cone.inv", ok, Min2i(SeqBits(MatMul3T(inv, fwd), I3, FxOne), SeqBits(MatMul3T(fwd, inv), I3, FxOne))) >>

SpaceChecks(e) ==
  IF ~(IsSpaceName(e.sp) /\ IsWhiteName(e.wp)) THEN Single(<<"space.unknown", -999>>)
  ELSE LET ref == SpaceRef(e.sp, e.wp)
           p == Primaries(e.sp)
           w == WP(e.wp)
           okp == Len(e.prim) = 3 /\ \A i \in 1..3 : Len(e.prim[i]) = 2 /\ AllFin(e.prim[i])
           prim == <<FxOf(e.prim[1][1]), FxOf(e.prim[1][2]), FxOf(e.prim[2][1]), FxOf(e.prim[2][2]), FxOf(e.prim[3][1]), FxOf(e.prim[3][2])>>
           mfr == Fx9(e.mfr)  mfx == Fx9(e.mfx)
           hard == Len(e.fwd) > 0 \/ Len(e.inv) > 0 \/ e.hard = 1
           okh == Fin9(e.fwd) /\ Fin9(e.inv)
           fwd == Fx9(e.fwd)  inv == Fx9(e.inv)
       IN << (* hard-coded matrices belong to the standard's own white point *)
             <<"space.native", IF hard => e.wp = SpaceWhite(e.sp) THEN 200 ELSE -999>>,
             B("space.prim", okp, SeqBits(prim, p, FxOne)),
             B("space.white", Fin3(e.white), SeqBits(Fx3(e.white), w, FxOne)),
             B("space.der=ref", Fin9(e.der), SeqBits(Fx9(e.der), ref.f, FxOne)),
             B("space.mfr=ref", Fin9(e.mfr), SeqBits(mfr, ref.f, FxOne)),
             B("space.mfx=ref", Fin9(e.mfx), SeqBits(mfx, ref.i, FxOne)),
             B("space.mfr.mfx", Fin9(e.mfr) /\ Fin9(e.mfx), Min2i(SeqBits(MatMul3T(mfr, mfx), I3, FxOne), SeqBits(MatMul3T(mfx, mfr), I3, FxOne))),
             B("space.white.map", Fin3(e.wmap), SeqBits(Fx3(e.wmap), w, FxOne)) >>
          \o (IF hard THEN << B("space.hard=ref", okh, Min2i(SeqBits(fwd, ref.f, FxOne), SeqBits(inv, ref.i, FxOne))),
                              B("space.hard.inv", okh, Min2i(SeqBits(MatMul3T(fwd, inv), I3, FxOne), SeqBits(MatMul3T(inv, fwd), I3, FxOne))) >>
              ELSE <<>>)

(* one grey level of one RGB standard in every space, and back *)
ConvChecks(e) ==
  IF ~IsWhiteName(e.wp) THEN Single(<<"conv.unknown", -999>>)
  ELSE LET w == WP(e.wp)
           g == FxOf(e.g)
           xyz == Fx3(e.xyz)
           lab == Fx3(e.lab)  luv == Fx3(e.luv)
           hasok == Len(e.oklab) > 0
           ok3 == Fx3(e.oklab)
           nb == Len(e.back)
           H128 == FxInt(128)
       IN << B("conv.grey.xyz", Fin3(e.xyz), NeutralXyzBits(xyz, w)),
             B("conv.lab", Fin3(e.lab), Min2i(ZeroBits(lab[2]), ZeroBits(lab[3]))),
             B("conv.luv", Fin3(e.luv), Min2i(ZeroBits(luv[2]), ZeroBits(luv[3]))),
             B("conv.lch", Fin3(e.lch), ZeroBits(FxOf(e.lch[2]))),
             B("conv.lchuv", Fin3(e.lchuv), ZeroBits(FxOf(e.lchuv[2]))),
             B("conv.hsluv", Fin3(e.hsluv), AgreeBits(FxOf(e.hsluv[2]), FxZero, H128)),          \* saturation on the 0..100 scale
             B("conv.hsv", Fin3(e.hsv), ZeroBits(FxOf(e.hsv[2]))),
             B("conv.hsl", Fin3(e.hsl), ZeroBits(FxOf(e.hsl[2]))),
             (* HWB of a grey: whiteness + blackness = 1 (the saturation of the hexcone is 0) *)
             B("conv.hwb", Fin3(e.hwb), AgreeBits(FxAdd(FxOf(e.hwb[2]), FxOf(e.hwb[3])), FxOne, FxOne)),
             B("conv.luma", Len(e.luma) = 1 /\ AllFin(e.luma) /\ AllFin(<<e.g>>), AgreeBits(FxOf(e.luma[1]), g, AtLeast(FxAbs(g), 30))),
             B("conv.back", nb > 0 /\ \A i \in 1..nb : Fin3(e.back[i]), MinSeq([i \in 1..nb |-> SpreadBits(Fx3(e.back[i]))])) >>
          \o (IF e.lin = 1 THEN Single(B("conv.grey.y", Fin3(e.xyz), AgreeBits(xyz[2], g, AtLeast(FxAbs(g), 30)))) ELSE <<>>)
          \o (IF hasok THEN << B("conv.oklab", Fin3(e.oklab), Min2i(ZeroBits(ok3[2]), ZeroBits(ok3[3]))),
                               B("conv.oklch", Fin3(e.oklch), ZeroBits(FxOf(e.oklch[2]))) >>
              ELSE <<>>)
          \o (IF e.white = 1
              THEN << B("conv.white.xyz", Fin3(e.xyz), SeqBits(xyz, w, FxOne)),
                      B("conv.white.L", Fin3(e.lab) /\ Fin3(e.lch), Min2i(AgreeBits(lab[1], FxInt(100), H128), AgreeBits(FxOf(e.lch[1]), FxInt(100), H128))),
                      B("conv.white.luvL", Fin3(e.luv) /\ Fin3(e.lchuv) /\ Fin3(e.hsluv),
                        Min3i(AgreeBits(luv[1], FxInt(100), H128), AgreeBits(FxOf(e.lchuv[1]), FxInt(100), H128), AgreeBits(FxOf(e.hsluv[3]), FxInt(100), H128))),
                      B("conv.cam16.J", Len(e.camj) > 0 /\ AllFin(e.camj), MinSeq([i \in 1..Len(e.camj) |-> AgreeBits(FxOf(e.camj[i]), FxInt(100), H128)])) >>
                   \o (IF hasok THEN Single(B("conv.white.okL", Fin3(e.oklab) /\ Fin3(e.oklch), Min2i(AgreeBits(ok3[1], FxOne, FxOne), AgreeBits(FxOf(e.oklch[1]), FxOne, FxOne))))
                       ELSE <<>>)
              ELSE <<>>)

AdaptChecks(e) ==
  IF ~(IsWhiteName(e.src) /\ IsWhiteName(e.dst) /\ IsMethodName(e.m)) THEN Single(<<"adapt.unknown", -999>>)
  ELSE LET same == e.src = e.dst
           A == AdaptRef(WP(e.src), WP(e.dst), Cone(e.m), K.minv[e.m])
           sc == AtLeastOne(MagSeq(A))
           new == Len(e.mat) > 0
           n == Len(e.pts)
           okp == n > 0 /\ Len(e.fwd) = n /\ Len(e.back) = n /\ \A i \in 1..n : Fin3(e.pts[i]) /\ Fin3(e.fwd[i]) /\ Fin3(e.back[i])
           okf == okp /\ Len(e.forms) > 0 /\ \A f \in 1..Len(e.forms) : Len(e.forms[f]) = n /\ \A i \in 1..n : Fin3(e.forms[f][i])
           okb(s) == okp /\ Len(s) = n /\ \A i \in 1..n : Fin3(s[i])
           BackBits(s) == MinSeq([i \in 1..n |-> SameBits(Fx3(s[i]), Fx3(e.pts[i]))])
       IN << B(IF same THEN "adapt.ident" ELSE "adapt.old", Fin9(e.old), SeqBits(Fx9(e.old), A, sc)),
             B("adapt.white", Fin3(e.wdst), SeqBits(Fx3(e.wdst), WP(e.dst), FxOne)),
             B("adapt.fwd", okp, MinSeq([i \in 1..n |-> ApplyBits(A, Fx3(e.pts[i]), Fx3(e.fwd[i]))])),
             B(IF same THEN "adapt.forms.same" ELSE "adapt.forms", okf,
               MinSeq([k \in 1..(Len(e.forms) * n) |-> LET f == ((k - 1) \div n) + 1  i == ((k - 1) % n) + 1
                                                      IN SameBits(Fx3(e.forms[f][i]), Fx3(e.fwd[i]))])),
             B("adapt.back", okb(e.back) /\ okb(e.backo), Min2i(BackBits(e.back), BackBits(e.backo))) >>
          \o (IF new THEN << B(IF same THEN "adapt.ident" ELSE "adapt.mat", Fin9(e.mat) /\ Fin9(e.matd) /\ Fin9(e.matds),
                               Min3i(SeqBits(Fx9(e.mat), A, sc), SeqBits(Fx9(e.matd), A, sc), SeqBits(Fx9(e.matds), A, sc))),
                             B("adapt.new=old", Fin9(e.mat) /\ Fin9(e.old), SeqBits(Fx9(e.mat), Fx9(e.old), sc)),
                             B("adapt.back", okb(e.backf), BackBits(e.backf)) >>
              ELSE <<>>)

Mat3Checks(e) ==
  LET ok == Fin9(e.a) /\ Fin9(e.b) /\ Fin9(e.then) /\ Fin9(e.inva) /\ Fin9(e.ident) /\ Fin9(e.scale)
            /\ Fin3(e.v) /\ Fin3(e.av) /\ Fin3(e.tv) /\ Fin3(e.bav)
      a == Fx9(e.a)  b == Fx9(e.b)  inva == Fx9(e.inva)  v == Fx3(e.v)
      ba == MatMul3T(b, a)
      s3(x, y) == AtLeastOne(FxMulInt(FxMul(MagSeq(x), MagSeq(y)), 3))
      z == FxZero
  IN << B("mat3.then", ok, SeqBits(Fx9(e.then), ba, s3(a, b))),
        B("mat3.inv", ok, Min2i(SeqBits(MatMul3T(inva, a), I3, s3(inva, a)), SeqBits(MatMul3T(a, inva), I3, s3(inva, a)))),
        B("mat3.ident", ok, Min2i(SeqBits(Fx9(e.ident), I3, FxOne), SeqBits(Fx9(e.scale), <<v[1], z, z, z, v[2], z, z, z, v[3]>>, FxOne))),
        B("mat3.conv", ok, Min3i(ApplyBits(a, v, Fx3(e.av)), ApplyBits(ba, v, Fx3(e.tv)), SameBits(Fx3(e.tv), Fx3(e.bav)))) >>

Checks(e) ==
  CASE e.ev = "white" -> WhiteChecks(e)
    [] e.ev = "cone" -> ConeChecks(e)
    [] e.ev = "space" -> SpaceChecks(e)
    [] e.ev = "conv" -> ConvChecks(e)
    [] e.ev = "adapt" -> AdaptChecks(e)
    [] e.ev = "mat3" -> Mat3Checks(e)
    [] OTHER -> Single(<<"unknown-event", -999>>)

TInit == l = 1 /\ K = KInit
TNext == /\ l <= Len(Rec)
         /\ LET e == Rec[l]
                c == IF e.t \notin {"f32", "f64"} THEN Single(<<"unknown-type", -999>>)
                     ELSE IF e.panic = 1 THEN Single(<<"panic", -999>>) ELSE Checks(e)
                bad == SelectSeq(c, LAMBDA x : x[2] < Need(x[1], e.t))
            IN /\ (IF Notes /\ l = 1
                   THEN PrintT(<<"NOTE", 0, "need", "f64", [i \in DOMAIN Classes |-> <<Classes[i], Need(Classes[i], "f64")>>]>>)
                        /\ PrintT(<<"NOTE", 0, "need", "f32", [i \in DOMAIN Classes |-> <<Classes[i], Need(Classes[i], "f32")>>]>>)
                   ELSE TRUE)
               /\ (IF Notes THEN PrintT(<<"NOTE", l, e.ev, e.t, c>>) ELSE TRUE)
               /\ (IF Len(bad) = 0 THEN TRUE ELSE PrintT(<<"REJECT", l, bad[1][1], bad[1][2], Need(bad[1][1], e.t)>>))
         /\ l' = l + 1 /\ UNCHANGED K
TSpec == TInit /\ [][TNext]_<<l, K>>
Consumed == TLCGet("stats").diameter = Len(Rec) + 1 \/ PrintT(<<"UNCONSUMED", TLCGet("stats").diameter>>)
=============================================================================
