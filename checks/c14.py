"""C14 - white stays white and neutrals stay neutral across spaces and adaptations.
Spec: spec/Adapt.tla - the published white points (ASTM E308, DCI), primaries of the RGB spaces and cone response
matrices are written in the specification; the RGB<->XYZ matrices and the one-step adaptation matrices are derived
from them in 104-bit fixed point. MC_Adapt checks the publication against itself (derived matrices hit the white
point, adaptation maps white onto white, is the identity between equal whites and inverts, for every pair of white
points and every method). harness/src/bin/adapt.rs records what palette does (white point types, hard-coded and
derived matrices, white and the grey axis of every RGB standard through every space and back, CAM16 of the adopted
white, adaptation matrices and every adaptation trait form on XYZ points there and back, Matrix3 algebra) for f32
and f64; TraceAdapt.tla judges every event. The Python here only moves files and summarises TLC's NOTE lines."""
import json, re
from common import *

RE_PAIR = re.compile(r'<<"([A-Za-z0-9_.=-]+)", (-?\d+)>>')
RE_NOTE_HEAD = re.compile(r'^(\d+), "([a-z0-9]+)", "(f32|f64)", (.*)$')

CLAUSE = {
    "white.table": "white point constant differs from the published tristimulus values",
    "cone.fwd": "cone response matrix differs from the published matrix",
    "cone.inv=ref": "inverse cone response matrix differs from the inverse of the published matrix (7 decimals)",
    "cone.inv": "cone response matrix and its hard-coded inverse are not mutual inverses",
    "space.native": "hard-coded matrices offered for a white point that is not the standard's own",
    "space.prim": "primaries differ from the published chromaticities",
    "space.white": "white point of the RGB space differs from the published one",
    "space.hard=ref": "hard-coded RGB<->XYZ matrix differs from the matrix derived from the published primaries and white point (7 decimals)",
    "space.hard.inv": "hard-coded RGB->XYZ and XYZ->RGB matrices are not mutual inverses",
    "space.der=ref": "palette::matrix::rgb_to_xyz_matrix differs from the matrix derived from primaries and white point",
    "space.mfr=ref": "Xyz::matrix_from_rgb differs from the matrix derived from primaries and white point",
    "space.mfx=ref": "Rgb::matrix_from_xyz differs from the inverse of the matrix derived from primaries and white point",
    "space.mfr.mfx": "Xyz::matrix_from_rgb and Rgb::matrix_from_xyz are not mutual inverses",
    "space.white.map": "RGB (1,1,1) does not map to the white point",
    "conv.white.xyz": "RGB white does not convert to the XYZ of the standard's white point",
    "conv.grey.xyz": "a grey does not convert to a multiple of the white point in XYZ",
    "conv.grey.y": "a linear grey level does not convert to that luminance",
    "conv.white.L": "white does not convert to L* = 100 (Lab/Lch)",
    "conv.white.luvL": "white does not convert to L* = 100 (Luv/Lchuv/Hsluv)",
    "conv.white.okL": "D65 white does not convert to Oklab L = 1",
    "conv.lab": "a grey has non-zero a*, b*", "conv.luv": "a grey has non-zero u*, v*",
    "conv.lch": "a grey has non-zero Lch chroma", "conv.lchuv": "a grey has non-zero Lchuv chroma",
    "conv.oklab": "a grey has non-zero Oklab a, b", "conv.oklch": "a grey has non-zero Oklch chroma",
    "conv.hsv": "a grey has non-zero HSV saturation", "conv.hsl": "a grey has non-zero HSL saturation",
    "conv.hwb": "a grey has whiteness + blackness != 1", "conv.hsluv": "a grey has non-zero HSLuv saturation",
    "conv.luma": "the luma of a grey is not its level", "conv.back": "a grey does not convert back to equal RGB components",
    "conv.cam16.J": "the adopted white does not have CAM16 lightness 100",
    "adapt.mat": "adaptation_matrix differs from M^-1 diag(M dst / M src) M",
    "adapt.old": "generate_transform_matrix differs from M^-1 diag(M dst / M src) M",
    "adapt.ident": "adaptation between equal white points is not the identity",
    "adapt.white": "adaptation does not map the source white point onto the destination white point",
    "adapt.fwd": "adapted colour differs from the reference adaptation",
    "adapt.back": "adapting there and back does not return the original colour",
    "adapt.new=old": "adaptation_matrix and the deprecated generate_transform_matrix disagree",
    "adapt.forms": "an adaptation trait form gives other numbers than the matrix",
    "adapt.forms.same": "an adaptation trait form between equal white points changes the colour",
    "mat3.then": "Matrix3::then is not the matrix product", "mat3.conv": "Matrix3::convert is not the matrix-vector product",
    "mat3.inv": "Matrix3::invert is not the inverse", "mat3.ident": "Matrix3::identity / scale is not the identity / diagonal matrix",
    "panic": "palette panicked",
}


def key_of(ev):
    k = ev["ev"]
    if k == "white":
        return ev["wp"]
    if k == "cone":
        return ev["m"]
    if k == "space":
        return "%s/%s" % (ev["sp"], ev["wp"])
    if k == "conv":
        return ev["std"]
    if k == "adapt":
        return "%s/%s/%s" % (ev["src"], ev["dst"], ev["m"])
    return ev.get("key", "*")


def fl(js):
    try:
        return [dy_to_float(x) for x in js]
    except Exception:
        return js


def describe(ev, cls):
    k, t = ev["ev"], ev.get("t")
    if ev.get("panic"):
        return "%s %s %s: PANIC %s" % (t, k, key_of(ev), ev.get("msg", ""))
    if k == "white":
        return "%s WhitePoint %s::get_xyz() = %s" % (t, ev["wp"], fl(ev["xyz"]))
    if k == "cone":
        return "%s cone matrices of %s: xyz_to_lms %s, lms_to_xyz %s" % (t, ev["m"], fl(ev["fwd"]), fl(ev["inv"]))
    if k == "space":
        f = {"space.hard=ref": ("fwd", "inv"), "space.hard.inv": ("fwd", "inv"), "space.der=ref": ("der",), "space.mfr=ref": ("mfr",),
             "space.mfx=ref": ("mfx",), "space.mfr.mfx": ("mfr", "mfx"), "space.prim": ("prim",), "space.white": ("white",),
             "space.white.map": ("wmap",)}.get(cls, ("fwd", "inv"))
        return "%s RGB space %s (white %s): %s" % (t, ev["sp"], ev["wp"], "; ".join(
            "%s = %s" % (n, [fl(p) for p in ev[n]] if n == "prim" else fl(ev[n])) for n in f))
    if k == "conv":
        fields = {"conv.lab": ["lab"], "conv.luv": ["luv"], "conv.lch": ["lch"], "conv.lchuv": ["lchuv"], "conv.hsluv": ["hsluv"],
                  "conv.hsv": ["hsv"], "conv.hsl": ["hsl"], "conv.hwb": ["hwb"], "conv.luma": ["luma"], "conv.oklab": ["oklab"],
                  "conv.oklch": ["oklch"], "conv.white.okL": ["oklab"], "conv.white.L": ["lab"], "conv.white.luvL": ["luv"],
                  "conv.cam16.J": ["camj"]}.get(cls, ["xyz"])
        s = "%s %s grey %s (level %d/%d)%s -> " % (t, ev["std"], dy_to_float(ev["g"]), ev["k"], ev["n"], " = white" if ev["white"] else "")
        s += "; ".join("%s %s" % (n, fl(ev[n])) for n in fields)
        if cls == "conv.back":
            s += "; back: " + "; ".join("%s %s" % (n, fl(b)) for n, b in zip(ev["bnames"], ev["back"]))
        return s
    if k == "adapt":
        s = "%s adapt %s -> %s (%s, %s API): " % (t, ev["src"], ev["dst"], ev["m"], ev.get("api"))
        if cls in ("adapt.mat", "adapt.ident", "adapt.new=old", "adapt.old"):
            s += "adaptation_matrix %s; generate_transform_matrix %s" % (fl(ev["mat"]), fl(ev["old"]))
        elif cls == "adapt.white":
            s += "source white -> %s" % fl(ev["wdst"])
        else:
            s += "points %s -> %s -> back %s; forms %s %s" % ([fl(p) for p in ev["pts"][:2]], [fl(p) for p in ev["fwd"][:2]],
                                                           [fl(p) for p in ev["back"][:2]], ev["fnames"], [[fl(p) for p in f[:2]] for f in ev["forms"]])
        return s
    if k == "mat3":
        return "%s Matrix3 a=%s b=%s then=%s invert(a)=%s" % (t, fl(ev["a"]), fl(ev["b"]), fl(ev["then"]), fl(ev["inva"]))
    return json.dumps(ev)[:300]


def parse_notes(notes):
    """NOTE lines -> (need[t][class], minbits[t][class] -> (bits, line))"""
    need, mins = {"f32": {}, "f64": {}}, {"f32": {}, "f64": {}}
    for n in notes:
        m = RE_NOTE_HEAD.match(n)
        if not m:
            continue
        line, ev, t, rest = int(m.group(1)), m.group(2), m.group(3), m.group(4)
        pairs = [(a, int(b)) for a, b in RE_PAIR.findall(rest)]
        if ev == "need":
            need[t].update(dict(pairs))
            continue
        for cls, bits in pairs:
            if bits == -999:
                continue
            cur = mins[t].get(cls)
            if cur is None or bits < cur:
                mins[t][cls] = bits
    return need, mins


def interleave(ctx, path, k):
    """events are independent: deal them round-robin over k chunks so that the expensive adaptation events do not
    all land in one TLC process. Returns (dealt path, map dealt line -> original line)."""
    lines = open(path).readlines()
    order = [i for j in range(k) for i in range(j, len(lines), k)]
    out = ctx.p("adapt.dealt.ndjson")
    with open(out, "w") as f:
        for i in order:
            f.write(lines[i])
    return out, len(lines)


def expected_model_states(full):
    names = 16
    hubs = {3, 5}     # D50, D65 (0-based positions in WhiteNames)
    pairs = set()
    for i in range(names):
        for j in range(names):
            if full or i in hubs or j in hubs or i == j:
                pairs.add((min(i, j), max(i, j)))
    return 1 + 12 + 16 + 3 * len(pairs)


def run(ctx):
    bins = cargo_build(["adapt"])
    full = not ctx.quick
    r = tlc_mc(ctx, "MC_Adapt", constants={"Full": "TRUE" if full else "FALSE"}, tag="adapt_model", workers=6, coverage=False, timeout=1500)
    want = expected_model_states(full)
    if r.distinct != want:
        raise ToolError("MC_Adapt visited %d states, expected %d (vacuity control)" % (r.distinct, want))
    tp0 = ctx.p("adapt.ndjson")
    rb = run_bin(bins["adapt"], ["--tier", ctx.tier, "--out", tp0], env={"VERIF_SEED": ctx.seed})
    nchunks = 14 if ctx.quick else 28
    tp, n = interleave(ctx, tp0, nchunks)
    log("C14: %d events" % n)
    res = validate_trace(ctx, "TraceAdapt", tp, stateless=True, chunk_events=-(-n // nchunks), tag="c14", xmx="2g", env={"NOTES": "1"})
    ctx.cov["traces_validated_against_impl"] += res.events - len(res.rejected)
    add_samples(ctx, tp0, n=2, every=401)
    ctx.cov["distinct_nontrivial"] += count_distinct(tp0, lambda e: json.dumps([e["ev"], e["t"], key_of(e), e.get("k")]), lambda e: True)
    need, mins = parse_notes(res.notes)
    panics = 0
    # one representative of every (class, kind) first: only a dozen violations are written out as replay files
    seen, first, rest = set(), [], []
    for rj in res.rejected:
        c = (rj[2].split(",")[0], rj[1].get("ev"))
        (rest if c in seen else first).append(rj)
        seen.add(c)
    for (line, ev, info, _) in first + rest:
        parts = [x.strip().strip('"') for x in info.split(",")]
        cls = parts[0] if parts else "?"
        bits = parts[1] if len(parts) > 1 else "?"
        nd = parts[2] if len(parts) > 2 else "?"
        panics += 1 if ev.get("panic") else 0
        coords = {"kind": ev["ev"], "class": cls, "t": ev.get("t"), "key": key_of(ev)}
        for f in ("std", "sp", "wp", "src", "dst", "m", "white", "k", "lin"):
            if f in ev:
                coords[f] = ev[f]
        what = "%s [%s: %s bits of agreement, %s required] %s" % (CLAUSE.get(cls, cls), cls, bits, nd, describe(ev, cls))
        report(ctx, coords, what, {"bin": "adapt", "only": "%s:%s" % (ev["ev"], key_of(ev)), "t": ev.get("t"), "tier": ctx.tier, "class": cls,
                                   "k": ev.get("k"), "event": ev, "how": "./check C14 --replay <this file>"})
    calib = {}
    for t in ("f64", "f32"):
        for cls in sorted(set(need[t]) | set(mins[t])):
            calib["%s %s" % (cls, t)] = {"required_bits": need[t].get(cls), "least_bits_observed": mins[t].get(cls)}
    return finish(ctx, "model_checking",
                  rule="a case is one recorded event: one white point type, one cone matrix pair, one RGB space (all its matrices), one grey "
                       "level of one RGB standard through every space and back, one (source white, destination white, method) adaptation "
                       "with its matrices and XYZ points there and back, or one Matrix3 pair - per component type; distinct by those keys; "
                       "every case evaluates the clauses of the property on it (non-trivial)",
                  explanation="MC_Adapt: %d states - the reference checked against itself: 7 RGB spaces (derived matrix maps (1,1,1) to the white "
                              "point and inverts), %s pairs of 16 white points x 3 methods in both orders (white onto white, identity between "
                              "equal whites, there-and-back = I at 2^-86), the published inverse cone matrices, 6 negative / publication controls. "
                              "TraceAdapt judges every recorded event of f32 and f64 against the published constants; bits of agreement per "
                              "clause and the thresholds are in `calibration`." % (r.distinct, "all 136" if full else "a sample (D65 or D50 on one side, and the diagonal) of the"),
                  trusted=["the published constants as written in spec/Adapt.tla (ASTM E308 white points from memory of the table, cross-checked "
                           "against palette's doc comments; primaries and cone matrices from the cited standards)",
                           "thresholds Need(class, t) of spec/Adapt.tla", "the exact number encoding of the harness (pvh::ex64)", "TLC, JVM, rustc"],
                  extra={"calibration": calib, "events": n, "panics": panics, "harness": (rb.stderr or "").strip().splitlines()[-1:]})


def replay(ctx, path):
    rp = json.load(open(path))["replay"]
    bins = cargo_build(["adapt"])
    tp = ctx.p("replay.ndjson")
    run_bin(bins["adapt"], ["--only", rp["only"], "--t", rp["t"], "--tier", rp.get("tier", "quick"), "--out", tp], env={"VERIF_SEED": ctx.seed})
    res = validate_trace(ctx, "TraceAdapt", tp, stateless=True, tag="replay", env={"NOTES": "1"})
    hits = [r for r in res.rejected if r[2].split(",")[0].strip().strip('"') == rp["class"] and (rp.get("k") is None or r[1].get("k") == rp.get("k"))]
    if hits:
        print("VIOLATION property=C14 replay=%s" % path)
        print("  still rejected: %s [%s]" % (describe(hits[0][1], rp["class"])[:600], hits[0][2]))
        return 1
    if res.events == 0:
        raise ToolError("replay recorded no event for %s" % rp["only"])
    print("replay accepted (%d event(s) re-recorded for %s, none rejected for %s)" % (res.events, rp["only"], rp["class"]))
    return 0
