#!/usr/bin/env python3
"""Rewrites the table between the SEEDED-TABLE markers of DESIGN.md from seeded/*/meta.json."""
import json, glob, os, re
V = os.path.dirname(os.path.dirname(os.path.abspath(__file__)))
rows = []
for m in sorted(glob.glob(os.path.join(V, "seeded", "*", "meta.json"))):
    d = json.load(open(m))
    name = os.path.basename(os.path.dirname(m))
    res = d.get("checks_run", "")
    res = res.split("): ", 1)[-1]
    missed = "MISSED" in res
    verdict = "caught after strengthening" if missed and ("AFTER" in res or "After" in res) else ("MISSED" if missed else "caught")
    files = ", ".join(os.path.basename(f) for f in d.get("files_touched", []))
    rows.append("| `%s` | %s | %s | %s |" % (name, files, verdict, res.replace("|", "/")[:420]))
table = "| seeded change | files | verdict | checks run (quick tier, scratch worktree with the patch) |\n|---|---|---|---|\n" + "\n".join(rows)
p = os.path.join(V, "DESIGN.md")
s = open(p).read()
s = re.sub(r"(?s)<!-- SEEDED-TABLE-BEGIN -->.*?<!-- SEEDED-TABLE-END -->", "<!-- SEEDED-TABLE-BEGIN -->\n" + table + "\n<!-- SEEDED-TABLE-END -->", s)
open(p, "w").write(s)
print(len(rows), "rows")
