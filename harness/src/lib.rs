//! Shared plumbing of the palette verification harness: exact number encoding,
//! NDJSON event recording, deterministic PRNG, panic capture.
//!
//! Number encoding (see spec/lib/Fx.tla): `[s, q, m1, m2, ...]` denotes
//! `s * (m1 + m2*8192 + ...) * 8192^q`; specials are `[2,0]` (NaN), `[3,0]` (+inf), `[-3,0]` (-inf) -
//! arrays too, because TLC cannot compare a tuple with a string.

use serde_json::{json, Value};
use std::io::{BufWriter, Write};

pub const BASE_BITS: u32 = 13;

fn limbs_u128(mut m: u128, out: &mut Vec<Value>) {
    while m != 0 {
        out.push(json!((m & 0x1fff) as u32));
        m >>= BASE_BITS;
    }
}

/// exact encoding of mantissa * 2^exp2 with sign
pub fn ex_parts(neg: bool, mut mant: u128, mut exp2: i32) -> Value {
    if mant == 0 {
        return json!([0, 0]);
    }
    // strip trailing zero bits so the encoding is canonical and short
    let tz = mant.trailing_zeros();
    mant >>= tz;
    exp2 += tz as i32;
    let q = exp2.div_euclid(BASE_BITS as i32);
    let r = exp2.rem_euclid(BASE_BITS as i32) as u32;
    let m = mant << r;
    let mut v = vec![json!(if neg { -1 } else { 1 }), json!(q)];
    limbs_u128(m, &mut v);
    Value::Array(v)
}

pub fn ex64(x: f64) -> Value {
    if x.is_nan() {
        return json!([2, 0]);
    }
    if x.is_infinite() {
        return json!(if x > 0.0 { [3, 0] } else { [-3, 0] });
    }
    let bits = x.to_bits();
    let neg = (bits >> 63) != 0;
    let e = ((bits >> 52) & 0x7ff) as i32;
    let f = bits & ((1u64 << 52) - 1);
    let (mant, exp2) = if e == 0 { (f, -1074) } else { (f | (1u64 << 52), e - 1075) };
    ex_parts(neg, mant as u128, exp2)
}

pub fn ex32(x: f32) -> Value {
    ex64(x as f64)
}

pub fn exu(x: u128) -> Value {
    // up to 128 bits: split so that the shift in ex_parts cannot overflow
    if x == 0 {
        return json!([0, 0]);
    }
    let mut v = vec![json!(1), json!(0)];
    limbs_u128(x, &mut v);
    Value::Array(v)
}

pub fn exi(x: i128) -> Value {
    if x == 0 {
        return json!([0, 0]);
    }
    let mut v = vec![json!(if x < 0 { -1 } else { 1 }), json!(0)];
    limbs_u128(x.unsigned_abs(), &mut v);
    Value::Array(v)
}

/// Anything the harness logs as an exact number.
pub trait Ex: Copy {
    fn ex(self) -> Value;
    fn as_f64(self) -> f64;
    const NAME: &'static str;
}
impl Ex for f32 {
    fn ex(self) -> Value { ex32(self) }
    fn as_f64(self) -> f64 { self as f64 }
    const NAME: &'static str = "f32";
}
impl Ex for f64 {
    fn ex(self) -> Value { ex64(self) }
    fn as_f64(self) -> f64 { self }
    const NAME: &'static str = "f64";
}
macro_rules! ex_uint {
    ($($t:ident),*) => {$(
        impl Ex for $t {
            fn ex(self) -> Value { exu(self as u128) }
            fn as_f64(self) -> f64 { self as f64 }
            const NAME: &'static str = stringify!($t);
        }
    )*};
}
ex_uint!(u8, u16, u32, u64, u128, usize);

pub fn ex_arr<T: Ex>(xs: &[T]) -> Value {
    Value::Array(xs.iter().map(|x| x.ex()).collect())
}

/// Is this logged number finite?
pub fn all_finite<T: Ex>(xs: &[T]) -> bool {
    xs.iter().all(|x| x.as_f64().is_finite())
}

/// NDJSON recorder.
pub struct Rec {
    w: BufWriter<Box<dyn Write>>,
    pub n: u64,
}

impl Rec {
    pub fn create(path: &str) -> Rec {
        let w: Box<dyn Write> = if path == "-" {
            Box::new(std::io::stdout())
        } else {
            Box::new(std::fs::File::create(path).unwrap_or_else(|e| panic!("cannot create {}: {}", path, e)))
        };
        Rec { w: BufWriter::with_capacity(1 << 20, w), n: 0 }
    }
    pub fn ev(&mut self, v: Value) {
        serde_json::to_writer(&mut self.w, &v).unwrap();
        self.w.write_all(b"\n").unwrap();
        self.n += 1;
    }
    pub fn finish(mut self) -> u64 {
        self.w.flush().unwrap();
        self.n
    }
}

/// Deterministic PRNG (splitmix64), also usable as a `rand::RngCore`.
#[derive(Clone, Debug)]
pub struct Sm64(pub u64);

impl Sm64 {
    pub fn new(seed: u64) -> Sm64 { Sm64(seed.wrapping_mul(0x9E3779B97F4A7C15) ^ 0xD1B54A32D192ED03) }
    pub fn next(&mut self) -> u64 {
        self.0 = self.0.wrapping_add(0x9E3779B97F4A7C15);
        let mut z = self.0;
        z = (z ^ (z >> 30)).wrapping_mul(0xBF58476D1CE4E5B9);
        z = (z ^ (z >> 27)).wrapping_mul(0x94D049BB133111EB);
        z ^ (z >> 31)
    }
    /// uniform in [0, 1)
    pub fn unit(&mut self) -> f64 { (self.next() >> 11) as f64 / (1u64 << 53) as f64 }
    pub fn range(&mut self, lo: f64, hi: f64) -> f64 { lo + (hi - lo) * self.unit() }
    pub fn below(&mut self, n: u64) -> u64 { self.next() % n.max(1) }
    pub fn pick<'a, T>(&mut self, xs: &'a [T]) -> &'a T { &xs[self.below(xs.len() as u64) as usize] }
    pub fn coin(&mut self) -> bool { self.next() & 1 == 1 }
}

impl rand::RngCore for Sm64 {
    fn next_u32(&mut self) -> u32 { (self.next() >> 32) as u32 }
    fn next_u64(&mut self) -> u64 { self.next() }
    fn fill_bytes(&mut self, dest: &mut [u8]) {
        for chunk in dest.chunks_mut(8) {
            let b = self.next().to_le_bytes();
            chunk.copy_from_slice(&b[..chunk.len()]);
        }
    }
    fn try_fill_bytes(&mut self, dest: &mut [u8]) -> Result<(), rand::Error> {
        self.fill_bytes(dest);
        Ok(())
    }
}

pub fn seed_from_env() -> u64 {
    std::env::var("VERIF_SEED").ok().and_then(|s| s.parse::<i64>().ok()).map(|x| x as u64).unwrap_or(1)
}

/// Run `f`, turning a panic into `Err(message)`. The default hook is silenced once.
pub fn catch<R>(f: impl FnOnce() -> R) -> Result<R, String> {
    use std::sync::Once;
    static HOOK: Once = Once::new();
    HOOK.call_once(|| std::panic::set_hook(Box::new(|_| {})));
    match std::panic::catch_unwind(std::panic::AssertUnwindSafe(f)) {
        Ok(r) => Ok(r),
        Err(e) => Err(if let Some(s) = e.downcast_ref::<&str>() {
            s.to_string()
        } else if let Some(s) = e.downcast_ref::<String>() {
            s.clone()
        } else {
            "panic".to_string()
        }),
    }
}

/// Simple `--key value` argument lookup.
pub fn arg(name: &str) -> Option<String> {
    let a: Vec<String> = std::env::args().collect();
    a.iter().position(|x| x == name).and_then(|i| a.get(i + 1).cloned())
}
pub fn arg_or(name: &str, default: &str) -> String { arg(name).unwrap_or_else(|| default.to_string()) }
pub fn flag(name: &str) -> bool { std::env::args().any(|x| x == name) }

#[cfg(test)]
mod tests {
    use super::*;
    #[test]
    fn enc() {
        assert_eq!(ex64(1.0), json!([1, 0, 1]));
        assert_eq!(ex64(-8192.0), json!([-1, 1, 1]));
        assert_eq!(ex64(0.5), json!([1, -1, 4096]));
        assert_eq!(ex64(0.0), json!([0, 0]));
        assert_eq!(exu(8193), json!([1, 0, 1, 1]));
    }
}
