SPECIFICATION TSpec
INVARIANT TInv
POSTCONDITION Consumed
CHECK_DEADLOCK FALSE
