#!/bin/sh
# Builds the harness once (offline) so that the per-check builds are incremental.
# A failure here is not fatal: every check (re)builds the binaries it needs itself.
cd /verif/harness || exit 0
[ -f Cargo.lock ] || cp /repo/Cargo.lock Cargo.lock
CARGO_NET_OFFLINE=true cargo build --release --offline 2>&1 | tail -3
exit 0
