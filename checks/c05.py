"""C05 - transfer functions and their lookup tables are faithful, monotone and total.

Spec: spec/Lut.tla (bit-exact integer model of the f32 -> u8 / u16 fast paths over the tables DUMPED from the compiled
code), spec/Transfer.tla (the published curves as relations between integer powers). MC_Lut checks the model over all
classes / segments / codes of the dumped tables (index in range, monotone, saturating, onto, error < 0.6 code, decode
then encode) and prints the model's code boundaries, which the harness executes on the real encoders. The harness
(harness/src/bin/lut.rs, built with --profile sweep) sweeps the real encoders (quick: both ends and a representative of
every class; thorough: all 2^32 bit patterns per encoding), runs f64 inputs around every breakpoint, all decoders, the
generic float curves and the Rgb/Luma forms; TraceLut.tla judges every recorded event.
The Python arithmetic in this file only produces calibration figures for the evidence file; the verdict is TLC's."""
import json, re
from decimal import Decimal as D, getcontext
from common import *

getcontext().prec = 40


# ----------------------------------------------------------------------------- build (profile `sweep`: opt-level 3)

def build_sweep(bins, timeout=1800):
    lock = open(HARNESS / ".build.lock", "w")
    fcntl.flock(lock, fcntl.LOCK_EX)
    try:
        if not (HARNESS / "Cargo.lock").exists():
            shutil.copy("/repo/Cargo.lock", HARNESS / "Cargo.lock")
        cmd = ["cargo", "build", "--profile", "sweep", "--offline"]
        for b in bins:
            cmd += ["--bin", b]
        env = dict(os.environ, CARGO_NET_OFFLINE="true", CARGO_TERM_COLOR="never")
        t = time.time()
        try:
            r = subprocess.run(cmd, cwd=HARNESS, env=env, stdout=subprocess.PIPE, stderr=subprocess.STDOUT, text=True, timeout=timeout)
        except subprocess.TimeoutExpired:
            raise ToolError("cargo build timed out")
        if r.returncode != 0:
            errs = [l for l in r.stdout.splitlines() if l.startswith("error")]
            raise ToolError("harness does not build against the working tree (%s)\n%s" % ("; ".join(errs[:5]), "\n".join(r.stdout.splitlines()[-40:])))
        log("cargo build --profile sweep %s: %.1fs" % (",".join(bins), time.time() - t))
    finally:
        fcntl.flock(lock, fcntl.LOCK_UN)
        lock.close()
    return {b: str(HARNESS / "target" / "sweep" / b) for b in bins}


# ----------------------------------------------------------------------------- model

RE_MCFAIL = re.compile(r'^<<"MCFAIL", "(\w+)", "(\w+)", (-?\d+), "([^"]*)">>$')
MODEL_WHY = {
    "index-out-of-range": "the table index of a clamped input is not below the table length (the get_unchecked obligation)",
    "code-above-255": "the table arithmetic yields a value above 255 before the cast", "code-above-65535": "the table arithmetic yields a value above 65535 before the cast",
    "not-monotone": "the code decreases from this class / segment to the next", "class0-not-0": "the lowest class does not map to code 0",
    "last-class-not-255": "the class of 1 - 2^-24 does not map to 255", "last-class-not-65535": "the class of 1 - 2^-24 does not map to 65535",
    "class-not-uniform": "the two ends of one class of 4096 patterns differ", "zero-not-0": "zero, a negative number or NaN does not map to code 0",
    "one-not-255": "1.0 or +inf does not map to 255", "one-not-65535": "1.0 or +inf does not map to 65535",
    "code-not-produced": "no input produces this code (or its first input is not where the monotone model puts it)",
    "fidelity": "|max f(x) - code| >= 0.6 at 0 or at 1", "fidelity-first": "max f(x) <= code - 0.6 at the first input of this code",
    "fidelity-last": "max f(x) >= code + 0.6 at the last input of this code", "dec32-reencode": "the f32 decode table value does not encode back to its code",
    "dec64-reencode": "the f64 decode table value does not encode back to its code", "toe-to-table-not-monotone": "the code decreases from the linear toe to the table",
    "toe-not-monotone": "the linear toe decreases", "entry-halves": "malformed table entry",
}


def model_consts(ctx, lut):
    consts, dec16 = ctx.p("consts.json"), ctx.p("dec16.json")
    run_bin(lut, ["--dump", consts, "--dec16", dec16])
    return {"LUT_CONSTS": consts, "LUT_DEC16": dec16}


LUT_ACTIONS = {"from_linear_int", "from_linear_int_f64", "from_linear_run", "into_linear_int", "float_curve", "start_curve", "form"}
MC_PHASES = {"hdr8", "cls8", "code8", "hdr16", "seg16", "code16", "walk", "done"}
RE_TAKEN = re.compile(r'^<<"TAKEN", "(\w+)", "(\w+)">>$')


def model_run(ctx, env, stride16):
    """One exhaustive run, without -coverage: TLC's cost-model construction inlines the whole operator call tree of this
    specification and runs out of memory before the search starts. Vacuity is controlled by the TAKEN witness lines
    instead: every action of Lut.tla leaves its own tag in `last`; every tag and every phase of MC_Lut must be seen."""
    r = tlc_mc(ctx, "MC_Lut", constants={"Stride16": stride16}, tag="lut_model", workers=6, coverage=False, env=env, timeout=3000)
    fails, notes, tags, phases = [], [], set(), set()
    for line in open(r.out_path):
        line = line.rstrip("\n")
        m = RE_MCFAIL.match(line)
        if m:
            fails.append((m.group(1), m.group(2), int(m.group(3)), m.group(4)))
            continue
        if line.startswith('<<"MCFAIL"') or line.startswith('<< "MCFAIL"'):
            raise ToolError("unparsable MCFAIL line in %s: %s" % (r.out_path, line[:200]))
        m = RE_TAKEN.match(line)
        if m:
            tags.add(m.group(1))
            phases.add(m.group(2))
            continue
        m = RE_NOTE.match(line)
        if m:
            notes.append(m.group(1))
    if (LUT_ACTIONS - tags) or (MC_PHASES - phases):
        raise ToolError("vacuity: actions of Lut.tla never taken in MC_Lut: %s; phases never reached: %s"
                        % (sorted(LUT_ACTIONS - tags), sorted(MC_PHASES - phases)))
    return r, sorted(set(fails)), notes, extract_prints(r.out_path, "REPLAY")


def report_model_fails(ctx, fails):
    # one report per (encoding, reason); the smallest index is the witness
    seen = {}
    for (enc, phase, k, why) in fails:
        seen.setdefault((enc, why), []).append((phase, k))
    for (enc, why), where in sorted(seen.items()):
        phase, k = where[0]
        what = "model over the dumped tables, %s: %s - %s (%s %d%s)" % (
            enc, why, MODEL_WHY.get(why, why), {"cls8": "class", "seg16": "segment", "code8": "code", "code16": "code"}.get(phase, phase), k,
            ", and %d more" % (len(where) - 1) if len(where) > 1 else "")
        report(ctx, {"kind": "model", "enc": enc, "class": why, "k": k}, what,
               {"kind": "model", "enc": enc, "phase": phase, "k": k, "why": why, "how": "./check C05 --replay <this file>"})


# ----------------------------------------------------------------------------- recordings

def split_recording(ctx, path, tag):
    """curve groups (stateful: cut only at reset) and everything else (independent events, dealt round-robin over the
    chunks so that the expensive ones - Adobe's 563rd powers - do not all land in one TLC process)"""
    flat, curves = [], []
    with open(path) as f:
        for line in f:
            (curves if ('"ev":"curve"' in line or '"ev":"reset"' in line) else flat).append(line)
    fp, cp = ctx.p(tag + ".flat.ndjson"), ctx.p(tag + ".curves.ndjson")
    return flat, curves, fp, cp


def deal(lines, path, chunk):
    k = max(1, -(-len(lines) // chunk))
    with open(path, "w") as f:
        for j in range(k):
            f.writelines(lines[j::k])


def fval(j):
    if j[0] in (2, 3, -3):
        return None
    m = 0
    for i, limb in enumerate(j[2:]):
        m += limb << (13 * i)
    return D(j[0] * m) * D(8192) ** j[1]


def f32_of(p):
    import struct
    return struct.unpack("<f", struct.pack("<I", (p[0] << 31) | p[1]))[0]


def describe(e):
    k = e.get("ev")
    tail = " PANIC %s" % e.get("msg", "") if e.get("panic") else ""
    if k == "step":
        return "%s from_linear<f32> (%s, %s sweep): inputs %r (bits %#x) ..= %r (bits %#x) -> code %s%s" % (
            e["enc"], e["api"], e["mode"], f32_of(e["first"]), (e["first"][0] << 31) | e["first"][1], f32_of(e["last"]),
            (e["last"][0] << 31) | e["last"][1], e["code"], tail)
    if k == "nan":
        return "%s from_linear<f32> (%s): %s NaN patterns -> code %s%s" % (e["enc"], e["api"], e["n"], e["code"], tail)
    if k == "abort":
        return "%s from_linear<f32> (%s): sweep gave up: %s%s" % (e["enc"], e["api"], e["why"], tail)
    if k == "spec":
        return "%s from_linear<f32> (%s): input %r (bits %#x) -> code %s%s" % (e["enc"], e["api"], f32_of(e["x"]), (e["x"][0] << 31) | e["x"][1], e["code"], tail)
    if k == "pts":
        return "%s from_linear<f32> (%s): inputs with bits %s.. -> codes %s..%s" % (e["enc"], e["api"], e["mags"][:4], e["codes"][:4], tail)
    if k == "f64":
        return "%s from_linear<f64>: input %r -> code %s%s" % (e["enc"], dy_to_float(e["x"]), e["code"], tail)
    if k == "dec":
        return "%s into_linear(code %s of %s): f32 %r, f64 %r; encoded back: %s, %s%s" % (
            e["enc"], e["k"], e["max"], dy_to_float(e["x32"]), dy_to_float(e["x64"]), e["back32"], e["back64"], tail)
    if k == "curve":
        return "%s %s<%s,%s>(%r) = %r, inverse gives %r%s" % (e["enc"], "from_linear" if e["dir"] == "enc" else "into_linear", e["t"], e["t"],
                                                         dy_to_float(e["x"]), dy_to_float(e["y"]), dy_to_float(e["back"]), tail)
    if k == "form":
        return "%s: got %s, component-wise calls give %s%s" % (e["what"], [dy_to_float(x) for x in e["got"]], [dy_to_float(x) for x in e["want"]], tail)
    return json.dumps(e)[:300]


REASONS = {
    "panic": "palette panicked (an out-of-range table index is a panic under hook H1)",
    "code-differs-from-model": "the code differs from the bit-exact model of the published algorithm over the compiled tables",
    "model-not-constant-on-run": "the real encoder is constant on this run of inputs but the model is not",
    "run-not-maximal-in-model": "the real encoder changes its output at an end of this run where the model does not",
    "error-0.6-or-more": "|max f(x) - code| >= 0.6 at an end of this run of inputs",
    "nan-code-differs-from-model": "NaN inputs do not give the model's code (0)", "sweep-aborted": "the sweep gave up",
    "f64-code-differs-from-model": "the code differs from the model applied to the input rounded to f32",
    "decoded-not-finite": "the decoder returned a non-finite value", "decode-then-encode-differs": "decode then encode does not reproduce the code",
    "decoded-off-curve": "the decoded value is not on the published curve within tolerance",
    "off-the-published-curve": "the result is not on the published curve within tolerance",
    "not-mutually-inverse": "applying the opposite function does not give the input back within tolerance (1e-6 at the join)",
    "not-monotone": "the result decreases (by more than the step of 1e-6 allowed at the join / 2 ulp of rounding)",
    "recording-not-sorted": "harness error: inputs not sorted", "form-differs-from-componentwise": "the colour-level form differs from the component-wise calls",
    "not-finite-or-negative": "non-finite or negative result for an input in [0, 1]",
}


def coords_of(ev, why):
    d = {"kind": ev.get("ev"), "enc": ev.get("enc"), "class": why, "api": ev.get("api"), "t": ev.get("t"), "dir": ev.get("dir")}
    if ev.get("ev") == "curve":
        d["x"] = dy_to_float(ev["x"])
    if ev.get("ev") in ("dec",):
        d["k"] = ev.get("k")
    if ev.get("ev") in ("step", "spec", "nan"):
        d["code"] = ev.get("code")
    if ev.get("ev") == "form":
        d["what"] = ev.get("what")
    return d


def no_wrapped_rejects(ctx, tag):
    for out in ctx.work.glob(tag + "*.tlc.out"):
        for line in open(out):
            if line.startswith('<< "REJECT"'):
                raise ToolError("wrapped REJECT line in %s" % out)


def judge(ctx, path, env, tag, flat_chunk, known_limit=40):
    flat, curves, fp, cp = split_recording(ctx, path, tag)
    rejected, accepted = [], 0
    # a TLC process costs 4-5 s before it judges its first event (start-up, JSON, JIT): as few chunks as there are jobs
    jobs = max(2, (NCPU - 2) // 2)
    def do_flat():
        chunk = min(flat_chunk, max(200, -(-len(flat) // jobs)))
        deal(flat, fp, chunk)
        return validate_trace(ctx, "TraceLut", fp, stateless=True, chunk_events=chunk, env=env, tag=tag + ".flat", jobs=jobs)
    def do_curves():
        with open(cp, "w") as f:
            f.writelines(curves)
        # cut only in front of a reset (the harness opens a section of at most 121 points with a reset)
        chunk = min(flat_chunk, max(100, len(curves) // jobs - 60))
        return validate_trace(ctx, "TraceLut", cp, stateless=False, chunk_events=chunk, env=env, tag=tag + ".curves", jobs=jobs)
    # the two validations run side by side, half of the cores each
    with ThreadPoolExecutor(max_workers=2) as ex:
        futs = ([ex.submit(do_flat)] if flat else []) + ([ex.submit(do_curves)] if curves else [])
        for fu in futs:
            res = fu.result()
            rejected += res.rejected
            accepted += res.events - len(res.rejected)
    no_wrapped_rejects(ctx, tag)
    ctx.cov["traces_validated_against_impl"] += accepted
    # many rejections of one kind are one finding: report one witness per (kind, encoding, api/type/direction, reason)
    groups = {}
    for (line, ev, info, _scen) in rejected:
        why = info.strip().strip('"')
        groups.setdefault((ev.get("ev"), ev.get("enc"), ev.get("api"), ev.get("t"), ev.get("dir"), why), []).append(ev)
    for key, evs in sorted(groups.items(), key=lambda kv: str(kv[0])):
        ev, why = evs[0], key[-1]
        what = "%s - %s%s" % (describe(ev), REASONS.get(why, why), " (and %d more events of this kind)" % (len(evs) - 1) if len(evs) > 1 else "")
        report(ctx, coords_of(ev, why), what, {"kind": "event", "bin": "lut", "event": ev, "how": "./check C05 --replay <this file>"})
    return len(rejected)


# ----------------------------------------------------------------------------- calibration figures (evidence only)

def _sets():
    return {
        "srgb": [dict(slope=D("12.92"), knee=D("0.04045"), a=D("0.055"), b=D("1.055"), g=D("2.4")),
                 dict(slope=D("12.92"), knee=D("0.04045"), a=D("0.05499996864597052"), b=D("1.05499996864597052"), g=D("2.4"))],
        "rec_oetf": [dict(slope=D("4.5"), knee=D("0.081"), a=D("0.099"), b=D("1.099"), g=D(20) / D(9)),
                     dict(slope=D("4.5"), knee=D("4.5") * D("0.018053968510807"), a=D("0.09929682680944"), b=D("1.09929682680944"), g=D(20) / D(9))],
        "adobe": [dict(slope=None, knee=D(0), a=D(0), b=D(1), g=D(563) / D(256))],
        "p3": [dict(slope=None, knee=D(0), a=D(0), b=D(1), g=D("2.6"))],
        "prophoto": [dict(slope=D(16), knee=D(1) / D(32), a=D(0), b=D(1), g=D("1.8"))],
        "linear": [dict(slope=D(1), knee=D(2), a=D(0), b=D(1), g=D(1))],
        "gamma": [dict(slope=None, knee=D(0), a=D(0), b=D(1), g=D(5) / D(11)), dict(slope=None, knee=D(0), a=D(0), b=D(1), g=D("2.2"))],
    }


def _enc(par, x):
    if par["slope"] is not None and x * par["slope"] <= par["knee"]:
        return x * par["slope"]
    if x == 0:
        return D(0)
    return par["b"] * x ** (1 / par["g"]) - par["a"]


def calibrate(path, every=1):
    """largest observed deviations, in the units the tolerances of Transfer.tla are expressed in (u = 2^-Prec of the
    encoded value; codes for the integer encoders). The join (2^-12 around a knee) is reported separately."""
    sets, mx = _sets(), {}
    def up(k, v):
        v = float(v)
        if k not in mx or v > mx[k]:
            mx[k] = v
    def ydev(curve, x, y):
        return min(abs(_enc(par, x) - y) / y for par in sets[curve])
    def near_knee(curve, v, dirn):
        for par in sets[curve]:
            if par["slope"] is None:
                continue
            kn = par["knee"] if dirn == "dec" else par["knee"] / par["slope"]
            if abs(v - kn) <= kn / 4096:
                return True
        return False
    prev = None
    with open(path) as f:
        for i, line in enumerate(f):
            if '"ev":"reset"' in line:
                prev = None
                continue
            is_curve = '"ev":"curve"' in line
            is_step = '"ev":"step"' in line and '"api":"pub"' in line
            if not (is_curve or is_step) and i % every:      # every curve point and every run; decoders sampled
                continue
            if not (is_curve or is_step or '"ev":"dec"' in line):
                continue
            e = json.loads(line)
            if e.get("panic"):
                continue
            if e["ev"] == "dec" and e["k"] > 0:
                y = D(e["k"]) / D(e["max"])
                for t, bits in (("32", 24), ("64", 53)):
                    x = fval(e["x" + t])
                    if x is not None and x > 0:
                        up("decode.%s.f%s.u" % (e["enc"], t), ydev(e["enc"], x, y) * 2 ** bits)
            elif e["ev"] == "step":
                mxc = 255 if e["enc"] != "prophoto" else 65535
                for end, p in (("first", e["first"]), ("last", e["last"])):
                    if p[0] == 1 or p[1] > 0x3f800000:
                        continue
                    x = D(f32_of(p))
                    err = min(abs(mxc * _enc(par, x) - e["code"]) for par in sets[e["enc"]])
                    up("encode.%s.error_in_codes" % e["enc"], err)
            elif e["ev"] == "curve":
                x, y, b = fval(e["x"]), fval(e["y"]), fval(e["back"])
                if None in (x, y, b):
                    continue
                bits = 24 if e["t"] == "f32" else 53
                lin, encd = (x, y) if e["dir"] == "enc" else (y, x)
                knee = near_knee(e["enc"], x, e["dir"])
                if encd > 0 and lin > 0:
                    up("curve.%s.%s%s" % (e["enc"], e["t"], ".at_join.abs" if knee else ".u"),
                       ydev(e["enc"], lin, encd) * (encd if knee else 2 ** bits))
                if x > 0:
                    up("roundtrip.%s.%s%s" % (e["enc"], e["t"], ".at_join.abs" if knee else ".u"), abs(b - x) * (1 if knee else 2 ** bits / x))
                if prev is not None and prev[0] == (e["enc"], e["t"], e["dir"]) and y < prev[2]:
                    straddle = near_knee(e["enc"], x, e["dir"]) or near_knee(e["enc"], prev[1], e["dir"])
                    up("monotone_dip.%s.%s%s" % (e["enc"], e["t"], ".at_join.abs" if straddle else ".ulps"),
                       (prev[2] - y) * (1 if straddle else 2 ** (bits - 1) / prev[2]))
                prev = ((e["enc"], e["t"], e["dir"]), x, y)
    return {k: float("%.4g" % v) for k, v in sorted(mx.items())}


def nontrivial(e):
    k = e.get("ev")
    mx = e.get("max", 65535 if e.get("enc") == "prophoto" else 255)
    if k in ("step", "spec", "f64", "nan"):
        return e.get("code") not in (0, mx, -1)
    if k == "pts":
        return any(c not in (0, mx, -1) for c in e.get("codes", []))
    if k == "dec":
        return e.get("k") not in (0, mx)
    if k == "curve":
        return e["x"] not in ([0, 0], [1, 0, 1])
    return k == "form"


# ----------------------------------------------------------------------------- run / replay

def run(ctx):
    lut = build_sweep(["lut"])["lut"]
    env = model_consts(ctx, lut)
    r, fails, notes, replays = model_run(ctx, env, 64 if ctx.quick else 8)
    report_model_fails(ctx, fails)
    hist = ctx.p("hist.ndjson")
    with open(hist, "w") as f:
        for s in replays:
            f.write(s + "\n")
    tp = ctx.p("lut.ndjson")
    rb = run_bin(lut, ["--tier", ctx.tier, "--out", tp, "--hist", hist], env={"VERIF_SEED": ctx.seed, "VERIF_THREADS": 8}, timeout=3000)
    stats = json.loads((rb.stderr or "{}").strip().splitlines()[-1])
    n_rej = judge(ctx, tp, env, "lut", 4000 if ctx.quick else 12000)
    ctx.cov["evaluations"] += int(stats.get("evaluations", 0))
    add_samples(ctx, tp, n=5, every=4099)
    ctx.cov["distinct_nontrivial"] = count_distinct(tp, lambda e: json.dumps([e.get(k) for k in ("ev", "enc", "api", "mode", "first", "last", "x", "mags", "k", "t", "dir", "what", "want")]), nontrivial)
    cal = calibrate(tp, every=1 if ctx.quick else 16)
    return finish(ctx, "model_checking",
                  rule="a case is one recorded call: one maximal run of equal outputs of an integer encoder over the swept inputs "
                       "(first input, last input, code), one special / f64 input, one batch of inputs at a model-predicted boundary, "
                       "one decoded code (f32 and f64), one point of a float curve with its round trip, one colour-level form; distinct "
                       "by exact input; non-trivial when the code is neither 0 nor the maximum (encoders, decoders), the input is "
                       "neither 0 nor 1 (curves); all forms count. `evaluations` adds the number of real encoder calls the sweeps made.",
                  explanation="Lut.tla is a bit-exact integer model of the float->integer fast paths over the tables dumped from the "
                              "compiled code. TLC checks it over every reachable class of every 8-bit table, every segment of the 16-bit "
                              "table and the boundary below every 8-bit code / every %s 16-bit code (index in range, monotone, saturating, "
                              "onto, |max f - code| < 0.6 by comparing integer powers, decode-then-encode), and emits the boundaries, which "
                              "are executed on the real encoders. TraceLut.tla then requires the step function recorded from the real "
                              "encoders (%s) to equal the model's run by run and to stay within 0.6 of the published curve at both ends "
                              "of every run, and judges f64 inputs, decoders, float curves and colour-level forms."
                              % ("64th" if ctx.quick else "8th", "class ends and representatives" if ctx.quick else "all 2^32 bit patterns per encoding"),
                  trusted=["the exact encoding of floats in the harness (pvh::ex64, unit-tested)", "TLC, JVM, rustc",
                           "the sweeper visits the space it says it visits (order index -> bit pattern, a dozen lines in lut.rs)",
                           "published curve constants as written in Transfer.tla; MaxBits = 1 - 2^-24 in Lut.tla",
                           "within a 16-bit table segment and within the 16-bit linear toe the model is monotone by construction "
                           "(floor of a non-decreasing linear function; composition of two roundings) - argued, not enumerated"],
                  extra={"per_kind": stats.get("per_kind"), "panics": stats.get("panics"), "real_encoder_calls": stats.get("evaluations"),
                         "model": {"states": r.distinct, "failures": len(fails), "boundaries_emitted": len(replays), "notes": notes[:10]},
                         "rejected_events_total": n_rej, "max_deviation_observed": cal,
                         "tolerances": {"integer_codes": "|max f(x) - code| < 0.6 (the statement's figure), decided with a 2^-60 margin",
                                        "float_curves_and_decoders": "encoded value within 128 u (f32), 512 u (f64), 4096 u (Rec. f64: 15-digit constants), u = 2^-Prec",
                                        "round_trip": "128 u relative; < 1e-6 within 2^-12 of the join", "join_band": "2^-12 relative: either branch",
                                        "monotone": "dip <= 2 ulp (rounding) or < 1e-6 across the join"}})


def replay(ctx, path):
    rp = json.load(open(path))["replay"]
    lut = build_sweep(["lut"])["lut"]
    env = model_consts(ctx, lut)
    if rp.get("kind") == "model":
        r, fails, notes, _ = model_run(ctx, env, 64)
        same = [f for f in fails if f[0] == rp["enc"] and f[3] == rp["why"]]
        if same:
            print("VIOLATION property=C05 replay=%s" % path)
            print("  still failing on the current tables: %s %s at %s %d" % (rp["enc"], rp["why"], same[0][1], same[0][2]))
            return 1
        print("replay accepted: the model over the current tables no longer reports %s for %s" % (rp["why"], rp["enc"]))
        return 0
    tp = ctx.p("replay.ndjson")
    run_bin(lut, ["--one", json.dumps(rp["event"]), "--out", tp], env={"VERIF_SEED": ctx.seed, "VERIF_THREADS": 8}, timeout=3000)
    n = judge(ctx, tp, env, "replay", 4000)
    if ctx.violations:
        print("VIOLATION property=C05 replay=%s" % path)
        print("  still rejected: %s" % ctx.violations[0]["what"][:400])
        return 1
    print("replay accepted (%d event(s) re-executed)" % sum(1 for _ in open(tp)))
    return 0
