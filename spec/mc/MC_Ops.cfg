SPECIFICATION MCSpec
CONSTANTS
  NCol = 4
  Secs = {"mix", "mixhue", "inc", "colour", "scheme", "arith", "machine"}
INVARIANTS MachineInv MixThm MixHueThm IncThm ColourThm SchemeThm ArithThm
PROPERTY MachineStep
CHECK_DEADLOCK FALSE
