------------------------------- MODULE LnExp -------------------------------
(***************************************************************************)
(* Natural logarithm and exponential in 104-bit fixed point (module Fx).    *)
(*                                                                         *)
(* FxLn(y), y > 0:  y is brought into [1/sqrt 2, sqrt 2] by exact halving /  *)
(*   doubling (ln y = k ln 2 + ln(y / 2^k)), then                            *)
(*   ln y = 2 atanh z = 2 (z + z^3/3 + z^5/5 + ...),  z = (y - 1)/(y + 1),    *)
(*   |z| <= 0.1716, 21 terms: remainder below 2^-108.                        *)
(* FxExp(x), |x| < 40:  x = k ln 2 + r with |r| <= (ln 2)/2, Taylor series of *)
(*   exp r up to r^24/24! (remainder below 2^-110), result scaled by 2^k.     *)
(* Every Fx product truncates below 2^-104; about 45 of them are chained, so  *)
(* the absolute error of FxLn is below 2^-96 and the relative error of FxExp  *)
(* below 2^-95.  Checked against tabulated values of ln 2, ln 3, ln 10, e,    *)
(* sqrt e, ... and against each other in MC_Cam16.                           *)
(***************************************************************************)
EXTENDS Fx

(* ln 2 = 0.6931 4718 0559 9453 0941 7232 1214 5817 6568 ...  (groups of four decimals) *)
Ln2Fx == FxDec(1, 0, <<6931, 4718, 559, 9453, 941, 7232, 1214, 5817, 6568>>)
(* sqrt 2 = 1.4142 1356 2373 0950 4880 1688 7242 0969 8078 ... *)
Sqrt2Fx == FxDec(1, 1, <<4142, 1356, 2373, 950, 4880, 1688, 7242, 969, 8078>>)

RECURSIVE AtanhTerms(_, _, _, _)
(* sum over odd n' >= n of z^n' / n', given p = z^n and z2 = z^2 *)
AtanhTerms(p, z2, n, last) ==
  IF n > last \/ FxIsZero(p) THEN FxZero
  ELSE FxAdd(FxDivInt(p, n), AtanhTerms(FxMul(p, z2), z2, n + 2, last))

(* ln y for y in [1/sqrt 2, sqrt 2] *)
LnCore(y) == LET z == FxDiv(FxSub(y, FxOne), FxAdd(y, FxOne))
             IN FxShl(AtanhTerms(z, FxSqr(z), 1, 41), 1)

RECURSIVE LnRed(_, _)
LnRed(y, k) == IF FxLt(Sqrt2Fx, y) THEN LnRed(FxHalf(y), k + 1)
               ELSE IF FxLt(y, FxHalf(Sqrt2Fx)) THEN LnRed(FxShl(y, 1), k - 1)
               ELSE FxAdd(FxMulInt(Ln2Fx, k), LnCore(y))
(* natural logarithm, y > 0 (y >= 2^-60, say: each doubling is exact, each halving drops one bit below 2^-104) *)
FxLn(y) == LnRed(y, 0)

RECURSIVE ExpTerms(_, _, _, _)
(* sum over k >= n of r^k / k!, given term = r^n / n! *)
ExpTerms(term, r, n, last) ==
  IF n > last \/ FxIsZero(term) THEN FxZero
  ELSE FxAdd(term, ExpTerms(FxDivInt(FxMul(term, r), n + 1), r, n + 1, last))
ExpCore(r) == ExpTerms(FxOne, r, 0, 24)

RECURSIVE ExpRed(_, _)
ExpRed(x, k) == IF FxLt(FxHalf(Ln2Fx), x) THEN ExpRed(FxSub(x, Ln2Fx), k + 1)
                ELSE IF FxLt(x, FxNeg(FxHalf(Ln2Fx))) THEN ExpRed(FxAdd(x, Ln2Fx), k - 1)
                ELSE FxScale2(ExpCore(x), k)
(* exponential, |x| < 40 *)
FxExp(x) == ExpRed(x, 0)
=============================================================================
