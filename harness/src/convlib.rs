// Included by the conv* binaries after `type T = f32|f64;` and `const TNAME`.
// A type-erased universe of palette colour types ("nodes") of the D65 / sRGB family with the full
// matrix of conversions between them (existence decided at compile time), driven by NDJSON commands.
//
// command  {"id":n,"from":"srgb","in":["<hex bits of f64>",..],"path":["xyz","lab","srgb"],"mode":"u|c|t|a"}
//   -> event {"ev":"walk",...}: the value after every hop (exact), its image in Xyz by the direct
//      unclamped route ("hub"), per-hop ok flags for try_from_color, panic / finite flags.
// command  {"id":n,"op":"bounds","node":"hwb","in":[..],"alpha":0|1}
//   -> event {"ev":"bounds",...}: clamp, clamp_assign, slice clamp_assign, is_within_bounds before/after.
// command  {"op":"consts"} -> one {"ev":"consts"} event per node with the min_/max_ accessor values,
//      and one {"ev":"caps"} event with the conversion existence matrix.

use palette::convert::{FromColorMut, FromColorUnclamped, FromColorUnclampedMut, IntoColor, IntoColorMut, IntoColorUnclamped, IntoColorUnclampedMut, TryFromColor, TryIntoColor};
use palette::white_point::D65;
use palette::{Alpha, Clamp, ClampAssign, FromColor, IsWithinBounds, WithAlpha};
use palette::{Hsl, Hsluv, Hsv, Hwb, Lab, Lch, Lchuv, LinSrgb, Luv, Okhsl, Okhsv, Okhwb, Oklab, Oklch, Srgb, Xyz, Yxy};
use palette::luma::{LinLuma, SrgbLuma};
use palette::lms::{BradfordLms, VonKriesLms};
use pvh::*;
use serde_json::{json, Value};
use std::marker::PhantomData;

type V = [T; 4]; // up to three components in declared order, alpha last (index 3)

pub trait Node: Copy + Clamp + ClampAssign + IsWithinBounds<Mask = bool> + 'static {
    const NAME: &'static str;
    const N: usize;
    fn of(v: &V) -> Self;
    fn arr(self) -> V;
    /// (min, max) per component from the type's own accessors; None = no such accessor
    fn bounds() -> Vec<(Option<T>, Option<T>)>;
}

macro_rules! node3 {
    ($ty:ty, $name:expr, $f0:ident, $f1:ident, $f2:ident, [$($b:expr),*]) => {
        impl Node for $ty {
            const NAME: &'static str = $name;
            const N: usize = 3;
            fn of(v: &V) -> Self { <$ty>::new(v[0], v[1], v[2]) }
            fn arr(self) -> V { [self.$f0, self.$f1, self.$f2, 0.0] }
            fn bounds() -> Vec<(Option<T>, Option<T>)> { vec![$($b),*] }
        }
    };
}
macro_rules! node_hue_first {
    ($ty:ty, $name:expr, $f1:ident, $f2:ident, [$($b:expr),*]) => {
        impl Node for $ty {
            const NAME: &'static str = $name;
            const N: usize = 3;
            fn of(v: &V) -> Self { <$ty>::new(v[0], v[1], v[2]) }
            fn arr(self) -> V { [self.hue.into_inner(), self.$f1, self.$f2, 0.0] }
            fn bounds() -> Vec<(Option<T>, Option<T>)> { vec![$($b),*] }
        }
    };
}
macro_rules! node_hue_last {
    ($ty:ty, $name:expr, $f0:ident, $f1:ident, [$($b:expr),*]) => {
        impl Node for $ty {
            const NAME: &'static str = $name;
            const N: usize = 3;
            fn of(v: &V) -> Self { <$ty>::new(v[0], v[1], v[2]) }
            fn arr(self) -> V { [self.$f0, self.$f1, self.hue.into_inner(), 0.0] }
            fn bounds() -> Vec<(Option<T>, Option<T>)> { vec![$($b),*] }
        }
    };
}
macro_rules! node1 {
    ($ty:ty, $name:expr, $f0:ident, [$($b:expr),*]) => {
        impl Node for $ty {
            const NAME: &'static str = $name;
            const N: usize = 1;
            fn of(v: &V) -> Self { <$ty>::new(v[0]) }
            fn arr(self) -> V { [self.$f0, 0.0, 0.0, 0.0] }
            fn bounds() -> Vec<(Option<T>, Option<T>)> { vec![$($b),*] }
        }
    };
}
macro_rules! mm { ($ty:ty, $min:ident, $max:ident) => { (Some(<$ty>::$min()), Some(<$ty>::$max())) }; }
macro_rules! mn { ($ty:ty, $min:ident) => { (Some(<$ty>::$min()), None) }; }
const FREE: (Option<T>, Option<T>) = (None, None);

type NXyz = Xyz<D65, T>;
type NYxy = Yxy<D65, T>;
type NLab = Lab<D65, T>;
type NLch = Lch<D65, T>;
type NLuv = Luv<D65, T>;
type NLchuv = Lchuv<D65, T>;
type NHsluv = Hsluv<D65, T>;
type NOklab = Oklab<T>;
type NOklch = Oklch<T>;
type NOkhsl = Okhsl<T>;
type NOkhsv = Okhsv<T>;
type NOkhwb = Okhwb<T>;
type NLinSrgb = LinSrgb<T>;
type NSrgb = Srgb<T>;
type NHsl = Hsl<palette::encoding::Srgb, T>;
type NHsv = Hsv<palette::encoding::Srgb, T>;
type NHwb = Hwb<palette::encoding::Srgb, T>;
type NLinLuma = LinLuma<D65, T>;
type NSrgbLuma = SrgbLuma<T>;
type NLmsVk = VonKriesLms<D65, T>;
type NLmsBfd = BradfordLms<D65, T>;

node3!(NXyz, "xyz", x, y, z, [mm!(NXyz, min_x, max_x), mm!(NXyz, min_y, max_y), mm!(NXyz, min_z, max_z)]);
node3!(NYxy, "yxy", x, y, luma, [mm!(NYxy, min_x, max_x), mm!(NYxy, min_y, max_y), mm!(NYxy, min_luma, max_luma)]);
node3!(NLab, "lab", l, a, b, [mm!(NLab, min_l, max_l), mm!(NLab, min_a, max_a), mm!(NLab, min_b, max_b)]);
node_hue_last!(NLch, "lch", l, chroma, [mm!(NLch, min_l, max_l), mm!(NLch, min_chroma, max_chroma), FREE]);
node3!(NLuv, "luv", l, u, v, [mm!(NLuv, min_l, max_l), mm!(NLuv, min_u, max_u), mm!(NLuv, min_v, max_v)]);
node_hue_last!(NLchuv, "lchuv", l, chroma, [mm!(NLchuv, min_l, max_l), mm!(NLchuv, min_chroma, max_chroma), FREE]);
node_hue_first!(NHsluv, "hsluv", saturation, l, [FREE, mm!(NHsluv, min_saturation, max_saturation), mm!(NHsluv, min_l, max_l)]);
node3!(NOklab, "oklab", l, a, b, [mm!(NOklab, min_l, max_l), FREE, FREE]);
node_hue_last!(NOklch, "oklch", l, chroma, [mm!(NOklch, min_l, max_l), mn!(NOklch, min_chroma), FREE]);
node_hue_first!(NOkhsl, "okhsl", saturation, lightness, [FREE, mm!(NOkhsl, min_saturation, max_saturation), mm!(NOkhsl, min_lightness, max_lightness)]);
node_hue_first!(NOkhsv, "okhsv", saturation, value, [FREE, mm!(NOkhsv, min_saturation, max_saturation), mm!(NOkhsv, min_value, max_value)]);
node_hue_first!(NOkhwb, "okhwb", whiteness, blackness, [FREE, mm!(NOkhwb, min_whiteness, max_whiteness), mm!(NOkhwb, min_blackness, max_blackness)]);
node3!(NLinSrgb, "linsrgb", red, green, blue, [mm!(NLinSrgb, min_red, max_red), mm!(NLinSrgb, min_green, max_green), mm!(NLinSrgb, min_blue, max_blue)]);
node3!(NSrgb, "srgb", red, green, blue, [mm!(NSrgb, min_red, max_red), mm!(NSrgb, min_green, max_green), mm!(NSrgb, min_blue, max_blue)]);
node_hue_first!(NHsl, "hsl", saturation, lightness, [FREE, mm!(NHsl, min_saturation, max_saturation), mm!(NHsl, min_lightness, max_lightness)]);
node_hue_first!(NHsv, "hsv", saturation, value, [FREE, mm!(NHsv, min_saturation, max_saturation), mm!(NHsv, min_value, max_value)]);
node_hue_first!(NHwb, "hwb", whiteness, blackness, [FREE, mm!(NHwb, min_whiteness, max_whiteness), mm!(NHwb, min_blackness, max_blackness)]);
node1!(NLinLuma, "linluma", luma, [mm!(NLinLuma, min_luma, max_luma)]);
node1!(NSrgbLuma, "srgbluma", luma, [mm!(NSrgbLuma, min_luma, max_luma)]);
node3!(NLmsVk, "lmsvk", long, medium, short, [mn!(NLmsVk, min_long), mn!(NLmsVk, min_medium), mn!(NLmsVk, min_short)]);
node3!(NLmsBfd, "lmsbfd", long, medium, short, [mn!(NLmsBfd, min_long), mn!(NLmsBfd, min_medium), mn!(NLmsBfd, min_short)]);

/// A user-defined colour type that keeps its transparency in a field of its own (`#[palette(alpha)]`), wired into the
/// conversion graph by the derive macro exactly as in the documentation of `palette::convert` ("With alpha component"):
/// only the conversions from and to `Rgb` are written by hand, everything else - including the conversions from and to
/// `Alpha<C, T>` that carry the transparency over - is generated.
#[derive(Clone, Copy, Debug, PartialEq, palette::convert::FromColorUnclamped, palette::WithAlpha)]
#[palette(skip_derives(Rgb), component = "T", rgb_standard = "palette::encoding::Srgb")]
pub struct UserRgb {
    red: T,
    green: T,
    blue: T,
    #[palette(alpha)]
    alpha: T,
}
impl<S> FromColorUnclamped<palette::rgb::Rgb<S, T>> for UserRgb
where
    Srgb<T>: FromColorUnclamped<palette::rgb::Rgb<S, T>>,
{
    fn from_color_unclamped(color: palette::rgb::Rgb<S, T>) -> UserRgb {
        let srgb = Srgb::from_color_unclamped(color);
        UserRgb { red: srgb.red, green: srgb.green, blue: srgb.blue, alpha: 1.0 }
    }
}
impl<S> FromColorUnclamped<UserRgb> for palette::rgb::Rgb<S, T>
where
    Srgb<T>: palette::convert::IntoColorUnclamped<palette::rgb::Rgb<S, T>>,
{
    fn from_color_unclamped(color: UserRgb) -> palette::rgb::Rgb<S, T> {
        palette::convert::IntoColorUnclamped::into_color_unclamped(Srgb::new(color.red, color.green, color.blue))
    }
}

/// Alpha<A> -> UserRgb -> Alpha<A>, next to the same trip of the bare colour through Srgb
fn user_op<A: Node>(v: &V) -> Value
where
    UserRgb: FromColorUnclamped<Alpha<A, T>> + FromColorUnclamped<A>,
    Alpha<A, T>: FromColorUnclamped<UserRgb>,
    A: FromColorUnclamped<UserRgb>,
    NSrgb: FromColorUnclamped<A>,
    A: FromColorUnclamped<NSrgb>,
    A: WithAlpha<T, Color = A, WithAlpha = Alpha<A, T>>,
    Alpha<A, T>: WithAlpha<T, Color = A, WithAlpha = Alpha<A, T>>,
{
    let a = A::of(v);
    // the WithAlpha helpers on the bare and on the wrapped colour: attach, replace, split, remove, opaque, transparent
    let wa = {
        let n = A::N;
        let w = a.with_alpha(v[3]);
        let w2 = w.with_alpha(0.125 as T);
        let (sc, sa) = w.split();
        let wo = w.without_alpha();
        let op = a.opaque();
        let tr = w.transparent();
        let ea = |c: &A, al: T| -> Value { let mut o: Vec<Value> = c.arr()[..n].iter().map(|x| x.ex()).collect(); o.push(al.ex()); Value::Array(o) };
        json!({"with": ea(&w.color, w.alpha), "replaced": ea(&w2.color, w2.alpha), "split": ea(&sc, sa), "without": ea(&wo, v[3]),
               "opaque": ea(&op.color, op.alpha), "transparent": ea(&tr.color, tr.alpha)})
    };
    let aa: Alpha<A, T> = Alpha { color: a, alpha: v[3] };
    let u = UserRgb::from_color_unclamped(aa);
    let uo = UserRgb::from_color_unclamped(a);
    let srgb = NSrgb::from_color_unclamped(a);
    let back: Alpha<A, T> = Alpha::<A, T>::from_color_unclamped(u);
    let back_plain: A = A::from_color_unclamped(srgb);
    let back_opaque: A = A::from_color_unclamped(u);
    let n = A::N;
    let e3 = |x: [T; 3]| -> Value { Value::Array(x.iter().map(|c| c.ex()).collect()) };
    let en = |x: &V| -> Value { Value::Array(x[..n].iter().map(|c| c.ex()).collect()) };
    json!({"wa": wa, "alpha_in": v[3].ex(), "u": e3([u.red, u.green, u.blue]), "u_alpha": u.alpha.ex(),
           "uo": e3([uo.red, uo.green, uo.blue]), "uo_alpha": uo.alpha.ex(),
           "srgb": e3([srgb.red, srgb.green, srgb.blue]),
           "back": en(&back.color.arr()), "back_alpha": back.alpha.ex(), "back_plain": en(&back_plain.arr()), "back_opaque": en(&back_opaque.arr())})
}

// ---- colours with integer components: the bounds are 0 and the largest value of the type, every value is inside them
macro_rules! int_bounds {
    ($fname:ident, $U:ty, $C:ty, $n:expr, |$v:ident| $make:expr, |$c:ident| $comps:expr, [$($min:expr => $max:expr),*]) => {
        fn $fname(name: &str, input: &[u64], alpha: bool) -> Value {
            let $v: Vec<$U> = input.iter().map(|&x| x as $U).collect();
            let a: $C = $make;
            let get = |$c: &$C| -> Vec<$U> { $comps };
            let lo: Vec<Value> = vec![$(($min).ex()),*];
            let hi: Vec<Value> = vec![$(($max).ex()),*];
            let mut e = json!({"ev": "bounds", "t": stringify!($U), "node": name, "alpha": alpha as u8, "in": ex_arr(&get(&a)), "lo": lo, "hi": hi});
            let r = catch(|| {
                let c = a.clamp();
                let c2 = c.clamp();
                let mut ca = a;
                ca.clamp_assign();
                let mut sl = [a, a, a];
                sl[..].clamp_assign();
                json!({"clamp": ex_arr(&get(&c)), "clamp2": ex_arr(&get(&c2)), "clamp_assign": ex_arr(&get(&ca)), "slice": ex_arr(&get(&sl[1])),
                       "within_in": a.is_within_bounds() as u8, "within_out": c.is_within_bounds() as u8, "within_out_assign": ca.is_within_bounds() as u8})
            });
            match r {
                Ok(o) => { for (k, val) in o.as_object().unwrap() { e[k] = val.clone(); } e["panic"] = json!(0); }
                Err(_) => { e["panic"] = json!(1); }
            }
            let _ = $n;
            e
        }
    };
}
int_bounds!(ib_srgb_u8, u8, Srgb<u8>, 3, |v| Srgb::new(v[0], v[1], v[2]), |c| vec![c.red, c.green, c.blue], [<Srgb<u8>>::min_red() => <Srgb<u8>>::max_red(), <Srgb<u8>>::min_green() => <Srgb<u8>>::max_green(), <Srgb<u8>>::min_blue() => <Srgb<u8>>::max_blue()]);
int_bounds!(ib_srgb_u16, u16, Srgb<u16>, 3, |v| Srgb::new(v[0], v[1], v[2]), |c| vec![c.red, c.green, c.blue], [<Srgb<u16>>::min_red() => <Srgb<u16>>::max_red(), <Srgb<u16>>::min_green() => <Srgb<u16>>::max_green(), <Srgb<u16>>::min_blue() => <Srgb<u16>>::max_blue()]);
int_bounds!(ib_linsrgb_u32, u32, LinSrgb<u32>, 3, |v| LinSrgb::new(v[0], v[1], v[2]), |c| vec![c.red, c.green, c.blue], [<LinSrgb<u32>>::min_red() => <LinSrgb<u32>>::max_red(), <LinSrgb<u32>>::min_green() => <LinSrgb<u32>>::max_green(), <LinSrgb<u32>>::min_blue() => <LinSrgb<u32>>::max_blue()]);
int_bounds!(ib_luma_u8, u8, SrgbLuma<u8>, 1, |v| SrgbLuma::new(v[0]), |c| vec![c.luma], [<SrgbLuma<u8>>::min_luma() => <SrgbLuma<u8>>::max_luma()]);
int_bounds!(ib_luma_u16, u16, LinLuma<D65, u16>, 1, |v| LinLuma::new(v[0]), |c| vec![c.luma], [<LinLuma<D65, u16>>::min_luma() => <LinLuma<D65, u16>>::max_luma()]);
// ---- colour types outside the XYZ conversion group (CAM16-UCS, CAM16 and its partial forms): bounds contract only
macro_rules! extra_bounds {
    ($fname:ident, $C:ty, |$v:ident| $make:expr, |$c:ident| $comps:expr, [$($b:expr),*]) => {
        fn $fname(name: &str, $v: &[T]) -> Value {
            let a: $C = $make;
            let get = |$c: &$C| -> Vec<T> { $comps };
            let bs: Vec<(Option<T>, Option<T>)> = vec![$($b),*];
            let lo: Vec<Value> = bs.iter().map(|(l, _)| match l { Some(x) => x.ex(), None => json!([]) }).collect();
            let hi: Vec<Value> = bs.iter().map(|(_, h)| match h { Some(x) => x.ex(), None => json!([]) }).collect();
            let mut e = json!({"ev": "bounds", "t": TNAME, "node": name, "alpha": 0, "in": ex_arr(&get(&a)), "lo": lo, "hi": hi});
            let r = catch(|| {
                let c = a.clamp();
                let c2 = c.clamp();
                let mut ca = a;
                ca.clamp_assign();
                let mut sl = [a, a, a];
                sl[..].clamp_assign();
                json!({"clamp": ex_arr(&get(&c)), "clamp2": ex_arr(&get(&c2)), "clamp_assign": ex_arr(&get(&ca)), "slice": ex_arr(&get(&sl[1])),
                       "within_in": a.is_within_bounds() as u8, "within_out": c.is_within_bounds() as u8, "within_out_assign": ca.is_within_bounds() as u8})
            });
            match r {
                Ok(o) => { for (k, val) in o.as_object().unwrap() { e[k] = val.clone(); } e["panic"] = json!(0); }
                Err(_) => { e["panic"] = json!(1); }
            }
            e
        }
    };
}
type XJab = palette::cam16::Cam16UcsJab<T>;
type XJmh = palette::cam16::Cam16UcsJmh<T>;
type XJch = palette::cam16::Cam16Jch<T>;
type XQsh = palette::cam16::Cam16Qsh<T>;
type XCam = palette::cam16::Cam16<T>;
const Z: Option<T> = Some(0.0);
extra_bounds!(xb_jab, XJab, |v| XJab::new(v[0], v[1], v[2]), |c| vec![c.lightness, c.a, c.b],
              [mm!(XJab, min_lightness, max_lightness), FREE, FREE]);
extra_bounds!(xb_jmh, XJmh, |v| XJmh::new(v[0], v[1], v[2]), |c| vec![c.lightness, c.colorfulness, c.hue.into_inner()],
              [mm!(XJmh, min_lightness, max_lightness), mm!(XJmh, min_colorfulness, max_srgb_colorfulness), FREE]);
// CAM16 attributes have no accessors: "0 and up" is what the documentation of the fields says
extra_bounds!(xb_jch, XJch, |v| XJch::new(v[0], v[1], v[2]), |c| vec![c.lightness, c.chroma, c.hue.into_inner()], [(Z, None), (Z, None), FREE]);
extra_bounds!(xb_qsh, XQsh, |v| XQsh::new(v[0], v[1], v[2]), |c| vec![c.brightness, c.saturation, c.hue.into_inner()], [(Z, None), (Z, None), FREE]);
extra_bounds!(xb_cam, XCam, |v| XCam { lightness: v[0], chroma: v[1], hue: v[2].into(), brightness: v[3], colorfulness: v[4], saturation: v[5] },
              |c| vec![c.lightness, c.chroma, c.hue.into_inner(), c.brightness, c.colorfulness, c.saturation],
              [(Z, None), (Z, None), FREE, (Z, None), (Z, None), (Z, None)]);
fn extra_bounds_op(name: &str, input: &[T]) -> Value {
    match name {
        "cam16ucsjab" => xb_jab(name, input),
        "cam16ucsjmh" => xb_jmh(name, input),
        "cam16jch" => xb_jch(name, input),
        "cam16qsh" => xb_qsh(name, input),
        "cam16" => xb_cam(name, input),
        _ => { eprintln!("unknown extra node {}", name); std::process::exit(3) }
    }
}

type SrgbaU8 = Alpha<Srgb<u8>, u8>;
type SrgbaU16 = Alpha<Srgb<u16>, u16>;
type LumaaU8 = Alpha<SrgbLuma<u8>, u8>;
int_bounds!(ib_srgba_u8, u8, SrgbaU8, 4, |v| Alpha { color: Srgb::new(v[0], v[1], v[2]), alpha: v[3] }, |c| vec![c.color.red, c.color.green, c.color.blue, c.alpha],
            [<Srgb<u8>>::min_red() => <Srgb<u8>>::max_red(), <Srgb<u8>>::min_green() => <Srgb<u8>>::max_green(), <Srgb<u8>>::min_blue() => <Srgb<u8>>::max_blue(),
             <SrgbaU8>::min_alpha() => <SrgbaU8>::max_alpha()]);
int_bounds!(ib_srgba_u16, u16, SrgbaU16, 4, |v| Alpha { color: Srgb::new(v[0], v[1], v[2]), alpha: v[3] }, |c| vec![c.color.red, c.color.green, c.color.blue, c.alpha],
            [<Srgb<u16>>::min_red() => <Srgb<u16>>::max_red(), <Srgb<u16>>::min_green() => <Srgb<u16>>::max_green(), <Srgb<u16>>::min_blue() => <Srgb<u16>>::max_blue(),
             <SrgbaU16>::min_alpha() => <SrgbaU16>::max_alpha()]);
int_bounds!(ib_lumaa_u8, u8, LumaaU8, 2, |v| Alpha { color: SrgbLuma::new(v[0]), alpha: v[1] }, |c| vec![c.color.luma, c.alpha],
            [<SrgbLuma<u8>>::min_luma() => <SrgbLuma<u8>>::max_luma(), <LumaaU8>::min_alpha() => <LumaaU8>::max_alpha()]);
pub const INT_NODES: [&str; 8] = ["srgb_u8", "srgb_u16", "linsrgb_u32", "srgbluma_u8", "linluma_u16", "srgba_u8", "srgba_u16", "srgblumaa_u8"];
fn int_bounds_op(name: &str, input: &[u64]) -> Value {
    match name {
        "srgb_u8" => ib_srgb_u8(name, input, false),
        "srgb_u16" => ib_srgb_u16(name, input, false),
        "linsrgb_u32" => ib_linsrgb_u32(name, input, false),
        "srgbluma_u8" => ib_luma_u8(name, input, false),
        "linluma_u16" => ib_luma_u16(name, input, false),
        "srgba_u8" => ib_srgba_u8(name, input, false),
        "srgba_u16" => ib_srgba_u16(name, input, false),
        "srgblumaa_u8" => ib_lumaa_u8(name, input, false),
        _ => { eprintln!("unknown integer node {}", name); std::process::exit(3) }
    }
}

#[derive(Clone, Copy)]
pub struct Out { pub v: V, pub ok: bool }
pub type ConvFn = fn(&V, u8) -> Out;

// compile-time existence of `B: FromColorUnclamped<A>` by autoref specialisation
pub struct P<A, B>(PhantomData<(A, B)>);
pub trait Yes { fn get(&self) -> Option<ConvFn>; }
pub trait No { fn get(&self) -> Option<ConvFn> { None } }
impl<A, B> Yes for P<A, B>
where
    A: Node,
    B: Node + FromColorUnclamped<A>,
{
    fn get(&self) -> Option<ConvFn> {
        fn f<A: Node, B: Node + FromColorUnclamped<A>>(v: &V, mode: u8) -> Out {
            let a = A::of(v);
            match mode {
                b'u' => Out { v: B::from_color_unclamped(a).arr(), ok: true },
                b'c' => Out { v: <B as FromColor<A>>::from_color(a).arr(), ok: true },
                b't' => match <B as TryFromColor<A>>::try_from_color(a) {
                    Ok(b) => Out { v: b.arr(), ok: true },
                    Err(e) => Out { v: e.color().arr(), ok: false },
                },
                // the Into* mirror images of the three conversions
                b'U' => Out { v: <A as IntoColorUnclamped<B>>::into_color_unclamped(a).arr(), ok: true },
                b'C' => Out { v: <A as IntoColor<B>>::into_color(a).arr(), ok: true },
                b'T' => match <A as TryIntoColor<B>>::try_into_color(a) {
                    Ok(b) => Out { v: b.arr(), ok: true },
                    Err(e) => Out { v: e.color().arr(), ok: false },
                },
                _ => {
                    // with transparency attached
                    let aa: Alpha<A, T> = Alpha { color: a, alpha: v[3] };
                    let bb: Alpha<B, T> = Alpha::<B, T>::from_color_unclamped(aa);
                    let mut o = bb.color.arr();
                    o[3] = bb.alpha;
                    Out { v: o, ok: true }
                }
            }
        }
        Some(f::<A, B>)
    }
}
impl<A, B> No for &P<A, B> {}

// the clamping conversion of whole containers (Vec<A> -> Vec<B>, Box<[A]> -> Box<[B]>; they exist for colours of the
// same array layout): element 0 of a two-element container, as <<vec form, boxed slice form>>
pub type ContFn = fn(&V) -> [V; 6];
pub struct PC<A, B>(PhantomData<(A, B)>);
pub trait YesC { fn get(&self) -> Option<ContFn>; }
pub trait NoC { fn get(&self) -> Option<ContFn> { None } }
impl<A, B> YesC for PC<A, B>
where
    A: Node,
    B: Node,
    Vec<B>: FromColor<Vec<A>>,
    Box<[B]>: FromColor<Box<[A]>>,
    B: FromColorMut<A> + FromColorUnclampedMut<A>,
    A: FromColorMut<B> + FromColorUnclampedMut<B>,
    [B]: FromColorMut<[A]>,
    [A]: FromColorMut<[B]>,
{
    fn get(&self) -> Option<ContFn> {
        /// <<Vec::from_color, Box<[_]>::from_color, into_color_mut on a value, into_color_unclamped_mut on a value,
        ///   into_color_mut on a slice, the value left behind when that guard is dropped>>: element 0
        fn f<A: Node, B: Node>(v: &V) -> [V; 6]
        where
            Vec<B>: FromColor<Vec<A>>,
            Box<[B]>: FromColor<Box<[A]>>,
            B: FromColorMut<A> + FromColorUnclampedMut<A>,
            A: FromColorMut<B> + FromColorUnclampedMut<B>,
            [B]: FromColorMut<[A]>,
            [A]: FromColorMut<[B]>,
        {
            let other = A::of(&[0.25 as T, 0.25 as T, 0.25 as T, 0.0]);
            let vb: Vec<B> = Vec::<B>::from_color(vec![A::of(v), other]);
            let bb: Box<[B]> = <Box<[B]>>::from_color(vec![A::of(v), other].into_boxed_slice());
            let mut x = A::of(v);
            let m1 = { let g = <A as IntoColorMut<B>>::into_color_mut(&mut x); (*g).arr() };
            let mut y = A::of(v);
            let m2 = { let g = <A as IntoColorUnclampedMut<B>>::into_color_unclamped_mut(&mut y); (*g).arr() };
            let mut z = [A::of(v), other];
            let m3 = { let g = <[A] as IntoColorMut<[B]>>::into_color_mut(&mut z[..]); g[0].arr() };
            [vb[0].arr(), bb[0].arr(), m1, m2, m3, y.arr()]
        }
        Some(f::<A, B>)
    }
}
impl<A, B> NoC for &PC<A, B> {}

pub struct NodeInfo {
    pub name: &'static str,
    pub n: usize,
    pub bounds: fn() -> Vec<(Option<T>, Option<T>)>,
    pub bounds_op: fn(&V, bool) -> Value,
    pub user_op: fn(&V) -> Value,
    pub alpha_bounds: fn() -> (T, T),
}

fn bounds_op<A: Node>(v: &V, alpha: bool) -> Value
where
    Alpha<A, T>: Clamp + ClampAssign,
{
    let n = A::N;
    let enc = |x: &V, al: bool| -> Value {
        let mut o: Vec<Value> = x[..n].iter().map(|c| c.ex()).collect();
        if al { o.push(x[3].ex()); }
        Value::Array(o)
    };
    if !alpha {
        let a = A::of(v);
        let c = a.clamp();
        let c2 = c.clamp();
        let mut ca = a;
        ca.clamp_assign();
        // slice form: three colours, the middle one is the subject
        let mut sl = [A::of(&[0.25 as T, 0.25 as T, 0.25 as T, 0.0]), a, A::of(&[0.5 as T, 0.5 as T, 0.5 as T, 0.0])];
        sl[..].clamp_assign();
        // is_within_bounds of whole slices: the subject between two clamped colours, in first and in last place; clamped colours only
        let sw = [[c, a, c2][..].is_within_bounds() as u8, [a, c][..].is_within_bounds() as u8, [c2, c, a][..].is_within_bounds() as u8,
                  [c, c2][..].is_within_bounds() as u8];
        json!({"clamp": enc(&c.arr(), false), "clamp2": enc(&c2.arr(), false), "clamp_assign": enc(&ca.arr(), false), "slice": enc(&sl[1].arr(), false),
               "within_in": a.is_within_bounds() as u8, "within_out": c.is_within_bounds() as u8,
               "within_out_assign": ca.is_within_bounds() as u8, "slice_within": sw})
    } else {
        let a: Alpha<A, T> = Alpha { color: A::of(v), alpha: v[3] };
        let c = a.clamp();
        let c2 = c.clamp();
        let mut ca = a;
        ca.clamp_assign();
        let get = |x: &Alpha<A, T>| { let mut o = x.color.arr(); o[3] = x.alpha; o };
        // the method as a user calls it on the wrapped colour (it must take the transparency into account)
        let w = |x: &Alpha<A, T>| x.is_within_bounds() as u8;
        // slice form: three wrapped colours, the middle one is the subject
        let mut sl = [Alpha { color: A::of(&[0.25 as T, 0.25 as T, 0.25 as T, 0.0]), alpha: 0.5 as T }, a, Alpha { color: A::of(&[0.5 as T, 0.5 as T, 0.5 as T, 0.0]), alpha: 2.0 as T }];
        sl[..].clamp_assign();
        json!({"clamp": enc(&get(&c), true), "clamp2": enc(&get(&c2), true), "clamp_assign": enc(&get(&ca), true), "slice": enc(&get(&sl[1]), true),
               "within_in": w(&a), "within_out": w(&c), "within_out_assign": w(&ca)})
    }
}

// the three conversions between the Alpha-wrapped forms (exists when the checked conversion can target Alpha<B, T>)
pub type AlphaFn = fn(&V) -> ([V; 3], bool);
pub struct PA<A, B>(PhantomData<(A, B)>);
pub trait YesA { fn get(&self) -> Option<AlphaFn>; }
pub trait NoA { fn get(&self) -> Option<AlphaFn> { None } }
impl<A, B> YesA for PA<A, B>
where
    A: Node,
    B: Node,
    Alpha<B, T>: FromColorUnclamped<Alpha<A, T>> + FromColor<Alpha<A, T>> + TryFromColor<Alpha<A, T>>,
{
    fn get(&self) -> Option<AlphaFn> {
        fn f<A: Node, B: Node>(v: &V) -> ([V; 3], bool)
        where
            Alpha<B, T>: FromColorUnclamped<Alpha<A, T>> + FromColor<Alpha<A, T>> + TryFromColor<Alpha<A, T>>,
        {
            let aa: Alpha<A, T> = Alpha { color: A::of(v), alpha: v[3] };
            let get = |x: &Alpha<B, T>| { let mut o = x.color.arr(); o[3] = x.alpha; o };
            let u = <Alpha<B, T> as FromColorUnclamped<Alpha<A, T>>>::from_color_unclamped(aa);
            let c = <Alpha<B, T> as FromColor<Alpha<A, T>>>::from_color(aa);
            let (t, ok) = match <Alpha<B, T> as TryFromColor<Alpha<A, T>>>::try_from_color(aa) {
                Ok(b) => (b, true),
                Err(e) => (e.color(), false),
            };
            ([get(&u), get(&c), get(&t)], ok)
        }
        Some(f::<A, B>)
    }
}
impl<A, B> NoA for &PA<A, B> {}

macro_rules! row {
    ($A:ty; [$($B:ty),*]) => { vec![ $( (&P::<$A, $B>(PhantomData)).get() ),* ] };
}
macro_rules! rowc {
    ($A:ty; [$($B:ty),*]) => { vec![ $( (&PC::<$A, $B>(PhantomData)).get() ),* ] };
}
macro_rules! rowa {
    ($A:ty; [$($B:ty),*]) => { vec![ $( (&PA::<$A, $B>(PhantomData)).get() ),* ] };
}
macro_rules! universe {
    ([$($A:ty),*]; $list:tt) => {
        pub fn nodes() -> Vec<NodeInfo> {
            vec![ $( NodeInfo { name: <$A as Node>::NAME, n: <$A as Node>::N, bounds: <$A as Node>::bounds, bounds_op: bounds_op::<$A>, user_op: user_op::<$A>, alpha_bounds: || (Alpha::<$A, T>::min_alpha(), Alpha::<$A, T>::max_alpha()) } ),* ]
        }
        pub fn table() -> Vec<Vec<Option<ConvFn>>> { vec![ $( row!($A; $list) ),* ] }
        pub fn table_cont() -> Vec<Vec<Option<ContFn>>> { vec![ $( rowc!($A; $list) ),* ] }
        pub fn table_alpha() -> Vec<Vec<Option<AlphaFn>>> { vec![ $( rowa!($A; $list) ),* ] }
    };
}

universe!([NXyz, NYxy, NLab, NLch, NLuv, NLchuv, NHsluv, NOklab, NOklch, NOkhsl, NOkhsv, NOkhwb, NLinSrgb, NSrgb, NHsl, NHsv, NHwb, NLinLuma, NSrgbLuma, NLmsVk, NLmsBfd];
          [NXyz, NYxy, NLab, NLch, NLuv, NLchuv, NHsluv, NOklab, NOklch, NOkhsl, NOkhsv, NOkhwb, NLinSrgb, NSrgb, NHsl, NHsv, NHwb, NLinLuma, NSrgbLuma, NLmsVk, NLmsBfd]);

fn lohi(n: &NodeInfo, alpha: bool) -> (Value, Value) {
    let mut lo: Vec<Value> = (n.bounds)().iter().map(|(lo, _)| match lo { Some(x) => x.ex(), None => json!([]) }).collect();
    let mut hi: Vec<Value> = (n.bounds)().iter().map(|(_, hi)| match hi { Some(x) => x.ex(), None => json!([]) }).collect();
    if alpha { let (a0, a1) = (n.alpha_bounds)(); lo.push(a0.ex()); hi.push(a1.ex()); }
    (Value::Array(lo), Value::Array(hi))
}

fn hexf(s: &str) -> T { f64::from_bits(u64::from_str_radix(s, 16).expect("hex f64")) as T }

fn enc(v: &V, n: usize, alpha: bool) -> Value {
    let mut o: Vec<Value> = v[..n].iter().map(|c| c.ex()).collect();
    if alpha { o.push(v[3].ex()); }
    Value::Array(o)
}
fn fin(v: &V, n: usize, alpha: bool) -> bool { v[..n].iter().all(|c| c.is_finite()) && (!alpha || v[3].is_finite()) }

fn walk(nodes: &[NodeInfo], table: &[Vec<Option<ConvFn>>], c: &Value, path_key: &str, mode: u8) -> Value {
    let idx = |name: &str| -> usize {
        nodes.iter().position(|n| n.name == name).unwrap_or_else(|| { eprintln!("unknown node {}", name); std::process::exit(3) })
    };
    let from = idx(c["from"].as_str().unwrap());
    let alpha = mode == b'a';
    let mut v: V = [0.0; 4];
    let ins = c["in"].as_array().unwrap();
    let with_alpha_in = ins.len() > nodes[from].n;
    for (k, s) in ins.iter().enumerate() {
        let x = hexf(s.as_str().unwrap());
        if with_alpha_in && k == ins.len() - 1 { v[3] = x } else { v[k] = x }
    }
    let path: Vec<usize> = c[path_key].as_array().unwrap().iter().map(|p| idx(p.as_str().unwrap())).collect();
    let mut names = vec![nodes[from].name];
    let mut vals = vec![enc(&v, nodes[from].n, alpha)];
    let mut oks: Vec<u8> = vec![1];
    let mut hub: Vec<Value> = vec![];
    let mut panic = 0u8;
    let mut finite = fin(&v, nodes[from].n, alpha) as u8;
    let mut missing = 0u8;
    let xyz_i = 0usize;
    let hub_of = |cur: usize, v: &V| -> Value {
        if cur == xyz_i { return enc(v, 3, false); }
        match table[cur][xyz_i] {
            Some(f) => match catch(|| f(v, b'u')) { Ok(o) => enc(&o.v, 3, false), Err(_) => json!([[2, 0], [2, 0], [2, 0]]) },
            None => json!([[2, 0], [2, 0], [2, 0]]),
        }
    };
    hub.push(hub_of(from, &v));
    let mut cur = from;
    for &to in &path {
        let f = match table[cur][to] { Some(f) => f, None => { missing = 1; names.push(nodes[to].name); break } };
        match catch(|| f(&v, mode)) {
            Ok(o) => {
                v = o.v;
                oks.push(o.ok as u8);
                if !fin(&v, nodes[to].n, alpha) { finite = 0; }
                names.push(nodes[to].name);
                vals.push(enc(&v, nodes[to].n, alpha));
                hub.push(hub_of(to, &v));
                cur = to;
            }
            Err(_) => { panic = 1; names.push(nodes[to].name); break }
        }
    }
    json!({"mode": (mode as char).to_string(), "nodes": names, "vals": vals, "ok": oks, "hub": hub,
           "panic": panic, "fin": finite, "missing": missing})
}

pub fn convmain() {
    let nodes = nodes();
    let table = table();
    let table_cont = table_cont();
    let table_alpha = table_alpha();
    let idx = |name: &str| -> usize {
        nodes.iter().position(|n| n.name == name).unwrap_or_else(|| { eprintln!("unknown node {}", name); std::process::exit(3) })
    };
    let input = std::fs::read_to_string(arg("--cmds").expect("--cmds")).expect("command file");
    let mut rec = Rec::create(&arg_or("--out", "-"));
    for line in input.lines() {
        if line.trim().is_empty() { continue; }
        let c: Value = serde_json::from_str(line).expect("command json");
        let op = c.get("op").and_then(|o| o.as_str()).unwrap_or("walk");
        match op {
            "consts" => {
                // accessors that bound nothing (clamp and is_within_bounds do not use them) but are documented values
                if c.get("acc").is_some() { rec.ev(json!({"ev": "acc", "t": TNAME, "vals": {
                    "lch_max_extended_chroma": Lch::<D65, T>::max_extended_chroma().ex(),
                    "cam16ucsjab_min_srgb_a": palette::cam16::Cam16UcsJab::<T>::min_srgb_a().ex(),
                    "cam16ucsjab_max_srgb_a": palette::cam16::Cam16UcsJab::<T>::max_srgb_a().ex(),
                    "cam16ucsjab_min_srgb_b": palette::cam16::Cam16UcsJab::<T>::min_srgb_b().ex(),
                    "cam16ucsjab_max_srgb_b": palette::cam16::Cam16UcsJab::<T>::max_srgb_b().ex(),
                }})); }
                for (i, n) in nodes.iter().enumerate() {
                    let b: Vec<Value> = (n.bounds)().iter().map(|(lo, hi)| json!([lo.map(|x| x.ex()), hi.map(|x| x.ex())])).collect();
                    let lo: Vec<Value> = (n.bounds)().iter().map(|(lo, _)| match lo { Some(x) => x.ex(), None => json!([]) }).collect();
                    let hi: Vec<Value> = (n.bounds)().iter().map(|(_, hi)| match hi { Some(x) => x.ex(), None => json!([]) }).collect();
                    let _ = b;
                    let caps: Vec<u8> = table[i].iter().map(|f| f.is_some() as u8).collect();
                    rec.ev(json!({"ev": "consts", "t": TNAME, "node": n.name, "n": n.n, "lo": lo, "hi": hi, "to": caps,
                                  "names": nodes.iter().map(|m| m.name).collect::<Vec<_>>()}));
                }
            }
            "bounds" => {
                let ni = idx(c["node"].as_str().unwrap());
                let alpha = c.get("alpha").and_then(|a| a.as_u64()).unwrap_or(0) == 1;
                let mut v: V = [0.0; 4];
                let ins = c["in"].as_array().unwrap();
                for (k, s) in ins.iter().enumerate() {
                    let x = hexf(s.as_str().unwrap());
                    if alpha && k == ins.len() - 1 { v[3] = x } else { v[k] = x }
                }
                let r = catch(|| (nodes[ni].bounds_op)(&v, alpha));
                let mut e = json!({"ev": "bounds", "id": c["id"], "t": TNAME, "node": nodes[ni].name, "alpha": alpha as u8,
                                   "in": enc(&v, nodes[ni].n, alpha)});
                let (lo, hi) = lohi(&nodes[ni], alpha);
                e["lo"] = lo; e["hi"] = hi;
                match r {
                    Ok(o) => { for (k, val) in o.as_object().unwrap() { e[k] = val.clone(); } e["panic"] = json!(0); }
                    Err(_) => { e["panic"] = json!(1); }
                }
                rec.ev(e);
            }
            "xbounds" => {
                let input: Vec<T> = c["in"].as_array().unwrap().iter().map(|x| hexf(x.as_str().unwrap())).collect();
                let mut e = extra_bounds_op(c["node"].as_str().unwrap(), &input);
                e["id"] = c["id"].clone();
                rec.ev(e);
            }
            "ibounds" => {
                let input: Vec<u64> = c["iin"].as_array().unwrap().iter().map(|x| x.as_u64().expect("integer component")).collect();
                let mut e = int_bounds_op(c["node"].as_str().unwrap(), &input);
                e["id"] = c["id"].clone();
                rec.ev(e);
            }
            "user" => {
                let ni = idx(c["node"].as_str().unwrap());
                let mut v: V = [0.0; 4];
                let ins = c["in"].as_array().unwrap();
                for (k, s) in ins.iter().enumerate() {
                    let x = hexf(s.as_str().unwrap());
                    if k == ins.len() - 1 { v[3] = x } else { v[k] = x }
                }
                let mut e = json!({"ev": "user", "id": c["id"], "t": TNAME, "node": nodes[ni].name, "in": enc(&v, nodes[ni].n, true)});
                match catch(|| (nodes[ni].user_op)(&v)) {
                    Ok(o) => { for (k, val) in o.as_object().unwrap() { e[k] = val.clone(); } e["panic"] = json!(0); }
                    Err(_) => { e["panic"] = json!(1); }
                }
                rec.ev(e);
            }
            "conv3" => {
                let from = idx(c["from"].as_str().unwrap());
                let to = idx(c["to"].as_str().unwrap());
                let mut v: V = [0.0; 4];
                for (k, s) in c["in"].as_array().unwrap().iter().enumerate() { v[k] = hexf(s.as_str().unwrap()); }
                let (lo, hi) = lohi(&nodes[to], false);
                let mut e = json!({"ev": "conv3", "id": c["id"], "t": TNAME, "from": nodes[from].name, "to": nodes[to].name,
                                   "in": enc(&v, nodes[from].n, false), "lo": lo, "hi": hi});
                match table[from][to] {
                    None => { e["missing"] = json!(1); }
                    Some(f) => {
                        let n = nodes[to].n;
                        match catch(|| (f(&v, b'u'), f(&v, b'c'), f(&v, b't'), f(&v, b'U'), f(&v, b'C'), f(&v, b'T'))) {
                            Ok((u, cl, t, iu, ic, it)) => {
                                e["iu"] = enc(&iu.v, n, false); e["ic"] = enc(&ic.v, n, false); e["itv"] = enc(&it.v, n, false);
                                e["it_ok"] = json!(it.ok as u8);
                                e["u"] = enc(&u.v, n, false); e["c"] = enc(&cl.v, n, false); e["tv"] = enc(&t.v, n, false);
                                e["t_ok"] = json!(t.ok as u8); e["panic"] = json!(0);
                                e["fin"] = json!(fin(&u.v, n, false) as u8);
                                if let Some(a) = c.get("a").and_then(|a| a.as_str()) {
                                    let mut va = v;
                                    va[3] = hexf(a);
                                    e["a"] = va[3].ex();
                                    let (alo, ahi) = lohi(&nodes[to], true);
                                    e["alo"] = alo; e["ahi"] = ahi;
                                    if let Some(g) = table_alpha[from][to] {
                                        match catch(|| g(&va)) {
                                            Ok((r, ok)) => {
                                                e["au"] = enc(&r[0], n, true); e["ac"] = enc(&r[1], n, true); e["atv"] = enc(&r[2], n, true);
                                                e["at_ok"] = json!(ok as u8);
                                            }
                                            Err(_) => { e["panic"] = json!(1); }
                                        }
                                    }
                                }
                                if let Some(g) = table_cont[from][to] {
                                    match catch(|| g(&v)) {
                                        Ok(r) => {
                                            e["cvec"] = enc(&r[0], n, false); e["cbox"] = enc(&r[1], n, false);
                                            e["cmut"] = enc(&r[2], n, false); e["umut"] = enc(&r[3], n, false); e["cmuts"] = enc(&r[4], n, false);
                                        }
                                        Err(_) => { e["panic"] = json!(1); }
                                    }
                                }
                            }
                            Err(_) => { e["panic"] = json!(1); }
                        }
                    }
                }
                rec.ev(e);
            }
            "fan" => {
                // one colour converted (unclamped) to EVERY other node of the universe; only what matters for finiteness
                // is recorded: {"op":"fan","from":"okhsl","in":[..]} -> targets with a non-finite result / a panic
                let from = idx(c["from"].as_str().unwrap());
                let mut v: V = [0.0; 4];
                for (k, s) in c["in"].as_array().unwrap().iter().enumerate() { v[k] = hexf(s.as_str().unwrap()); }
                let (mut bad, mut panics, mut n) = (vec![], vec![], 0u32);
                for to in 0..nodes.len() {
                    if to == from { continue; }
                    if let Some(f) = table[from][to] {
                        n += 1;
                        match catch(|| f(&v, b'u')) {
                            Ok(o) => { if !fin(&o.v, nodes[to].n, false) { bad.push(nodes[to].name); } }
                            Err(_) => panics.push(nodes[to].name),
                        }
                    }
                }
                rec.ev(json!({"ev": "fan", "id": c["id"], "t": TNAME, "from": nodes[from].name, "in": enc(&v, nodes[from].n, false),
                              "n": n, "bad": bad, "panics": panics}));
            }
            "sweep" => {
                // one cylinder colour swept over its saturation-like component (index 1), converted along `path`;
                // the last node's value is recorded per step: {"op":"sweep","from":"okhsl","in":[h,_,l],"s":[..],"path":["oklab","oklch"]}
                let from = idx(c["from"].as_str().unwrap());
                let path: Vec<usize> = c["path"].as_array().unwrap().iter().map(|p| idx(p.as_str().unwrap())).collect();
                let mut base: V = [0.0; 4];
                for (k, s) in c["in"].as_array().unwrap().iter().enumerate() { base[k] = hexf(s.as_str().unwrap()); }
                let mut ss = vec![];
                let mut outs = vec![];
                let mut panic = 0u8;
                for sv in c["s"].as_array().unwrap() {
                    let mut v = base;
                    v[1] = hexf(sv.as_str().unwrap());
                    ss.push(v[1].ex());
                    let mut cur = from;
                    let mut ok = true;
                    for &to in &path {
                        match table[cur][to] {
                            Some(f) => match catch(|| f(&v, b'u')) { Ok(o) => { v = o.v; cur = to; } Err(_) => { panic = 1; ok = false; break } },
                            None => { ok = false; break }
                        }
                    }
                    outs.push(if ok { enc(&v, nodes[cur].n, false) } else { json!([[2, 0], [2, 0], [2, 0]]) });
                }
                rec.ev(json!({"ev": "sweep", "id": c["id"], "t": TNAME, "from": nodes[from].name,
                              "to": nodes[*path.last().unwrap()].name, "in": enc(&base, nodes[from].n, false), "s": ss, "out": outs, "panic": panic}));
            }
            "tri" => {
                // two routes from the same input: {"op":"tri","from":..,"in":[..],"p1":[..],"p2":[..]}
                let w1 = walk(&nodes, &table, &c, "p1", b'u');
                let w2 = walk(&nodes, &table, &c, "p2", b'u');
                rec.ev(json!({"ev": "tri", "id": c["id"], "t": TNAME, "w1": w1, "w2": w2}));
            }
            _ => {
                let mode = c.get("mode").and_then(|m| m.as_str()).unwrap_or("u").as_bytes()[0];
                let mut e = walk(&nodes, &table, &c, "path", mode);
                e["ev"] = json!("walk");
                e["id"] = c["id"].clone();
                e["t"] = json!(TNAME);
                e["tag"] = c.get("tag").cloned().unwrap_or(json!(""));
                if mode == b'a' {
                    // the same walk without transparency, for "attaching alpha never changes the colour"
                    let b = walk(&nodes, &table, &c, "path", b'u');
                    e["base"] = b["vals"].clone();
                }
                rec.ev(e);
            }
        }
    }
    let n = rec.finish();
    eprintln!("conv[{}]: {} events", TNAME, n);
}
