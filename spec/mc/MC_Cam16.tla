------------------------------ MODULE MC_Cam16 ------------------------------
(* C16, checked on the model before any code is consulted.  One state per case:                                    *)
(*  "lat"    the lattice of viewing conditions x the six partial kinds: every tuple is a valid set of conditions     *)
(*           and is emitted as one REPLAY JSON line (the harness builds palette Parameters from it);                 *)
(*  "ucsj"   J' = 1.7 J/(1 + 0.007 J) and the published inverse J = J'/(1.7 - 0.007 J') are mutually inverse on the   *)
(*           grid J = 0..120 (and each satisfies the relation used on recordings);                                  *)
(*  "ucsm"   M' = ln(1 + 0.0228 M)/0.0228 and M = (exp(0.0228 M') - 1)/0.0228 likewise on M = 0..150;                 *)
(*  "polar"  (M', h) -> (a', b') -> M'^2 = a'^2 + b'^2 on a grid of hues;                                             *)
(*  "series" the ln / exp series reproduce tabulated values and invert each other;                                  *)
(*  "attr"   the published attribute definitions imply the parameter-free relations checked on recordings          *)
(*           (and palette's documented form of s equals Li et al.'s s = 100 sqrt(M/Q));                              *)
(*  "judge"  the verdict operators accept exact events built from the published definitions and reject perturbed   *)
(*           ones, one per clause (no relation is vacuous); the domain predicate on known points.                  *)
EXTENDS Cam16, TLC, Json

CONSTANTS Emit,      \* print one REPLAY line per lattice case
          Mode,      \* "lat": only the lattice; "self": only the self checks; "all"
          Stride     \* self-check grids are thinned to every Stride-th point (1 in the thorough tier)

VARIABLE case

(* ---- the lattice of viewing conditions: values as exact rationals <<numerator, denominator>> ---- *)
LA == << <<1, 10>>, <<4, 1>>, <<40, 1>>, <<318, 1>>, <<1000, 1>> >>                 \* adapting luminance, cd/m^2
YB == << <<1, 100>>, <<1, 5>>, <<1, 2>>, <<1, 1>> >>                                 \* background luminance factor
SUR == << <<"dark", 0, 1>>, <<"dim", 0, 1>>, <<"average", 0, 1>>, <<"percent", 0, 1>>, <<"percent", 5, 1>>,
          <<"percent", 15, 1>>, <<"percent", 33, 1>>, <<"percent", 50, 1>>, <<"percent", 100, 1>> >>
DISC == << <<"auto", 0, 1>>, <<"custom", 0, 1>>, <<"custom", 1, 2>>, <<"custom", 1, 1>> >>
WPM == <<"static", "dynamic">>
WHITE == <<"D65", "D50", "E">>

(* a valid set of viewing conditions (palette's documentation of Parameters): a positive adapting luminance, a
   background luminance factor in (0, 1]; surround and discounting may be any number (they are clamped) *)
Valid(la, yb, sur, disc) == la[1] > 0 /\ la[2] > 0 /\ yb[1] > 0 /\ yb[2] > 0 /\ yb[1] <= yb[2]
                            /\ sur[1] \in {"dark", "dim", "average", "percent"} /\ sur[3] > 0
                            /\ disc[1] \in {"auto", "custom"} /\ disc[3] > 0
ParamId(a, b, s, d, m, w) == (((((a - 1) * Len(YB) + (b - 1)) * Len(SUR) + (s - 1)) * Len(DISC) + (d - 1)) * Len(WPM) + (m - 1)) * Len(WHITE) + (w - 1)
LatCases == {<<"lat", a, b, s, d, m, w, k>> : a \in DOMAIN LA, b \in DOMAIN YB, s \in DOMAIN SUR, d \in DOMAIN DISC,
                                             m \in DOMAIN WPM, w \in DOMAIN WHITE, k \in DOMAIN Kinds}
LatLine(c) == <<ParamId(c[2], c[3], c[4], c[5], c[6], c[7]), LA[c[2]][1], LA[c[2]][2], YB[c[3]][1], YB[c[3]][2],
                SUR[c[4]][1], SUR[c[4]][2], SUR[c[4]][3], DISC[c[5]][1], DISC[c[5]][2], DISC[c[5]][3],
                WPM[c[6]], WHITE[c[7]], Kinds[c[8]]>>

(* ---- self checks ---- *)
Good == 85
V3(a, b, c) == <<a, b, c>>
Near(a, b, bits) == FxNear(a, b, bits, 200)

D(x) == DyOfFx(x)
DV3(a, b, c) == <<DyOfFx(a), DyOfFx(b), DyOfFx(c)>>
UcsJCase1(n, J, Jp) == /\ UcsJBits(D(J), D(Jp)) >= Good /\ UcsJInvBits(D(Jp), D(J)) >= Good
                       /\ Near(UcsJInv(Jp), J, Good)
                       /\ Near(UcsJFwd(UcsJInv(J)), J, Good)                         \* and the other way round (J read as a J')
                       /\ (n > 0 => UcsJBits(D(J), D(FxAdd(Jp, FxEps(30)))) < 40)    \* a perturbed J' is rejected
UcsJCase(n) == UcsJCase1(n, FxInt(n), UcsJFwd(FxInt(n)))                             \* J = 0, 1, ..., 120
UcsMCase1(M, Mp) == /\ UcsMInvBitsP(Mp, M, 8) >= Good                                           \* exp undoes ln, 104-bit
                    /\ UcsMBits(D(M), D(Mp), 5) >= 52 /\ UcsMInvBits(D(Mp), D(M), 5) >= 52        \* the precisions used on recordings
                    /\ UcsMBits(D(M), D(Mp), 3) >= 28 /\ UcsMInvBits(D(Mp), D(M), 3) >= 28
                    /\ Near(UcsMInv(Mp), M, 80)
                    /\ Near(UcsMFwd(UcsMInv(M)), M, 80)                                          \* and the other way round
                    /\ UcsMBits(D(M), D(FxAdd(Mp, FxEps(24))), 5) < 40 /\ UcsMInvBits(D(FxAdd(Mp, FxEps(24))), D(M), 5) < 40
                    /\ UcsMBits(D(M), D(FxAdd(Mp, FxEps(15))), 3) < 25 /\ UcsMInvBits(D(FxAdd(Mp, FxEps(15))), D(M), 3) < 25
UcsMCase(n) == UcsMCase1(FxInt(n), UcsMFwd(FxInt(n)))                                \* M = 0, 1, ..., 150
PolarCase2(m, Mp, h, a, b) ==
  /\ Near(FxAdd(FxSqr(a), FxSqr(b)), FxSqr(Mp), 80)
  /\ UcsPolarBits(DV3(FxInt(40), a, b), DV3(FxInt(40), Mp, h), 8) >= Good
  /\ UcsPolarBits(DV3(FxInt(40), a, b), DV3(FxInt(40), Mp, h), 5) >= 52
  /\ UcsPolarBits(DV3(FxInt(40), a, b), DV3(FxInt(40), Mp, h), 3) >= 28
  /\ (m > 0 => UcsPolarBits(DV3(FxInt(40), a, b), DV3(FxInt(40), Mp, FxAdd(h, FxRat(1, 1000))), 8) < 40)
  /\ (m > 0 => UcsPolarBits(DV3(FxInt(40), a, b), DV3(FxInt(40), Mp, FxAdd(h, FxRat(1, 1000))), 3) < 25)
PolarCase1(h, sc, ref) ==
  /\ Near(sc[1], ref[1], 90) /\ Near(sc[2], ref[2], 90)                   \* LnExp!SinCosP agrees with Trig!SinCosDeg
  /\ \A m \in {0, 1, 7, 50} : PolarCase2(m, FxInt(m), h, FxMul(FxInt(m), sc[2]), FxMul(FxInt(m), sc[1]))
  (* a tiny colourfulness is judged as precisely as a large one *)
  /\ UcsPolarBits(DV3(FxInt(40), FxShr(sc[2], 50), FxShr(sc[1], 50)), DV3(FxInt(40), FxEps(50), h), 5) >= 40
PolarCase(n) == PolarCase1(FxAdd(FxInt(15 * n - 360), FxRat(n, 7)), SinCosP(FxAdd(FxInt(15 * n - 360), FxRat(n, 7)), 8),
                           SinCosDeg(FxAdd(FxInt(15 * n - 360), FxRat(n, 7))))   \* -360 .. 730 in steps of 15 1/7

(* tabulated values (e.g. Abramowitz & Stegun, tables 4.2, 4.4; 36 decimals, groups of four) *)
Ln3 == FxDec(1, 1, <<986, 1228, 8668, 1096, 9139, 5245, 2369, 2252, 5704>>)
Ln10 == FxDec(1, 2, <<3025, 8509, 2994, 456, 8401, 7991, 4546, 8436, 4207>>)
EFx == FxDec(1, 2, <<7182, 8182, 8459, 452, 3536, 287, 4713, 5266, 2497>>)
SqrtE == FxDec(1, 1, <<6487, 2127, 700, 1281, 4684, 8650, 7878, 1416, 3571>>)
Ln15 == FxDec(1, 0, <<4054, 6510, 8108, 1643, 8197, 8013, 1154, 6434, 9136>>)
InvE == FxDec(1, 0, <<3678, 7944, 1171, 4423, 2159, 5523, 7701, 6146, 867>>)
E3 == FxDec(1, 20, <<855, 3692, 3187, 6677, 4092, 8529, 6545, 8171, 7896>>)
Ln442 == FxDec(1, 1, <<4861, 3969, 6089, 6067, 5768, 4271, 2715, 2789, 3293>>)
Ln03 == FxDec(-1, 1, <<2039, 7280, 4325, 9359, 9262, 2746, 2177, 6183, 8502>>)
Exp114 == FxDec(1, 3, <<1267, 6836, 5186, 1557, 5613, 1556, 2411, 7952, 6013>>)        \* exp(0.0228 * 50)
Ucs100 == FxDec(1, 52, <<983, 9571, 9125, 1036, 8782, 7931, 545, 2670, 5149>>)        \* ln(1 + 2.28)/0.0228
NSeries == 16
SeriesCase(n) ==
  CASE n = 1 -> Near(FxLn(FxOne), FxZero, 95) /\ Near(FxExp(FxZero), FxOne, 95) /\ Near(FxSqr(Sqrt2Fx), FxInt(2), 100)
    [] n = 2 -> Near(FxLn(FxInt(2)), Ln2Fx, 94) /\ Near(FxLn(FxRat(1, 2)), FxNeg(Ln2Fx), 94)
    [] n = 3 -> Near(FxLn(FxInt(3)), Ln3, 94) /\ Near(FxLn(FxInt(10)), Ln10, 93)
    [] n = 4 -> Near(FxLn(FxRat(3, 2)), Ln15, 94) /\ Near(FxLn(FxRat(442, 100)), Ln442, 93)
    [] n = 5 -> Near(FxLn(FxRat(3, 10)), Ln03, 93) /\ Near(FxLn(EFx), FxOne, 94)
    [] n = 6 -> Near(FxExp(FxOne), EFx, 92) /\ Near(FxExp(FxRat(1, 2)), SqrtE, 93)
    [] n = 7 -> Near(FxExp(FxInt(-1)), InvE, 93) /\ Near(FxExp(FxInt(3)), E3, 89)
    [] n = 8 -> Near(FxExp(FxRat(114, 100)), Exp114, 92) /\ Near(UcsMFwd(FxInt(100)), Ucs100, 86)
    [] n \in {9, 10} ->  (* the reduced precisions used on recordings: 65 and 39 fractional bits *)
       LET fl == IF n = 9 THEN 5 ELSE 3
       IN /\ Near(FxOfP(LnP(PInt(3, fl), fl), fl), Ln3, 13 * fl - 8)
          /\ Near(FxOfP(LnP(PRat(442, 100, fl), fl), fl), Ln442, 13 * fl - 8)
          /\ Near(FxOfP(LnP(PRat(3, 10, fl), fl), fl), Ln03, 13 * fl - 8)
          /\ Near(FxOfP(ExpP(POne(fl), fl), fl), EFx, 13 * fl - 9)
          /\ Near(FxOfP(ExpP(PInt(3, fl), fl), fl), E3, 13 * fl - 12)
          /\ Near(FxOfP(ExpP(PRat(114, 100, fl), fl), fl), Exp114, 13 * fl - 9)
          /\ Near(FxOfP(PDiv(PInt(355, fl), PInt(113, fl), fl), fl), FxRat(355, 113), 13 * fl - 8)
    [] n \in 11..13 -> \A k \in (16 * (n - 11) + 1)..(16 * (n - 11) + 16) : Near(FxExp(FxLn(FxRat(k, 8))), FxRat(k, 8), 90)     \* 1/8 .. 6
    [] n \in 14..16 -> \A k \in (16 * (n - 14) - 16)..(16 * (n - 14) - 1) : Near(FxLn(FxExp(FxRat(k, 8))), FxRat(k, 8), 90)    \* -2 .. 4

(* the published definitions imply the relations (a..d) for every pair of colours under the same conditions *)
CS == <<FxRat(525, 1000), FxRat(59, 100), FxRat(69, 100)>>
AWS == <<FxInt(5), FxRat(307, 10), FxRat(955, 10)>>
FLS == <<FxRat(1, 2), FxOne, FxRat(112, 100)>>
JRS == <<FxRat(1, 10), FxRat(1, 2), FxOne>>
ALS == <<FxRat(1, 100), FxOne, FxRat(31, 10)>>
AttrOf(p, jr, al) == [J |-> DyOfFx(PubJ(jr)), C |-> DyOfFx(PubC(jr, al)), Q |-> DyOfFx(PubQ(p, jr)),
                      M |-> DyOfFx(PubM(p, jr, al)), s2 |-> DyOfFx(PubS2(p, jr, al))]
AttrPair(u, v) == /\ SatLinkBits(u.s2, u.Q, u.M) >= 80
                  /\ PairMCBits(u.M, u.C, v.M, v.C) >= 80
                  /\ PairQJBits(u.Q, u.J, v.Q, v.J) >= 80
                  /\ PairSQMBits(u.s2, u.Q, u.M, v.s2, v.Q, v.M) >= 80
AttrCase2(p, as) ==
  /\ \A i \in DOMAIN as : \A k \in DOMAIN as : AttrPair(as[i], as[k])
  /\ \A i \in 1..3 : \A k \in 1..3 :
       Near(PubS2(p, JRS[i], ALS[k]), PaletteS2(p, FxDiv(PubC(JRS[i], ALS[k]), JRS[i])), 80)
AttrCase1(p) == AttrCase2(p, [m \in 1..9 |-> AttrOf(p, JRS[((m - 1) % 3) + 1], ALS[((m - 1) \div 3) + 1])])
AttrCase(n) == AttrCase1([c |-> CS[(n % 3) + 1], aw |-> AWS[((n \div 3) % 3) + 1], fl4 |-> FLS[(n \div 9) + 1]])

(* exact events from the published definitions: c = 1/2, A_w = 28, F_L^(1/4) = 2:
   jr = 1/2, alpha = 64: J 25, C 32, Q 256, M 64, s 50;   jr = 1/4, alpha = 16: J 6.25, C 4, Q 128, M 8, s 25 *)
PJ == [c |-> FxRat(1, 2), aw |-> FxInt(28), fl4 |-> FxInt(2)]
Full1 == <<FxInt(25), FxInt(32), FxInt(200), FxInt(256), FxInt(64), FxInt(50)>>
Full2 == <<FxRat(25, 4), FxInt(4), FxInt(-20), FxInt(128), FxInt(8), FxInt(25)>>
FullW == <<FxInt(100), FxInt(64), FxInt(200), FxInt(512), FxInt(128), FxInt(50)>>      \* jr = 1, alpha = 64
X1 == V3(FxRat(2, 10), FxRat(3, 10), FxRat(4, 10))
X2 == V3(FxRat(5, 100), FxRat(4, 100), FxRat(1, 100))
Bump(xs, i, k) == [xs EXCEPT ![i] = FxAdd(@, FxShr(FxMax(FxAbs(@), FxEps(20)), k))]      \* relative 2^-k
ConvEv(kind, x, full) ==
  [ev |-> "conv", t |-> "f64", params |-> 0, pk |-> kind, w |-> 0, panic |-> 0, x |-> JV(x), full |-> JV(full),
   fback |-> JV(x), part |-> Project(JV(full), kind), proj |-> Project(JV(full), kind), pback |-> JV(x), exp |-> JV(full)]
BlackEv(kind) == ConvEv(kind, V3(FxZero, FxZero, FxZero), <<FxZero, FxZero, FxInt(0), FxZero, FxZero, FxZero>>)
PairEv(f1, f2) == [ev |-> "pair", t |-> "f64", params |-> 0, panic |-> 0, x1 |-> JV(X1), x2 |-> JV(X2), f1 |-> JV(f1), f2 |-> JV(f2)]
UcsEv(J, M, h) ==
  LET Jp == UcsJFwd(J)  Mp == UcsMFwd(M)  sc == SinCosP(h, 8)
      jmh == JV(V3(J, M, h))  ujmh == JV(V3(Jp, Mp, h))  ujab == JV(V3(Jp, FxMul(Mp, sc[2]), FxMul(Mp, sc[1])))
  IN [ev |-> "ucs", t |-> "f64", panic |-> 0, jmh |-> jmh, ujmh |-> ujmh, ujab |-> ujab, ujabd |-> ujab, ujmhb |-> ujmh,
      jmhb |-> jmh, jmhd |-> jmh, ujmhc |-> ujmh]
U0 == UcsEv(FxInt(45), FxInt(39), FxInt(-101))
NJudge == 22
JudgeCase(n) ==
  CASE n = 1 ->  (* the published definitions give exactly the attribute vectors used below *)
       /\ PubJ(FxRat(1, 2)) = Full1[1] /\ PubC(FxRat(1, 2), FxInt(64)) = Full1[2] /\ Near(PubQ(PJ, FxRat(1, 2)), Full1[4], 95)
       /\ PubM(PJ, FxRat(1, 2), FxInt(64)) = Full1[5] /\ Near(PubS2(PJ, FxRat(1, 2), FxInt(64)), FxSqr(Full1[6]), 80)
       /\ PubJ(FxRat(1, 4)) = Full2[1] /\ PubC(FxRat(1, 4), FxInt(16)) = Full2[2] /\ Near(PubQ(PJ, FxRat(1, 4)), Full2[4], 95)
       /\ PubM(PJ, FxRat(1, 4), FxInt(16)) = Full2[5] /\ Near(PubS2(PJ, FxRat(1, 4), FxInt(16)), FxSqr(Full2[6]), 80)
       /\ PubJ(FxOne) = FullW[1] /\ PubC(FxOne, FxInt(64)) = FullW[2] /\ Near(PubQ(PJ, FxOne), FullW[4], 95)
       /\ PubM(PJ, FxOne, FxInt(64)) = FullW[5] /\ Near(PubS2(PJ, FxOne, FxInt(64)), FxSqr(FullW[6]), 80)
    [] n = 2 ->  (* accepted *)
       \A k \in DOMAIN Kinds : ConvWhy(ConvEv(Kinds[k], X1, Full1)) = "ok" /\ ConvWhy(ConvEv(Kinds[k], X2, Full2)) = "ok"
                               /\ ConvJudged(ConvEv(Kinds[k], X1, Full1))
    [] n = 3 -> \A k \in DOMAIN Kinds : ConvWhy(BlackEv(Kinds[k])) = "ok"
    [] n = 4 -> PairWhy(PairEv(Full1, Full2)) = "ok" /\ PairJudged(PairEv(Full1, Full2))
    [] n = 5 -> UcsWhy(U0) = "ok" /\ UcsJudged(U0) /\ UcsWhy(UcsEv(FxZero, FxZero, FxInt(10))) = "ok"
                /\ UcsWhy(UcsEv(FxInt(100), FxInt(120), FxInt(359))) = "ok"
    [] n = 6 ->  (* rejected, clause by clause *)
       \A k \in DOMAIN Kinds : \A i \in 1..3 :
          /\ ConvWhy([ConvEv(Kinds[k], X1, Full1) EXCEPT !.fback = JV(Bump(X1, i, 30))]) = "full-round-trip"
          /\ ConvWhy([ConvEv(Kinds[k], X1, Full1) EXCEPT !.pback = JV(Bump(X1, i, 30))]) = "partial-round-trip"
    [] n = 7 ->
       \A k \in DOMAIN Kinds : \A i \in 1..2 :
          /\ ConvWhy([ConvEv(Kinds[k], X1, Full1) EXCEPT !.proj = JV(Bump(FxV(@), i, 50))]) = "projection-not-exact"
          /\ ConvWhy([ConvEv(Kinds[k], X1, Full1) EXCEPT !.part = JV(Bump(FxV(@), i, 30))]) = "from-xyz-differs-from-projection"
    [] n = 8 ->  (* a partial type reading the wrong attribute: the projection of another kind *)
       \A k \in DOMAIN Kinds : \A k2 \in DOMAIN Kinds :
          k # k2 => ConvWhy([ConvEv(Kinds[k], X1, Full1) EXCEPT !.proj = Project(JV(Full1), Kinds[k2])]) = "projection-not-exact"
    [] n = 9 -> \A i \in MagIdx : ConvWhy([ConvEv("jch", X1, Full1) EXCEPT !.exp = JV(Bump(Full1, i, 30))]) = "into-full-differs-from-full"
    [] n = 10 -> (* hue 201 is not hue 200; hue 200 and -160 are the same direction *)
       /\ ConvWhy([ConvEv("jch", X1, Full1) EXCEPT !.exp = JV([Full1 EXCEPT ![3] = FxInt(201)])]) = "into-full-differs-from-full"
       /\ ConvWhy([ConvEv("jch", X1, Full1) EXCEPT !.exp = JV([Full1 EXCEPT ![3] = FxInt(-160)])]) = "ok"
    [] n = 11 -> (* saturation not 100 sqrt(M/Q): e.g. computed with a wrong parameter *)
       ConvWhy(ConvEv("jsh", X1, Bump(Full1, 6, 30))) = "saturation-link"
    [] n = 12 -> ConvWhy([ConvEv("jch", X1, Full1) EXCEPT !.w = 1]) = "white-not-100"
                 /\ ConvWhy([ConvEv("jch", X1, FullW) EXCEPT !.w = 1]) = "ok"
    [] n = 13 -> ConvWhy([ConvEv("qmh", X1, Full1) EXCEPT !.panic = 1]) = "panic"
                 /\ ConvWhy([ConvEv("qmh", X1, Full1) EXCEPT !.pback = <<<<2, 0>>, <<1, 0, 1>>, <<1, 0, 1>>>>]) = "non-finite"
                 /\ ConvWhy([ConvEv("qmh", X1, Full1) EXCEPT !.full = [@ EXCEPT ![2] = <<2, 0>>]]) = "non-finite"
    [] n = 14 -> (* black: an attribute, or a returned component, that is not exactly zero *)
       \A i \in MagIdx : ConvWhy([BlackEv("qsh") EXCEPT !.full = [@ EXCEPT ![i] = JOfFx(FxEps(90))]]) = "black-not-black"
    [] n = 15 -> ConvWhy([BlackEv("jmh") EXCEPT !.pback = JV(V3(FxZero, FxEps(90), FxZero))]) = "black-not-black"
                 /\ ConvWhy([BlackEv("jmh") EXCEPT !.fback = <<<<2, 0>>, <<0, 0>>, <<0, 0>>>>]) = "black-not-black"
    [] n = 16 -> (* the ratios between two colours *)
       \A i \in MagIdx : PairWhy(PairEv(Bump(Full1, i, 30), Full2)) = "attribute-ratios"
                         /\ PairWhy(PairEv(Full1, Bump(Full2, i, 30))) = "attribute-ratios"
    [] n = 17 -> (* UCS, clause by clause *)
       /\ UcsWhy([U0 EXCEPT !.ujmh = JV(Bump(FxV(@), 1, 30)), !.ujmhc = JV(Bump(FxV(@), 1, 30))]) = "ucs-lightness"
       /\ UcsWhy([U0 EXCEPT !.ujmh = JV(Bump(FxV(@), 2, 30)), !.ujmhc = JV(Bump(FxV(@), 2, 30))]) = "ucs-colourfulness"
       /\ UcsWhy([U0 EXCEPT !.ujmh = JV(Bump(FxV(@), 3, 30))]) = "ucs-hue-not-copied"
       /\ UcsWhy([U0 EXCEPT !.ujmhc = JV(Bump(FxV(@), 2, 50))]) = "clamped-differs-in-bounds"
    [] n = 18 -> \A i \in 1..3 : UcsWhy([U0 EXCEPT !.ujab = JV(Bump(FxV(@), i, 30))]) = "ucs-polar"
                                 /\ UcsWhy([U0 EXCEPT !.ujabd = JV(Bump(FxV(@), i, 30))]) = "ucs-polar"
                                 /\ UcsWhy([U0 EXCEPT !.ujmhb = JV(Bump(FxV(@), i, 30))]) = "ucs-polar"
    [] n = 19 -> /\ UcsWhy([U0 EXCEPT !.jmhb = JV(Bump(FxV(@), 1, 30))]) = "ucs-lightness-inverse"
                 /\ UcsWhy([U0 EXCEPT !.jmhd = JV(Bump(FxV(@), 1, 30))]) = "ucs-lightness-inverse"
                 /\ UcsWhy([U0 EXCEPT !.jmhb = JV(Bump(FxV(@), 2, 30))]) = "ucs-colourfulness-inverse"
                 /\ UcsWhy([U0 EXCEPT !.jmhd = JV(Bump(FxV(@), 2, 30))]) = "ucs-colourfulness-inverse"
                 /\ UcsWhy([U0 EXCEPT !.jmhb = JV(Bump(FxV(@), 3, 30))]) = "ucs-round-trip"
    [] n = 20 -> (* the UCS constants: 0.0288 instead of 0.0228, 0.07 instead of 0.007 *)
       /\ UcsMBitsP(FxInt(39), FxDiv(FxLn(FxAdd(FxOne, FxMul(FxRat(288, 10000), FxInt(39)))), FxRat(288, 10000)), 8) < 10
       /\ UcsJBits(D(FxInt(45)), D(FxDiv(FxMul(C17, FxInt(45)), FxAdd(FxOne, FxMul(FxRat(7, 100), FxInt(45)))))) < 5
    [] n = 21 -> (* the domain: sRGB primaries, white and a dark grey have non-negative cone responses ... *)
       /\ InDomain(DV3(FxRat(4124, 10000), FxRat(2126, 10000), FxRat(193, 10000))) /\ InDomain(DV3(FxRat(3576, 10000), FxRat(7152, 10000), FxRat(1192, 10000)))
       /\ InDomain(DV3(FxRat(1805, 10000), FxRat(722, 10000), FxRat(9505, 10000))) /\ InDomain(DV3(WhiteD65[1], WhiteD65[2], WhiteD65[3]))
       /\ InDomain(DV3(FxRat(1, 1000), FxRat(1, 1000), FxRat(1, 1000))) /\ ~InCollar(DV3(WhiteD65[1], WhiteD65[2], WhiteD65[3]))
       (* ... and the exact integer form of the matrix is the published one: the white E = (1, 1, 1) has responses (1, 1, 1) *)
       /\ \A i \in 1..3 : DyEq(Cone(DV3(FxOne, FxOne, FxOne))[i], DyFromInt(1000000))
    [] n = 22 -> (* ... a colour with one slightly negative response is in the collar; negative luminance, a strongly negative
                    response, two negative responses and magnitudes below 2^-34 are outside *)
       /\ InCollar(DV3(FxRat(3, 10), FxRat(3, 10), FxRat(-2, 100))) /\ ~InDomain(DV3(FxRat(3, 10), FxRat(3, 10), FxRat(-1, 10)))
       /\ ~InDomain(DV3(FxRat(-1, 10), FxRat(-1, 10), FxRat(-1, 10))) /\ ~InDomain(DV3(FxRat(103, 1000), FxRat(-208, 10000), FxRat(936, 1000)))
       /\ ~InDomain(DV3(FxEps(40), FxEps(40), FxEps(40)))

SelfCases == {<<"ucsj", n>> : n \in {k \in 0..120 : k % Stride = 0}} \cup {<<"ucsm", n>> : n \in {k \in 0..150 : k % Stride = 0}}
             \cup {<<"polar", n>> : n \in {k \in 0..72 : k % Stride = 0}}
             \cup {<<"series", n>> : n \in 1..NSeries} \cup {<<"attr", n>> : n \in {k \in 0..26 : k % Stride = 0}}
             \cup {<<"judge", n>> : n \in 1..NJudge}
(* TLC computes initial states sequentially, so the cases are reached in two steps (start -> group -> case) and the
   groups are expanded by the workers in parallel *)
NSelfGroups == 24
GroupOf(c) == IF c[1] = "lat" THEN c[2] ELSE Len(LA) + 1 + ((c[2] \div Stride + Len(c[1])) % NSelfGroups)
Groups == 1..(Len(LA) + NSelfGroups)
Cases == (IF Mode \in {"lat", "all"} THEN LatCases ELSE {}) \cup (IF Mode \in {"self", "all"} THEN SelfCases ELSE {})

Init == case = <<"start">>
Next == \/ case = <<"start">> /\ case' \in {<<"group", g>> : g \in Groups}
        \/ case[1] = "group" /\ case' \in {c \in Cases : GroupOf(c) = case[2]}
Spec == Init /\ [][Next]_case

CaseHolds(c) == CASE c[1] \in {"start", "group"} -> TRUE
                  [] c[1] = "lat" -> Valid(LA[c[2]], YB[c[3]], SUR[c[4]], DISC[c[5]])
                  [] c[1] = "ucsj" -> UcsJCase(c[2])
                  [] c[1] = "ucsm" -> UcsMCase(c[2])
                  [] c[1] = "polar" -> PolarCase(c[2])
                  [] c[1] = "series" -> SeriesCase(c[2])
                  [] c[1] = "attr" -> AttrCase(c[2])
                  [] c[1] = "judge" -> JudgeCase(c[2])
Holds == CaseHolds(case) \/ (PrintT(<<"case fails", case>>) /\ FALSE)
(* one JSON line per lattice case *)
EmitDone == (Emit /\ case[1] = "lat") => PrintT(<<"REPLAY", ToJson(LatLine(case))>>)
=============================================================================
