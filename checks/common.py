"""Shared machinery of the palette checks: build the harness from /repo's working tree, run TLC
(exhaustive model runs, behaviour emission, trace validation in parallel chunks), match known
findings, write evidence and replay files, print VIOLATION lines.

Exit codes of ./check: 0 held, 1 violation (with VIOLATION line), 2 tool error / timeout."""
import json, os, re, shutil, subprocess, sys, time, hashlib, fcntl
from concurrent.futures import ThreadPoolExecutor
from pathlib import Path

VERIF = Path(__file__).resolve().parent.parent
SPEC = VERIF / "spec"
# Development overrides (never set by the registered commands): a harness copy whose path dependency points
# at a scratch worktree of /repo, and a separate output directory, so that several trees can be checked at once.
HARNESS = Path(os.environ.get("VERIF_HARNESS_DIR") or (VERIF / "harness"))
_OUT = Path(os.environ.get("VERIF_OUT_DIR") or VERIF)
WORK = _OUT / "work"
EVID = _OUT / "evidence"
REPLAYS = _OUT / "replays"
JAR = "/opt/veriftools/tla/tla2tools.jar:/opt/veriftools/tla/CommunityModules-deps.jar"
TLA_LIB = ":".join(str(SPEC / d) for d in ("", "lib", "mc", "trace"))
NCPU = os.cpu_count() or 8


def use_spec_dir(path):
    """Run TLC on a copy of the specification (a check that regenerates transcribed tables from the working tree)."""
    global SPEC, TLA_LIB
    SPEC = Path(path)
    TLA_LIB = ":".join(str(SPEC / d) for d in ("", "lib", "mc", "trace"))


class ToolError(Exception):
    pass


def log(*a):
    print("[check]", *a, file=sys.stderr, flush=True)


class Ctx:
    def __init__(self, pid, tier, seed):
        self.pid, self.tier, self.seed = pid, tier, seed
        self.t0 = time.time()
        self.work = WORK / pid
        if self.work.exists():
            shutil.rmtree(self.work, ignore_errors=True)
        self.work.mkdir(parents=True, exist_ok=True)
        self.violations = []      # dicts: {key, what, replay(dict)}
        self.known_hit = {}       # finding id -> count
        self.cov = {"states": 0, "transitions": 0, "traces_validated_against_impl": 0,
                    "evaluations": 0, "distinct_nontrivial": 0, "samples": [], "tlc_runs": [],
                    "rejected_events": 0}
        self.assumptions = []
        self.quick = tier == "quick"

    def p(self, name):
        return str(self.work / name)


# ----------------------------------------------------------------------------- cargo

def cargo_build(bins, timeout=1800):
    """(Re)build harness binaries against /repo's current working tree, hooks enabled."""
    lock = open(HARNESS / ".build.lock", "w")
    fcntl.flock(lock, fcntl.LOCK_EX)
    try:
        if not (HARNESS / "Cargo.lock").exists():
            shutil.copy("/repo/Cargo.lock", HARNESS / "Cargo.lock")
        cmd = ["cargo", "build", "--release", "--offline"]
        for b in bins:
            cmd += ["--bin", b]
        env = dict(os.environ, CARGO_NET_OFFLINE="true", CARGO_TERM_COLOR="never")
        t = time.time()
        try:
            r = subprocess.run(cmd, cwd=HARNESS, env=env, stdout=subprocess.PIPE, stderr=subprocess.STDOUT,
                               text=True, timeout=timeout)
        except subprocess.TimeoutExpired:
            raise ToolError("cargo build timed out")
        if r.returncode != 0:
            errs = [l for l in r.stdout.splitlines() if l.startswith("error")]
            tail = "\n".join(r.stdout.splitlines()[-40:])
            raise ToolError("harness does not build against the working tree (%s)\n%s" % ("; ".join(errs[:5]), tail))
        log("cargo build %s: %.1fs" % (",".join(bins), time.time() - t))
    finally:
        fcntl.flock(lock, fcntl.LOCK_UN)
        lock.close()
    return {b: str(HARNESS / "target" / "release" / b) for b in bins}


def run_bin(path, args, timeout=3600, env=None, stdout_path=None):
    e = dict(os.environ)
    if env:
        e.update({k: str(v) for k, v in env.items()})
    t = time.time()
    try:
        if stdout_path:
            with open(stdout_path, "w") as f:
                r = subprocess.run([path] + [str(a) for a in args], env=e, stdout=f, stderr=subprocess.PIPE,
                                   text=True, timeout=timeout)
        else:
            r = subprocess.run([path] + [str(a) for a in args], env=e, stdout=subprocess.PIPE,
                               stderr=subprocess.PIPE, text=True, timeout=timeout)
    except subprocess.TimeoutExpired:
        raise ToolError("%s timed out" % path)
    if r.returncode != 0:
        raise ToolError("%s %s failed (%d): %s" % (path, " ".join(map(str, args)), r.returncode, (r.stderr or "")[-2000:]))
    log("%s: %.1fs %s" % (os.path.basename(path), time.time() - t, (r.stderr or "").strip().splitlines()[-1:] ))
    return r


# ----------------------------------------------------------------------------- TLC

def _java(xmx, xss, gc, extra=()):
    # Values.width: TLC pretty-prints tuples wider than 80 columns over several lines, which the single-line
    # parsers below would silently miss (a lost REJECT is a false green) - make it print everything on one line.
    return ["java", gc, "-Xmx" + xmx, "-Xss" + xss, "-DTLA-Library=" + TLA_LIB, "-Dtlc2.value.Values.width=100000000"] + list(extra) + ["-cp", JAR, "tlc2.TLC"]


RE_STATES = re.compile(r"(\d+) states generated, (\d+) distinct states found, (\d+) states left on queue")
RE_DEPTH = re.compile(r"The depth of the complete state graph search is (\d+)")


class MCResult:
    pass


def tlc_mc(ctx, module, cfg=None, workers=None, xmx="6g", timeout=1800, env=None, constants=None,
           simulate=None, coverage=True, tag=None, invariants_ok=True):
    """Run an exhaustive (or -simulate) TLC configuration from spec/mc. Returns MCResult.
    `constants`: dict overriding CONSTANT lines of the cfg (textual)."""
    tag = tag or module
    src_cfg = SPEC / "mc" / (cfg or module + ".cfg")
    text = src_cfg.read_text()
    if constants:
        for k, v in constants.items():
            text, n = re.subn(r"(?m)^(\s*%s\s*=\s*).*$" % re.escape(k), lambda m: m.group(1) + str(v), text)
            if n == 0:
                raise ToolError("constant %s not in %s" % (k, src_cfg))
    cfg_path = ctx.work / (tag + ".cfg")
    cfg_path.write_text(text)
    out_path = ctx.work / (tag + ".tlc.out")
    meta = ctx.work / (tag + ".meta")
    workers = workers or (6 if ctx.quick else 12)
    cmd = _java(xmx, "256m", "-XX:+UseParallelGC") + ["-workers", str(workers), "-metadir", str(meta), "-cleanup",
                                                      "-noGenerateSpecTE", "-config", str(cfg_path)]
    if coverage and not simulate:
        cmd += ["-coverage", "1"]
    if simulate:
        cmd += ["-simulate", "num=%d" % simulate[0], "-depth", str(simulate[1]), "-seed", str(ctx.seed)]
    cmd += [str(SPEC / "mc" / (module + ".tla"))]
    e = dict(os.environ)
    if env:
        e.update({k: str(v) for k, v in env.items()})
    t = time.time()
    with open(out_path, "w") as f:
        try:
            r = subprocess.run(cmd, cwd=str(SPEC / "mc"), env=e, stdout=f, stderr=subprocess.STDOUT, timeout=timeout)
        except subprocess.TimeoutExpired:
            raise ToolError("TLC %s timed out after %ds" % (tag, timeout))
    shutil.rmtree(meta, ignore_errors=True)
    res = MCResult()
    res.out_path, res.rc, res.wall = str(out_path), r.returncode, time.time() - t
    res.generated = res.distinct = res.depth = 0
    res.errors = []
    res.prints = []
    with open(out_path) as f:
        for line in f:
            m = RE_STATES.search(line)
            if m:
                res.generated, res.distinct = int(m.group(1)), int(m.group(2))
            m = RE_DEPTH.search(line)
            if m:
                res.depth = int(m.group(1))
            if line.startswith("Error:") or "is violated" in line:
                res.errors.append(line.strip())
    if simulate:
        # simulation mode reports differently
        txt = Path(out_path).read_text()
        m = re.search(r"(\d+) states checked", txt)
        if m:
            res.generated = res.distinct = int(m.group(1))
    res.ok = r.returncode == 0 and not res.errors
    log("TLC %s: rc=%d generated=%d distinct=%d depth=%d %.1fs" % (tag, res.rc, res.generated, res.distinct, res.depth, res.wall))
    ctx.cov["tlc_runs"].append({"module": module, "tag": tag, "states_generated": res.generated,
                                "distinct_states": res.distinct, "depth": res.depth, "wall_s": round(res.wall, 1),
                                "mode": "simulate" if simulate else "exhaustive"})
    if not simulate:
        ctx.cov["states"] += res.distinct
        ctx.cov["transitions"] += res.generated
    if r.returncode >= 150 or (r.returncode != 0 and not res.errors):
        raise ToolError("TLC %s failed rc=%d, see %s\n%s" % (tag, r.returncode, out_path, tail(out_path)))
    if not res.ok and invariants_ok:
        # a violated invariant of the *model* on the unchanged spec is a defect of the machinery, not of palette
        raise ToolError("model run %s reported: %s (see %s)" % (tag, "; ".join(res.errors[:3]), out_path))
    return res


def tail(path, n=25):
    try:
        return "\n".join(Path(path).read_text().splitlines()[-n:])
    except Exception:
        return ""


def coverage_zero_actions(out_path, module_names):
    """Names of top-level actions reported by -coverage with count 0 (vacuity control)."""
    last = {}      # TLC prints interim coverage reports during long runs: the last report counts
    rx = re.compile(r"^<(\w+) line \d+, col \d+ to line \d+, col \d+ of module (\w+)>: (\d+):(\d+)")
    for line in open(out_path):
        m = rx.match(line)
        if m and m.group(2) in module_names:
            last[m.group(1)] = int(m.group(4))
    return sorted(k for k, v in last.items() if v == 0)


def extract_prints(out_path, tagname):
    """Lines printed by the spec as <<"TAG", "json-string">> -> list of decoded JSON strings."""
    out = []
    rx = re.compile(r'^<<"%s", (".*")>>$' % re.escape(tagname))
    with open(out_path) as f:
        for line in f:
            m = rx.match(line.rstrip("\n"))
            if m:
                out.append(json.loads(m.group(1)))
    out.sort()      # TLC's workers print in no particular order; the cases are a set, and a run must be reproducible
    return out


# ----------------------------------------------------------------------------- trace validation

RE_REJECT = re.compile(r'^<<"REJECT", (\d+)(?:, (.*))?>>$')
RE_UNCONS = re.compile(r'^<<"UNCONSUMED", (\d+)>>$')
RE_NOTE = re.compile(r'^<<"NOTE", (.*)>>$')


def split_trace(ctx, trace_path, max_events, stateless, tag):
    """Cut a recording into chunks of at most max_events lines; stateful recordings are only cut in
    front of a reset event. Returns list of (chunk_path, first_global_line_index0, n_lines)."""
    chunks = []
    cur, cur_start, n, idx = None, 0, 0, 0
    k = 0
    def new(start):
        nonlocal cur, cur_start, n, k
        if cur:
            cur.close()
            chunks.append((path, cur_start, n))
        k += 1
        p = ctx.p("%s.chunk%03d.ndjson" % (tag, k))
        cur, cur_start, n = open(p, "w"), start, 0
        return p
    path = new(0)
    with open(trace_path) as f:
        for line in f:
            if n >= max_events and (stateless or ('"ev":"reset"' in line)):
                path = new(idx)
            cur.write(line)
            n += 1
            idx += 1
    cur.close()
    chunks.append((path, cur_start, n))
    return [c for c in chunks if c[2] > 0]


def _run_trace_chunk(args):
    spec, cfg, chunk, meta, timeout, xmx, env = args
    cmd = _java(xmx, "512m", "-XX:+UseSerialGC", ["-Dtlc2.tool.queue.IStateQueue=StateDeque"]) + [
        "-workers", "1", "-metadir", meta, "-cleanup", "-noGenerateSpecTE", "-config", cfg, spec]
    e = dict(os.environ, TRACE=chunk)
    e.update(env or {})
    out = chunk + ".tlc.out"
    t = time.time()
    with open(out, "w") as f:
        try:
            r = subprocess.run(cmd, cwd=str(SPEC / "trace"), env=e, stdout=f, stderr=subprocess.STDOUT, timeout=timeout)
            rc = r.returncode
        except subprocess.TimeoutExpired:
            rc = -9
    shutil.rmtree(meta, ignore_errors=True)
    return rc, out, time.time() - t


class TraceResult:
    pass


def validate_trace(ctx, module, trace_path, stateless=False, chunk_events=40000, jobs=None, timeout=3000,
                   xmx="3g", env=None, tag=None):
    """Validate a recording against spec/trace/<module>.tla. Returns TraceResult with
    rejected = [(global_line0, event_dict, info_text)], scenarios, events."""
    tag = tag or module
    jobs = jobs or min(14, max(2, NCPU - 2))
    chunks = split_trace(ctx, trace_path, chunk_events, stateless, tag)
    spec = str(SPEC / "trace" / (module + ".tla"))
    cfg = str(SPEC / "trace" / (module + ".cfg"))
    work = [(spec, cfg, c[0], ctx.p("%s.meta%d" % (tag, i)), timeout, xmx, env) for i, c in enumerate(chunks)]
    t = time.time()
    with ThreadPoolExecutor(max_workers=jobs) as ex:
        results = list(ex.map(_run_trace_chunk, work))
    res = TraceResult()
    res.rejected, res.notes = [], []
    res.events = sum(c[2] for c in chunks)
    res.states = 0
    bad_lines = {}
    for (chunk, start, n), (rc, out, wall) in zip(chunks, results):
        if rc == -9:
            raise ToolError("trace validation of %s timed out" % chunk)
        local_rej, uncons, errs = [], None, []
        with open(out) as f:
            for line in f:
                line = line.rstrip("\n")
                m = RE_REJECT.match(line)
                if m:
                    local_rej.append((int(m.group(1)), m.group(2) or ""))
                    continue
                if line.startswith('<< "REJECT"') or line.startswith('<<"REJECT"'):
                    raise ToolError("unparsable (wrapped?) REJECT line in %s: %s" % (out, line[:200]))
                m = RE_UNCONS.match(line)
                if m:
                    uncons = int(m.group(1))
                    continue
                m = RE_NOTE.match(line)
                if m:
                    res.notes.append(m.group(1))
                    continue
                m = RE_STATES.search(line)
                if m:
                    res.states += int(m.group(2))
                if line.startswith("Error:"):
                    errs.append(line)
        if uncons is not None and uncons < n + 1:
            # the spec could not take a step on line `uncons` (1-based): that line is rejected outright
            local_rej.append((uncons, "no step of the specification matches this line"))
            errs = [e for e in errs if "Postcondition" not in e and "postcondition" not in e.lower()]
        real_errs = [e for e in errs if "ostcondition" not in e]
        if real_errs or (rc != 0 and not local_rej):
            raise ToolError("TLC trace validation error in %s: %s\n%s" % (out, "; ".join(real_errs[:3]), tail(out, 30)))
        for (ll, info) in local_rej:
            bad_lines[start + ll - 1] = info
    # fetch rejected events and their scenarios
    res.scenarios = 0
    if True:
        last_reset, scen = -1, []
        want = set(bad_lines)
        with open(trace_path) as f:
            for i, line in enumerate(f):
                is_reset = ('"ev":"reset"' in line)
                if is_reset:
                    res.scenarios += 1
                    scen = []
                if want and not stateless:
                    scen.append(line)
                if i in want:
                    ev = json.loads(line)
                    sc = [json.loads(x) for x in scen[-60:]] if not stateless else []
                    res.rejected.append((i, ev, bad_lines[i], sc))
    if stateless:
        res.scenarios = res.events
    res.wall = time.time() - t
    log("trace %s: %d events, %d chunks, %d rejected, %.1fs" % (tag, res.events, len(chunks), len(res.rejected), res.wall))
    ctx.cov["tlc_runs"].append({"module": module, "tag": tag, "mode": "trace-validation", "events": res.events,
                                "chunks": len(chunks), "states": res.states, "rejected": len(res.rejected),
                                "wall_s": round(res.wall, 1)})
    ctx.cov["evaluations"] += res.events
    ctx.cov["rejected_events"] += len(res.rejected)
    # states TLC visited while validating the recording (one per consumed line) count as explored states too;
    # the per-run breakdown (model runs vs trace validation) is in tlc_runs
    ctx.cov["states"] += res.states
    ctx.cov["transitions"] += res.states
    return res


# ----------------------------------------------------------------------------- findings, evidence, exit

def load_known():
    p = VERIF / "known_findings.json"
    if not p.exists():
        return []
    return json.loads(p.read_text()).get("findings", [])


def match_known(pid, coords):
    """coords: dict describing the failing event (strings and numbers). An entry matches when every key of its
    `match` is present in coords and equal, or (for {"lo":..,"hi":..}) within the closed interval."""
    for f in load_known():
        if f.get("property") != pid or f.get("status") != "known":
            continue
        ok = True
        for k, want in f.get("match", {}).items():
            if k not in coords:
                ok = False
                break
            got = coords[k]
            if isinstance(want, dict):
                try:
                    if not (want["lo"] <= float(got) <= want["hi"]):
                        ok = False
                except Exception:
                    ok = False
            elif isinstance(want, list):
                if got not in want:
                    ok = False
            elif got != want:
                ok = False
            if not ok:
                break
        if ok:
            return f
    return None


def report(ctx, coords, what, replay):
    """Register a rejected event: either a known finding or a violation."""
    f = match_known(ctx.pid, coords)
    if f:
        ctx.known_hit.setdefault(f["id"], [f, 0])[1] += 1
        return False
    ctx.violations.append({"coords": coords, "what": what, "replay": replay})
    return True


def finish(ctx, level, rule, explanation, trusted=None, extra=None):
    """Write evidence, replay files, print KNOWN-FINDING / VIOLATION lines, return exit code."""
    EVID.mkdir(exist_ok=True)
    REPLAYS.mkdir(exist_ok=True)
    for fid, (f, n) in sorted(ctx.known_hit.items()):
        print("KNOWN-FINDING: property=%s %s [%s; %d event(s) this run]" % (ctx.pid, f["what"], fid, n))
    shown = 0
    for old in REPLAYS.glob("%s-*.json" % ctx.pid):
        old.unlink()
    for i, v in enumerate(ctx.violations):
        if shown >= 12:
            break
        path = REPLAYS / ("%s-%d.json" % (ctx.pid, i + 1))
        path.write_text(json.dumps({"property": ctx.pid, "tier": ctx.tier, "seed": ctx.seed, "what": v["what"],
                                    "coords": v["coords"], "replay": v["replay"]}, indent=1, default=str))
        print("VIOLATION property=%s replay=%s" % (ctx.pid, path))
        print("  " + v["what"][:400])
        shown += 1
    if len(ctx.violations) > shown:
        print("  ... and %d more violating events (not written out)" % (len(ctx.violations) - shown))
    cov = dict(ctx.cov)
    cov["rule"] = rule
    cov["explanation"] = explanation
    cov["violating_events"] = len(ctx.violations)
    cov["known_finding_events"] = {k: v[1] for k, v in ctx.known_hit.items()}
    if extra:
        cov.update(extra)
    if not cov["samples"]:
        cov["samples"] = ["(no sample recorded)"]
    cov["samples"] = cov["samples"][:8]
    cov["states"] = max(cov["states"], 0)
    ev = {"property_id": ctx.pid, "tier": ctx.tier, "seed": ctx.seed, "level": level, "coverage": cov,
          "assumptions": ctx.assumptions + (trusted or []), "wall_s": round(time.time() - ctx.t0, 1),
          "violations": len(ctx.violations)}
    (EVID / (ctx.pid + ".json")).write_text(json.dumps(ev, indent=1, default=str))
    log("%s %s: %d violation(s), %d known-finding event(s), %.0fs" % (ctx.pid, ctx.tier, len(ctx.violations),
        sum(v[1] for v in ctx.known_hit.values()), time.time() - ctx.t0))
    return 1 if ctx.violations else 0


def add_samples(ctx, trace_path, n=4, every=None):
    """Copy a few recorded events verbatim into the evidence."""
    try:
        with open(trace_path) as f:
            lines = []
            for i, line in enumerate(f):
                if i < 3 or (every and i % every == 0):
                    lines.append(line)
                if len(lines) >= n + 3:
                    break
        for line in lines[:n + 3]:
            s = line.strip()
            if '"ev":"reset"' in s:
                continue
            ctx.cov["samples"].append(json.loads(s) if len(s) < 1500 else s[:1500])
    except Exception as e:
        log("samples:", e)


def count_distinct(trace_path, keyfn, nontrivial):
    """Number of distinct events (by keyfn) that are non-trivial."""
    seen = set()
    with open(trace_path) as f:
        for line in f:
            if ('"ev":"reset"' in line):
                continue
            ev = json.loads(line)
            if nontrivial(ev):
                seen.add(hashlib.blake2b(keyfn(ev).encode(), digest_size=12).digest())
    return len(seen)


def dy_to_float(j):
    """decode the harness' exact number encoding to a python float (for coordinates in reports)"""
    if isinstance(j, str):
        return {"nan": float("nan"), "inf": float("inf"), "-inf": float("-inf")}[j]
    s, q = j[0], j[1]
    if s in (2, 3, -3):
        return {2: float("nan"), 3: float("inf"), -3: float("-inf")}[s]
    m = 0
    for i, limb in enumerate(j[2:]):
        m += limb << (13 * i)
    try:
        return s * m * (8192.0 ** q) if abs(q) < 70 else float(s * m) * (2.0 ** (13 * q))
    except OverflowError:
        from fractions import Fraction
        return float(Fraction(s * m) * Fraction(8192) ** q)
