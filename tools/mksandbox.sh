#!/bin/sh
# usage: tools/mksandbox.sh <name>
# Creates /tmp/pvsb/<name>/repo (git worktree of /repo HEAD), /tmp/pvsb/<name>/harness (copy of /verif/harness
# whose palette path dependency points into that worktree) and /tmp/pvsb/<name>/out, and prints the environment
# to run ./check against it:   eval $(tools/mksandbox.sh m1); ./check C18
# Remove with tools/rmsandbox.sh <name>.
set -e
n="$1"; d=/tmp/pvsb/$n
mkdir -p /tmp/pvsb
[ -d "$d/repo" ] || git -C /repo worktree add --detach "$d/repo" HEAD >/dev/null 2>&1
mkdir -p "$d/harness" "$d/out"
rsync -a --delete --exclude target /verif/harness/ "$d/harness/"
sed -i "s#path = \"/repo/palette\"#path = \"$d/repo/palette\"#" "$d/harness/Cargo.toml"
echo "export VERIF_HARNESS_DIR=$d/harness VERIF_OUT_DIR=$d/out"
