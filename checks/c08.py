"""C08 - blending and compositing follow the W3C formulas and the Porter-Duff identities.
Spec: spec/Blend.tla (W3C Compositing and Blending Level 1 in exact dyadic/rational arithmetic; sqrt only as a squared
relation; palette's OpenGL-style Equations as a second small model transcribed from the doc comments).
MC_Blend proves the identities of the statement on the model for every per-channel case of the grid and every
mode/operator (and exhibits the one clause the W3C formulas themselves violate: `plus` leaves [0, 1]); the harness
(harness/src/bin/blend.rs) enumerates the SAME grid - it is told G, the check compares the case counts - packs three
cases per colour and calls Blend / Compose / BlendWith / Premultiply in the opaque, Alpha and PreAlpha forms, f32 and
f64; TraceBlend.tla judges every recorded call. The Python arithmetic in this file only produces calibration figures
for the evidence file; the verdict is TLC's."""
import json, re
from fractions import Fraction as F
from math import isqrt
from concurrent.futures import ThreadPoolExecutor
from common import *

B = 8192
ALL_OPS = ["multiply", "screen", "overlay", "darken", "lighten", "dodge", "burn", "hard_light", "soft_light", "difference",
           "exclusion", "over", "inside", "outside", "atop", "xor", "plus", "premul"]


# ----------------------------------------------------------------------------- calibration only (evidence figures)

def fr(j):
    if j[0] in (2, 3, -3):
        return None
    m = 0
    for i, limb in enumerate(j[2:]):
        m += limb << (13 * i)
    return F(j[0] * m) * F(B) ** j[1]


def fsqrt(x):
    """sqrt of a Fraction to ~2^-200"""
    return F(isqrt((x.numerator << 400) // x.denominator), 1 << 200)


def blend_fn(mode, cs, cb):
    if mode == "multiply": return cs * cb
    if mode == "screen": return cs + cb - cs * cb
    if mode == "overlay": return blend_fn("hard_light", cb, cs)
    if mode == "darken": return min(cs, cb)
    if mode == "lighten": return max(cs, cb)
    if mode == "dodge": return F(0) if cb == 0 else F(1) if cs >= 1 else min(F(1), cb / (1 - cs))
    if mode == "burn": return F(1) if cb >= 1 else F(0) if cs <= 0 else 1 - min(F(1), (1 - cb) / cs)
    if mode == "hard_light": return 2 * cs * cb if 2 * cs <= 1 else blend_fn("screen", 2 * cs - 1, cb)
    if mode == "soft_light":
        if 2 * cs <= 1: return cb - (1 - 2 * cs) * cb * (1 - cb)
        d = ((16 * cb - 12) * cb + 4) * cb if 4 * cb <= 1 else fsqrt(cb)
        return cb + (2 * cs - 1) * (d - cb)
    if mode == "difference": return abs(cb - cs)
    if mode == "exclusion": return cb + cs - 2 * cb * cs
    raise KeyError(mode)


FA = {"over": lambda a, b: 1, "plus": lambda a, b: 1, "inside": lambda a, b: b, "atop": lambda a, b: b,
      "outside": lambda a, b: 1 - b, "xor": lambda a, b: 1 - b}
FB = {"over": lambda a, b: 1 - a, "atop": lambda a, b: 1 - a, "xor": lambda a, b: 1 - a, "inside": lambda a, b: 0,
      "outside": lambda a, b: 0, "plus": lambda a, b: 1}


def param(p, S, D, i):
    return {"One": 1, "Zero": 0, "SourceColor": S[i], "OneMinusSourceColor": 1 - S[i], "DestinationColor": D[i],
            "OneMinusDestinationColor": 1 - D[i], "SourceAlpha": S[-1], "OneMinusSourceAlpha": 1 - S[-1],
            "DestinationAlpha": D[-1], "OneMinusDestinationAlpha": 1 - D[-1]}[p]


def eqn(eq, sp, dp, S, D, i):
    s, d = param(sp, S, D, i) * S[i], param(dp, S, D, i) * D[i]
    return {"Add": s + d, "Subtract": s - d, "ReverseSubtract": d - s, "Min": min(S[i], D[i]), "Max": max(S[i], D[i])}[eq]


def model_pre(e):
    n = e["n"]
    cs, cb = [fr(x) for x in e["ss"]], [fr(x) for x in e["sd"]]
    a, b = fr(e["src"][n]), fr(e["dst"][n])
    S, D = [c * a for c in cs] + [a], [c * b for c in cb] + [b]
    ev, mode = e["ev"], e["mode"]
    if ev == "blend":
        return [S[i] * (1 - b) + blend_fn(mode, cs[i], cb[i]) * a * b + (1 - a) * D[i] for i in range(n)] + [a + b - a * b]
    if ev == "compose":
        fa, fb = FA[mode](a, b), FB[mode](a, b)
        return [S[i] * fa + D[i] * fb for i in range(n)] + [min(F(1), a * fa + b * fb)]
    if ev == "custom":
        return [S[i] / 2 + D[(i + 1) % n] / 4 for i in range(n)] + [a / 2 + b / 4]
    q = e["q"]
    return [eqn(q["ceq"], q["cps"], q["cpd"], S, D, i) for i in range(n)] + [eqn(q["aeq"], q["aps"], q["apd"], S, D, n)]


def calibrate(trace_path, every, offset=0):
    """largest observed deviation per event kind/form/component type as a fraction of the tolerance of Blend.tla!NearQ
    (2^-RelBits * max(scale, |value|)); the largest out-of-range excursion in units of RangeTol; model excursions of plus"""
    mx, rng, plus_max = {}, {}, F(0)
    def up(d, k, v, e):
        if k not in d or v > d[k][0]:
            d[k] = (v, e)
    with open(trace_path) as f:
        for i, line in enumerate(f):
            if i % every != offset:
                continue
            e = json.loads(line)
            if e.get("panic"):
                continue
            t = e["t"]
            rel = F(1, 2 ** ((24 if t == "f32" else 53) - 4))
            n = e["n"]
            if e["ev"] in ("blend", "compose", "custom", "eqn"):
                out = [fr(x) for x in e["out"]]
                if any(v is None for v in out):
                    continue
                m = model_pre(e)
                a, b = fr(e["src"][n]), fr(e["dst"][n])
                sc = max(a, b)
                form = e["form"]
                w = F(1) if form == "pre" else out[n] if form == "alpha" else m[n]
                key = "%s.%s.%s" % (e["ev"], form, t)
                for c in range(n):
                    if form != "pre" and w == 0:
                        continue
                    dev = abs(out[c] * w - m[c]) / (rel * max(sc, abs(m[c]))) if max(sc, abs(m[c])) else F(0)
                    up(mx, key + (".soft_light" if e["mode"] == "soft_light" else ""), dev, e)
                    if e["ev"] in ("blend", "compose") and e["mode"] != "plus":
                        up(rng, key, max(-out[c], out[c] - 1, F(0)) / rel, e)
                    if e["mode"] == "plus":
                        plus_max = max(plus_max, out[c])
                if form != "opaque" and sc:
                    up(mx, key + ".alpha", abs(out[n] - m[n]) / (rel * max(sc, abs(m[n]))), e)
            elif e["ev"] == "premul":
                c, a = [fr(x) for x in e["c"]], fr(e["a"])
                pre, back = [fr(x) for x in e["pre"]], [fr(x) for x in e["back"]]
                if any(v is None for v in pre + back):
                    continue
                for k in range(n):
                    if c[k] * a:
                        up(mx, "premul.%s" % t, abs(pre[k] - c[k] * a) / (rel * c[k] * a), e)
                        up(mx, "premul.roundtrip.%s" % t, abs(back[k] - c[k]) / (rel * c[k]), e)
            elif e["ev"] == "unpremul":
                p, out = [fr(x) for x in e["p"]], [fr(x) for x in e["out"]]
                if any(v is None for v in out):
                    continue
                for k in range(n):
                    if p[k] and p[n]:
                        up(mx, "unpremul.%s" % t, abs(out[k] * p[n] - p[k]) / (rel * p[k]), e)
    return ({k: round(float(v[0]), 4) for k, v in sorted(mx.items())}, {k: round(float(v[0]), 4) for k, v in sorted(rng.items())},
            float(plus_max))


# ----------------------------------------------------------------------------- helpers

def flo(xs):
    return [dy_to_float(x) for x in xs]


def describe(e):
    if e["ev"] in ("blend", "compose", "custom", "eqn"):
        q = (" " + json.dumps(e["q"], sort_keys=True)) if e.get("q") else ""
        return "%s<%s> %s %s form=%s%s: src=%r dst=%r (straight %r / %r) -> out=%r%s" % (
            e["ty"], e["t"], e["ev"], e.get("mode", ""), e["form"], q, flo(e["src"]), flo(e["dst"]), flo(e["ss"]), flo(e["sd"]),
            flo(e["out"]), " PANIC " + e.get("msg", "") if e.get("panic") else "")
    if e["ev"] == "premul":
        return "%s<%s> premultiply via %s: c=%r a=%r -> pre=%r back=%r%s" % (
            e["ty"], e["t"], e["via"], flo(e["c"]), dy_to_float(e["a"]), flo(e["pre"]), flo(e["back"]),
            " PANIC " + e.get("msg", "") if e.get("panic") else "")
    return "%s<%s> unpremultiply via %s: p=%r -> out=%r%s" % (e["ty"], e["t"], e["via"], flo(e["p"]), flo(e["out"]),
                                                             " PANIC " + e.get("msg", "") if e.get("panic") else "")


REASONS = {
    "panic": "palette panicked",
    "non-finite": "the result is NaN or infinite",
    "bad-event": "the harness recorded inconsistent inputs (defect of the harness, not of palette)",
    "value-differs": "a colour component differs from the W3C value (Blend.tla) beyond Arith(8)",
    "alpha-differs": "the result alpha differs from the W3C value (Blend.tla) beyond Arith(8)",
    "out-of-range": "a result component is outside [0, 1] beyond rounding although the W3C value is inside",
    "alpha-out-of-range": "the result alpha is outside [0, 1]",
    "plus-colour-above-one": "Compose::plus returns the W3C `lighter` value Cs + Cb, which exceeds 1 (alpha is clamped, the colour is not): "
                             "the statement's range clause fails where the reference formula itself does",
    "round-trip-differs": "unpremultiply(premultiply(c, a)) is not c (a != 0) / not zero (a = 0)",
    "no step of the specification matches this line": "no step of the specification matches this event",
}


def coords_of(ev, why):
    return {"kind": ev.get("ev"), "class": why, "mode": ev.get("mode") or ev.get("via") or "", "form": ev.get("form", ""),
            "ty": ev.get("ty"), "t": ev.get("t")}


def no_wrapped_rejects(ctx, tag):
    for out in ctx.work.glob(tag + ".chunk*.tlc.out"):
        for line in open(out):
            if line.startswith('<< "REJECT"'):
                raise ToolError("wrapped REJECT line in %s: shorten the reason texts of TraceBlend.tla" % out)


def interleave(ctx, path, chunk):
    """Events are independent: deal them round-robin over the validation chunks so that the expensive ones
    (soft-light, three-channel types) do not all land in one TLC process."""
    lines = open(path).readlines()
    k = max(1, -(-len(lines) // chunk))
    out = ctx.p("blend.dealt.ndjson")
    with open(out, "w") as f:
        for j in range(k):
            f.writelines(lines[j::k])
    return out


def zero_actions_final(out_path, module_names):
    """like common.coverage_zero_actions, but on the LAST coverage report only: TLC also prints interim reports every
    minute, in which actions of deeper levels legitimately still have count 0"""
    last = {}
    rx = re.compile(r"^<(\w+) line \d+, col \d+ to line \d+, col \d+ of module (\w+)>: (\d+):(\d+)")
    for line in open(out_path):
        m = rx.match(line)
        if m and m.group(2) in module_names:
            last[m.group(1)] = int(m.group(4))
    if not last:
        raise ToolError("no coverage report in %s" % out_path)
    return sorted(k for k, v in last.items() if v == 0)


def model_run(ctx):
    gbits = 2 if ctx.quick else 3
    g = 2 ** gbits
    ops = "{" + ", ".join('"%s"' % o for o in ALL_OPS) + "}"
    # vacuity control with -coverage on a slice (three operations, every second grid value) that takes every action:
    # coverage slows the exact arithmetic down about 20x. The state-count identity below is the complete control for
    # the full run: it holds iff every case state has its `done` successor, i.e. iff its action was enabled ...
    r = tlc_mc(ctx, "MC_Blend", constants={"GBits": 2, "Ops": '{"soft_light", "xor", "premul"}', "EnumStep": 2, "AssertPlusRange": '"no"'},
               tag="blend_model_cov", workers=3, timeout=900)
    zero = zero_actions_final(r.out_path, {"Blend", "MC_Blend"})
    if zero:
        raise ToolError("vacuity: actions never taken in MC_Blend: %s" % zero)
    # ... and every operation on the whole grid without
    r = tlc_mc(ctx, "MC_Blend", constants={"GBits": gbits, "Ops": ops, "AssertPlusRange": '"no"'}, tag="blend_model", workers=6,
               coverage=False, timeout=1500)
    cases = (g + 1) ** 4
    want = len(ALL_OPS) * ((g + 1) + 2 * cases)
    if r.distinct != want:
        raise ToolError("MC_Blend enumerated %d states, expected %d (18 operations x (%d blocks + 2 x %d cases))" % (r.distinct, want, g + 1, cases))
    # the clause the W3C formulas themselves violate: run the assertion, expect the counterexample, report it
    findings = []
    for part in ("colour", "alpha"):
        rp = tlc_mc(ctx, "MC_Blend", constants={"GBits": gbits, "Ops": '{"plus"}', "AssertPlusRange": '"%s"' % part},
                    tag="blend_model_plus_" + part, workers=1, coverage=False, invariants_ok=False, timeout=600)
        if rp.ok:
            raise ToolError("MC_Blend: the range clause for the %s of `plus` unexpectedly holds on the model" % part)
        args = re.findall(r"arg = <<(\d+), (\d+), (\d+), (\d+)>>", open(rp.out_path).read())
        if not args:
            raise ToolError("MC_Blend: no counterexample state in %s" % rp.out_path)
        a = [int(x) / g for x in args[-1]]
        findings.append({"clause": "result %s of `plus` (W3C lighter) in [0, 1]" % part, "holds_on_model": False,
                         "counterexample": {"cs": a[0], "cb": a[1], "as": a[2], "ab": a[3],
                                            "model_value": a[0] * a[2] + a[1] * a[3] if part == "colour" else a[2] + a[3]},
                         "tlc": "; ".join(rp.errors[:1])})
    # the two expected-red runs are not part of the exhaustive state count
    return g, cases, findings


def run(ctx):
    bins = cargo_build(["blend"])
    with ThreadPoolExecutor(max_workers=1) as ex:
        fut = ex.submit(model_run, ctx)       # the model run (6 workers) overlaps the recording and its validation
        tp = ctx.p("blend.ndjson")
        r = run_bin(bins["blend"], ["--tier", ctx.tier, "--out", tp], env={"VERIF_SEED": ctx.seed})
        stats = json.loads((r.stderr or "{}").strip().splitlines()[-1])
        chunk = 5000 if ctx.quick else 20000
        tp = interleave(ctx, tp, chunk)
        res = validate_trace(ctx, "TraceBlend", tp, stateless=True, chunk_events=chunk, tag="blend",
                             jobs=8 if ctx.quick else 9)
        g, cases, findings = fut.result()
    no_wrapped_rejects(ctx, "blend")
    # the harness counts the distinct per-channel cases it actually executed (per mode/operator, LinSrgb<f64>, Alpha form)
    if stats.get("grid") != g or stats.get("grid_cases_per_operation") != cases or stats.get("operations") != len(ALL_OPS) - 1:
        raise ToolError("the harness executed grid %s: %s cases for each of %s operations; the model has %d cases for each of %d" % (
            stats.get("grid"), stats.get("grid_cases_per_operation"), stats.get("operations"), cases, len(ALL_OPS) - 1))
    ctx.cov["traces_validated_against_impl"] += res.events - len(res.rejected)
    add_samples(ctx, tp, n=5, every=7919)
    by_class = {}
    for (line, ev, info, _scen) in res.rejected:
        why = info.strip().strip('"')
        by_class[why] = by_class.get(why, 0) + 1
        what = "%s - %s" % (describe(ev), REASONS.get(why, why))
        report(ctx, coords_of(ev, why), what, {"bin": "blend", "event": ev, "trace_line": line, "how": "./check C08 --replay <this file>"})
    cal, rng, plus_max = calibrate(tp, every=5 if ctx.quick else 40)
    ctx.cov["distinct_nontrivial"] = count_distinct(
        tp, lambda e: json.dumps([e["ev"], e.get("mode"), e.get("via"), e.get("form"), e["ty"], e["t"], e.get("src"), e.get("dst"),
                                  e.get("q"), e.get("c"), e.get("a"), e.get("p")]),
        lambda e: e["ev"] in ("premul", "unpremul") or e["src"][-1][0] != 0 or e["dst"][-1][0] != 0)
    worst = max(cal.values()) if cal else 0.0
    return finish(ctx, "model_checking",
                  rule="a case is one call of the blending API (operation, mode/operator/equations, form, colour type, component "
                       "type, exact source and backdrop); distinct by that tuple; non-trivial when source and backdrop are not "
                       "both fully transparent (premultiply/unpremultiply calls all count). Each call carries up to three "
                       "per-channel cases (cs, cb, as, ab).",
                  explanation="Blend.tla states the W3C Compositing and Blending Level 1 formulas (eleven separable blend functions, "
                              "the premultiplied compositing equation, six Porter-Duff operators by their Fa/Fb coefficients) in exact "
                              "arithmetic, plus palette's documented Equations table. TLC proves on every case of the grid "
                              "{0,1/%d,..,1}^4 x 17 operations: results in [0,1] (0 <= co <= ao <= 1), opaque inputs reduce to "
                              "B(cs,cb), transparent source over backdrop = backdrop, opaque source over anything = source, the eight "
                              "commutative modes/operators are symmetric, premultiply/unpremultiply round trip; the floating point "
                              "judge accepts the exact value and rejects one 8 tolerances away. The harness enumerates the same grid "
                              "(case counts compared) and TLC validates every recorded palette call against the model "
                              "(TraceBlend.tla)." % g,
                  trusted=["the exact encoding of floats in the harness (pvh::ex64, unit-tested)", "TLC, JVM, rustc",
                           "the transcription of the W3C formulas in spec/Blend.tla (section numbers cited there)"],
                  extra={"per_ev": stats.get("per_ev"), "panics": stats.get("panics"), "grid": g, "grid_cases_per_operation": cases,
                         "rejected_by_class": by_class,
                         "model_findings": findings,
                         "max_deviation_observed": cal, "max_deviation_observed_worst": worst,
                         "max_range_excursion_observed": rng, "plus_largest_colour_component_returned": plus_max,
                         "calibration_sample": "every %dth event" % (5 if ctx.quick else 40),
                         "tolerances": {"Arith(8)": "|x*w - value| <= 2^-(Prec-4) * max(max(as,ab), |value|) + 2^-120 "
                                                    "(Prec = 24 / 53; w = 1 premultiplied, w = result alpha for straight results); "
                                                    "max_deviation_observed is in units of this tolerance and must stay <= 0.125",
                                        "range": "[-2^-(Prec-4), 1 + 2^-(Prec-4)]"}})


def replay(ctx, path):
    rp = json.load(open(path))["replay"]
    bins = cargo_build(["blend"])
    tp = ctx.p("replay.ndjson")
    run_bin(bins["blend"], ["--one", json.dumps(rp["event"]), "--out", tp])
    res = validate_trace(ctx, "TraceBlend", tp, stateless=True, tag="replay")
    no_wrapped_rejects(ctx, "replay")
    if res.rejected:
        why = res.rejected[0][2].strip().strip('"')
        print("VIOLATION property=C08 replay=%s" % path)
        print("  still rejected: %s - %s" % (describe(res.rejected[0][1]), REASONS.get(why, why)))
        return 1
    print("replay accepted: %s" % describe(json.loads(open(tp).readline())))
    return 0
