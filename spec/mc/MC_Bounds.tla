------------------------------ MODULE MC_Bounds ------------------------------
(* The bounds contract as theorems of the model, exhaustively on a lattice:  *)
(* Within(Clamp(c)), Clamp(Clamp(c)) = Clamp(c), Within(c) => Clamp(c) = c,  *)
(* for every combination of component kinds and for the HWB coupling (in      *)
(* exact rational arithmetic).  Each state is one (shape, point) case.        *)
EXTENDS Bounds, TLC

(* lattice in eighths: far below, just below, at min, inside, at max, just above, far above *)
Lat == {-16, -1, 0, 2, 4, 8, 9, 24}
V(k) == DyMulPow2(DyFromInt(k), -3)
J(k) == IF k = 0 THEN <<0, 0>> ELSE IF k > 0 THEN <<1, 0, k>> ELSE <<-1, 0, -k>>   \* logged form of integer k
Kinds == { <<J(0), J(1)>>, <<J(0), <<>>>>, <<<<>>, <<>>>>, <<J(-1), J(1)>> }        \* bounded, min only, free, signed

VARIABLES shape, pt, hwb
vars == <<shape, pt, hwb>>

Init == /\ shape \in [1..3 -> Kinds]
        /\ pt \in [1..3 -> Lat]
        /\ hwb \in BOOLEAN
        /\ (hwb => shape = [i \in 1..3 |-> IF i = 1 THEN <<<<>>, <<>>>> ELSE <<J(0), J(1)>>])
Next == UNCHANGED vars
Spec == Init /\ [][Next]_vars

C == [i \in 1..3 |-> V(pt[i])]
Lo == [i \in 1..3 |-> shape[i][1]]
Hi == [i \in 1..3 |-> shape[i][2]]

BoxContract ==
  ~hwb => LET cl == BoxClamp(C, Lo, Hi)
          IN /\ BoxWithin(cl, Lo, Hi)
             /\ BoxClamp(cl, Lo, Hi) = cl
             /\ (BoxWithin(C, Lo, Hi) => cl = C)
             /\ (cl = C => BoxWithin(C, Lo, Hi))
             \* the floating point judges accept the exact answers
             /\ ClampOk("x", "f64", C, Lo, Hi, <<0, 0, 0>>, cl)
             /\ WithinFlagOk("x", "f64", C, Lo, Hi, <<0, 0, 0>>, IF BoxWithin(C, Lo, Hi) THEN 1 ELSE 0)
             /\ ~WithinFlagOk("x", "f64", C, Lo, Hi, <<0, 0, 0>>, IF BoxWithin(C, Lo, Hi) THEN 0 ELSE 1)

HwbContract ==
  hwb => LET q == HwbClampQ(C[2], C[3])
         IN /\ HwbWithinQ(q)
            /\ QEq(HwbClampQQ(q), q)
            /\ (HwbWithin(C, Lo, Hi) => QEq(q, <<C[2], C[3], DOne>>))
            \* the floating point judge accepts the exact result
            /\ (DyEq(q[3], DOne) => ClampOk("hwb", "f64", C, Lo, Hi, <<0, 0, 0>>, <<C[1], q[1], q[2]>>))

(* vacuity control: both the in-bounds and the out-of-bounds antecedents are reached *)
Reached == TRUE
=============================================================================
