//! C10 driver: every colour operator of palette (mix, lighten/darken, saturate/desaturate, hue shift and set,
//! clamp, component arithmetic, the colour-scheme helpers) on the 19 colour types of the D65 / sRGB family
//! x f32/f64, each case executed in every form that exists - by value, assigning, on a slice of three colours,
//! on Alpha<C, T> (by value and assigning), on PreAlpha<C> where implemented, and through the blanket
//! Darken / Desaturate impls - one NDJSON event per call with the exact values of inputs and outputs.
//! Judging is done by TLC (spec/trace/TraceOps.tla against spec/Ops.tla); nothing here decides the property.
//!
//! Which (operator family, colour type) pairs exist is the macro table at the end of this file, written from
//! the impl_* invocations of each colour file; a wrong entry is a compile error. The table is reported in
//! "caps" events and compared by TLC with Ops!Caps.
//!
//! usage: ops --tier quick|thorough --nodes ranges.json --out trace.ndjson        (VERIF_SEED)
//!        ops --one '<json>' --out trace.ndjson      re-execute one sweep: {"node","t","fam","m","in":[hex f64 x4],
//!                                                   "in2":[..]|null,"factors":[hex f64..],"pos":0..2}
//!
//! Events of one call signature are adjacent and share a "gid"; the by-value form comes first. A factor sweep of
//! one colour (increasing factors) is a run of consecutive groups after a {"ev":"reset"} line.

use palette::blend::{PreAlpha, Premultiply};
use palette::color_theory::{Analogous, Complementary, SplitComplementary, Tetradic, Triadic};
use palette::white_point::D65;
use palette::{
    Alpha, Clamp, ClampAssign, Darken, DarkenAssign, Desaturate, DesaturateAssign, Lighten, LightenAssign, Mix, MixAssign,
    Saturate, SaturateAssign, SetHue, ShiftHue, ShiftHueAssign, WithHue,
};
use palette::{Hsl, Hsluv, Hsv, Hwb, Lab, Lch, Lchuv, LinSrgb, Luv, Okhsl, Okhsv, Okhwb, Oklab, Oklch, Srgb, Xyz, Yxy};
use pvh::*;
use serde_json::{json, Value};
use std::collections::BTreeMap;
use std::ops::{Add, AddAssign, Div, DivAssign, Mul, MulAssign, Neg, Sub, SubAssign};

// ------------------------------------------------------------------------------------------ numbers, nodes

trait Flt: Ex + Copy + PartialOrd + Neg<Output = Self> + 'static {
    fn of(x: f64) -> Self;
}
impl Flt for f32 {
    fn of(x: f64) -> f32 { x as f32 }
}
impl Flt for f64 {
    fn of(x: f64) -> f64 { x }
}

/// up to three components in declared order, transparency at index 3
type V<T> = [T; 4];

trait Node<T: Flt>: Copy + 'static {
    const NAME: &'static str;
    const N: usize;
    fn of(v: &V<T>) -> Self;
    fn arr(&self) -> [T; 3];
    /// the type's own min_ / max_ accessors per component (None: no such accessor)
    fn lo() -> [Option<T>; 3];
    fn hi() -> [Option<T>; 3];
}

type NXyz<T> = Xyz<D65, T>;
type NYxy<T> = Yxy<D65, T>;
type NLab<T> = Lab<D65, T>;
type NLch<T> = Lch<D65, T>;
type NLuv<T> = Luv<D65, T>;
type NLchuv<T> = Lchuv<D65, T>;
type NHsluv<T> = Hsluv<D65, T>;
type NOklab<T> = Oklab<T>;
type NOklch<T> = Oklch<T>;
type NOkhsl<T> = Okhsl<T>;
type NOkhsv<T> = Okhsv<T>;
type NOkhwb<T> = Okhwb<T>;
type NLinSrgb<T> = LinSrgb<T>;
type NSrgb<T> = Srgb<T>;
type NHsl<T> = Hsl<palette::encoding::Srgb, T>;
type NHsv<T> = Hsv<palette::encoding::Srgb, T>;
type NHwb<T> = Hwb<palette::encoding::Srgb, T>;
type NLinLuma<T> = palette::luma::LinLuma<D65, T>;
type NSrgbLuma<T> = palette::luma::SrgbLuma<T>;
// outside the XYZ conversion group, with the same operator macros
type NJab<T> = palette::cam16::Cam16UcsJab<T>;
type NJmh<T> = palette::cam16::Cam16UcsJmh<T>;
type NLms<T> = palette::lms::VonKriesLms<D65, T>;

macro_rules! node {
    ($T:ty, $ty:ty, $name:expr, $n:expr, |$v:ident| $new:expr, |$s:ident| [$($g:expr),*], lo [$($lo:expr),*], hi [$($hi:expr),*]) => {
        impl Node<$T> for $ty {
            const NAME: &'static str = $name;
            const N: usize = $n;
            fn of($v: &V<$T>) -> Self { $new }
            fn arr(&self) -> [$T; 3] { let $s = self; [$($g),*] }
            fn lo() -> [Option<$T>; 3] { [$($lo),*] }
            fn hi() -> [Option<$T>; 3] { [$($hi),*] }
        }
    };
}
macro_rules! all_nodes {
    ($T:ty) => {
        node!($T, NXyz<$T>, "xyz", 3, |v| Xyz::new(v[0], v[1], v[2]), |s| [s.x, s.y, s.z],
              lo [Some(<NXyz<$T>>::min_x()), Some(<NXyz<$T>>::min_y()), Some(<NXyz<$T>>::min_z())],
              hi [Some(<NXyz<$T>>::max_x()), Some(<NXyz<$T>>::max_y()), Some(<NXyz<$T>>::max_z())]);
        node!($T, NYxy<$T>, "yxy", 3, |v| Yxy::new(v[0], v[1], v[2]), |s| [s.x, s.y, s.luma],
              lo [Some(<NYxy<$T>>::min_x()), Some(<NYxy<$T>>::min_y()), Some(<NYxy<$T>>::min_luma())],
              hi [Some(<NYxy<$T>>::max_x()), Some(<NYxy<$T>>::max_y()), Some(<NYxy<$T>>::max_luma())]);
        node!($T, NLab<$T>, "lab", 3, |v| Lab::new(v[0], v[1], v[2]), |s| [s.l, s.a, s.b],
              lo [Some(<NLab<$T>>::min_l()), Some(<NLab<$T>>::min_a()), Some(<NLab<$T>>::min_b())],
              hi [Some(<NLab<$T>>::max_l()), Some(<NLab<$T>>::max_a()), Some(<NLab<$T>>::max_b())]);
        node!($T, NLch<$T>, "lch", 3, |v| Lch::new(v[0], v[1], v[2]), |s| [s.l, s.chroma, s.hue.into_inner()],
              lo [Some(<NLch<$T>>::min_l()), Some(<NLch<$T>>::min_chroma()), None],
              hi [Some(<NLch<$T>>::max_l()), Some(<NLch<$T>>::max_chroma()), None]);
        node!($T, NLuv<$T>, "luv", 3, |v| Luv::new(v[0], v[1], v[2]), |s| [s.l, s.u, s.v],
              lo [Some(<NLuv<$T>>::min_l()), Some(<NLuv<$T>>::min_u()), Some(<NLuv<$T>>::min_v())],
              hi [Some(<NLuv<$T>>::max_l()), Some(<NLuv<$T>>::max_u()), Some(<NLuv<$T>>::max_v())]);
        node!($T, NLchuv<$T>, "lchuv", 3, |v| Lchuv::new(v[0], v[1], v[2]), |s| [s.l, s.chroma, s.hue.into_inner()],
              lo [Some(<NLchuv<$T>>::min_l()), Some(<NLchuv<$T>>::min_chroma()), None],
              hi [Some(<NLchuv<$T>>::max_l()), Some(<NLchuv<$T>>::max_chroma()), None]);
        node!($T, NHsluv<$T>, "hsluv", 3, |v| Hsluv::new(v[0], v[1], v[2]), |s| [s.hue.into_inner(), s.saturation, s.l],
              lo [None, Some(<NHsluv<$T>>::min_saturation()), Some(<NHsluv<$T>>::min_l())],
              hi [None, Some(<NHsluv<$T>>::max_saturation()), Some(<NHsluv<$T>>::max_l())]);
        node!($T, NOklab<$T>, "oklab", 3, |v| Oklab::new(v[0], v[1], v[2]), |s| [s.l, s.a, s.b],
              lo [Some(<NOklab<$T>>::min_l()), None, None],
              hi [Some(<NOklab<$T>>::max_l()), None, None]);
        node!($T, NOklch<$T>, "oklch", 3, |v| Oklch::new(v[0], v[1], v[2]), |s| [s.l, s.chroma, s.hue.into_inner()],
              lo [Some(<NOklch<$T>>::min_l()), Some(<NOklch<$T>>::min_chroma()), None],
              hi [Some(<NOklch<$T>>::max_l()), None, None]);
        node!($T, NOkhsl<$T>, "okhsl", 3, |v| Okhsl::new(v[0], v[1], v[2]), |s| [s.hue.into_inner(), s.saturation, s.lightness],
              lo [None, Some(<NOkhsl<$T>>::min_saturation()), Some(<NOkhsl<$T>>::min_lightness())],
              hi [None, Some(<NOkhsl<$T>>::max_saturation()), Some(<NOkhsl<$T>>::max_lightness())]);
        node!($T, NOkhsv<$T>, "okhsv", 3, |v| Okhsv::new(v[0], v[1], v[2]), |s| [s.hue.into_inner(), s.saturation, s.value],
              lo [None, Some(<NOkhsv<$T>>::min_saturation()), Some(<NOkhsv<$T>>::min_value())],
              hi [None, Some(<NOkhsv<$T>>::max_saturation()), Some(<NOkhsv<$T>>::max_value())]);
        node!($T, NOkhwb<$T>, "okhwb", 3, |v| Okhwb::new(v[0], v[1], v[2]), |s| [s.hue.into_inner(), s.whiteness, s.blackness],
              lo [None, Some(<NOkhwb<$T>>::min_whiteness()), Some(<NOkhwb<$T>>::min_blackness())],
              hi [None, Some(<NOkhwb<$T>>::max_whiteness()), Some(<NOkhwb<$T>>::max_blackness())]);
        node!($T, NLinSrgb<$T>, "linsrgb", 3, |v| LinSrgb::new(v[0], v[1], v[2]), |s| [s.red, s.green, s.blue],
              lo [Some(<NLinSrgb<$T>>::min_red()), Some(<NLinSrgb<$T>>::min_green()), Some(<NLinSrgb<$T>>::min_blue())],
              hi [Some(<NLinSrgb<$T>>::max_red()), Some(<NLinSrgb<$T>>::max_green()), Some(<NLinSrgb<$T>>::max_blue())]);
        node!($T, NSrgb<$T>, "srgb", 3, |v| Srgb::new(v[0], v[1], v[2]), |s| [s.red, s.green, s.blue],
              lo [Some(<NSrgb<$T>>::min_red()), Some(<NSrgb<$T>>::min_green()), Some(<NSrgb<$T>>::min_blue())],
              hi [Some(<NSrgb<$T>>::max_red()), Some(<NSrgb<$T>>::max_green()), Some(<NSrgb<$T>>::max_blue())]);
        node!($T, NHsl<$T>, "hsl", 3, |v| Hsl::new(v[0], v[1], v[2]), |s| [s.hue.into_inner(), s.saturation, s.lightness],
              lo [None, Some(<NHsl<$T>>::min_saturation()), Some(<NHsl<$T>>::min_lightness())],
              hi [None, Some(<NHsl<$T>>::max_saturation()), Some(<NHsl<$T>>::max_lightness())]);
        node!($T, NHsv<$T>, "hsv", 3, |v| Hsv::new(v[0], v[1], v[2]), |s| [s.hue.into_inner(), s.saturation, s.value],
              lo [None, Some(<NHsv<$T>>::min_saturation()), Some(<NHsv<$T>>::min_value())],
              hi [None, Some(<NHsv<$T>>::max_saturation()), Some(<NHsv<$T>>::max_value())]);
        node!($T, NHwb<$T>, "hwb", 3, |v| Hwb::new(v[0], v[1], v[2]), |s| [s.hue.into_inner(), s.whiteness, s.blackness],
              lo [None, Some(<NHwb<$T>>::min_whiteness()), Some(<NHwb<$T>>::min_blackness())],
              hi [None, Some(<NHwb<$T>>::max_whiteness()), Some(<NHwb<$T>>::max_blackness())]);
        node!($T, NLinLuma<$T>, "linluma", 1, |v| palette::luma::Luma::new(v[0]), |s| [s.luma, 0.0, 0.0],
              lo [Some(<NLinLuma<$T>>::min_luma()), None, None], hi [Some(<NLinLuma<$T>>::max_luma()), None, None]);
        node!($T, NSrgbLuma<$T>, "srgbluma", 1, |v| palette::luma::Luma::new(v[0]), |s| [s.luma, 0.0, 0.0],
              lo [Some(<NSrgbLuma<$T>>::min_luma()), None, None], hi [Some(<NSrgbLuma<$T>>::max_luma()), None, None]);
        node!($T, NJab<$T>, "cam16ucsjab", 3, |v| palette::cam16::Cam16UcsJab::new(v[0], v[1], v[2]), |s| [s.lightness, s.a, s.b],
              lo [Some(<NJab<$T>>::min_lightness()), None, None], hi [Some(<NJab<$T>>::max_lightness()), None, None]);
        node!($T, NJmh<$T>, "cam16ucsjmh", 3, |v| palette::cam16::Cam16UcsJmh::new(v[0], v[1], v[2]), |s| [s.lightness, s.colorfulness, s.hue.into_inner()],
              lo [Some(<NJmh<$T>>::min_lightness()), Some(<NJmh<$T>>::min_colorfulness()), None],
              hi [Some(<NJmh<$T>>::max_lightness()), Some(<NJmh<$T>>::max_srgb_colorfulness()), None]);
        node!($T, NLms<$T>, "lmsvk", 3, |v| palette::lms::Lms::new(v[0], v[1], v[2]), |s| [s.long, s.medium, s.short],
              lo [Some(<NLms<$T>>::min_long()), Some(<NLms<$T>>::min_medium()), Some(<NLms<$T>>::min_short())], hi [None, None, None]);
    };
}
all_nodes!(f32);
all_nodes!(f64);

// ------------------------------------------------------------------------------------------ recording

struct Cx {
    rec: Rec,
    gid: u64,
    groups: u64,
    panics: u64,
    per_fam: BTreeMap<String, u64>,
    pairs: BTreeMap<String, u64>,
    forms: BTreeMap<String, u64>,
}

/// one case: the subject colour, the second colour, the factor / amount / hue / scalar, two different
/// neighbours for the slice form and the subject's position in the slice
#[derive(Clone, Copy)]
struct Case<T> {
    a: V<T>,
    b: V<T>,
    f: T,
    nb: [V<T>; 2],
    pos: usize,
}

/// what the events of one group have in common
struct Grp {
    gid: u64,
    fam: &'static str,
    m: &'static str,
    node: &'static str,
    n: usize,
    t: &'static str,
    lo: Value,
    hi: Value,
}

fn bounds_json<T: Flt>(b: [Option<T>; 3], n: usize) -> Value {
    Value::Array(b[..n].iter().map(|x| match x { Some(v) => v.ex(), None => json!([]) }).collect())
}

fn open<T: Flt, C: Node<T>>(cx: &mut Cx, fam: &'static str, m: &'static str) -> Grp {
    cx.gid += 1;
    cx.groups += 1;
    *cx.pairs.entry(format!("{}/{}/{}", fam, C::NAME, T::NAME)).or_insert(0) += 1;
    Grp { gid: cx.gid, fam, m, node: C::NAME, n: C::N, t: T::NAME, lo: bounds_json(C::lo(), C::N), hi: bounds_json(C::hi(), C::N) }
}

fn enc<T: Flt>(v: &V<T>, n: usize, wrapped: bool) -> Value {
    let mut o: Vec<Value> = v[..n].iter().map(|c| c.ex()).collect();
    if wrapped { o.push(v[3].ex()); }
    Value::Array(o)
}

impl Grp {
    /// `b`: the second colour if the operator takes one; `args`: the scalars as actually passed
    fn ev<T: Flt>(&self, cx: &mut Cx, form: &str, call: &str, a: &V<T>, b: Option<&V<T>>, args: &[T], pos: usize,
                  out: Result<Vec<V<T>>, String>) {
        let wrapped = form.contains("alpha");
        let mut e = json!({"ev": "op", "gid": self.gid, "fam": self.fam, "m": self.m, "form": form, "call": call, "node": self.node,
                           "t": self.t, "in": enc(a, self.n, wrapped),
                           "in2": match b { Some(b) => enc(b, self.n, wrapped), None => json!([]) },
                           "args": Value::Array(args.iter().map(|x| x.ex()).collect()),
                           "pos": pos});
        if form == "val" { e["lo"] = self.lo.clone(); e["hi"] = self.hi.clone(); }
        match out {
            Ok(cs) => {
                e["out"] = Value::Array(cs.iter().map(|c| enc(c, self.n, wrapped)).collect());
                e["panic"] = json!(0);
            }
            Err(msg) => {
                e["out"] = json!([]);
                e["panic"] = json!(1);
                e["msg"] = json!(msg);
                cx.panics += 1;
            }
        }
        *cx.per_fam.entry(self.fam.to_string()).or_insert(0) += 1;
        *cx.forms.entry(form.to_string()).or_insert(0) += 1;
        cx.rec.ev(e);
    }
}

fn col<T: Flt, C: Node<T>>(v: &V<T>) -> C { C::of(v) }
fn al<T: Flt, C: Node<T>>(v: &V<T>) -> Alpha<C, T> { Alpha { color: C::of(v), alpha: v[3] } }
fn pre<T: Flt, C: Node<T> + Premultiply<Scalar = T>>(v: &V<T>) -> PreAlpha<C> { PreAlpha { color: C::of(v), alpha: v[3] } }
fn o<T: Flt, C: Node<T>>(c: C) -> V<T> { let a = c.arr(); [a[0], a[1], a[2], T::of(0.0)] }
fn oa<T: Flt, C: Node<T>>(c: Alpha<C, T>) -> V<T> { let a = c.color.arr(); [a[0], a[1], a[2], c.alpha] }
fn op<T: Flt, C: Node<T> + Premultiply<Scalar = T>>(c: PreAlpha<C>) -> V<T> { let a = c.color.arr(); [a[0], a[1], a[2], c.alpha] }
/// a slice of three colours with the subject at `pos` between two different neighbours
fn slice3<T: Flt, C: Node<T>>(k: &Case<T>) -> Vec<C> {
    let mut s: Vec<C> = vec![col(&k.nb[0]), col(&k.nb[1])];
    s.insert(k.pos, col(&k.a));
    s
}

// ------------------------------------------------------------------------------------------ the operators, every form

macro_rules! mix_runner {
    ($fname:ident $(, pre $pre:tt)?) => {
        fn $fname<T: Flt, C>(cx: &mut Cx, k: &Case<T>)
        where
            C: Node<T> + Mix<Scalar = T> + MixAssign<Scalar = T> $(+ Premultiply<Scalar = $pre>)?,
            Alpha<C, T>: Mix<Scalar = T> + MixAssign<Scalar = T>,
            $(PreAlpha<C>: Mix<Scalar = $pre> + MixAssign<Scalar = $pre>,)?
        {
            let g = open::<T, C>(cx, "Mix", "mix");
            let (a, b, f) = (k.a, k.b, k.f);
            g.ev(cx, "val", "mix", &a, Some(&b), &[f], 0, catch(|| vec![o(col::<T, C>(&a).mix(col(&b), f))]));
            g.ev(cx, "assign", "mix_assign", &a, Some(&b), &[f], 0, catch(|| { let mut x = col::<T, C>(&a); x.mix_assign(col(&b), f); vec![o(x)] }));
            g.ev(cx, "alpha", "mix", &a, Some(&b), &[f], 0, catch(|| vec![oa(al::<T, C>(&a).mix(al(&b), f))]));
            g.ev(cx, "alpha_assign", "mix_assign", &a, Some(&b), &[f], 0, catch(|| { let mut x = al::<T, C>(&a); x.mix_assign(al(&b), f); vec![oa(x)] }));
            $(
                let _: Option<$pre> = None;
                g.ev(cx, "prealpha", "mix", &a, Some(&b), &[f], 0, catch(|| vec![op(pre::<T, C>(&a).mix(pre(&b), f))]));
                g.ev(cx, "prealpha_assign", "mix_assign", &a, Some(&b), &[f], 0, catch(|| { let mut x = pre::<T, C>(&a); x.mix_assign(pre(&b), f); vec![op(x)] }));
            )?
        }
    };
}
mix_runner!(run_mix);
mix_runner!(run_mix_pre, pre T);

macro_rules! factor_runner {
    ($fname:ident, $fam:expr, $m:expr, $Tr:ident, $TrA:ident, $by:ident, $asg:ident, $DTr:ident, $DTrA:ident, $dby:ident, $dasg:ident) => {
        fn $fname<T: Flt, C>(cx: &mut Cx, k: &Case<T>)
        where
            C: Node<T> + $Tr<Scalar = T> + $TrA<Scalar = T>,
            [C]: $TrA<Scalar = T>,
            Alpha<C, T>: $Tr<Scalar = T> + $TrA<Scalar = T>,
        {
            let g = open::<T, C>(cx, $fam, $m);
            let (a, f, nf, pos) = (k.a, k.f, -k.f, k.pos);
            g.ev(cx, "val", stringify!($by), &a, None, &[f], 0, catch(|| vec![o($Tr::$by(col::<T, C>(&a), f))]));
            g.ev(cx, "assign", stringify!($asg), &a, None, &[f], 0, catch(|| { let mut x = col::<T, C>(&a); $TrA::$asg(&mut x, f); vec![o(x)] }));
            g.ev(cx, "slice", stringify!($asg), &a, None, &[f], pos, catch(|| { let mut s = slice3::<T, C>(k); $TrA::$asg(&mut s[..], f); vec![o(s[pos])] }));
            g.ev(cx, "alpha", stringify!($by), &a, None, &[f], 0, catch(|| vec![oa($Tr::$by(al::<T, C>(&a), f))]));
            g.ev(cx, "alpha_assign", stringify!($asg), &a, None, &[f], 0, catch(|| { let mut x = al::<T, C>(&a); $TrA::$asg(&mut x, f); vec![oa(x)] }));
            // the blanket impls: darken / desaturate by the negated amount must be the same call
            g.ev(cx, "blanket", stringify!($dby), &a, None, &[nf], 0, catch(|| vec![o($DTr::$dby(col::<T, C>(&a), nf))]));
            g.ev(cx, "blanket_assign", stringify!($dasg), &a, None, &[nf], 0, catch(|| { let mut x = col::<T, C>(&a); $DTrA::$dasg(&mut x, nf); vec![o(x)] }));
            g.ev(cx, "blanket_slice", stringify!($dasg), &a, None, &[nf], pos, catch(|| { let mut s = slice3::<T, C>(k); $DTrA::$dasg(&mut s[..], nf); vec![o(s[pos])] }));
            g.ev(cx, "blanket_alpha", stringify!($dby), &a, None, &[nf], 0, catch(|| vec![oa($DTr::$dby(al::<T, C>(&a), nf))]));
            g.ev(cx, "blanket_alpha_assign", stringify!($dasg), &a, None, &[nf], 0, catch(|| { let mut x = al::<T, C>(&a); $DTrA::$dasg(&mut x, nf); vec![oa(x)] }));
        }
    };
}
factor_runner!(run_lighten, "Lighten", "lighten", Lighten, LightenAssign, lighten, lighten_assign, Darken, DarkenAssign, darken, darken_assign);
factor_runner!(run_lighten_fixed, "Lighten", "lighten_fixed", Lighten, LightenAssign, lighten_fixed, lighten_fixed_assign, Darken, DarkenAssign, darken_fixed, darken_fixed_assign);
factor_runner!(run_saturate, "Saturate", "saturate", Saturate, SaturateAssign, saturate, saturate_assign, Desaturate, DesaturateAssign, desaturate, desaturate_assign);
factor_runner!(run_saturate_fixed, "Saturate", "saturate_fixed", Saturate, SaturateAssign, saturate_fixed, saturate_fixed_assign, Desaturate, DesaturateAssign, desaturate_fixed, desaturate_fixed_assign);

fn run_shift_hue<T: Flt, C>(cx: &mut Cx, k: &Case<T>)
where
    C: Node<T> + ShiftHue<Scalar = T> + ShiftHueAssign<Scalar = T>,
    [C]: ShiftHueAssign<Scalar = T>,
    Alpha<C, T>: ShiftHue<Scalar = T> + ShiftHueAssign<Scalar = T>,
{
    let g = open::<T, C>(cx, "ShiftHue", "shift_hue");
    let (a, f, pos) = (k.a, k.f, k.pos);
    g.ev(cx, "val", "shift_hue", &a, None, &[f], 0, catch(|| vec![o(col::<T, C>(&a).shift_hue(f))]));
    g.ev(cx, "assign", "shift_hue_assign", &a, None, &[f], 0, catch(|| { let mut x = col::<T, C>(&a); x.shift_hue_assign(f); vec![o(x)] }));
    g.ev(cx, "slice", "shift_hue_assign", &a, None, &[f], pos, catch(|| { let mut s = slice3::<T, C>(k); s[..].shift_hue_assign(f); vec![o(s[pos])] }));
    g.ev(cx, "alpha", "shift_hue", &a, None, &[f], 0, catch(|| vec![oa(al::<T, C>(&a).shift_hue(f))]));
    g.ev(cx, "alpha_assign", "shift_hue_assign", &a, None, &[f], 0, catch(|| { let mut x = al::<T, C>(&a); x.shift_hue_assign(f); vec![oa(x)] }));
}

fn run_with_hue<T: Flt, C>(cx: &mut Cx, k: &Case<T>)
where
    C: Node<T> + WithHue<T> + SetHue<T>,
    [C]: SetHue<T>,
    Alpha<C, T>: WithHue<T> + SetHue<T>,
{
    let g = open::<T, C>(cx, "WithHue", "with_hue");
    let (a, f, pos) = (k.a, k.f, k.pos);
    g.ev(cx, "val", "with_hue", &a, None, &[f], 0, catch(|| vec![o(col::<T, C>(&a).with_hue(f))]));
    g.ev(cx, "assign", "set_hue", &a, None, &[f], 0, catch(|| { let mut x = col::<T, C>(&a); x.set_hue(f); vec![o(x)] }));
    g.ev(cx, "slice", "set_hue", &a, None, &[f], pos, catch(|| { let mut s = slice3::<T, C>(k); s[..].set_hue(f); vec![o(s[pos])] }));
    g.ev(cx, "alpha", "with_hue", &a, None, &[f], 0, catch(|| vec![oa(al::<T, C>(&a).with_hue(f))]));
    g.ev(cx, "alpha_assign", "set_hue", &a, None, &[f], 0, catch(|| { let mut x = al::<T, C>(&a); x.set_hue(f); vec![oa(x)] }));
}

fn run_clamp<T: Flt, C>(cx: &mut Cx, k: &Case<T>)
where
    C: Node<T> + Clamp + ClampAssign,
    [C]: ClampAssign,
    Alpha<C, T>: Clamp + ClampAssign,
{
    let g = open::<T, C>(cx, "Clamp", "clamp");
    let (a, pos) = (k.a, k.pos);
    g.ev::<T>(cx, "val", "clamp", &a, None, &[], 0, catch(|| vec![o(col::<T, C>(&a).clamp())]));
    g.ev::<T>(cx, "assign", "clamp_assign", &a, None, &[], 0, catch(|| { let mut x = col::<T, C>(&a); x.clamp_assign(); vec![o(x)] }));
    g.ev::<T>(cx, "slice", "clamp_assign", &a, None, &[], pos, catch(|| { let mut s = slice3::<T, C>(k); s[..].clamp_assign(); vec![o(s[pos])] }));
    g.ev::<T>(cx, "alpha", "clamp", &a, None, &[], 0, catch(|| vec![oa(al::<T, C>(&a).clamp())]));
    g.ev::<T>(cx, "alpha_assign", "clamp_assign", &a, None, &[], 0, catch(|| { let mut x = al::<T, C>(&a); x.clamp_assign(); vec![oa(x)] }));
}

// component arithmetic: colour-colour ($cc) and colour-scalar ($cs), by value and assigning, bare / Alpha / PreAlpha
macro_rules! arith_runner {
    ($cc:ident, $cs:ident, $fam:expr, $m:expr, $ms:expr, $Tr:ident, $TrA:ident, $f:ident, $fa:ident $(, pre $pre:tt)?) => {
        fn $cc<T: Flt, C>(cx: &mut Cx, k: &Case<T>)
        where
            C: Node<T> + $Tr<C, Output = C> + $TrA<C> $(+ Premultiply<Scalar = $pre>)?,
            Alpha<C, T>: $Tr<Alpha<C, T>, Output = Alpha<C, T>> + $TrA<Alpha<C, T>>,
            $(PreAlpha<C>: $Tr<PreAlpha<C>, Output = PreAlpha<C>> + $TrA<PreAlpha<C>> + Sized, $pre: Flt,)?
        {
            let g = open::<T, C>(cx, $fam, $m);
            let (a, b) = (k.a, k.b);
            g.ev::<T>(cx, "val", $m, &a, Some(&b), &[], 0, catch(|| vec![o($Tr::$f(col::<T, C>(&a), col::<T, C>(&b)))]));
            g.ev::<T>(cx, "assign", concat!($m, "_assign"), &a, Some(&b), &[], 0, catch(|| { let mut x = col::<T, C>(&a); $TrA::$fa(&mut x, col::<T, C>(&b)); vec![o(x)] }));
            g.ev::<T>(cx, "alpha", $m, &a, Some(&b), &[], 0, catch(|| vec![oa($Tr::$f(al::<T, C>(&a), al::<T, C>(&b)))]));
            g.ev::<T>(cx, "alpha_assign", concat!($m, "_assign"), &a, Some(&b), &[], 0, catch(|| { let mut x = al::<T, C>(&a); $TrA::$fa(&mut x, al::<T, C>(&b)); vec![oa(x)] }));
            $(
                let _: Option<$pre> = None;
                g.ev::<T>(cx, "prealpha", $m, &a, Some(&b), &[], 0, catch(|| vec![op($Tr::$f(pre::<T, C>(&a), pre::<T, C>(&b)))]));
                g.ev::<T>(cx, "prealpha_assign", concat!($m, "_assign"), &a, Some(&b), &[], 0, catch(|| { let mut x = pre::<T, C>(&a); $TrA::$fa(&mut x, pre::<T, C>(&b)); vec![op(x)] }));
            )?
        }
        fn $cs<T: Flt, C>(cx: &mut Cx, k: &Case<T>)
        where
            C: Node<T> + $Tr<T, Output = C> + $TrA<T> $(+ Premultiply<Scalar = $pre>)?,
            Alpha<C, T>: $Tr<T, Output = Alpha<C, T>> + $TrA<T>,
            $(PreAlpha<C>: $Tr<$pre, Output = PreAlpha<C>> + $TrA<$pre> + Sized,)?
        {
            let g = open::<T, C>(cx, $fam, $ms);
            let (a, f) = (k.a, k.f);
            g.ev(cx, "val", $ms, &a, None, &[f], 0, catch(|| vec![o($Tr::$f(col::<T, C>(&a), f))]));
            g.ev(cx, "assign", concat!($ms, "_assign"), &a, None, &[f], 0, catch(|| { let mut x = col::<T, C>(&a); $TrA::$fa(&mut x, f); vec![o(x)] }));
            g.ev(cx, "alpha", $ms, &a, None, &[f], 0, catch(|| vec![oa($Tr::$f(al::<T, C>(&a), f))]));
            g.ev(cx, "alpha_assign", concat!($ms, "_assign"), &a, None, &[f], 0, catch(|| { let mut x = al::<T, C>(&a); $TrA::$fa(&mut x, f); vec![oa(x)] }));
            $(
                let _: Option<$pre> = None;
                g.ev(cx, "prealpha", $ms, &a, None, &[f], 0, catch(|| vec![op($Tr::$f(pre::<T, C>(&a), f))]));
                g.ev(cx, "prealpha_assign", concat!($ms, "_assign"), &a, None, &[f], 0, catch(|| { let mut x = pre::<T, C>(&a); $TrA::$fa(&mut x, f); vec![op(x)] }));
            )?
        }
    };
}
arith_runner!(run_add, run_add_s, "Add", "add", "add_scalar", Add, AddAssign, add, add_assign);
arith_runner!(run_sub, run_sub_s, "Sub", "sub", "sub_scalar", Sub, SubAssign, sub, sub_assign);
arith_runner!(run_add_pre, run_add_s_pre, "Add", "add", "add_scalar", Add, AddAssign, add, add_assign, pre T);
arith_runner!(run_sub_pre, run_sub_s_pre, "Sub", "sub", "sub_scalar", Sub, SubAssign, sub, sub_assign, pre T);
arith_runner!(run_mul_pre, run_mul_s_pre, "Mul", "mul", "mul_scalar", Mul, MulAssign, mul, mul_assign, pre T);
arith_runner!(run_div_pre, run_div_s_pre, "Div", "div", "div_scalar", Div, DivAssign, div, div_assign, pre T);

// colour schemes: by value on the bare colour and on Alpha (there is no assigning form)
macro_rules! scheme_runner {
    ($fname:ident, $fam:expr, $m:expr, $Tr:ident, $f:ident, |$r:ident| [$($e:expr),*]) => {
        fn $fname<T: Flt, C>(cx: &mut Cx, k: &Case<T>)
        where
            C: Node<T> + $Tr,
            Alpha<C, T>: $Tr,
        {
            let g = open::<T, C>(cx, $fam, $m);
            let a = k.a;
            g.ev::<T>(cx, "val", $m, &a, None, &[], 0, catch(|| { let $r = $Tr::$f(col::<T, C>(&a)); [$($e),*].into_iter().map(o).collect() }));
            g.ev::<T>(cx, "alpha", $m, &a, None, &[], 0, catch(|| { let $r = $Tr::$f(al::<T, C>(&a)); [$($e),*].into_iter().map(oa).collect() }));
        }
    };
}
scheme_runner!(run_complementary, "Complementary", "complementary", Complementary, complementary, |r| [r]);
scheme_runner!(run_split, "SplitComplementary", "split_complementary", SplitComplementary, split_complementary, |r| [r.0, r.1]);
scheme_runner!(run_analogous, "Analogous", "analogous", Analogous, analogous, |r| [r.0, r.1]);
scheme_runner!(run_analogous2, "Analogous", "analogous_secondary", Analogous, analogous_secondary, |r| [r.0, r.1]);
scheme_runner!(run_triadic, "Triadic", "triadic", Triadic, triadic, |r| [r.0, r.1]);
scheme_runner!(run_tetradic, "Tetradic", "tetradic", Tetradic, tetradic, |r| [r.0, r.1, r.2]);

// ------------------------------------------------------------------------------------------ the capability table

/// what a case of this operator consists of
#[derive(Clone, Copy, PartialEq, Debug)]
enum Kind {
    Mix,     // second colour + factor sweep
    Factor,  // factor sweep
    Hue,     // one amount / hue
    Unary,   // nothing (clamp, schemes)
    Pair,    // second colour
    Scalar,  // one scalar
}

struct Op<T> {
    fam: &'static str,
    m: &'static str,
    kind: Kind,
    run: fn(&mut Cx, &Case<T>),
}

struct NodeOps<T> {
    name: &'static str,
    n: usize,
    lo: fn() -> [Option<T>; 3],
    hi: fn() -> [Option<T>; 3],
    ops: Vec<Op<T>>,
}

macro_rules! opx { ($fam:expr, $m:expr, $kind:ident, $run:ident, $T:ty, $C:ty) => { Op { fam: $fam, m: $m, kind: Kind::$kind, run: $run::<$T, $C> } }; }

// impl_mix / impl_lighten / impl_clamp / impl_color_add,sub,mul,div / impl_premultiply: component-wise spaces
macro_rules! lin_ops { ($T:ty, $C:ty) => { vec![
    opx!("Mix", "mix", Mix, run_mix_pre, $T, $C),
    opx!("Lighten", "lighten", Factor, run_lighten, $T, $C), opx!("Lighten", "lighten_fixed", Factor, run_lighten_fixed, $T, $C),
    opx!("Clamp", "clamp", Unary, run_clamp, $T, $C),
    opx!("Add", "add", Pair, run_add_pre, $T, $C), opx!("Add", "add_scalar", Scalar, run_add_s_pre, $T, $C),
    opx!("Sub", "sub", Pair, run_sub_pre, $T, $C), opx!("Sub", "sub_scalar", Scalar, run_sub_s_pre, $T, $C),
    opx!("Mul", "mul", Pair, run_mul_pre, $T, $C), opx!("Mul", "mul_scalar", Scalar, run_mul_s_pre, $T, $C),
    opx!("Div", "div", Pair, run_div_pre, $T, $C), opx!("Div", "div_scalar", Scalar, run_div_s_pre, $T, $C),
] }; }
// the same without Lighten (Lms)
macro_rules! lms_ops { ($T:ty, $C:ty) => { vec![
    opx!("Mix", "mix", Mix, run_mix_pre, $T, $C),
    opx!("Clamp", "clamp", Unary, run_clamp, $T, $C),
    opx!("Add", "add", Pair, run_add_pre, $T, $C), opx!("Add", "add_scalar", Scalar, run_add_s_pre, $T, $C),
    opx!("Sub", "sub", Pair, run_sub_pre, $T, $C), opx!("Sub", "sub_scalar", Scalar, run_sub_s_pre, $T, $C),
    opx!("Mul", "mul", Pair, run_mul_pre, $T, $C), opx!("Mul", "mul_scalar", Scalar, run_mul_s_pre, $T, $C),
    opx!("Div", "div", Pair, run_div_pre, $T, $C), opx!("Div", "div_scalar", Scalar, run_div_s_pre, $T, $C),
] }; }
// impl_lab_color_schemes: Complementary and Tetradic without a hue
macro_rules! lab_ops { ($T:ty, $C:ty) => { vec![
    opx!("Complementary", "complementary", Unary, run_complementary, $T, $C), opx!("Tetradic", "tetradic", Unary, run_tetradic, $T, $C),
] }; }
// impl_mix_hue / impl_lighten(_hwb) / impl_clamp(_hwb) / impl_hue_ops / impl_color_add,sub + the blanket colour schemes
macro_rules! cyl_ops { ($T:ty, $C:ty) => { vec![
    opx!("Mix", "mix", Mix, run_mix, $T, $C),
    opx!("Lighten", "lighten", Factor, run_lighten, $T, $C), opx!("Lighten", "lighten_fixed", Factor, run_lighten_fixed, $T, $C),
    opx!("Clamp", "clamp", Unary, run_clamp, $T, $C),
    opx!("Add", "add", Pair, run_add, $T, $C), opx!("Add", "add_scalar", Scalar, run_add_s, $T, $C),
    opx!("Sub", "sub", Pair, run_sub, $T, $C), opx!("Sub", "sub_scalar", Scalar, run_sub_s, $T, $C),
    opx!("ShiftHue", "shift_hue", Hue, run_shift_hue, $T, $C), opx!("WithHue", "with_hue", Hue, run_with_hue, $T, $C),
    opx!("Complementary", "complementary", Unary, run_complementary, $T, $C),
    opx!("SplitComplementary", "split_complementary", Unary, run_split, $T, $C),
    opx!("Analogous", "analogous", Unary, run_analogous, $T, $C), opx!("Analogous", "analogous_secondary", Unary, run_analogous2, $T, $C),
    opx!("Triadic", "triadic", Unary, run_triadic, $T, $C), opx!("Tetradic", "tetradic", Unary, run_tetradic, $T, $C),
] }; }
// impl_saturate
macro_rules! sat_ops { ($T:ty, $C:ty) => { vec![
    opx!("Saturate", "saturate", Factor, run_saturate, $T, $C), opx!("Saturate", "saturate_fixed", Factor, run_saturate_fixed, $T, $C),
] }; }
macro_rules! entry {
    ($T:ty, $C:ty, [$($set:ident),+]) => {{
        let mut ops: Vec<Op<$T>> = vec![];
        $( ops.extend($set!($T, $C)); )+
        NodeOps { name: <$C as Node<$T>>::NAME, n: <$C as Node<$T>>::N, lo: <$C as Node<$T>>::lo, hi: <$C as Node<$T>>::hi, ops }
    }};
}
macro_rules! table {
    ($T:ty) => { vec![
        entry!($T, NXyz<$T>, [lin_ops]), entry!($T, NYxy<$T>, [lin_ops]), entry!($T, NLab<$T>, [lin_ops, lab_ops]),
        entry!($T, NLch<$T>, [cyl_ops, sat_ops]), entry!($T, NLuv<$T>, [lin_ops, lab_ops]), entry!($T, NLchuv<$T>, [cyl_ops, sat_ops]),
        entry!($T, NHsluv<$T>, [cyl_ops, sat_ops]), entry!($T, NOklab<$T>, [lin_ops, lab_ops]), entry!($T, NOklch<$T>, [cyl_ops]),
        entry!($T, NOkhsl<$T>, [cyl_ops, sat_ops]), entry!($T, NOkhsv<$T>, [cyl_ops, sat_ops]), entry!($T, NOkhwb<$T>, [cyl_ops]),
        entry!($T, NLinSrgb<$T>, [lin_ops]), entry!($T, NSrgb<$T>, [lin_ops]), entry!($T, NHsl<$T>, [cyl_ops, sat_ops]),
        entry!($T, NHsv<$T>, [cyl_ops, sat_ops]), entry!($T, NHwb<$T>, [cyl_ops]), entry!($T, NLinLuma<$T>, [lin_ops]),
        entry!($T, NSrgbLuma<$T>, [lin_ops]),
        entry!($T, NJab<$T>, [lin_ops, lab_ops]), entry!($T, NJmh<$T>, [cyl_ops, sat_ops]), entry!($T, NLms<$T>, [lms_ops]),
    ] };
}

// ------------------------------------------------------------------------------------------ cases

const FACTORS: [f64; 8] = [-1.0, -0.5, 0.0, 0.25, 0.5, 1.0, 1.5, 2.0];
/// hue differences to the partner colour of a mix: opposite both ways, wrapping both ways, nearly opposite, whole turns
const HUE_DIFFS: [f64; 10] = [180.0, 90.0, -180.0, 200.0, -200.0, 0.5, 179.5, 359.0, 540.0, 360.0];
const HUE_ARGS: [f64; 8] = [-360.0, -90.5, 0.0, 30.0, 180.0, 359.75, 360.0, 720.25];
const SCALARS: [f64; 6] = [-1.0, 0.0, 0.25, 0.5, 2.0, 3.0];
const ALPHAS: [f64; 5] = [0.0, 0.25, 0.5, 1.0, 0.75];

struct Plan {
    eighths: Vec<u32>,     // lattice positions inside each range, in eighths
    hues: Vec<f64>,        // lattice of the hue component
    partners: usize,       // partner colours per colour for mix
    light_cols: usize,     // colours swept by the fixed-amount methods (all of them for the relative ones)
    arith_cols: usize,     // colours per arithmetic / hue / scheme operator
    random: usize,         // seeded random dyadic colours per operator (with random increasing factors)
    split: bool,           // quick tier: the lattice colours are dealt alternately to f32 and f64 instead of both running all
}

type Ranges = BTreeMap<String, Vec<Option<(f64, f64)>>>;

fn is_hwb(name: &str) -> bool { name == "hwb" || name == "okhwb" }

/// lattice colours of a node, in range by construction (whiteness + blackness <= 1 for the HWB-like types)
fn lattice<T: Flt>(name: &str, n: usize, rg: &[Option<(f64, f64)>], plan: &Plan) -> Vec<V<T>> {
    let axis = |r: &Option<(f64, f64)>| -> Vec<f64> {
        match r {
            None => plan.hues.clone(),
            Some((lo, hi)) => plan.eighths.iter().map(|k| lo + (*k as f64 / 8.0) * (hi - lo)).collect(),
        }
    };
    let axes: Vec<Vec<f64>> = (0..3).map(|i| if i < n { axis(&rg[i]) } else { vec![0.0] }).collect();
    let mut out = vec![];
    for (i0, x0) in axes[0].iter().enumerate() {
        for (i1, x1) in axes[1].iter().enumerate() {
            for (i2, x2) in axes[2].iter().enumerate() {
                let mut c = [*x0, *x1, *x2];
                if is_hwb(name) { c[2] = (plan.eighths[i2] as f64 / 8.0) * (1.0 - c[1]); }
                let al = ALPHAS[(i0 + 2 * i1 + 3 * i2) % ALPHAS.len()];
                out.push([T::of(c[0]), T::of(c[1]), T::of(c[2]), T::of(al)]);
            }
        }
    }
    out
}

/// a random dyadic j / 2^m in [0, 1]
fn dyadic01(rng: &mut Sm64) -> f64 {
    let m = 3 + rng.below(18) as u32;
    (rng.below((1u64 << m) + 1)) as f64 / (1u64 << m) as f64
}

fn random_colour<T: Flt>(name: &str, n: usize, rg: &[Option<(f64, f64)>], rng: &mut Sm64) -> V<T> {
    let mut c = [0.0f64; 4];
    for i in 0..n {
        c[i] = match rg[i] {
            None => (dyadic01(rng) * 1080.0 - 360.0) * 1.0,
            Some((lo, hi)) => lo + dyadic01(rng) * (hi - lo),
        };
    }
    if is_hwb(name) { c[2] = dyadic01(rng) * (1.0 - c[1]).max(0.0); }
    c[3] = dyadic01(rng);
    let mut v = [T::of(c[0]), T::of(c[1]), T::of(c[2]), T::of(c[3])];
    for i in 0..n {
        if let Some((_, hi)) = rg[i] { if v[i].as_f64() > T::of(hi).as_f64() { v[i] = T::of(hi); } }
    }
    if is_hwb(name) && v[1].as_f64() + v[2].as_f64() > 1.0 { v[2] = T::of(0.0); }
    v
}

fn reset(cx: &mut Cx) { cx.rec.ev(json!({"ev": "reset"})); }

fn hue_index(name: &str) -> Option<usize> {
    match name {
        "lch" | "lchuv" | "oklch" | "cam16ucsjmh" => Some(2),
        "hsluv" | "okhsl" | "okhsv" | "okhwb" | "hsl" | "hsv" | "hwb" => Some(0),
        _ => None,
    }
}

/// run all cases of one operator on one node
fn drive<T: Flt>(cx: &mut Cx, node: &NodeOps<T>, op: &Op<T>, rg: &[Option<(f64, f64)>], plan: &Plan, rng: &mut Sm64, counter: &mut usize) {
    let cols: Vec<V<T>> = lattice::<T>(node.name, node.n, rg, plan);
    let len = cols.len();
    let hidx = hue_index(node.name);
    let partner = |i: usize, j: usize| -> V<T> {
        // another lattice colour, its hue placed at a chosen difference from the subject's
        let mut b = cols[(i * 7 + 3 + 5 * j) % len];
        if let Some(h) = hidx { b[h] = T::of(cols[i][h].as_f64() + HUE_DIFFS[(i + 3 * j) % HUE_DIFFS.len()]); }
        b[3] = T::of(ALPHAS[(i + j + 1) % ALPHAS.len()]);
        b
    };
    let parity = if T::NAME == "f32" { 0 } else { 1 };
    let mine = |i: &usize| -> bool { !plan.split || (*i + node.n) % 2 == parity };
    let thin = |want: usize| -> Vec<usize> {
        // `want` indices spread over the lattice (all of them if want >= len), this component type's share of them
        let all: Vec<usize> = if want >= len { (0..len).collect() } else { (0..want).map(|q| (q * len / want + q) % len).collect() };
        all.into_iter().filter(|i| mine(i)).collect()
    };
    let mut case = |cx: &mut Cx, i: usize, a: V<T>, b: V<T>, f: T| {
        *counter += 1;
        let k = Case { a, b, f, nb: [cols[(i + 1) % len], cols[(i + len / 2 + 2) % len]], pos: *counter % 3 };
        (op.run)(cx, &k);
    };
    let fixed = op.m.ends_with("_fixed");
    match op.kind {
        Kind::Factor => {
            for i in thin(if fixed { plan.light_cols } else { len }) {
                reset(cx);
                for f in FACTORS { case(cx, i, cols[i], cols[i], T::of(f)); }
            }
        }
        Kind::Mix => {
            for i in thin(len) {
                for j in 0..plan.partners {
                    reset(cx);
                    let b = partner(i, j);
                    for f in FACTORS { case(cx, i, cols[i], b, T::of(f)); }
                }
            }
        }
        Kind::Hue => {
            for i in thin(plan.arith_cols) {
                reset(cx);
                for f in HUE_ARGS { case(cx, i, cols[i], cols[i], T::of(f)); }
            }
        }
        Kind::Unary => {
            reset(cx);
            let idx: Vec<usize> = if op.fam == "Clamp" { thin(len) } else { thin(plan.arith_cols.max(9)) };
            for i in idx { case(cx, i, cols[i], cols[i], T::of(0.0)); }
            if op.fam == "Clamp" {
                // colours outside the range, every component on either side
                for (q, i) in thin(plan.arith_cols).into_iter().enumerate() {
                    let mut a = cols[i];
                    for c in 0..node.n {
                        if let Some((lo, hi)) = rg[c] {
                            let r = hi - lo;
                            a[c] = T::of(match (q + c) % 4 { 0 => lo - r * 0.125, 1 => hi + r * 0.375, 2 => hi + r * 2.0, _ => a[c].as_f64() });
                        }
                    }
                    a[3] = T::of([-0.5, 1.5, 0.5][q % 3]);
                    case(cx, i, a, a, T::of(0.0));
                }
            }
        }
        Kind::Pair => {
            reset(cx);
            for i in thin(plan.arith_cols) { case(cx, i, cols[i], partner(i, 0), T::of(0.0)); }
        }
        Kind::Scalar => {
            reset(cx);
            for (q, i) in thin(plan.arith_cols).into_iter().enumerate() { case(cx, i, cols[i], cols[i], T::of(SCALARS[q % SCALARS.len()])); }
        }
    }
    // seeded random dyadic colours (and factors in [-1, 2], sorted: a sweep)
    for _ in 0..plan.random {
        let a = random_colour::<T>(node.name, node.n, rg, rng);
        let mut b = random_colour::<T>(node.name, node.n, rg, rng);
        if let (Some(h), true) = (hidx, rng.below(4) == 0) { b[h] = T::of(a[h].as_f64() + *rng.pick(&HUE_DIFFS)); }
        let i = rng.below(len as u64) as usize;
        reset(cx);
        match op.kind {
            Kind::Factor | Kind::Mix => {
                let mut fs: Vec<f64> = (0..4).map(|_| dyadic01(rng) * 3.0 - 1.0).collect();
                fs.push(*rng.pick(&FACTORS));
                fs.sort_by(|x, y| x.partial_cmp(y).unwrap());
                fs.dedup();
                for f in fs { case(cx, i, a, b, T::of(f)); }
            }
            Kind::Hue => case(cx, i, a, b, T::of(dyadic01(rng) * 1440.0 - 720.0)),
            Kind::Scalar => case(cx, i, a, b, T::of(dyadic01(rng) * 4.0 - 1.0)),
            Kind::Unary | Kind::Pair => case(cx, i, a, b, T::of(0.0)),
        }
    }
}

fn plan_for(tier: &str) -> Plan {
    if tier == "thorough" {
        Plan { eighths: vec![0, 1, 4, 7, 8], hues: vec![-90.0, 45.5, 135.0, 270.0, 405.0], partners: 3, light_cols: 125, arith_cols: 45, random: 80, split: false }
    } else {
        Plan { eighths: vec![0, 3, 8], hues: vec![-90.0, 135.0, 405.0], partners: 1, light_cols: 9, arith_cols: 9, random: 0, split: true }
    }
}

fn run_all<T: Flt>(cx: &mut Cx, table: &[NodeOps<T>], ranges: &Ranges, plan: &Plan, seed: u64) {
    let mut rng = Sm64::new(seed ^ if T::NAME == "f32" { 0x3232 } else { 0x6464 });
    let mut counter = 0usize;
    for node in table {
        let mut fams: Vec<&str> = node.ops.iter().map(|o| o.fam).collect();
        if node.ops.iter().any(|o| o.m == "mul") { fams.push("PreAlpha"); }
        fams.sort();
        fams.dedup();
        cx.rec.ev(json!({"ev": "caps", "node": node.name, "t": T::NAME, "fams": fams}));
        cx.rec.ev(json!({"ev": "consts", "node": node.name, "t": T::NAME, "lo": bounds_json((node.lo)(), node.n), "hi": bounds_json((node.hi)(), node.n)}));
    }
    for node in table {
        let rg = ranges.get(node.name).unwrap_or_else(|| { eprintln!("no ranges for {}", node.name); std::process::exit(3) });
        for op in &node.ops {
            drive(cx, node, op, rg, plan, &mut rng, &mut counter);
        }
    }
}

fn hexf(v: &Value) -> f64 { f64::from_bits(u64::from_str_radix(v.as_str().expect("hex string"), 16).expect("hex f64")) }

fn run_one<T: Flt>(cx: &mut Cx, table: &[NodeOps<T>], spec: &Value) {
    let node = table.iter().find(|n| n.name == spec["node"].as_str().unwrap()).expect("node");
    let op = node.ops.iter().find(|o| o.fam == spec["fam"].as_str().unwrap() && o.m == spec["m"].as_str().unwrap()).expect("operator");
    let vec4 = |v: &Value| -> V<T> {
        let mut x = [T::of(0.0); 4];
        if let Some(a) = v.as_array() { for (i, h) in a.iter().enumerate().take(4) { x[i] = T::of(hexf(h)); } }
        x
    };
    let a = vec4(&spec["in"]);
    let b = if spec["in2"].is_array() { vec4(&spec["in2"]) } else { a };
    let pos = spec["pos"].as_u64().unwrap_or(1) as usize % 3;
    let nb = [[T::of(0.25), T::of(0.25), T::of(0.25), T::of(0.5)], [T::of(0.5), T::of(0.125), T::of(0.375), T::of(1.0)]];
    reset(cx);
    let fs: Vec<f64> = spec["factors"].as_array().map(|x| x.iter().map(hexf).collect()).unwrap_or_default();
    if fs.is_empty() {
        (op.run)(cx, &Case { a, b, f: T::of(0.0), nb, pos });
    }
    for f in fs {
        (op.run)(cx, &Case { a, b, f: T::of(f), nb, pos });
    }
}

fn main() {
    let mut cx = Cx { rec: Rec::create(&arg_or("--out", "-")), gid: 0, groups: 0, panics: 0, per_fam: BTreeMap::new(), pairs: BTreeMap::new(), forms: BTreeMap::new() };
    let t32 = table!(f32);
    let t64 = table!(f64);
    if let Some(one) = arg("--one") {
        let spec: Value = serde_json::from_str(&one).expect("--one json");
        if spec["t"] == "f32" { run_one(&mut cx, &t32, &spec) } else { run_one(&mut cx, &t64, &spec) }
    } else {
        let tier = arg_or("--tier", "quick");
        let mut plan = plan_for(&tier);
        if let Some(r) = arg("--random") { plan.random = r.parse().expect("--random"); }
        let raw: Value = serde_json::from_str(&std::fs::read_to_string(arg("--nodes").expect("--nodes")).expect("ranges file")).expect("ranges json");
        let mut ranges: Ranges = BTreeMap::new();
        for (k, v) in raw.as_object().expect("ranges object") {
            ranges.insert(k.clone(), v.as_array().unwrap().iter().map(|r| r.as_array().map(|p| (p[0].as_f64().unwrap(), p[1].as_f64().unwrap()))).collect());
        }
        let seed = seed_from_env();
        let which = arg_or("--t", "both");
        if which != "f64" { run_all(&mut cx, &t32, &ranges, &plan, seed); }
        if which != "f32" { run_all(&mut cx, &t64, &ranges, &plan, seed); }
    }
    let Cx { rec, groups, panics, per_fam, pairs, forms, .. } = cx;
    let n = rec.finish();
    eprintln!("{}", json!({"events": n, "groups": groups, "panics": panics, "per_fam": per_fam, "pairs": pairs.len(), "forms": forms}));
}
