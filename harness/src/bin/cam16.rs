//! C16 driver: CAM16 conversions of palette (full Cam16, the six partial types, CAM16-UCS) for f32 and f64 under
//! viewing conditions built through the public API, recorded as one NDJSON event per case with exact values.
//! Judging is done by TLC (spec/trace/TraceCam16.tla, relations of spec/Cam16.tla); nothing here decides anything.
//!
//! usage: cam16 --cases lattice.jsonl [--per-case N] [--random N] [--pairs N] [--ucs N] --out trace.ndjson   (VERIF_SEED)
//!        cam16 --cmds cmds.jsonl --out trace.ndjson        (re-execute recorded events exactly: replay)
//!
//! A lattice line (printed by MC_Cam16 as REPLAY) is
//!   [id, laNum, laDen, ybNum, ybDen, surround, surNum, surDen, discounting, discNum, discDen, "static"|"dynamic", white, kind].
//! Events (all numbers exact, [s, q, limbs..]; `params` is an opaque id for the specification, `pv` / `pj` describe the
//! viewing conditions for reports and replay only):
//!  conv: {t, params, pk, w, x, full, fback, part, proj, pback, exp, panic}
//!        full = Cam16::from_xyz(x), fback = full.into_xyz(), part = Partial::from_xyz(x), proj = Partial::from_full(full),
//!        pback = part.into_xyz(), exp = proj.into_full(); attribute order J, C, h, Q, M, s; w = 1: x is the adopted white
//!  pair: {t, params, x1, x2, f1, f2, panic}     two colours under the same conditions
//!  ucs:  {t, jmh, ujmh, ujab, ujabd, ujmhb, jmhb, jmhd, ujmhc, panic}
//!        Cam16Jmh -> Cam16UcsJmh -> Cam16UcsJab -> Cam16UcsJmh -> Cam16Jmh (FromColorUnclamped), ujabd / jmhd the derived
//!        routes Cam16Jmh -> Cam16UcsJab and Cam16UcsJab -> Cam16Jmh, ujmhc the clamping FromColor of the first step
//! A panic inside palette is data: "panic":1 with empty results.

use palette::cam16::{
    BakedParameters, Cam16, Cam16Jch, Cam16Jmh, Cam16Jsh, Cam16Qch, Cam16Qmh, Cam16Qsh, Cam16UcsJab, Cam16UcsJmh,
    Discounting, Parameters, StaticWp, Surround,
};
use palette::convert::{FromColor, FromColorUnclamped};
use palette::white_point::{Any, WhitePoint, D50, D65, E};
use palette::{Alpha, Xyz};
use pvh::*;
use serde_json::{json, Value};
use std::io::BufRead;

// ------------------------------------------------------------------------------------------ viewing conditions

#[derive(Clone, Debug)]
enum Sur {
    Dark,
    Dim,
    Average,
    Percent(f64),
}
#[derive(Clone, Debug)]
enum Disc {
    Auto,
    Custom(f64),
}
#[derive(Clone, Debug)]
struct Pv {
    id: i64,
    la: f64,
    yb: f64,
    sur: Sur,
    disc: Disc,
    dynamic: bool,
    white: usize,      // 0 D65, 1 D50, 2 E, 3 custom (dynamic only)
    custom: [f64; 2],  // X_w, Z_w of a custom white (Y_w = 1)
}
const WHITES: [&str; 4] = ["D65", "D50", "E", "custom"];

fn hx(x: f64) -> String { format!("{:016x}", x.to_bits()) }
fn unhx(s: &str) -> f64 { f64::from_bits(u64::from_str_radix(s, 16).expect("hex f64")) }

impl Pv {
    fn describe(&self) -> String {
        format!(
            "la={} yb={} surround={} discounting={} wp={} white={}",
            self.la,
            self.yb,
            match &self.sur { Sur::Dark => "dark".into(), Sur::Dim => "dim".into(), Sur::Average => "average".into(), Sur::Percent(p) => format!("percent({})", p) },
            match &self.disc { Disc::Auto => "auto".into(), Disc::Custom(d) => format!("custom({})", d) },
            if self.dynamic { "dynamic" } else { "static" },
            if self.white == 3 { format!("({}, 1, {})", self.custom[0], self.custom[1]) } else { WHITES[self.white].to_string() }
        )
    }
    /// exact, replayable form (all strings)
    fn to_json(&self) -> Value {
        let (sk, sv) = match &self.sur { Sur::Dark => ("dark", 0.0), Sur::Dim => ("dim", 0.0), Sur::Average => ("average", 0.0), Sur::Percent(p) => ("percent", *p) };
        let (dk, dv) = match &self.disc { Disc::Auto => ("auto", 0.0), Disc::Custom(d) => ("custom", *d) };
        json!([hx(self.la), hx(self.yb), sk, hx(sv), dk, hx(dv), if self.dynamic { "dynamic" } else { "static" }, WHITES[self.white],
               hx(self.custom[0]), hx(self.custom[1])])
    }
    fn from_json(id: i64, v: &Value) -> Pv {
        let s = |i: usize| v[i].as_str().expect("pj string").to_string();
        let sur = match s(2).as_str() { "dark" => Sur::Dark, "dim" => Sur::Dim, "average" => Sur::Average, _ => Sur::Percent(unhx(&s(3))) };
        let disc = match s(4).as_str() { "auto" => Disc::Auto, _ => Disc::Custom(unhx(&s(5))) };
        Pv { id, la: unhx(&s(0)), yb: unhx(&s(1)), sur, disc, dynamic: s(6) == "dynamic",
             white: WHITES.iter().position(|w| *w == s(7)).expect("white"), custom: [unhx(&s(8)), unhx(&s(9))] }
    }
    /// a lattice line of MC_Cam16
    fn from_lattice(v: &Value) -> (Pv, String) {
        let n = |i: usize| v[i].as_i64().expect("lattice int") as f64;
        let s = |i: usize| v[i].as_str().expect("lattice string").to_string();
        let sur = match s(5).as_str() { "dark" => Sur::Dark, "dim" => Sur::Dim, "average" => Sur::Average, "percent" => Sur::Percent(n(6) / n(7)), o => panic!("surround {}", o) };
        let disc = match s(8).as_str() { "auto" => Disc::Auto, "custom" => Disc::Custom(n(9) / n(10)), o => panic!("discounting {}", o) };
        let white = WHITES[..3].iter().position(|w| *w == s(12)).expect("white of the menu");
        (Pv { id: v[0].as_i64().unwrap(), la: n(1) / n(2), yb: n(3) / n(4), sur, disc, dynamic: s(11) == "dynamic", white, custom: [0.0, 0.0] }, s(13))
    }
}

// ------------------------------------------------------------------------------------------ the API under test

struct ConvOut<T> {
    full: [T; 6],
    fback: [T; 3],
    part: [T; 3],
    proj: [T; 3],
    pback: [T; 3],
    exp: [T; 6],
    /// the same six vectors through the transparency-carrying forms (Alpha<Cam16>, Alpha<partial>): each followed by
    /// the transparency that came out; `extra`: the partial colour through From<Alpha<Cam16>> and from_color_unclamped(full)
    afull: Vec<T>,
    afback: Vec<T>,
    apart: Vec<T>,
    aproj: Vec<T>,
    apback: Vec<T>,
    aexp: Vec<T>,
    extra: Vec<Vec<T>>,
}

trait Cam<T> {
    fn conv(&self, pk: &str, x: [T; 3]) -> ConvOut<T>;
    fn full(&self, x: [T; 3]) -> [T; 6];
    fn jmh(&self, x: [T; 3]) -> [T; 3];
    /// a partial colour given directly: its expansion to the full colour and its way back to XYZ
    fn pfin(&self, pk: &str, p: [T; 3]) -> ([T; 6], [T; 3]);
}

macro_rules! partial {
    ($T:ty, $Wp:ty, $s:expr, $xyz:expr, $full:expr, $P:ident, $l:ident, $c:ident) => {{
        let part = $P::<$T>::from_xyz($xyz, $s);
        let proj = $P::<$T>::from_full($full);
        let pb: Xyz<$Wp, $T> = part.into_xyz($s);
        let exp: Cam16<$T> = proj.into_full($s);
        // with transparency
        let al: $T = 0.25;
        let apart = Alpha::<$P<$T>, $T>::from_xyz(Alpha { color: $xyz, alpha: al }, $s);
        let aproj = Alpha::<$P<$T>, $T>::from_full(Alpha { color: $full, alpha: al });
        let apb: Alpha<Xyz<$Wp, $T>, $T> = apart.into_xyz($s);
        let aexp: Alpha<Cam16<$T>, $T> = aproj.into_full($s);
        let viafrom: Alpha<$P<$T>, $T> = Alpha { color: $full, alpha: al }.into();
        let viaconv = $P::<$T>::from_color_unclamped($full);
        let viaself = $P::<$T>::from_color_unclamped(proj);
        let p3 = |p: $P<$T>| vec![p.$l, p.$c, p.hue.into_raw_degrees()];
        let mut f6 = full6(aexp.color).to_vec(); f6.push(aexp.alpha);
        (([part.$l, part.$c, part.hue.into_raw_degrees()], [proj.$l, proj.$c, proj.hue.into_raw_degrees()], [pb.x, pb.y, pb.z], full6(exp)),
         (vec![apart.color.$l, apart.color.$c, apart.color.hue.into_raw_degrees(), apart.alpha],
          vec![aproj.color.$l, aproj.color.$c, aproj.color.hue.into_raw_degrees(), aproj.alpha],
          vec![apb.color.x, apb.color.y, apb.color.z, apb.alpha], f6,
          vec![{ let mut v = p3(viafrom.color); v.push(viafrom.alpha); v }, p3(viaconv), p3(viaself)]))
    }};
}

macro_rules! stat {
    ($T:ty, $W:ty, $pv:expr, $sur:expr, $disc:expr) => {{
        let mut p = Parameters::<StaticWp<$W>, $T>::default_static_wp($pv.la as $T);
        p.background_luminance = $pv.yb as $T;
        p.surround = $sur;
        p.discounting = $disc;
        Box::new(p.bake()) as Box<dyn Cam<$T>>
    }};
}

macro_rules! impl_cam {
    ($T:ty, $WpParam:ty, $Wp:ty) => {
        impl Cam<$T> for BakedParameters<$WpParam, $T> {
            fn full(&self, x: [$T; 3]) -> [$T; 6] {
                let xyz: Xyz<$Wp, $T> = Xyz::new(x[0], x[1], x[2]);
                full6(Cam16::<$T>::from_xyz(xyz, *self))
            }
            fn jmh(&self, x: [$T; 3]) -> [$T; 3] {
                let xyz: Xyz<$Wp, $T> = Xyz::new(x[0], x[1], x[2]);
                let c = Cam16Jmh::<$T>::from_xyz(xyz, *self);
                [c.lightness, c.colorfulness, c.hue.into_raw_degrees()]
            }
            fn pfin(&self, pk: &str, p: [$T; 3]) -> ([$T; 6], [$T; 3]) {
                macro_rules! one { ($P:ident) => {{
                    let c = $P::<$T>::new(p[0], p[1], p[2]);
                    let f: Cam16<$T> = c.into_full(*self);
                    let x: Xyz<$Wp, $T> = c.into_xyz(*self);
                    (full6(f), [x.x, x.y, x.z])
                }}; }
                match pk {
                    "jch" => one!(Cam16Jch), "jmh" => one!(Cam16Jmh), "jsh" => one!(Cam16Jsh),
                    "qch" => one!(Cam16Qch), "qmh" => one!(Cam16Qmh), "qsh" => one!(Cam16Qsh),
                    o => panic!("harness: unknown partial kind {}", o),
                }
            }
            fn conv(&self, pk: &str, x: [$T; 3]) -> ConvOut<$T> {
                let xyz: Xyz<$Wp, $T> = Xyz::new(x[0], x[1], x[2]);
                let full: Cam16<$T> = Cam16::from_xyz(xyz, *self);
                let fb: Xyz<$Wp, $T> = full.into_xyz(*self);
                let ((part, proj, pback, exp), (apart, aproj, apback, aexp, extra)) = match pk {
                    "jch" => partial!($T, $Wp, *self, xyz, full, Cam16Jch, lightness, chroma),
                    "jmh" => partial!($T, $Wp, *self, xyz, full, Cam16Jmh, lightness, colorfulness),
                    "jsh" => partial!($T, $Wp, *self, xyz, full, Cam16Jsh, lightness, saturation),
                    "qch" => partial!($T, $Wp, *self, xyz, full, Cam16Qch, brightness, chroma),
                    "qmh" => partial!($T, $Wp, *self, xyz, full, Cam16Qmh, brightness, colorfulness),
                    "qsh" => partial!($T, $Wp, *self, xyz, full, Cam16Qsh, brightness, saturation),
                    o => panic!("harness: unknown partial kind {}", o),
                };
                let al: $T = 0.25;
                let afull = Alpha::<Cam16<$T>, $T>::from_xyz(Alpha { color: xyz, alpha: al }, *self);
                let afb: Alpha<Xyz<$Wp, $T>, $T> = afull.into_xyz(*self);
                let mut af = full6(afull.color).to_vec(); af.push(afull.alpha);
                ConvOut { full: full6(full), fback: [fb.x, fb.y, fb.z], part, proj, pback, exp,
                          afull: af, afback: vec![afb.color.x, afb.color.y, afb.color.z, afb.alpha], apart, aproj, apback, aexp, extra }
            }
        }
    };
}

fn full6<T: palette::angle::RealAngle>(c: Cam16<T>) -> [T; 6] {
    [c.lightness, c.chroma, c.hue.into_raw_degrees(), c.brightness, c.colorfulness, c.saturation]
}

macro_rules! per_float {
    ($T:ty, $make:ident, $ucs:ident) => {
        impl_cam!($T, StaticWp<D65>, D65);
        impl_cam!($T, StaticWp<D50>, D50);
        impl_cam!($T, StaticWp<E>, E);
        impl_cam!($T, Xyz<Any, $T>, Any);

        /// palette Parameters through the public API, baked
        fn $make(pv: &Pv) -> Box<dyn Cam<$T>> {
            let sur = match &pv.sur { Sur::Dark => Surround::Dark, Sur::Dim => Surround::Dim, Sur::Average => Surround::Average, Sur::Percent(p) => Surround::Percent(*p as $T) };
            let disc = match &pv.disc { Disc::Auto => Discounting::Auto, Disc::Custom(d) => Discounting::Custom(*d as $T) };
            if !pv.dynamic {
                match pv.white { 0 => stat!($T, D65, pv, sur, disc), 1 => stat!($T, D50, pv, sur, disc), 2 => stat!($T, E, pv, sur, disc), _ => panic!("harness: a custom white needs a dynamic white point") }
            } else {
                let w: Xyz<Any, $T> = match pv.white {
                    0 => <D65 as WhitePoint<$T>>::get_xyz(),
                    1 => <D50 as WhitePoint<$T>>::get_xyz(),
                    2 => <E as WhitePoint<$T>>::get_xyz(),
                    _ => Xyz::new(pv.custom[0] as $T, 1.0, pv.custom[1] as $T),
                };
                let mut p = Parameters::default_dynamic_wp(w, pv.la as $T);
                p.background_luminance = pv.yb as $T;
                p.surround = sur;
                p.discounting = disc;
                Box::new(p.bake()) as Box<dyn Cam<$T>>
            }
        }

        fn $ucs(v: [f64; 3]) -> Value {
            let jmh = [v[0] as $T, v[1] as $T, v[2] as $T];
            let r = catch(|| {
                let c = Cam16Jmh::<$T>::new(jmh[0], jmh[1], jmh[2]);
                let ujmh = Cam16UcsJmh::from_color_unclamped(c);
                let ujmhc = Cam16UcsJmh::from_color(c);
                let ujab = Cam16UcsJab::from_color_unclamped(ujmh);
                let ujabd = Cam16UcsJab::from_color_unclamped(c);
                let ujmhb = Cam16UcsJmh::from_color_unclamped(ujab);
                let jmhb = Cam16Jmh::from_color_unclamped(ujmhb);
                let jmhd = Cam16Jmh::from_color_unclamped(ujab);
                let u3 = |u: Cam16UcsJmh<$T>| [u.lightness, u.colorfulness, u.hue.into_raw_degrees()];
                let j3 = |u: Cam16Jmh<$T>| [u.lightness, u.colorfulness, u.hue.into_raw_degrees()];
                let a3 = |u: Cam16UcsJab<$T>| [u.lightness, u.a, u.b];
                (u3(ujmh), a3(ujab), a3(ujabd), u3(ujmhb), j3(jmhb), j3(jmhd), u3(ujmhc))
            });
            match r {
                Ok((ujmh, ujab, ujabd, ujmhb, jmhb, jmhd, ujmhc)) => json!({"ev": "ucs", "t": <$T as Ex>::NAME, "panic": 0, "jmh": ex_arr(&jmh),
                    "ujmh": ex_arr(&ujmh), "ujab": ex_arr(&ujab), "ujabd": ex_arr(&ujabd), "ujmhb": ex_arr(&ujmhb), "jmhb": ex_arr(&jmhb),
                    "jmhd": ex_arr(&jmhd), "ujmhc": ex_arr(&ujmhc)}),
                Err(m) => json!({"ev": "ucs", "t": <$T as Ex>::NAME, "panic": 1, "msg": m, "jmh": ex_arr(&jmh), "ujmh": [], "ujab": [], "ujabd": [],
                    "ujmhb": [], "jmhb": [], "jmhd": [], "ujmhc": []}),
            }
        }
    };
}
per_float!(f64, make_f64, ucs_f64);
per_float!(f32, make_f32, ucs_f32);

// ------------------------------------------------------------------------------------------ events

fn white_of(pv: &Pv) -> [f64; 3] {
    match pv.white {
        0 => { let w = <D65 as WhitePoint<f64>>::get_xyz(); [w.x, w.y, w.z] }
        1 => { let w = <D50 as WhitePoint<f64>>::get_xyz(); [w.x, w.y, w.z] }
        2 => { let w = <E as WhitePoint<f64>>::get_xyz(); [w.x, w.y, w.z] }
        _ => [pv.custom[0], 1.0, pv.custom[1]],
    }
}

macro_rules! typed_events {
    ($T:ty, $make:ident, $conv:ident, $pair:ident, $jmh:ident) => {
        fn $conv(pv: &Pv, pk: &str, x: [f64; 3], w: i64) -> Value {
            let x = if w == 1 {
                // the adopted white in the component type itself (what the parameters hold)
                match pv.white {
                    0 => { let w = <D65 as WhitePoint<$T>>::get_xyz(); [w.x, w.y, w.z] }
                    1 => { let w = <D50 as WhitePoint<$T>>::get_xyz(); [w.x, w.y, w.z] }
                    2 => { let w = <E as WhitePoint<$T>>::get_xyz(); [w.x, w.y, w.z] }
                    _ => [pv.custom[0] as $T, 1.0, pv.custom[1] as $T],
                }
            } else {
                [x[0] as $T, x[1] as $T, x[2] as $T]
            };
            // the viewing conditions as exact numbers of the component type, for the reference model of the specification:
            // la, yb; sp: surround in percent (dark 0, dim 10, average 20, or the given percentage); dk/dv: discounting;
            // wk: name of the adopted white, wx / wz: X and Z of a custom one (Y = 1)
            let sp: $T = match &pv.sur { Sur::Dark => 0.0, Sur::Dim => 10.0, Sur::Average => 20.0, Sur::Percent(p) => *p as $T };
            let (dk, dv): (&str, $T) = match &pv.disc { Disc::Auto => ("auto", 0.0), Disc::Custom(d) => ("custom", *d as $T) };
            let vc = json!({"la": (pv.la as $T).ex(), "yb": (pv.yb as $T).ex(), "sp": sp.ex(), "dk": dk, "dv": dv.ex(),
                            "wk": WHITES[pv.white], "wx": (pv.custom[0] as $T).ex(), "wz": (pv.custom[1] as $T).ex()});
            let base = json!({"ev": "conv", "t": <$T as Ex>::NAME, "params": pv.id, "pk": pk, "w": w, "x": ex_arr(&x), "pv": pv.describe(), "pj": pv.to_json(), "vc": vc});
            let r = catch(|| $make(pv).conv(pk, x));
            let mut o = base.as_object().unwrap().clone();
            match r {
                Ok(c) => {
                    o.insert("panic".into(), json!(0));
                    o.insert("full".into(), ex_arr(&c.full));
                    o.insert("fback".into(), ex_arr(&c.fback));
                    o.insert("part".into(), ex_arr(&c.part));
                    o.insert("proj".into(), ex_arr(&c.proj));
                    o.insert("pback".into(), ex_arr(&c.pback));
                    o.insert("exp".into(), ex_arr(&c.exp));
                    o.insert("al".into(), (0.25 as $T).ex());
                    o.insert("afull".into(), ex_arr(&c.afull));
                    o.insert("afback".into(), ex_arr(&c.afback));
                    o.insert("apart".into(), ex_arr(&c.apart));
                    o.insert("aproj".into(), ex_arr(&c.aproj));
                    o.insert("apback".into(), ex_arr(&c.apback));
                    o.insert("aexp".into(), ex_arr(&c.aexp));
                    o.insert("extra".into(), Value::Array(c.extra.iter().map(|v| ex_arr(v)).collect()));
                }
                Err(m) => {
                    o.insert("panic".into(), json!(1));
                    o.insert("msg".into(), json!(m));
                    for k in ["full", "fback", "part", "proj", "pback", "exp"] { o.insert(k.into(), json!([])); }
                }
            }
            Value::Object(o)
        }
        fn $pair(pv: &Pv, x1: [f64; 3], x2: [f64; 3]) -> Value {
            let a = [x1[0] as $T, x1[1] as $T, x1[2] as $T];
            let b = [x2[0] as $T, x2[1] as $T, x2[2] as $T];
            let r = catch(|| { let c = $make(pv); (c.full(a), c.full(b)) });
            match r {
                Ok((f1, f2)) => json!({"ev": "pair", "t": <$T as Ex>::NAME, "params": pv.id, "panic": 0, "x1": ex_arr(&a), "x2": ex_arr(&b),
                    "f1": ex_arr(&f1), "f2": ex_arr(&f2), "pv": pv.describe(), "pj": pv.to_json()}),
                Err(m) => json!({"ev": "pair", "t": <$T as Ex>::NAME, "params": pv.id, "panic": 1, "msg": m, "x1": ex_arr(&a), "x2": ex_arr(&b),
                    "f1": [], "f2": [], "pv": pv.describe(), "pj": pv.to_json()}),
            }
        }
        /// a realistic (J, M, h) for the UCS events
        fn $jmh(pv: &Pv, x: [f64; 3]) -> Option<[f64; 3]> {
            let a = [x[0] as $T, x[1] as $T, x[2] as $T];
            catch(|| $make(pv).jmh(a)).ok().map(|v| [v[0] as f64, v[1] as f64, v[2] as f64])
        }
    };
}
macro_rules! typed_pfin {
    ($T:ty, $make:ident, $pfin:ident) => {
        fn $pfin(pv: &Pv, pk: &str, p: [f64; 3]) -> Value {
            let q = [p[0] as $T, p[1] as $T, p[2] as $T];
            let base = json!({"ev": "pfin", "t": <$T as Ex>::NAME, "params": pv.id, "pk": pk, "p": ex_arr(&q), "pv": pv.describe(), "pj": pv.to_json()});
            let mut o = base.as_object().unwrap().clone();
            match catch(|| $make(pv).pfin(pk, q)) {
                Ok((f, x)) => { o.insert("panic".into(), json!(0)); o.insert("full".into(), ex_arr(&f)); o.insert("xyz".into(), ex_arr(&x)); }
                Err(m) => { o.insert("panic".into(), json!(1)); o.insert("msg".into(), json!(m)); o.insert("full".into(), json!([])); o.insert("xyz".into(), json!([])); }
            }
            Value::Object(o)
        }
    };
}
typed_pfin!(f64, make_f64, pfin_f64);
typed_pfin!(f32, make_f32, pfin_f32);
typed_events!(f64, make_f64, conv_f64, pair_f64, jmh_f64);
typed_events!(f32, make_f32, conv_f32, pair_f32, jmh_f32);

fn conv(t: &str, pv: &Pv, pk: &str, x: [f64; 3], w: i64) -> Value { if t == "f32" { conv_f32(pv, pk, x, w) } else { conv_f64(pv, pk, x, w) } }
fn pair(t: &str, pv: &Pv, x1: [f64; 3], x2: [f64; 3]) -> Value { if t == "f32" { pair_f32(pv, x1, x2) } else { pair_f64(pv, x1, x2) } }
fn ucs(t: &str, v: [f64; 3]) -> Value { if t == "f32" { ucs_f32(v) } else { ucs_f64(v) } }

// ------------------------------------------------------------------------------------------ inputs (generation only)

// linear sRGB -> XYZ (D65) and the inverse of the CAT16 matrix: used only to place inputs in and around the gamut
const RGB2XYZ: [[f64; 3]; 3] = [[0.4124564, 0.3575761, 0.1804375], [0.2126729, 0.7151522, 0.0721750], [0.0193339, 0.1191920, 0.9503041]];
const M16INV: [[f64; 3]; 3] = [
    [1.862067855087233, -1.011254630531685, 0.1491867754444518],
    [0.3875265432361372, 0.6214474419314753, -0.008973985167612518],
    [-0.01584149884933386, -0.03412293802851557, 1.04996443687785],
];
fn mat(m: &[[f64; 3]; 3], v: [f64; 3]) -> [f64; 3] {
    [m[0][0] * v[0] + m[0][1] * v[1] + m[0][2] * v[2], m[1][0] * v[0] + m[1][1] * v[1] + m[1][2] * v[2], m[2][0] * v[0] + m[2][1] * v[1] + m[2][2] * v[2]]
}

const LAT: [f64; 5] = [0.0, 0.25, 0.5, 0.75, 1.0];

/// colour number k of a deterministic cycle through the categories
fn colour(rng: &mut Sm64, k: u64) -> [f64; 3] {
    match k % 12 {
        0 | 1 | 2 => {
            // the sRGB lattice (never black: that is a category of its own)
            let i = (k / 12 * 7 + k % 12 * 41) % 124 + 1;
            mat(&RGB2XYZ, [LAT[(i % 5) as usize], LAT[(i / 5 % 5) as usize], LAT[(i / 25) as usize]])
        }
        3 | 4 | 5 => mat(&RGB2XYZ, [rng.unit(), rng.unit(), rng.unit()]),                                    // in the gamut
        6 | 7 => mat(&RGB2XYZ, [rng.range(-0.1, 1.1), rng.range(-0.1, 1.1), rng.range(-0.1, 1.1)]),        // around it
        8 => {
            // the sign-sensitive collar: one slightly negative cone response
            let mut c = [rng.range(0.02, 1.0), rng.range(0.02, 1.0), rng.range(0.02, 1.0)];
            let i = rng.below(3) as usize;
            let other = c[(i + 1) % 3].min(c[(i + 2) % 3]);
            c[i] = -rng.unit() * other / 17.0;
            mat(&M16INV, c)
        }
        9 => {
            // dark colours down to 1e-9
            let s = 10f64.powf(-rng.range(1.0, 9.0));
            let v = mat(&RGB2XYZ, [rng.unit(), rng.unit(), rng.unit()]);
            [v[0] * s, v[1] * s, v[2] * s]
        }
        10 => {
            // greys and near-greys of the D65 axis, and saturated primaries / secondaries
            if rng.coin() {
                let g = rng.unit();
                let e = if rng.coin() { 0.0 } else { 1e-6 };
                mat(&RGB2XYZ, [g, g + e, g - e * g])
            } else {
                let i = rng.below(6) + 1;
                let s = rng.range(0.05, 1.0);
                mat(&RGB2XYZ, [s * (i & 1) as f64, s * (i >> 1 & 1) as f64, s * (i >> 2 & 1) as f64])
            }
        }
        _ => {
            // brighter than white (up to 4x)
            let s = rng.range(1.0, 4.0);
            let v = mat(&RGB2XYZ, [rng.unit(), rng.unit(), rng.unit()]);
            [v[0] * s, v[1] * s, v[2] * s]
        }
    }
}

fn random_pv(rng: &mut Sm64, id: i64) -> Pv {
    let la = (rng.range((0.05f64).ln(), (2000f64).ln())).exp();
    let yb = (rng.range((0.005f64).ln(), 0.0)).exp();
    let sur = match rng.below(6) { 0 => Sur::Dark, 1 => Sur::Dim, 2 => Sur::Average, _ => Sur::Percent(rng.range(-5.0, 25.0)) };
    let disc = match rng.below(3) { 0 => Disc::Auto, _ => Disc::Custom(rng.range(-0.2, 1.2)) };
    let dynamic = rng.coin();
    let white = if dynamic { rng.below(4) as usize } else { rng.below(3) as usize };
    Pv { id, la, yb, sur, disc, dynamic, white, custom: [rng.range(0.9, 1.05), rng.range(0.75, 1.2)] }
}

const KINDS: [&str; 6] = ["jch", "jmh", "jsh", "qch", "qmh", "qsh"];
const TYPES: [&str; 2] = ["f64", "f32"];

fn main() {
    let out = arg_or("--out", "-");
    let mut rec = Rec::create(&out);
    if let Some(cmds) = arg("--cmds") {
        let f = std::io::BufReader::new(std::fs::File::open(&cmds).expect("cmds file"));
        for line in f.lines() {
            let line = line.unwrap();
            if line.trim().is_empty() { continue; }
            let c: Value = serde_json::from_str(&line).expect("cmd json");
            let t = c["t"].as_str().unwrap();
            let v3 = |k: &str| { let a = c[k].as_array().expect("hex triple"); [unhx(a[0].as_str().unwrap()), unhx(a[1].as_str().unwrap()), unhx(a[2].as_str().unwrap())] };
            match c["ev"].as_str().unwrap() {
                "conv" => { let pv = Pv::from_json(c["id"].as_i64().unwrap(), &c["pj"]); rec.ev(conv(t, &pv, c["pk"].as_str().unwrap(), v3("x"), c["w"].as_i64().unwrap_or(0))); }
                "pair" => { let pv = Pv::from_json(c["id"].as_i64().unwrap(), &c["pj"]); rec.ev(pair(t, &pv, v3("x1"), v3("x2"))); }
                "ucs" => rec.ev(ucs(t, v3("jmh"))),
                o => panic!("unknown command {}", o),
            }
        }
        eprintln!("cam16: {} events", rec.finish());
        return;
    }

    if let Some(n) = arg("--pfin") {
        // the boundary lattice of the partial colours (C07): lightness / brightness and the chroma-like attribute at zero,
        // a billionth of their usual range, inside and at its end; hues at sector-like positions; n viewing conditions
        let n: usize = n.parse().unwrap();
        let mut rng = Sm64::new(seed_from_env() ^ 0xF1);
        let mut pvs: Vec<Pv> = vec![Pv { id: 1, la: 40.0, yb: 0.2, sur: Sur::Average, disc: Disc::Auto, dynamic: false, white: 0, custom: [0.0, 0.0] },
                                    Pv { id: 2, la: 4.0, yb: 0.5, sur: Sur::Dim, disc: Disc::Custom(1.0), dynamic: true, white: 1, custom: [0.0, 0.0] },
                                    Pv { id: 3, la: 0.1, yb: 0.01, sur: Sur::Dark, disc: Disc::Custom(0.0), dynamic: false, white: 2, custom: [0.0, 0.0] }];
        while pvs.len() < n { let k = pvs.len() as i64; pvs.push(random_pv(&mut rng, 300000 + k)); }
        let mut rec = Rec::create(&out);
        for pv in pvs.iter().take(n) {
            for pk in KINDS {
                for l in [0.0, 1e-7, 50.0, 100.0] {
                    // chroma-like attributes up to 30: far beyond (saturation 100 at lightness 50 is a chroma of 400) the published
                    // inverse has a pole (23 p1 + t (11 cos h + 108 sin h) = 0) and no colour corresponds to the attributes
                    for c in [0.0, 1e-7, 10.0, 30.0] {
                        for h in [0.0, 120.0, 359.999, -90.0] {
                            rec.ev(pfin_f64(pv, pk, [l, c, h]));
                            rec.ev(pfin_f32(pv, pk, [l, c, h]));
                        }
                    }
                }
            }
        }
        eprintln!("cam16: {} events", rec.finish());
        return;
    }
    let seed = seed_from_env();
    let per_case: u64 = arg_or("--per-case", "1").parse().unwrap();
    let n_random: u64 = arg_or("--random", "0").parse().unwrap();
    let n_pairs: u64 = arg_or("--pairs", "0").parse().unwrap();
    let n_ucs: u64 = arg_or("--ucs", "0").parse().unwrap();
    let mut cases: Vec<(Pv, String)> = Vec::new();
    if let Some(p) = arg("--cases") {
        let f = std::io::BufReader::new(std::fs::File::open(&p).expect("cases file"));
        for line in f.lines() {
            let line = line.unwrap();
            if line.trim().is_empty() { continue; }
            cases.push(Pv::from_lattice(&serde_json::from_str::<Value>(&line).expect("lattice json")));
        }
    }
    let mut rng = Sm64::new(seed ^ 0xC16);
    // 1. the lattice of viewing conditions x partial kinds x colours (the same colours for both component types)
    for (n, (pv, pk)) in cases.iter().enumerate() {
        let n = n as u64;
        let mut xs: Vec<([f64; 3], i64)> = (0..per_case).map(|j| (colour(&mut rng, n * 5 + j * 7 + seed), 0)).collect();
        if n % 8 == 0 { xs.push(([0.0, 0.0, 0.0], 0)); }        // black
        if n % 8 == 4 { xs.push((white_of(pv), 1)); }           // the adopted white
        for (x, w) in xs {
            for t in TYPES { rec.ev(conv(t, pv, pk, x, w)); }
        }
    }
    // 2. random viewing conditions (including custom dynamic whites, out-of-range surround / discounting: clamped)
    for n in 0..n_random {
        let pv = random_pv(&mut rng, 100000 + n as i64);
        let pk = KINDS[(n % 6) as usize];
        let (x, w) = match n % 16 { 0 => ([0.0, 0.0, 0.0], 0), 8 => (white_of(&pv), 1), _ => (colour(&mut rng, n + seed), 0) };
        for t in TYPES { rec.ev(conv(t, &pv, pk, x, w)); }
    }
    // 3. two colours under the same conditions
    for n in 0..n_pairs {
        let pv = if !cases.is_empty() && n % 3 != 0 { cases[rng.below(cases.len() as u64) as usize].0.clone() } else { random_pv(&mut rng, 200000 + n as i64) };
        let x1 = colour(&mut rng, n + seed);
        let x2 = if n % 64 == 5 { [0.0, 0.0, 0.0] } else { colour(&mut rng, n * 5 + 3 + seed) };
        for t in TYPES { rec.ev(pair(t, &pv, x1, x2)); }
    }
    // 4. CAM16-UCS
    let specials: [[f64; 3]; 14] = [[0.0, 0.0, 0.0], [100.0, 0.0, 0.0], [50.0, 0.0, 123.0], [1e-6, 1e-9, 10.0], [100.0, 100.0, 90.0], [45.5, 39.4, -100.77],
        [20.0, 30.0, 180.0], [20.0, 30.0, -180.0], [20.0, 30.0, 270.0], [20.0, 30.0, 359.999], [20.0, 30.0, 0.0], [99.999, 1.9, 209.5], [110.0, 130.0, 45.0], [5.0, 1e-3, -45.0]];
    for n in 0..n_ucs {
        for t in TYPES {
            let v = if (n as usize) < specials.len() { specials[n as usize] }
            else if n % 2 == 0 && !cases.is_empty() {
                let pv = &cases[rng.below(cases.len() as u64) as usize].0;
                let x = colour(&mut rng, n + seed);
                let r = if t == "f32" { jmh_f32(pv, x) } else { jmh_f64(pv, x) };
                match r { Some(v) if v.iter().all(|c| c.is_finite()) => v, _ => [rng.range(0.0, 100.0), rng.range(0.0, 100.0), rng.range(-180.0, 180.0)] }
            } else {
                [rng.range(0.0, 110.0), rng.range(0.0, 130.0) * if n % 5 == 1 { 0.01 } else { 1.0 }, rng.range(-180.0, 360.0)]
            };
            rec.ev(ucs(t, v));
        }
    }
    eprintln!("cam16: {} events", rec.finish());
}
