SPECIFICATION MCSpec
CONSTANTS
  Sym = {"0", "a", "F", "g", "+", "-", "#", "sp", "e2", "e3"}
  MaxLen = 4
  CountLen = 4
  EmitLen = 3
  Lattice = TRUE
  Emit = TRUE
INVARIANTS Inv EmitCase
CHECK_DEADLOCK FALSE
