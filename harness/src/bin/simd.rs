//! C17 driver: results do not depend on the component representation.
//!
//! For the 19 colour types ("nodes") of the D65 / sRGB family and the four `wide` component types
//! (f32x4, f32x8, f64x2, f64x4) the existence of every conversion pair and operator is decided at compile
//! time (autoref specialisation, as in ../convlib.rs).  A group of N scalar colours is packed with
//! `From<[Color<T>; N]> for Color<V>`, converted / operated on as ONE SIMD call, unpacked with `Into`, and
//! every lane is compared (by the trace specification, not here) with the scalar call on that lane's input.
//!
//! Commands (NDJSON, `--cmds file`), events (NDJSON, `--out file`):
//!   {"op":"caps"}                                          -> ev "caps"  existence matrices
//!   {"op":"group","fam":F,"from":A,"to":[B..],"lanes":[class..]}  inputs built per class (see `make_input`)
//!   {"op":"lanes","from":A,"to":[B..],"vt":[..],"in":[[hex f64 x3]..]}   explicit inputs (replay)
//!   {"op":"random","from":A,"to":[B..],"groups":k}         seeded random in-gamut colours
//!        -> ev "lane"  one per lane and (target, vector type)
//!   {"op":"pack","count":k}                                -> ev "pack"
//!   {"op":"mask","count":k}                                -> ev "mask"
//!   {"op":"ops","count":k}                                 -> ev "op"   one per lane
//!   {"op":"prec","from":A,"to":[B..],"count":k}            -> ev "prec" f32 versus f64 scalar
//! Nothing is judged here.  Panics of palette are data.

#![allow(clippy::type_complexity)]
use palette::angle::{AngleEq, RealAngle, SignedAngle, UnsignedAngle};
use palette::blend::{Blend, Compose};
use palette::bool_mask::{BoolMask, HasBoolMask, LazySelect, Select};
use palette::color_difference::{Ciede2000, DeltaE, EuclideanDistance, HyAb, ImprovedCiede2000, ImprovedDeltaE, Wcag21RelativeContrast};
use palette::convert::FromColorUnclamped;
use palette::encoding::{Linear, Srgb as SrgbStd};
use palette::luma::Luma;
use palette::num as pn;
use palette::rgb::Rgb;
use palette::white_point::D65;
use palette::{Alpha, Clamp, Darken, Desaturate, IsWithinBounds, Lighten, Mix, Saturate, ShiftHue};
use palette::{Hsl, Hsluv, Hsv, Hwb, Lab, Lch, Lchuv, Luv, Okhsl, Okhsv, Okhwb, Oklab, Oklch, Xyz, Yxy};
use pvh::*;
use serde_json::{json, Value};
use std::marker::PhantomData;
use wide::{f32x4, f32x8, f64x2, f64x4};

// ------------------------------------------------------------------------------------------------ numbers

pub trait Flt: Copy + Default + PartialOrd + 'static {
    const TN: &'static str;
    fn of64(x: f64) -> Self;
    fn to64(self) -> f64;
    fn bits(self) -> String;
    fn of_bits(b: u64) -> Self;
}
impl Flt for f32 {
    const TN: &'static str = "f32";
    fn of64(x: f64) -> f32 { x as f32 }
    fn to64(self) -> f64 { self as f64 }
    fn bits(self) -> String { format!("{:08x}", self.to_bits()) }
    fn of_bits(b: u64) -> f32 { f32::from_bits(b as u32) }
}
impl Flt for f64 {
    const TN: &'static str = "f64";
    fn of64(x: f64) -> f64 { x }
    fn to64(self) -> f64 { self }
    fn bits(self) -> String { format!("{:016x}", self.to_bits()) }
    fn of_bits(b: u64) -> f64 { f64::from_bits(b) }
}

/// a `wide` vector type
pub trait Wd: Copy + 'static {
    type S: Flt;
    const N: usize;
    const VT: &'static str;
    fn from_slice(xs: &[Self::S]) -> Self;
    fn to_vec(self) -> Vec<Self::S>;
}
macro_rules! wd {
    ($($ty:ident, $s:ident, $n:expr);*) => {$(
        impl Wd for $ty {
            type S = $s;
            const N: usize = $n;
            const VT: &'static str = stringify!($ty);
            fn from_slice(xs: &[$s]) -> Self { let a: [$s; $n] = core::array::from_fn(|i| xs[i]); <$ty>::from(a) }
            fn to_vec(self) -> Vec<$s> { self.to_array().to_vec() }
        }
    )*};
}
wd!(f32x4, f32, 4; f32x8, f32, 8; f64x2, f64, 2; f64x4, f64, 4);
type SOf<A> = <<A as SNode>::V as Wd>::S;

// ------------------------------------------------------------------------------------------------ nodes

type NXyz<T> = Xyz<D65, T>;
type NYxy<T> = Yxy<D65, T>;
type NLab<T> = Lab<D65, T>;
type NLch<T> = Lch<D65, T>;
type NLuv<T> = Luv<D65, T>;
type NLchuv<T> = Lchuv<D65, T>;
type NHsluv<T> = Hsluv<D65, T>;
type NOklab<T> = Oklab<T>;
type NOklch<T> = Oklch<T>;
type NOkhsl<T> = Okhsl<T>;
type NOkhsv<T> = Okhsv<T>;
type NOkhwb<T> = Okhwb<T>;
type NLinSrgb<T> = Rgb<Linear<SrgbStd>, T>;
type NSrgb<T> = Rgb<SrgbStd, T>;
type NHsl<T> = Hsl<SrgbStd, T>;
type NHsv<T> = Hsv<SrgbStd, T>;
type NHwb<T> = Hwb<SrgbStd, T>;
type NLinLuma<T> = Luma<Linear<D65>, T>;
type NSrgbLuma<T> = Luma<SrgbStd, T>;

pub const NAMES: [&str; 19] = ["xyz", "yxy", "lab", "lch", "luv", "lchuv", "hsluv", "oklab", "oklch", "okhsl", "okhsv", "okhwb",
    "linsrgb", "srgb", "hsl", "hsv", "hwb", "linluma", "srgbluma"];
fn idx(name: &str) -> usize {
    NAMES.iter().position(|n| *n == name).unwrap_or_else(|| { eprintln!("unknown node {}", name); std::process::exit(3) })
}
fn ncomp(i: usize) -> usize { if i >= 17 { 1 } else { 3 } }

/// scalar colour
pub trait Node: Copy + 'static {
    type T: Flt;
    const NAME: &'static str;
    fn of(v: &[f64; 3]) -> Self;
    fn arr(self) -> [f64; 3];
}
/// SIMD colour
pub trait SNode: Copy + 'static {
    type V: Wd;
    type Sc: Node<T = <Self::V as Wd>::S>;
    fn pack(xs: &[Self::Sc]) -> Self;
    fn unpack(self) -> Vec<Self::Sc>;
    /// component vectors in declared order
    fn comps(self) -> Vec<Self::V>;
    /// pack with transparency, return (component vectors + alpha vector, unpacked again)
    fn alpha_roundtrip(xs: &[Self::Sc], al: &[SOf<Self>]) -> (Vec<Self::V>, Vec<(Self::Sc, SOf<Self>)>);
}

macro_rules! snode_impl {
    ($al:ident, $V:ident, $S:ident, $N:expr, |$c:ident| $comps:expr) => {
        impl SNode for $al<$V> {
            type V = $V;
            type Sc = $al<$S>;
            fn pack(xs: &[$al<$S>]) -> Self { let a: [$al<$S>; $N] = core::array::from_fn(|i| xs[i]); Self::from(a) }
            fn unpack(self) -> Vec<$al<$S>> { let a: [$al<$S>; $N] = self.into(); a.to_vec() }
            fn comps(self) -> Vec<$V> { let $c = self; $comps }
            fn alpha_roundtrip(xs: &[$al<$S>], al: &[$S]) -> (Vec<$V>, Vec<($al<$S>, $S)>) {
                let a: [Alpha<$al<$S>, $S>; $N] = core::array::from_fn(|i| Alpha { color: xs[i], alpha: al[i] });
                let p: Alpha<$al<$V>, $V> = a.into();
                let mut comps = p.color.comps();
                comps.push(p.alpha);
                let back: [Alpha<$al<$S>, $S>; $N] = p.into();
                (comps, back.iter().map(|x| (x.color, x.alpha)).collect())
            }
        }
    };
}
macro_rules! node {
    ($al:ident, $name:expr, |$v:ident| $of:expr, |$c:ident| [$($arr:expr),*]) => {
        node!(@s $al, f32, $name, |$v| $of, |$c| [$($arr),*]);
        node!(@s $al, f64, $name, |$v| $of, |$c| [$($arr),*]);
        snode_impl!($al, f32x4, f32, 4, |$c| vec![$($arr),*]);
        snode_impl!($al, f32x8, f32, 8, |$c| vec![$($arr),*]);
        snode_impl!($al, f64x2, f64, 2, |$c| vec![$($arr),*]);
        snode_impl!($al, f64x4, f64, 4, |$c| vec![$($arr),*]);
    };
    (@s $al:ident, $S:ident, $name:expr, |$v:ident| $of:expr, |$c:ident| [$($arr:expr),*]) => {
        impl Node for $al<$S> {
            type T = $S;
            const NAME: &'static str = $name;
            fn of(w: &[f64; 3]) -> Self { let $v: [$S; 3] = [w[0] as $S, w[1] as $S, w[2] as $S]; $of }
            fn arr(self) -> [f64; 3] {
                let $c = self;
                let mut o = [0.0f64; 3];
                let mut k = 0;
                $( o[k] = ($arr) as f64; k += 1; )*
                let _ = k;
                o
            }
        }
    };
}
node!(NXyz, "xyz", |v| Xyz::new(v[0], v[1], v[2]), |c| [c.x, c.y, c.z]);
node!(NYxy, "yxy", |v| Yxy::new(v[0], v[1], v[2]), |c| [c.x, c.y, c.luma]);
node!(NLab, "lab", |v| Lab::new(v[0], v[1], v[2]), |c| [c.l, c.a, c.b]);
node!(NLch, "lch", |v| Lch::new(v[0], v[1], v[2]), |c| [c.l, c.chroma, c.hue.into_inner()]);
node!(NLuv, "luv", |v| Luv::new(v[0], v[1], v[2]), |c| [c.l, c.u, c.v]);
node!(NLchuv, "lchuv", |v| Lchuv::new(v[0], v[1], v[2]), |c| [c.l, c.chroma, c.hue.into_inner()]);
node!(NHsluv, "hsluv", |v| Hsluv::new(v[0], v[1], v[2]), |c| [c.hue.into_inner(), c.saturation, c.l]);
node!(NOklab, "oklab", |v| Oklab::new(v[0], v[1], v[2]), |c| [c.l, c.a, c.b]);
node!(NOklch, "oklch", |v| Oklch::new(v[0], v[1], v[2]), |c| [c.l, c.chroma, c.hue.into_inner()]);
node!(NOkhsl, "okhsl", |v| Okhsl::new(v[0], v[1], v[2]), |c| [c.hue.into_inner(), c.saturation, c.lightness]);
node!(NOkhsv, "okhsv", |v| Okhsv::new(v[0], v[1], v[2]), |c| [c.hue.into_inner(), c.saturation, c.value]);
node!(NOkhwb, "okhwb", |v| Okhwb::new(v[0], v[1], v[2]), |c| [c.hue.into_inner(), c.whiteness, c.blackness]);
node!(NLinSrgb, "linsrgb", |v| Rgb::new(v[0], v[1], v[2]), |c| [c.red, c.green, c.blue]);
node!(NSrgb, "srgb", |v| Rgb::new(v[0], v[1], v[2]), |c| [c.red, c.green, c.blue]);
node!(NHsl, "hsl", |v| Hsl::new(v[0], v[1], v[2]), |c| [c.hue.into_inner(), c.saturation, c.lightness]);
node!(NHsv, "hsv", |v| Hsv::new(v[0], v[1], v[2]), |c| [c.hue.into_inner(), c.saturation, c.value]);
node!(NHwb, "hwb", |v| Hwb::new(v[0], v[1], v[2]), |c| [c.hue.into_inner(), c.whiteness, c.blackness]);
node!(NLinLuma, "linluma", |v| Luma::new(v[0]), |c| [c.luma]);
node!(NSrgbLuma, "srgbluma", |v| Luma::new(v[0]), |c| [c.luma]);

// ------------------------------------------------------------------------------------------------ conversions

pub type Col = [f64; 3];
pub struct LaneRes {
    pub simd: Result<Vec<Col>, String>,
    pub scalar: Vec<Result<Col, String>>,
}
pub type LaneFn = fn(&[Col]) -> LaneRes;
pub type ScFn = fn(&Col) -> Result<Col, String>;

fn lane_conv<A, B>(ins: &[Col]) -> LaneRes
where
    A: SNode,
    B: SNode<V = A::V> + FromColorUnclamped<A>,
    B::Sc: FromColorUnclamped<A::Sc>,
{
    let sc: Vec<A::Sc> = ins.iter().map(<A::Sc as Node>::of).collect();
    let simd = catch(|| {
        let a = A::pack(&sc);
        let b = B::from_color_unclamped(a);
        b.unpack().iter().map(|c| c.arr()).collect::<Vec<Col>>()
    });
    let scalar = sc.iter().map(|&a| catch(|| <B::Sc>::from_color_unclamped(a).arr())).collect();
    LaneRes { simd, scalar }
}
fn sc_conv<A: Node, B: Node + FromColorUnclamped<A>>(v: &Col) -> Result<Col, String> {
    let a = A::of(v);
    catch(|| B::from_color_unclamped(a).arr())
}

// compile-time existence by autoref specialisation
pub struct P<A, B>(PhantomData<(A, B)>);
pub trait Yes { fn get(&self) -> Option<LaneFn>; }
pub trait No { fn get(&self) -> Option<LaneFn> { None } }
impl<A, B> Yes for P<A, B>
where
    A: SNode,
    B: SNode<V = A::V> + FromColorUnclamped<A>,
    B::Sc: FromColorUnclamped<A::Sc>,
{
    fn get(&self) -> Option<LaneFn> { Some(lane_conv::<A, B>) }
}
impl<A, B> No for &P<A, B> {}

pub struct PS<A, B>(PhantomData<(A, B)>);
pub trait SYes { fn get(&self) -> Option<ScFn>; }
pub trait SNo { fn get(&self) -> Option<ScFn> { None } }
impl<A: Node, B: Node + FromColorUnclamped<A>> SYes for PS<A, B> {
    fn get(&self) -> Option<ScFn> { Some(sc_conv::<A, B>) }
}
impl<A, B> SNo for &PS<A, B> {}

macro_rules! row { ($T:ident; $A:ident; [$($B:ident),*]) => { vec![ $( (&P::<$A<$T>, $B<$T>>(PhantomData)).get() ),* ] }; }
macro_rules! srow { ($T:ident; $A:ident; [$($B:ident),*]) => { vec![ $( (&PS::<$A<$T>, $B<$T>>(PhantomData)).get() ),* ] }; }
macro_rules! table { ($T:ident; [$($A:ident),*]; $list:tt) => { vec![ $( row!($T; $A; $list) ),* ] }; }
macro_rules! stable { ($T:ident; [$($A:ident),*]; $list:tt) => { vec![ $( srow!($T; $A; $list) ),* ] }; }
macro_rules! with_nodes {
    ($m:ident, $T:ident) => {
        $m!($T; [NXyz, NYxy, NLab, NLch, NLuv, NLchuv, NHsluv, NOklab, NOklch, NOkhsl, NOkhsv, NOkhwb, NLinSrgb, NSrgb, NHsl, NHsv, NHwb, NLinLuma, NSrgbLuma];
                [NXyz, NYxy, NLab, NLch, NLuv, NLchuv, NHsluv, NOklab, NOklch, NOkhsl, NOkhsv, NOkhwb, NLinSrgb, NSrgb, NHsl, NHsv, NHwb, NLinLuma, NSrgbLuma])
    };
}

pub struct Universe {
    pub vts: Vec<(&'static str, usize, &'static str, Vec<Vec<Option<LaneFn>>>)>, // (vt, lanes, scalar type, table)
    pub s32: Vec<Vec<Option<ScFn>>>,
    pub s64: Vec<Vec<Option<ScFn>>>,
}
#[inline(never)] fn t_f32x4() -> Vec<Vec<Option<LaneFn>>> { with_nodes!(table, f32x4) }
#[inline(never)] fn t_f32x8() -> Vec<Vec<Option<LaneFn>>> { with_nodes!(table, f32x8) }
#[inline(never)] fn t_f64x2() -> Vec<Vec<Option<LaneFn>>> { with_nodes!(table, f64x2) }
#[inline(never)] fn t_f64x4() -> Vec<Vec<Option<LaneFn>>> { with_nodes!(table, f64x4) }
#[inline(never)] fn t_s32() -> Vec<Vec<Option<ScFn>>> { with_nodes!(stable, f32) }
#[inline(never)] fn t_s64() -> Vec<Vec<Option<ScFn>>> { with_nodes!(stable, f64) }
impl Universe {
    pub fn new() -> Universe {
        Universe {
            vts: vec![("f32x4", 4, "f32", t_f32x4()), ("f32x8", 8, "f32", t_f32x8()), ("f64x2", 2, "f64", t_f64x2()), ("f64x4", 4, "f64", t_f64x4())],
            s32: t_s32(),
            s64: t_s64(),
        }
    }
    /// image in Xyz<D65, f64> by the code's direct scalar f64 route
    pub fn hub(&self, node: usize, v: &Col) -> Col {
        if node == 0 { return *v; }
        match self.s64[node][0] { Some(f) => f(v).unwrap_or([f64::NAN; 3]), None => [f64::NAN; 3] }
    }
}

// MAIN-PLACEHOLDER
fn main() {
    let u = Universe::new();
    for (vt, _, _, t) in &u.vts {
        println!("{}", vt);
        for (i, r) in t.iter().enumerate() {
            println!("{:9} {}", NAMES[i], r.iter().map(|f| if f.is_some() { "1" } else { "." }).collect::<String>());
        }
    }
    println!("s32");
    for (i, r) in u.s32.iter().enumerate() {
        println!("{:9} {}", NAMES[i], r.iter().map(|f| if f.is_some() { "1" } else { "." }).collect::<String>());
    }
}
