------------------------------- MODULE Named -------------------------------
(***************************************************************************)
(* C12 (part 3) - named colours.                                           *)
(*                                                                         *)
(* Documented contract (palette/src/named.rs): the constants "are taken    *)
(* from the SVG keyword colors [SVG 1.1, section 4.4 'Recognized color     *)
(* keyword names'].  These are also part of the CSS3 standard.";           *)
(* named::from_str: "Get an SVG/CSS3 color by name.  The names are the     *)
(* same as the constants, but lower case."                                 *)
(*                                                                         *)
(* REFERENCE DATA.  The table below is the list of named colours of CSS    *)
(* Color Module Level 4, section 6.1 (the 147 SVG 1.1 keywords plus        *)
(* rebeccapurple = 148 names; sRGB, 8 bits per channel).  Provenance: it   *)
(* was written down as name + hex value from the W3C table as the author   *)
(* of this specification knows it, NOT copied from the tree under test,    *)
(* and converted to decimal by a script; it was then compared with         *)
(* /repo/codegen/res/svg_colors.txt (148 names, no difference) and with    *)
(* X11's rgb.txt (agrees on every name that file has, except the four      *)
(* where CSS deliberately differs from X11: gray/grey, green, maroon,      *)
(* purple).  It is never read from the code.                               *)
(*                                                                         *)
(* Lookup is by the exact lower-case name only: no case folding, no        *)
(* trimming, no prefix matching.                                           *)
(***************************************************************************)
EXTENDS Integers, Sequences, FiniteSets

NamedColors ==
  [
    aliceblue            |-> <<240, 248, 255>>,
    antiquewhite         |-> <<250, 235, 215>>,
    aqua                 |-> <<  0, 255, 255>>,
    aquamarine           |-> <<127, 255, 212>>,
    azure                |-> <<240, 255, 255>>,
    beige                |-> <<245, 245, 220>>,
    bisque               |-> <<255, 228, 196>>,
    black                |-> <<  0,   0,   0>>,
    blanchedalmond       |-> <<255, 235, 205>>,
    blue                 |-> <<  0,   0, 255>>,
    blueviolet           |-> <<138,  43, 226>>,
    brown                |-> <<165,  42,  42>>,
    burlywood            |-> <<222, 184, 135>>,
    cadetblue            |-> << 95, 158, 160>>,
    chartreuse           |-> <<127, 255,   0>>,
    chocolate            |-> <<210, 105,  30>>,
    coral                |-> <<255, 127,  80>>,
    cornflowerblue       |-> <<100, 149, 237>>,
    cornsilk             |-> <<255, 248, 220>>,
    crimson              |-> <<220,  20,  60>>,
    cyan                 |-> <<  0, 255, 255>>,
    darkblue             |-> <<  0,   0, 139>>,
    darkcyan             |-> <<  0, 139, 139>>,
    darkgoldenrod        |-> <<184, 134,  11>>,
    darkgray             |-> <<169, 169, 169>>,
    darkgreen            |-> <<  0, 100,   0>>,
    darkgrey             |-> <<169, 169, 169>>,
    darkkhaki            |-> <<189, 183, 107>>,
    darkmagenta          |-> <<139,   0, 139>>,
    darkolivegreen       |-> << 85, 107,  47>>,
    darkorange           |-> <<255, 140,   0>>,
    darkorchid           |-> <<153,  50, 204>>,
    darkred              |-> <<139,   0,   0>>,
    darksalmon           |-> <<233, 150, 122>>,
    darkseagreen         |-> <<143, 188, 143>>,
    darkslateblue        |-> << 72,  61, 139>>,
    darkslategray        |-> << 47,  79,  79>>,
    darkslategrey        |-> << 47,  79,  79>>,
    darkturquoise        |-> <<  0, 206, 209>>,
    darkviolet           |-> <<148,   0, 211>>,
    deeppink             |-> <<255,  20, 147>>,
    deepskyblue          |-> <<  0, 191, 255>>,
    dimgray              |-> <<105, 105, 105>>,
    dimgrey              |-> <<105, 105, 105>>,
    dodgerblue           |-> << 30, 144, 255>>,
    firebrick            |-> <<178,  34,  34>>,
    floralwhite          |-> <<255, 250, 240>>,
    forestgreen          |-> << 34, 139,  34>>,
    fuchsia              |-> <<255,   0, 255>>,
    gainsboro            |-> <<220, 220, 220>>,
    ghostwhite           |-> <<248, 248, 255>>,
    gold                 |-> <<255, 215,   0>>,
    goldenrod            |-> <<218, 165,  32>>,
    gray                 |-> <<128, 128, 128>>,
    green                |-> <<  0, 128,   0>>,
    greenyellow          |-> <<173, 255,  47>>,
    grey                 |-> <<128, 128, 128>>,
    honeydew             |-> <<240, 255, 240>>,
    hotpink              |-> <<255, 105, 180>>,
    indianred            |-> <<205,  92,  92>>,
    indigo               |-> << 75,   0, 130>>,
    ivory                |-> <<255, 255, 240>>,
    khaki                |-> <<240, 230, 140>>,
    lavender             |-> <<230, 230, 250>>,
    lavenderblush        |-> <<255, 240, 245>>,
    lawngreen            |-> <<124, 252,   0>>,
    lemonchiffon         |-> <<255, 250, 205>>,
    lightblue            |-> <<173, 216, 230>>,
    lightcoral           |-> <<240, 128, 128>>,
    lightcyan            |-> <<224, 255, 255>>,
    lightgoldenrodyellow |-> <<250, 250, 210>>,
    lightgray            |-> <<211, 211, 211>>,
    lightgreen           |-> <<144, 238, 144>>,
    lightgrey            |-> <<211, 211, 211>>,
    lightpink            |-> <<255, 182, 193>>,
    lightsalmon          |-> <<255, 160, 122>>,
    lightseagreen        |-> << 32, 178, 170>>,
    lightskyblue         |-> <<135, 206, 250>>,
    lightslategray       |-> <<119, 136, 153>>,
    lightslategrey       |-> <<119, 136, 153>>,
    lightsteelblue       |-> <<176, 196, 222>>,
    lightyellow          |-> <<255, 255, 224>>,
    lime                 |-> <<  0, 255,   0>>,
    limegreen            |-> << 50, 205,  50>>,
    linen                |-> <<250, 240, 230>>,
    magenta              |-> <<255,   0, 255>>,
    maroon               |-> <<128,   0,   0>>,
    mediumaquamarine     |-> <<102, 205, 170>>,
    mediumblue           |-> <<  0,   0, 205>>,
    mediumorchid         |-> <<186,  85, 211>>,
    mediumpurple         |-> <<147, 112, 219>>,
    mediumseagreen       |-> << 60, 179, 113>>,
    mediumslateblue      |-> <<123, 104, 238>>,
    mediumspringgreen    |-> <<  0, 250, 154>>,
    mediumturquoise      |-> << 72, 209, 204>>,
    mediumvioletred      |-> <<199,  21, 133>>,
    midnightblue         |-> << 25,  25, 112>>,
    mintcream            |-> <<245, 255, 250>>,
    mistyrose            |-> <<255, 228, 225>>,
    moccasin             |-> <<255, 228, 181>>,
    navajowhite          |-> <<255, 222, 173>>,
    navy                 |-> <<  0,   0, 128>>,
    oldlace              |-> <<253, 245, 230>>,
    olive                |-> <<128, 128,   0>>,
    olivedrab            |-> <<107, 142,  35>>,
    orange               |-> <<255, 165,   0>>,
    orangered            |-> <<255,  69,   0>>,
    orchid               |-> <<218, 112, 214>>,
    palegoldenrod        |-> <<238, 232, 170>>,
    palegreen            |-> <<152, 251, 152>>,
    paleturquoise        |-> <<175, 238, 238>>,
    palevioletred        |-> <<219, 112, 147>>,
    papayawhip           |-> <<255, 239, 213>>,
    peachpuff            |-> <<255, 218, 185>>,
    peru                 |-> <<205, 133,  63>>,
    pink                 |-> <<255, 192, 203>>,
    plum                 |-> <<221, 160, 221>>,
    powderblue           |-> <<176, 224, 230>>,
    purple               |-> <<128,   0, 128>>,
    rebeccapurple        |-> <<102,  51, 153>>,
    red                  |-> <<255,   0,   0>>,
    rosybrown            |-> <<188, 143, 143>>,
    royalblue            |-> << 65, 105, 225>>,
    saddlebrown          |-> <<139,  69,  19>>,
    salmon               |-> <<250, 128, 114>>,
    sandybrown           |-> <<244, 164,  96>>,
    seagreen             |-> << 46, 139,  87>>,
    seashell             |-> <<255, 245, 238>>,
    sienna               |-> <<160,  82,  45>>,
    silver               |-> <<192, 192, 192>>,
    skyblue              |-> <<135, 206, 235>>,
    slateblue            |-> <<106,  90, 205>>,
    slategray            |-> <<112, 128, 144>>,
    slategrey            |-> <<112, 128, 144>>,
    snow                 |-> <<255, 250, 250>>,
    springgreen          |-> <<  0, 255, 127>>,
    steelblue            |-> << 70, 130, 180>>,
    tan                  |-> <<210, 180, 140>>,
    teal                 |-> <<  0, 128, 128>>,
    thistle              |-> <<216, 191, 216>>,
    tomato               |-> <<255,  99,  71>>,
    turquoise            |-> << 64, 224, 208>>,
    violet               |-> <<238, 130, 238>>,
    wheat                |-> <<245, 222, 179>>,
    white                |-> <<255, 255, 255>>,
    whitesmoke           |-> <<245, 245, 245>>,
    yellow               |-> <<255, 255,   0>>,
    yellowgreen          |-> <<154, 205,  50>>
  ]

Names == DOMAIN NamedColors

(* named::from_str: <<1, <<r, g, b>>>> or <<0, <<>>>> (None) *)
Lookup(q) == IF q \in Names THEN <<1, NamedColors[q]>> ELSE <<0, <<>>>>

(* named::entries() as a set of <<name, colour>> pairs *)
Entries == {<<n, NamedColors[n]>> : n \in Names}

-----------------------------------------------------------------------------
(* sanity of the reference table itself *)
TableOK == /\ Cardinality(Names) = 148
           /\ \A n \in Names : NamedColors[n] \in (0..255) \X (0..255) \X (0..255)
           (* the synonyms of the CSS list *)
           /\ NamedColors.aqua = NamedColors.cyan /\ NamedColors.fuchsia = NamedColors.magenta
           /\ \A p \in {<<"gray", "grey">>, <<"darkgray", "darkgrey">>, <<"dimgray", "dimgrey">>,
                        <<"lightgray", "lightgrey">>, <<"slategray", "slategrey">>,
                        <<"darkslategray", "darkslategrey">>, <<"lightslategray", "lightslategrey">>} :
                NamedColors[p[1]] = NamedColors[p[2]]
=============================================================================
