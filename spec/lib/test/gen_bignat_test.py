#!/usr/bin/env python3
"""Generates BigNatTest.tla: ASSUMEs comparing BigNat operators with Python integers."""
import random, sys
random.seed(int(sys.argv[1]) if len(sys.argv) > 1 else 1)
B = 8192
def limbs(n):
    out = []
    while n: out.append(n % B); n //= B
    return "<<" + ",".join(map(str, out)) + ">>"
def ib(n): return "<<%d,%s>>" % ((n > 0) - (n < 0), limbs(abs(n)))
def rnd():
    bits = random.choice([0, 1, 5, 13, 14, 26, 27, 40, 53, 64, 104, 128, 208, 300, 400])
    return random.getrandbits(bits) if bits else 0
A = []
for _ in range(120):
    a, b = rnd(), rnd()
    A.append("Add(%s,%s) = %s" % (limbs(a), limbs(b), limbs(a + b)))
    A.append("Mul(%s,%s) = %s" % (limbs(a), limbs(b), limbs(a * b)))
    hi, lo = max(a, b), min(a, b)
    A.append("Sub(%s,%s) = %s" % (limbs(hi), limbs(lo), limbs(hi - lo)))
    A.append("Cmp(%s,%s) = %d" % (limbs(a), limbs(b), (a > b) - (a < b)))
    k = random.randrange(0, 60)
    A.append("Shl(%s,%d) = %s" % (limbs(a), k, limbs(a << k)))
    A.append("Shr(%s,%d) = %s" % (limbs(a), k, limbs(a >> k)))
    d = random.randrange(1, 1 << 17)
    A.append("DivModSmall(%s,%d) = <<%s,%d>>" % (limbs(a), d, limbs(a // d), a % d))
    A.append("BitLen(%s) = %d" % (limbs(a), a.bit_length()))
    sa, sb = random.choice([-1, 1]) * a, random.choice([-1, 1]) * b
    A.append("IAdd(%s,%s) = %s" % (ib(sa), ib(sb), ib(sa + sb)))
    A.append("ISub(%s,%s) = %s" % (ib(sa), ib(sb), ib(sa - sb)))
    A.append("IMul(%s,%s) = %s" % (ib(sa), ib(sb), ib(sa * sb)))
    A.append("ICmp(%s,%s) = %d" % (ib(sa), ib(sb), (sa > sb) - (sa < sb)))
for _ in range(15):
    a, b = rnd(), rnd() or 7
    A.append("DivMod(%s,%s) = <<%s,%s>>" % (limbs(a), limbs(b), limbs(a // b), limbs(a % b)))
    a = random.getrandbits(60); k = random.randrange(0, 9)
    A.append("Pow(%s,%d) = %s" % (limbs(a), k, limbs(a ** k)))
# 600-bit operands exercise the split in Mul
for _ in range(5):
    a, b = random.getrandbits(600), random.getrandbits(520)
    A.append("Mul(%s,%s) = %s" % (limbs(a), limbs(b), limbs(a * b)))
print("---- MODULE BigNatTest ----\nEXTENDS BigNat, TLC\nVARIABLE x\nInit == x = 0\nNext == UNCHANGED x")
for i, a in enumerate(A):
    print("ASSUME Assert(%s, \"case %d\")" % (a, i))
print("====")
