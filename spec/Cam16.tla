------------------------------- MODULE Cam16 -------------------------------
(***************************************************************************)
(* C16 - CAM16 appearance correlates round-trip and are mutually consistent. *)
(*                                                                         *)
(* Reference: C. Li, Z. Li, Z. Wang, Y. Xu, M. R. Luo, G. Cui, M. Melgosa,    *)
(* M. H. Brill, M. Pointer, "Comprehensive color solutions: CAM16, CAT16,     *)
(* and CAM16-UCS", Color Research & Application 42 (2017) 703-718.            *)
(*                                                                         *)
(* The viewing conditions (palette's BakedParameters) are an OPAQUE TOKEN:     *)
(* every event carries a `params` id and nothing of what was derived from it.  *)
(* What the specification decides, as RELATIONS over the exact values the code  *)
(* consumed and produced:                                                    *)
(*  (1) into_xyz(from_xyz(x)) is the colour x, for the full Cam16 and each of   *)
(*      the six partial types (tolerance relative to the XYZ vector);          *)
(*  (2) black maps to black: every attribute 0, and back to (0, 0, 0);          *)
(*  (3) Partial::from_full(full) is EXACTLY the projection of full on its        *)
(*      fields; Partial::from_xyz(x) ~ that projection; into_full(partial) ~ full;*)
(*  (4) the published links between the attributes,                            *)
(*        Q = (4/c) sqrt(J/100) (A_w + 4) F_L^(1/4),   C = alpha sqrt(J/100),     *)
(*        M = C F_L^(1/4),   s = 100 sqrt(M/Q)  [ = 50 sqrt(c alpha/(A_w + 4)),   *)
(*        the form palette documents ],                                       *)
(*      contain derived parameters (c, A_w, F_L) the API does not expose; their  *)
(*      parameter-free CONSEQUENCES are checked instead: for one colour          *)
(*        s^2 Q = 10^4 M,                                                      *)
(*      and between any TWO colours converted under the same conditions          *)
(*        M1 C2 = M2 C1,   Q1^2 J2 = Q2^2 J1,   s1^2 Q1 M2 = s2^2 Q2 M1          *)
(*      (MC_Cam16 proves on a grid that the published formulas imply them);     *)
(*      and the adopted white has J = 100 (A = A_w by definition);              *)
(*  (5) CAM16-UCS (Li et al. 2017, section 5):  J' = 1.7 J / (1 + 0.007 J),       *)
(*      M' = ln(1 + 0.0228 M) / 0.0228,  a' = M' cos h,  b' = M' sin h, and the   *)
(*      published inverses J = J'/(1.7 - 0.007 J'), M = (exp(0.0228 M') - 1)/0.0228;*)
(*      Cam16Jmh <-> Cam16UcsJmh <-> Cam16UcsJab round trips.                  *)
(* NOT decided (DESIGN.md section 5): that the forward model J, C, h of x agrees   *)
(* with Li et al.'s equations - its exponents c z and 0.29^n are computed reals.  *)
(*                                                                         *)
(* Logged numbers are compared exactly as dyadics (Dy); only the UCS relations  *)
(* (ln, exp, sin, cos) use 104-bit fixed point.  A relation returns BITS of      *)
(* agreement; the verdict compares them with the named thresholds below.       *)
(***************************************************************************)
EXTENDS ColourMath, LnExp

DyV(js) == [i \in DOMAIN js |-> Dy(js[i])]
FxV(js) == [i \in DOMAIN js |-> FxOf(js[i])]
(* an Fx value as an exact dyadic / as a logged number (used by the model checks) *)
DyOfFx(x) == IF x[1] = 0 THEN DyZero ELSE <<x[1], -FL, x[2]>>
JOfFx(x) == IF x[1] = 0 THEN <<0, 0>> ELSE <<x[1], -FL>> \o x[2]
JV(xs) == [i \in DOMAIN xs |-> JOfFx(xs[i])]

(* exact comparison: bits of agreement of a and b relative to scale, 200 if equal *)
DyMaxAbs(a, b) == DyMax(DyAbs(a), DyAbs(b))
DyBits(a, b, scale) == IF DyEq(a, b) THEN 200
                       ELSE IF DyIsZero(scale) THEN 0
                       ELSE DyLog2(scale) - DyLog2(DySub(a, b))
DyRelBits(a, b) == DyBits(a, b, DyMaxAbs(a, b))
DyMag3(v) == DyMax(DyAbs(v[1]), DyMax(DyAbs(v[2]), DyAbs(v[3])))
Dy360 == DyFromInt(360)
(* two hues in degrees (raw, each within one turn of [-360, 720]) describe the same direction *)
DyHueBits(h1, h2) == LET d == DyAbs(DySub(h1, h2))
                         dd == DyMin(d, DyMin(DyAbs(DySub(d, Dy360)), DyAbs(DySub(d, DyFromInt(720)))))
                     IN IF DyIsZero(dd) THEN 200 ELSE DyLog2(Dy360) - DyLog2(dd)

-----------------------------------------------------------------------------
(* Domain.  CAT16 (Li et al. 2017, eq. (3)): cone-like responses (R, G, B) = M16 (X, Y, Z).      *)
M16 == << FxDec(1, 0, <<4012, 8800>>), FxDec(1, 0, <<6501, 7300>>), FxDec(-1, 0, <<514, 6100>>),
          FxDec(-1, 0, <<2502, 6800>>), FxDec(1, 1, <<2044, 1400>>), FxDec(1, 0, <<458, 5400>>),
          FxDec(-1, 0, <<20, 7900>>), FxDec(1, 0, <<489, 5200>>), FxDec(1, 0, <<9531, 2700>>) >>
Cone(x) == FxMatVec(M16, x)
Median3(a, b, d) == FxMax(FxMin(a, b), FxMin(FxMax(a, b), d))
(* CAM16 is defined where the achromatic signal A = N_bb (2 R_a + G_a + B_a/20) is positive (J = 100 (A/A_w)^(c z))
   and t >= 0, i.e. R_a + G_a + 21/20 B_a + 0.305 > 0.  The adapted responses are sign(c) f(D_c |c|) with f increasing
   and compressive (f(a y) <= 0.37 f(y) for a <= 1/12 over the whole range used) and D_c within [0.92, 1.2] for the
   whites D65, D50, E.  Sufficient, from the input alone:
     - all three cone responses non-negative (contains the whole sRGB gamut: its primaries have positive responses), or
     - the sign-sensitive collar: one response negative, at most 1/16 of the smaller of the other two in magnitude.
   Inputs below 2^-34 in magnitude (other than exact black) are not judged (underflow of f32 intermediates). *)
InDomain(x) ==
  LET c == Cone(x)
      mn == FxMin(c[1], FxMin(c[2], c[3]))
      mid == Median3(c[1], c[2], c[3])
  IN /\ FxLe(FxEps(34), Mag3(x))
     /\ (~FxIsNeg(mn) \/ FxLe(FxMulInt(FxNeg(mn), 16), mid))
InCollar(x) == InDomain(x) /\ FxIsNeg(FxMin(Cone(x)[1], FxMin(Cone(x)[2], Cone(x)[3])))

-----------------------------------------------------------------------------
(* The attribute vector of a full colour is <<J, C, h, Q, M, s>> (declaration order of palette's Cam16);
   a partial colour is <<luminance-like, chromaticity-like, h>>. *)
Kinds == <<"jch", "jmh", "jsh", "qch", "qmh", "qsh">>
LumIdx(k) == IF k \in {"jch", "jmh", "jsh"} THEN 1 ELSE 4
ChrIdx(k) == IF k \in {"jch", "qch"} THEN 2 ELSE IF k \in {"jmh", "qmh"} THEN 5 ELSE 6
Project(full, k) == <<full[LumIdx(k)], full[ChrIdx(k)], full[3]>>
MagIdx == {1, 2, 4, 5, 6}

(* (1) round trip: every component within 2^-bits of the magnitude of the XYZ vector *)
RoundTripBits(x, back) ==
  LET sc == DyMax(DyMag3(x), DyMag3(back))
  IN Min3i(DyBits(back[1], x[1], sc), DyBits(back[2], x[2], sc), DyBits(back[3], x[3], sc))

(* (3) attribute vectors agree: magnitudes relatively (every link between them is a product, a quotient or a
   square root, so rounding stays relative), hues as directions *)
Min5i(a, b, c, d, e) == Min2i(Min2i(a, b), Min3i(c, d, e))
FullBits(f, g) == Min2i(Min5i(DyRelBits(f[1], g[1]), DyRelBits(f[2], g[2]), DyRelBits(f[4], g[4]),
                              DyRelBits(f[5], g[5]), DyRelBits(f[6], g[6])),
                        DyHueBits(f[3], g[3]))
PartBits(p, q) == Min3i(DyRelBits(p[1], q[1]), DyRelBits(p[2], q[2]), DyHueBits(p[3], q[3]))

(* (4) consequences of the published links; s2 = s^2.  Exact products, compared relative to their size. *)
SatLinkBits(s2, Q, M) == DyRelBits(DyMul(s2, Q), DyMulInt(M, 10000))                       \* s^2 Q = 10^4 M
PairMCBits(M1, C1, M2, C2) == DyRelBits(DyMul(M1, C2), DyMul(M2, C1))                      \* M1 C2 = M2 C1
PairQJBits(Q1, J1, Q2, J2) == DyRelBits(DyMul(DyMul(Q1, Q1), J2), DyMul(DyMul(Q2, Q2), J1)) \* Q1^2 J2 = Q2^2 J1
PairSQMBits(s21, Q1, M1, s22, Q2, M2) ==                                                  \* s1^2 Q1 M2 = s2^2 Q2 M1
  DyRelBits(DyMul(DyMul(s21, Q1), M2), DyMul(DyMul(s22, Q2), M1))
PairBits(f1, f2) == Min3i(PairMCBits(f1[5], f1[2], f2[5], f2[2]), PairQJBits(f1[4], f1[1], f2[4], f2[1]),
                          PairSQMBits(DyMul(f1[6], f1[6]), f1[4], f1[5], DyMul(f2[6], f2[6]), f2[4], f2[5]))

(* the published definitions themselves (Li et al. 2017, appendix A, steps 5-9), with jr = sqrt(J/100) and
   alpha = t^0.9 (1.64 - 0.29^n)^0.73, for given derived parameters p = [c, aw, fl4]; used by MC_Cam16 to prove
   that the relations above are consequences, and to build exact events *)
PubJ(jr) == FxMulInt(FxSqr(jr), 100)
PubQ(p, jr) == FxMul(FxMul(FxDiv(FxInt(4), p.c), jr), FxMul(FxAdd(p.aw, FxInt(4)), p.fl4))
PubC(jr, alpha) == FxMul(alpha, jr)
PubM(p, jr, alpha) == FxMul(PubC(jr, alpha), p.fl4)
PubS2(p, jr, alpha) == FxDiv(FxMulInt(PubM(p, jr, alpha), 10000), PubQ(p, jr))                 \* s = 100 sqrt(M/Q)
PaletteS2(p, alpha) == FxDiv(FxMulInt(FxMul(p.c, alpha), 2500), FxAdd(p.aw, FxInt(4)))        \* s = 50 sqrt(c alpha/(A_w+4))

-----------------------------------------------------------------------------
(* (5) CAM16-UCS, Li et al. 2017 section 5: c1 = 0.007, c2 = 0.0228 *)
C007 == FxRat(7, 1000)
C17 == FxRat(17, 10)
C0228 == FxRat(228, 10000)
RelFx(l, r) == AgreeBits(l, r, AtLeast(FxMax(FxAbs(l), FxAbs(r)), 90))
(* J' (1 + 0.007 J) = 1.7 J *)
UcsJBits(J, Jp) == RelFx(FxMul(Jp, FxAdd(FxOne, FxMul(C007, J))), FxMul(C17, J))
(* the published inverse J = J' / (1.7 - 0.007 J'), as J (1.7 - 0.007 J') = J' *)
UcsJInvBits(Jp, J) == RelFx(FxMul(J, FxSub(C17, FxMul(C007, Jp))), Jp)
(* 0.0228 M' = ln(1 + 0.0228 M): the code rounds 1 + 0.0228 M to the grid of 1, so the error is judged against max(1, ln) *)
UcsMBits(M, Mp) == LET ln == FxLn(FxAdd(FxOne, FxMul(C0228, M)))
                   IN AgreeBits(FxMul(C0228, Mp), ln, FxMax(FxOne, FxAbs(ln)))
(* the published inverse M = (exp(0.0228 M') - 1)/0.0228, as exp(0.0228 M') = 1 + 0.0228 M *)
UcsMInvBits(Mp, M) == LET ex == FxExp(FxMul(C0228, Mp))
                      IN AgreeBits(ex, FxAdd(FxOne, FxMul(C0228, M)), FxMax(FxOne, ex))
(* (J', a', b') is the rectangular form of (J', M', h): ColourMath!PolarBits *)
UcsPolarBits(jab, jmh) == PolarBits(jab, jmh)
(* model-side functions (TLC only evaluates them on its own grid) *)
UcsJFwd(J) == FxDiv(FxMul(C17, J), FxAdd(FxOne, FxMul(C007, J)))
UcsJInv(Jp) == FxDiv(Jp, FxSub(C17, FxMul(C007, Jp)))
UcsMFwd(M) == FxDiv(FxLn(FxAdd(FxOne, FxMul(C0228, M))), C0228)
UcsMInv(Mp) == FxDiv(FxSub(FxExp(FxMul(C0228, Mp)), FxOne), C0228)

-----------------------------------------------------------------------------
(* Thresholds (bits of agreement required).  Principled bounds: a round trip chains about 40 roundings and three
   power functions with exponents up to 2.4, i.e. some 2^6 u; the attribute links a dozen roundings; the UCS
   transformations 4 roundings around a logarithm.  Calibration on the pinned tree over the whole parameter
   lattice and random conditions (thorough tier, both tiers seed 1..3), worst case observed in bits -> threshold:
     round trip            f64 46 -> 42      f32 17 -> 13       (>= 8x margin, see RtThr)
     attribute vectors     f64 49 -> 45      f32 20 -> 16
     links (products)      f64 49 -> 45      f32 20 -> 16
     adopted white J=100   f64 51 -> 45      f32 22 -> 16
     UCS relations         f64 50 -> 46      f32 21 -> 17
     UCS round trip        f64 42 -> 38      f32 13 -> 10   (relative to max(1, M): 1 + 0.0228 M absorbs small M)
   (the figures are refreshed from the evidence file: largest deviations are recorded there at every run) *)
F32(t) == t = "f32"
RtThr(t) == IF F32(t) THEN 13 ELSE 42
AttrThr(t) == IF F32(t) THEN 16 ELSE 45
LinkThr(t) == IF F32(t) THEN 16 ELSE 45
UcsThr(t) == IF F32(t) THEN 17 ELSE 46
UcsRtThr(t) == IF F32(t) THEN 10 ELSE 38

-----------------------------------------------------------------------------
(* Verdicts over events.  A `conv` event: params, t, pk (partial kind), w (1: x is the adopted white of params),
   x, full = Cam16::from_xyz(x), fback = full.into_xyz(), part = Partial::from_xyz(x), proj = Partial::from_full(full),
   pback = part.into_xyz(), exp = proj.into_full().  *)
IsZeroV(js) == \A i \in DOMAIN js : js[i][1] = 0
ZeroAt(js, idx) == \A i \in idx : js[i][1] = 0
ConvFinite(e) == AllFin(e.full) /\ AllFin(e.fback) /\ AllFin(e.part) /\ AllFin(e.proj) /\ AllFin(e.pback) /\ AllFin(e.exp)
(* (2) black: every attribute exactly 0 (the hue of black is only required to be a number), and back exactly 0 *)
BlackOK(e) == /\ ConvFinite(e)
              /\ ZeroAt(e.full, MagIdx) /\ ZeroAt(e.exp, MagIdx) /\ ZeroAt(e.part, {1, 2}) /\ ZeroAt(e.proj, {1, 2})
              /\ IsZeroV(e.fback) /\ IsZeroV(e.pback)
ConvBits(e) ==
  LET x == DyV(e.x)  full == DyV(e.full)
  IN [ rtf |-> RoundTripBits(x, DyV(e.fback)),
       rtp |-> RoundTripBits(x, DyV(e.pback)),
       pp  |-> PartBits(DyV(e.part), DyV(e.proj)),
       ef  |-> FullBits(DyV(e.exp), full),
       sat |-> SatLinkBits(DyMul(full[6], full[6]), full[4], full[5]),
       wj  |-> IF e.w = 1 THEN DyRelBits(full[1], DyFromInt(100)) ELSE 200 ]
ConvJudged(e) == e.panic = 0 /\ AllFin(e.x) /\ ~IsZeroV(e.x) /\ InDomain(FxV(e.x)) /\ ConvFinite(e)
ConvWhy(e) ==
  IF e.panic = 1 THEN "panic"
  ELSE IF ~AllFin(e.x) THEN "ok"
  ELSE IF IsZeroV(e.x) THEN (IF BlackOK(e) THEN "ok" ELSE "black-not-black")
  ELSE IF ~InDomain(FxV(e.x)) THEN "ok"
  ELSE IF ~ConvFinite(e) THEN "non-finite"
  ELSE IF e.proj # Project(e.full, e.pk) THEN "projection-not-exact"
  ELSE LET b == ConvBits(e)  t == e.t
       IN IF b.rtf < RtThr(t) THEN "full-round-trip"
          ELSE IF b.rtp < RtThr(t) THEN "partial-round-trip"
          ELSE IF b.pp < AttrThr(t) THEN "from-xyz-differs-from-projection"
          ELSE IF b.ef < AttrThr(t) THEN "into-full-differs-from-full"
          ELSE IF b.sat < LinkThr(t) THEN "saturation-link"
          ELSE IF b.wj < AttrThr(t) THEN "white-not-100"
          ELSE "ok"

(* A `pair` event: two colours x1, x2 converted under the same params; f1, f2 their full attribute vectors *)
PairJudged(e) == e.panic = 0 /\ AllFin(e.x1) /\ AllFin(e.x2) /\ (IsZeroV(e.x1) \/ InDomain(FxV(e.x1)))
                 /\ (IsZeroV(e.x2) \/ InDomain(FxV(e.x2))) /\ AllFin(e.f1) /\ AllFin(e.f2)
PairWhy(e) ==
  IF e.panic = 1 THEN "panic"
  ELSE IF ~(AllFin(e.x1) /\ AllFin(e.x2)) THEN "ok"
  ELSE IF ~((IsZeroV(e.x1) \/ InDomain(FxV(e.x1))) /\ (IsZeroV(e.x2) \/ InDomain(FxV(e.x2)))) THEN "ok"
  ELSE IF ~(AllFin(e.f1) /\ AllFin(e.f2)) THEN "non-finite"
  ELSE IF PairBits(DyV(e.f1), DyV(e.f2)) < LinkThr(e.t) THEN "attribute-ratios"
  ELSE "ok"

(* A `ucs` event: jmh (Cam16Jmh: J, M, h) -> ujmh (Cam16UcsJmh) -> ujab (Cam16UcsJab) -> ujmhb (Cam16UcsJmh) ->
   jmhb (Cam16Jmh); ujabd = Cam16UcsJab from jmh and jmhd = Cam16Jmh from ujab by the derived routes;
   ujmhc = the clamping FromColor of the first step *)
UcsInDomain(jmh) == ~FxIsNeg(jmh[1]) /\ ~FxIsNeg(jmh[2]) /\ FxLe(jmh[1], FxInt(200)) /\ FxLe(jmh[2], FxInt(1000))
UcsFinite(e) == AllFin(e.ujmh) /\ AllFin(e.ujab) /\ AllFin(e.ujabd) /\ AllFin(e.ujmhb) /\ AllFin(e.jmhb) /\ AllFin(e.jmhd) /\ AllFin(e.ujmhc)
(* colourfulness round trip, relative to max(1, M) *)
MRtBits(a, b) == AgreeBits(a, b, FxMax(FxOne, FxMax(FxAbs(a), FxAbs(b))))
HueRtBits(h1, h2, m) == IF FxLt(m, FxEps(40)) THEN 200            \* no direction left to preserve
                        ELSE DyHueBits(DyOfFx(h1), DyOfFx(h2))
UcsBits(e) ==
  LET jmh == FxV(e.jmh)  ujmh == FxV(e.ujmh)  ujab == FxV(e.ujab)  ujabd == FxV(e.ujabd)
      ujmhb == FxV(e.ujmhb)  jmhb == FxV(e.jmhb)  jmhd == FxV(e.jmhd)
  IN [ fj  |-> UcsJBits(jmh[1], ujmh[1]),
       fm  |-> UcsMBits(jmh[2], ujmh[2]),
       pol |-> Min3i(UcsPolarBits(ujab, ujmh), UcsPolarBits(ujabd, ujmh), UcsPolarBits(ujab, ujmhb)),
       ij  |-> Min2i(UcsJInvBits(ujmhb[1], jmhb[1]), UcsJInvBits(ujab[1], jmhd[1])),
       im  |-> Min2i(UcsMInvBits(ujmhb[2], jmhb[2]), UcsMInvBits(ujmhb[2], jmhd[2])),
       rt  |-> Min2i(Min3i(RelFx(jmhb[1], jmh[1]), MRtBits(jmhb[2], jmh[2]), HueRtBits(jmhb[3], jmh[3], ujmh[2])),
                     Min3i(RelFx(ujmhb[1], ujmh[1]), MRtBits(ujmhb[2], ujmh[2]), HueRtBits(ujmhb[3], ujmh[3], ujmh[2]))) ]
UcsJudged(e) == e.panic = 0 /\ AllFin(e.jmh) /\ UcsInDomain(FxV(e.jmh)) /\ UcsFinite(e)
UcsWhy(e) ==
  IF e.panic = 1 THEN "panic"
  ELSE IF ~AllFin(e.jmh) \/ ~UcsInDomain(FxV(e.jmh)) THEN "ok"
  ELSE IF ~UcsFinite(e) THEN "non-finite"
  ELSE IF e.ujmh[3] # e.jmh[3] THEN "ucs-hue-not-copied"
  ELSE IF FxLe(FxOf(e.ujmh[1]), FxInt(100)) /\ e.ujmhc # e.ujmh THEN "clamped-differs-in-bounds"
  ELSE LET b == UcsBits(e)  t == e.t
       IN IF b.fj < UcsThr(t) THEN "ucs-lightness"
          ELSE IF b.fm < UcsThr(t) THEN "ucs-colourfulness"
          ELSE IF b.pol < UcsThr(t) THEN "ucs-polar"
          ELSE IF b.ij < UcsThr(t) THEN "ucs-lightness-inverse"
          ELSE IF b.im < UcsThr(t) THEN "ucs-colourfulness-inverse"
          ELSE IF b.rt < UcsRtThr(t) THEN "ucs-round-trip"
          ELSE "ok"
=============================================================================
