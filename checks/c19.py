"""C19 - random colour sampling respects the requested range and volume.
Spec: spec/Random.tla (containment on exact values; the volume clause as the deterministic inverse-CDF relation between the
raw variates the sampler consumed and the sample, for some assignment of variates to coordinates). MC_Random checks the
model itself (CDFs against the integral of the cross-section area over a 4^3 grid of cells, bijection, acceptance of the
exact inverse, rejection of the coordinate-uniform sampler) and emits grid cases; the harness (harness/src/bin/random.rs)
draws from palette's Standard and Uniform distributions with a clonable deterministic generator - seeded streams and the
TLC cases through a scripted generator - and TraceRandom.tla validates every recorded sample. The Python arithmetic in this
file only produces calibration figures for the evidence; the verdict is TLC's."""
import json, math
from fractions import Fraction as F
from common import *

CONE = ("hsv", "okhsv")
BICONE = ("hsl", "okhsl")
HWBN = ("hwb", "okhwb")
VOLUME = CONE + BICONE + HWBN
FRAMED = VOLUME + ("hsluv",)
HUE_IDX = {"lch": 2, "lchuv": 2, "oklch": 2, "cam16ucsjmh": 2, "hsluv": 0, "hsl": 0, "hsv": 0, "hwb": 0, "okhsl": 0, "okhsv": 0,
           "okhwb": 0}
ROOTED = {("lch", 1), ("lchuv", 1), ("oklch", 1), ("cam16ucsjmh", 1)}

REASONS = {
    "panic": "the sampler (or its constructor) panicked although the ends satisfy rand's precondition",
    "non-finite": "the sample has a non-finite component",
    "unknown-type": "the event names a type the specification does not know",
    "standard-out-of-bounds": "a Standard sample lies outside the documented bounds of its space",
    "uniform-component-outside-ends": "a non-hue component of a Uniform sample is not between the components of the two ends "
                                      "(HWB forms: HSV saturation / value)",
    "not-volume-uniform": "no assignment of the consumed variates to (height, saturation) satisfies the inverse-CDF relation of "
                          "the volume measure (cone: v^3 ~ r, bicone: 4l^3 / 1-4(1-l)^3 ~ r, s^2 ~ r, on the ends' CDF interval)",
    "uniform-hue-off-arc": "the hue is not on the arc from the low hue to the high hue: (h - low) mod 360 > high - low",
    "hue-not-uniform-on-arc": "the hue is not low + r (high - low) (mod 360) for any remaining consumed variate r",
}


def fr(j):
    if j[0] in (2, 3, -3):
        return None
    m = 0
    for i, limb in enumerate(j[2:]):
        m += limb << (13 * i)
    return F(j[0] * m) * F(8192) ** j[1]


def ctor(ev):
    return "gen" if ev.get("dist") == "standard" else ("new_inclusive" if ev.get("incl") else "new")


def describe(ev):
    fl = lambda k: [dy_to_float(x) for x in ev.get(k, [])]
    s = "%s%s<%s> %s" % ("Alpha-wrapped " if ev.get("alpha") else "", ev.get("ty"), ev.get("t"),
                         "rng.gen()" if ev.get("dist") == "standard" else "Uniform::%s(low=%r, high=%r).sample" % (ctor(ev), fl("lo"), fl("hi")))
    if ev.get("panic"):
        return s + " PANICKED: " + str(ev.get("msg"))
    return s + " -> %r (variates consumed: %r)" % (fl("out"), fl("vs" if ev.get("dist") == "standard" else "vu"))


def coords_of(ev, why):
    d = {"kind": "sample", "class": why, "ty": ev.get("ty"), "t": ev.get("t"), "dist": ev.get("dist"), "ctor": ctor(ev),
         "alpha": ev.get("alpha")}
    hi = HUE_IDX.get(ev.get("ty"))
    if ev.get("dist") == "uniform" and hi is not None and len(ev.get("lo", [])) > hi:
        d["hue_lo"], d["hue_hi"] = dy_to_float(ev["lo"][hi]), dy_to_float(ev["hi"][hi])
    if ev.get("dist") == "uniform" and ev.get("ty") in BICONE + ("hsluv",) and len(ev.get("lo", [])) >= 3:
        sc = 100.0 if ev["ty"] == "hsluv" else 1.0
        d["l_lo"], d["l_hi"] = dy_to_float(ev["lo"][2]) / sc, dy_to_float(ev["hi"][2]) / sc
    return d


# ----------------------------------------------------------------------------- calibration (evidence only)

def hcdf(shape, x):
    if shape == "bicone":
        return 4 * x ** 3 if x <= F(1, 2) else 1 - 4 * (1 - x) ** 3
    return x ** 3


def img(node, x):
    if node in HWBN:
        v = 1 - x[2]
        return v, v - x[1], v
    if node == "hsluv":
        return x[2] / 100, x[1] / 100, F(1)
    return x[2], x[1], F(1)


def circ(d):
    r = d - 360 * math.floor(d / 360)
    return min(r, 360 - r)


def calibrate(trace_path, rejected_lines, every=1):
    """largest deviation of an ACCEPTED event from each relation, in units of that relation's tolerance"""
    mx = {}

    def up(k, v, ev):
        if k not in mx or v > mx[k][0]:
            mx[k] = (v, ev)
    with open(trace_path) as f:
        for i, line in enumerate(f):
            if i % every or i in rejected_lines:
                continue
            e = json.loads(line)
            if e.get("panic") or e["ty"] not in FRAMED and e["ty"] not in HUE_IDX:
                continue
            node, t = e["ty"], e["t"]
            P = 24 if t == "f32" else 53
            out = [fr(j) for j in e["out"]]
            if any(v is None for v in out):
                continue
            uni = e["dist"] == "uniform"
            lo = [fr(j) for j in e["lo"]] if uni else None
            hi = [fr(j) for j in e["hi"]] if uni else None
            vs = [[fr(j) for j in e[k]] for k in ("vs", "vu")]
            rs = vs[0] + vs[1]
            if node in FRAMED:
                shape = "bicone" if node in BICONE + ("hsluv",) else "cone"
                hw = node in HWBN
                xv, xn, xd = img(node, out)
                if uni:
                    (av, an, ad), (bv, bn, bd) = img(node, lo), img(node, hi)
                else:
                    (av, an, ad), (bv, bn, bd) = (F(0), F(0), F(1)), (F(1), F(1), F(1))
                a, b = hcdf(shape, av), hcdf(shape, bv)
                fl_, fh = min(a, b), max(a, b)
                g = hcdf(shape, xv)
                habs = F(2) ** -(P - 5) if hw else 0
                tol = lambda p, q, ab: max(abs(p), abs(q)) * F(2) ** -(P - 6) + ab + F(2) ** -96
                n, d, n1, d1, n2, d2 = xn ** 2, xd ** 2, an ** 2, ad ** 2, bn ** 2, bd ** 2
                A, B, dd = n1 * d2, n2 * d1, d1 * d2
                sl, sh = min(A, B), max(A, B)
                lhs = n * dd
                sabs = F(2) ** -(P - 6) * xd * dd if hw else 0
                # containment in CDF space
                over = max(fl_ - g, g - fh, 0)
                up("between.height_cdf", float(over / tol(fl_, fh, habs)), e)
                over = max(d * sl - lhs, lhs - d * sh, 0)
                up("between.saturation_cdf", float(over / tol(d * sl, d * sh, sabs)), e)
                if node in VOLUME:
                    up("volume.height" + (".hwb" if hw else ""),
                       float(min(abs(g - (fl_ + r * (fh - fl_))) / tol(g, fl_ + r * (fh - fl_), habs) for r in rs)), e)
                    up("volume.saturation" + (".hwb" if hw else ""),
                       float(min(abs(lhs - d * (sl + r * (sh - sl))) / tol(lhs, d * (sl + r * (sh - sl)), sabs) for r in rs)), e)
            hidx = HUE_IDX.get(node)
            if hidx is not None:
                h = out[hidx]
                hlo, hhi = (lo[hidx], hi[hidx]) if uni else (F(0), F(360))
                htol = F(2) ** (14 - P)
                if hlo <= hhi and hhi - hlo <= 360 and abs(hlo) <= 1024 and abs(hhi) <= 1024:
                    if uni:
                        m = (h - hlo) - 360 * math.floor((h - hlo) / 360)
                        off = min(max(m - (hhi - hlo), 0), 360 - m)      # beyond either end of the arc
                        up("hue.off_arc", float(off / htol), e)
                    if node in VOLUME:
                        up("volume.hue", float(min(circ(h - (hlo + r * (hhi - hlo))) for r in rs) / htol), e)
            if uni:
                for (nd, idx) in ROOTED:
                    if nd == node:
                        x, p, q = out[idx], min(lo[idx], hi[idx]), max(lo[idx], hi[idx])
                        sl_ = max(abs(p), abs(q)) * F(2) ** -(P - 6)
                        if sl_:
                            up("between.rooted_component", float(max(p - x, x - q, 0) / sl_), e)
    return {k: round(v[0], 4) for k, v in sorted(mx.items())}


# ----------------------------------------------------------------------------- the check

def model_run(ctx):
    g = 2 if ctx.quick else 4
    ln = 2
    # -coverage is not usable for this module: TLC's cost model expands the call tree of the bignum relations once per
    # call site and does not fit in 6 GB even for the smallest constants. Vacuity is controlled by the exact number of
    # distinct states instead: every enumerated case is a state, and every grid point must have BOTH successors produced by
    # the model's own actions (SampleStandard / SampleUniform enabled on the exact inverse), so a disabled action, an
    # empty enumeration or an unreachable phase changes the count.
    r = tlc_mc(ctx, "MC_Random", constants={"LN": ln, "G": g, "Emit": "TRUE", "Full": "FALSE" if ctx.quick else "TRUE"}, tag="random_model", workers=6, timeout=1500,
               coverage=False)
    n = 2 ** ln
    cells, points, fine, ncase = 2 * n ** 3, 3 * (n + 1) ** 2 * n, 2 * 32, (g + 1) ** 4
    blocks = 2 * n + 3 * (n + 1) + 2 * 4 + (g + 1)
    expected = 1 + blocks + cells + points + fine + ncase + 2 * points
    if r.distinct != expected:
        raise ToolError("vacuity: MC_Random reached %d distinct states, expected %d (a model action is disabled or an "
                        "enumeration is empty), see %s" % (r.distinct, expected, r.out_path))
    cases = extract_prints(r.out_path, "REPLAY")
    if len(set(cases)) != ncase:
        raise ToolError("MC_Random emitted %d distinct cases, expected %d" % (len(set(cases)), ncase))
    path = ctx.p("random.cases.ndjson")
    with open(path, "w") as f:
        for c in sorted(set(cases)):
            f.write(c + "\n")
    return path, ncase


def interleave(ctx, path, k):
    """Events are independent, so their order is free: deal them round-robin over the validation chunks so that the
    expensive ones (HWB forms, f64) do not all land in one TLC process. Returns the dealt file."""
    lines = open(path).readlines()
    out = ctx.p("random.dealt.ndjson")
    with open(out, "w") as f:
        for j in range(k):
            f.writelines(lines[j::k])
    return out, len(lines)


def no_wrapped_rejects(ctx, tag):
    for out in ctx.work.glob(tag + ".chunk*.tlc.out"):
        for line in open(out):
            if line.startswith('<< "REJECT"'):
                raise ToolError("wrapped REJECT line in %s: shorten the reason texts of Random.tla" % out)


def run(ctx):
    bins = cargo_build(["random"])
    cases, ncases = model_run(ctx)
    tp = ctx.p("random.ndjson")
    r = run_bin(bins["random"], ["--tier", ctx.tier, "--out", tp, "--hist", cases], env={"VERIF_SEED": ctx.seed})
    stats = json.loads((r.stderr or "{}").strip().splitlines()[-1])
    n = stats.get("events", 0)
    jobs = min(14, max(2, NCPU - 2))
    chunk = min(5000 if ctx.quick else 20000, max(500, -(-n // jobs)))
    k = max(1, -(-n // chunk))
    tp, n = interleave(ctx, tp, k)
    res = validate_trace(ctx, "TraceRandom", tp, stateless=True, chunk_events=chunk, tag="random")
    no_wrapped_rejects(ctx, "random")
    ctx.cov["traces_validated_against_impl"] += res.events - len(res.rejected)
    add_samples(ctx, tp, n=5, every=4001)
    classes = {}
    # the first replay files written should show different things: one event per (reason, type, component type) first
    seen, first, rest = set(), [], []
    for rj in res.rejected:
        key = (rj[2], rj[1].get("ty"), rj[1].get("t"))
        (rest if key in seen else first).append(rj)
        seen.add(key)
    prio = {'"uniform-hue-off-arc"': 2, '"hue-not-uniform-on-arc"': 3, '"panic"': 1}
    by = {}
    for rj in sorted(first, key=lambda rj: (rj[1].get("alpha", 0), rj[1].get("t") != "f64", rj[1].get("ty") != "hsv", rj[1].get("ty"))):
        by.setdefault(rj[2], []).append(rj)
    first = []
    while any(by.values()):                       # round robin over the reasons, unexpected ones first
        for why in sorted(by, key=lambda w: (prio.get(w, 0), w)):
            if by[why]:
                first.append(by[why].pop(0))
    for (line, ev, info, _scen) in first + rest:
        why = info.strip().strip('"')
        classes[why] = classes.get(why, 0) + 1
        what = "%s - %s" % (describe(ev), REASONS.get(why, why))
        report(ctx, coords_of(ev, why), what, {"bin": "random", "event": ev, "trace_line": line, "how": "./check C19 --replay <this file>"})
    cal = calibrate(tp, {x[0] for x in res.rejected}, every=1 if ctx.quick else 5)
    ctx.cov["distinct_nontrivial"] = count_distinct(
        tp, lambda e: json.dumps([e["dist"], e["incl"], e["ty"], e["t"], e["alpha"], e["lo"], e["hi"], e["rng"]]),
        lambda e: e["dist"] == "uniform" or e["ty"] in VOLUME)
    return finish(ctx, "model_checking",
                  rule="a case is one sample: distribution (Standard / Uniform::new / Uniform::new_inclusive), colour type, component "
                       "type, plain or Alpha-wrapped, the two ends, the generator state; distinct by that tuple; non-trivial when "
                       "it is a Uniform sample (ends to respect) or a Standard sample of a cone / bicone shaped space (volume clause)",
                  explanation="MC_Random checks the model in exact arithmetic: the height CDF of Random.tla equals the normalised "
                              "integral of the cross-section area of the cone / bicone over each of the 4 grid intervals (Simpson, "
                              "exact), so the pre-image of each of the 64 cells under the inverse-CDF map has measure volume / total "
                              "volume (equal volumes, equal measures), which the coordinate-uniform sampler satisfies for no cell; "
                              "CDFs strictly increasing with F(0)=0, F(1)=1, F(1/2)=1/2 (bicone), F(v)=v^3 (cone); the relation accepts "
                              "the exact inverse at all grid points for hsv / hsl / hwb and rejects coordinate-uniform, wrong-hue, "
                              "off-arc and out-of-range events. TLC emits all %d grid variate tuples, which the harness feeds to the "
                              "real samplers through a scripted generator, next to %d seeded streams per type; TraceRandom.tla "
                              "validates every recorded sample (20 colour types x f32/f64, plain and Alpha-wrapped)."
                              % (ncases, stats.get("seeds", 0)),
                  trusted=["the exact encoding of floats in the harness (pvh::ex64, unit-tested)", "TLC, JVM, rustc",
                           "rand 0.8's scalar Standard / Uniform<f32|f64> distributions are uniform and draw one generator output "
                           "per scalar (the variates are re-drawn from clones of the generator with rand's own primitives)",
                           "documented bounds table in spec/Types.tla (+ Lms, Cam16UcsJab, Cam16UcsJmh in Random.tla)"],
                  extra={"per_kind": stats.get("per"), "panics": stats.get("panics"), "tlc_cases": ncases,
                         "rejected_by_class": classes, "max_deviation_over_tolerance": cal,
                         "tolerances": {"cdf_relations": "64 u relative to the CDF value (u = 2^-Prec)",
                                        "hwb_forms": "+ 32 u absolute on v^3, + 64 u * v on chroma^2 (b = 1 - v is stored)",
                                        "hue": "16 ulp of 720 degrees (2^(14-Prec))", "rooted components": "64 u relative",
                                        "direct components": "none (closed interval, exactly)", "documented bounds": "8 ulp of the bound"},
                         "volume_clause_types": list(VOLUME),
                         "containment_only_types": "boxes, cylinders (lch, lchuv, oklch, cam16ucsjmh), hsluv"})


def replay(ctx, path):
    rp = json.load(open(path))["replay"]
    bins = cargo_build(["random"])
    tp = ctx.p("replay.ndjson")
    run_bin(bins["random"], ["--one", json.dumps(rp["event"]), "--out", tp])
    res = validate_trace(ctx, "TraceRandom", tp, stateless=True, tag="replay")
    no_wrapped_rejects(ctx, "replay")
    if res.rejected:
        why = res.rejected[0][2].strip().strip('"')
        print("VIOLATION property=C19 replay=%s" % path)
        print("  still rejected: %s - %s" % (describe(res.rejected[0][1]), REASONS.get(why, why)))
        return 1
    print("replay accepted: %s" % describe(json.loads(open(tp).readline())))
    return 0
