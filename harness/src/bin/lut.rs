//! C05 driver: transfer functions and their lookup tables.
//!
//! Nothing in this file decides the property: it dumps the compiled tables (hook H2), calls palette's
//! encoders / decoders / float curves and records what they returned. TLC judges (spec/Lut.tla,
//! spec/Transfer.tla through spec/mc/MC_Lut.tla and spec/trace/TraceLut.tla).
//!
//! usage: lut --dump consts.json --dec16 dec16.json
//!        lut --tier quick|thorough --out trace.ndjson [--hist replay.ndjson]     (VERIF_SEED, VERIF_THREADS)
//!        lut --one '<event json>' --out trace.ndjson                             (replay of one recorded event)
//!
//! An f32 input is logged as [neg, mag] (sign bit, low 31 bits of the pattern): TLC integers are 32-bit signed.
//! Events (every event carries "panic":0|1; a panic inside palette is data):
//!   step  {enc, api, mode:"full"|"sample", first:[neg,mag], last:[neg,mag], code}   maximal run of equal outputs in
//!         real-number order (-inf .. -0, +0 .. +inf) over all f32 ("full") or over the class sample ("sample")
//!   nan   {enc, api, n, code}          all 2^24-2 NaN patterns: n of them gave `code`
//!   abort {enc, api, why}              a sweep gave up (too many panics / runs); always rejected
//!   spec  {enc, api, x:[neg,mag], code}
//!   pts   {enc, api, mags:[..], codes:[..]}      positive inputs, a batch
//!   f64   {enc, x: exact f64, code}
//!   dec   {enc, k, max, x32, x64: exact, back32, back64}   decoders of code k; back = public encoder applied to x
//!   reset {enc, t, dir} / curve {enc, t, dir:"enc"|"dec", x, y, back}   generic float curves, sorted by x, in
//!         sections of at most 120 points, each opened by a reset and a repetition of the point before it
//!   form  {what, got:[exact..], want:[exact..]}  Rgb/Luma forms against the component-wise trait calls

use palette::encoding::__verif as tv;
use palette::encoding::linear::LinearFn;
use palette::encoding::{self as pe, FromLinear, IntoLinear, Linear};
use palette::luma::{Luma, Lumaa};
use palette::rgb::{Rgb, Rgba};
use pvh::*;
use serde_json::{json, Value};
use std::collections::BTreeMap;
use std::sync::atomic::{AtomicBool, AtomicU64, Ordering};
use std::sync::Mutex;

const NEG: u64 = 0x7f80_0001; // number of non-NaN patterns with the sign bit set (-inf ..= -0)
const N_ORD: u64 = 2 * NEG; // all non-NaN patterns
const INF: u32 = 0x7f80_0000;
const PANIC_LIMIT: u64 = 64;
const RUN_LIMIT: usize = 200_000;

/// n-th f32 in the order of the real numbers: -inf (n = 0) .. -0, +0 .. +inf
#[inline(always)]
fn bits_of(n: u64) -> u32 {
    if n < NEG { 0xff80_0000u32 - n as u32 } else { (n - NEG) as u32 }
}
fn ord_of(bits: u32) -> u64 {
    if bits & 0x8000_0000 != 0 { (0xff80_0000u32 - bits) as u64 } else { bits as u64 + NEG }
}
fn pos(bits: u32) -> Value { json!([bits >> 31, bits & 0x7fff_ffff]) }
fn is_nan_bits(bits: u32) -> bool { (bits & 0x7fff_ffff) > INF }

// ------------------------------------------------------------------------------------------ the encodings

trait E8: 'static {
    const NAME: &'static str;
    const MIN: u32;
    fn table() -> &'static [u32];
    fn dec32t() -> &'static [f32; 256];
    fn dec64t() -> &'static [f64; 256];
    fn enc32(x: f32) -> u8;
    fn enc64(x: f64) -> u8;
    fn dec32(k: u8) -> f32;
    fn dec64(k: u8) -> f64;
    fn raw(x: f32) -> u8 { tv::linear_f32_to_encoded_u8(x, Self::MIN, Self::table()) }
}

macro_rules! impl_e8 {
    ($M:ident, $T:ty, $name:expr, $min:path, $tab:path, $d32:path, $d64:path) => {
        struct $M;
        impl E8 for $M {
            const NAME: &'static str = $name;
            const MIN: u32 = $min;
            fn table() -> &'static [u32] { &$tab }
            fn dec32t() -> &'static [f32; 256] { &$d32 }
            fn dec64t() -> &'static [f64; 256] { &$d64 }
            #[inline(always)]
            fn enc32(x: f32) -> u8 { <$T as FromLinear<f32, u8>>::from_linear(x) }
            fn enc64(x: f64) -> u8 { <$T as FromLinear<f64, u8>>::from_linear(x) }
            fn dec32(k: u8) -> f32 { <$T as IntoLinear<f32, u8>>::into_linear(k) }
            fn dec64(k: u8) -> f64 { <$T as IntoLinear<f64, u8>>::into_linear(k) }
        }
    };
}
impl_e8!(ESrgb, pe::Srgb, "srgb", tv::srgb::SRGB_MIN_FLOAT, tv::srgb::TO_SRGB_U8, tv::srgb::SRGB_U8_TO_F32, tv::srgb::SRGB_U8_TO_F64);
impl_e8!(ERec, pe::RecOetf, "rec_oetf", tv::rec_standards::REC_OETF_MIN_FLOAT, tv::rec_standards::TO_REC_OETF_U8,
         tv::rec_standards::REC_OETF_U8_TO_F32, tv::rec_standards::REC_OETF_U8_TO_F64);
impl_e8!(EAdobe, pe::AdobeRgb, "adobe", tv::adobe::ADOBE_RGB_MIN_FLOAT, tv::adobe::TO_ADOBE_RGB_U8, tv::adobe::ADOBE_RGB_U8_TO_F32,
         tv::adobe::ADOBE_RGB_U8_TO_F64);
impl_e8!(EP3, pe::P3Gamma, "p3", tv::p3::P3_GAMMA_MIN_FLOAT, tv::p3::TO_P3_GAMMA_U8, tv::p3::P3_GAMMA_U8_TO_F32, tv::p3::P3_GAMMA_U8_TO_F64);

// the one 16-bit encoding
const PP: &str = "prophoto";
const PP_MIN: u32 = tv::prophoto::PROPHOTO_RGB_MIN_FLOAT;
fn pp_table() -> &'static [u64] { &tv::prophoto::TO_PROPHOTO_RGB_U16 }
#[inline(always)]
fn pp_enc32(x: f32) -> u16 { <pe::ProPhotoRgb as FromLinear<f32, u16>>::from_linear(x) }
fn pp_enc64(x: f64) -> u16 { <pe::ProPhotoRgb as FromLinear<f64, u16>>::from_linear(x) }
fn pp_dec32(k: u16) -> f32 { <pe::ProPhotoRgb as IntoLinear<f32, u16>>::into_linear(k) }
fn pp_dec64(k: u16) -> f64 { <pe::ProPhotoRgb as IntoLinear<f64, u16>>::into_linear(k) }
fn pp_raw(x: f32) -> u16 {
    tv::linear_f32_to_encoded_u16_with_linear_scale(x, tv::prophoto::PROPHOTO_RGB_LINEAR_SCALE, PP_MIN, pp_table())
}

// ------------------------------------------------------------------------------------------ recording

struct Out {
    rec: Rec,
    counts: BTreeMap<String, u64>,
    panics: u64,
    evals: u64,
}

impl Out {
    fn ev(&mut self, kind: &str, mut v: Value) {
        *self.counts.entry(kind.to_string()).or_insert(0) += 1;
        v["ev"] = json!(kind);
        if v.get("panic").is_none() {
            v["panic"] = json!(0);
        } else if v["panic"] == json!(1) {
            self.panics += 1;
        }
        self.rec.ev(v);
    }
}

static PANIC_MSG: Mutex<Option<String>> = Mutex::new(None);
static NPANIC: AtomicU64 = AtomicU64::new(0);

/// call an encoder on a bit pattern; -1 = panic (message kept)
#[inline(always)]
fn guarded<R: Into<i32>>(f: impl FnOnce() -> R) -> i32 {
    match catch(f) {
        Ok(c) => c.into(),
        Err(m) => {
            NPANIC.fetch_add(1, Ordering::Relaxed);
            *PANIC_MSG.lock().unwrap() = Some(m); // the latest one: it is reported with the event being recorded
            -1
        }
    }
}
fn panic_msg() -> String { PANIC_MSG.lock().unwrap().clone().unwrap_or_default() }

#[derive(Clone, Debug)]
struct Run { first: u32, last: u32, code: i32 }

/// maximal runs of equal outputs over a sequence of order indices (must be increasing)
fn runs_over(f: &(dyn Fn(u32) -> i32 + Sync), ords: impl Iterator<Item = u64>) -> Vec<Run> {
    let mut runs: Vec<Run> = vec![];
    for n in ords {
        let b = bits_of(n);
        let c = f(b);
        match runs.last_mut() {
            Some(r) if r.code == c => r.last = b,
            _ => runs.push(Run { first: b, last: b, code: c }),
        }
    }
    runs
}

/// all non-NaN f32 in real-number order, in parallel; returns the runs and whether the sweep gave up
fn full_sweep<F: Fn(u32) -> i32 + Sync + ?Sized>(f: &F, threads: usize) -> (Vec<Run>, Option<String>) {
    const PIECES: u64 = 512;
    let next = AtomicU64::new(0);
    let stop = AtomicBool::new(false);
    let why: Mutex<Option<String>> = Mutex::new(None);
    let results: Mutex<Vec<(u64, Vec<(u64, u64, i32)>)>> = Mutex::new(vec![]);
    let p0 = NPANIC.load(Ordering::Relaxed);
    std::thread::scope(|s| {
        for _ in 0..threads {
            s.spawn(|| loop {
                let p = next.fetch_add(1, Ordering::Relaxed);
                if p >= PIECES || stop.load(Ordering::Relaxed) { break; }
                let (n0, n1) = (N_ORD * p / PIECES, N_ORD * (p + 1) / PIECES);
                let mut runs: Vec<(u64, u64, i32)> = vec![];
                let mut start = n0;
                let mut cur = f(bits_of(n0));
                let mut end = n1;
                for n in (n0 + 1)..n1 {
                    let c = f(bits_of(n));
                    if c != cur || c < 0 {
                        if c != cur {
                            runs.push((start, n - 1, cur));
                            start = n;
                            cur = c;
                        }
                        if c < 0 && NPANIC.load(Ordering::Relaxed) - p0 > PANIC_LIMIT {
                            *why.lock().unwrap() = Some(format!("more than {} panics, last at order index {}", PANIC_LIMIT, n));
                            stop.store(true, Ordering::Relaxed);
                            end = n + 1;
                            break;
                        }
                        if runs.len() > RUN_LIMIT {
                            *why.lock().unwrap() = Some(format!("more than {} runs in one piece", RUN_LIMIT));
                            stop.store(true, Ordering::Relaxed);
                            end = n + 1;
                            break;
                        }
                    }
                }
                runs.push((start, end - 1, cur));
                results.lock().unwrap().push((p, runs));
            });
        }
    });
    let mut pieces = results.into_inner().unwrap();
    pieces.sort_by_key(|x| x.0);
    let mut out: Vec<Run> = vec![];
    let mut prev_end: Option<u64> = None;
    for (_, runs) in pieces {
        for (a, b, c) in runs {
            let contiguous = prev_end.map_or(true, |e| e + 1 == a);
            match out.last_mut() {
                Some(r) if r.code == c && contiguous => r.last = bits_of(b),
                _ => out.push(Run { first: bits_of(a), last: bits_of(b), code: c }),
            }
            prev_end = Some(b);
        }
    }
    (out, why.into_inner().unwrap())
}

fn nan_sweep(f: &(dyn Fn(u32) -> i32 + Sync)) -> BTreeMap<i32, u64> {
    let mut m = BTreeMap::new();
    let p0 = NPANIC.load(Ordering::Relaxed);
    for sign in [0u32, 0x8000_0000] {
        for mag in (INF + 1)..=0x7fff_ffffu32 {
            let c = f(mag | sign);
            *m.entry(c).or_insert(0u64) += 1;
            if c < 0 && NPANIC.load(Ordering::Relaxed) - p0 > PANIC_LIMIT { return m; }
        }
    }
    m
}

fn emit_runs(o: &mut Out, enc: &str, api: &str, mode: &str, runs: &[Run], aborted: Option<String>) {
    for r in runs.iter().take(RUN_LIMIT) {
        let mut v = json!({"enc": enc, "api": api, "mode": mode, "first": pos(r.first), "last": pos(r.last), "code": r.code});
        if r.code < 0 {
            v["panic"] = json!(1);
            v["msg"] = json!(panic_msg());
        }
        o.ev("step", v);
    }
    if let Some(w) = aborted {
        o.ev("abort", json!({"enc": enc, "api": api, "why": w, "panic": if NPANIC.load(Ordering::Relaxed) > 0 { 1 } else { 0 }, "msg": panic_msg()}));
    }
}

fn emit_nan(o: &mut Out, enc: &str, api: &str, m: &BTreeMap<i32, u64>) {
    for (c, n) in m {
        let mut v = json!({"enc": enc, "api": api, "n": n, "code": c});
        if *c < 0 {
            v["panic"] = json!(1);
            v["msg"] = json!(panic_msg());
        }
        o.ev("nan", v);
    }
}

fn emit_spec(o: &mut Out, enc: &str, api: &str, f: &(dyn Fn(u32) -> i32 + Sync), bits: u32) {
    let c = f(bits);
    o.evals += 1;
    let mut v = json!({"enc": enc, "api": api, "x": pos(bits), "code": c});
    if c < 0 {
        v["panic"] = json!(1);
        v["msg"] = json!(panic_msg());
    }
    o.ev("spec", v);
}

fn emit_pts(o: &mut Out, enc: &str, api: &str, f: &(dyn Fn(u32) -> i32 + Sync), mags: &[u32]) {
    for chunk in mags.chunks(48) {
        let codes: Vec<i32> = chunk.iter().map(|&b| f(b)).collect();
        o.evals += chunk.len() as u64;
        let bad = codes.iter().any(|&c| c < 0);
        let mut v = json!({"enc": enc, "api": api, "mags": chunk, "codes": codes});
        if bad {
            v["panic"] = json!(1);
            v["msg"] = json!(panic_msg());
        }
        o.ev("pts", v);
    }
}

fn special_bits(min: u32) -> Vec<u32> {
    let mut v = vec![
        0x7fc0_0000, 0xffc0_0000, 0x7f80_0001, 0xff80_0001, 0x7fff_ffff, 0xffff_ffff, 0x7fa0_0000, 0xffbf_ffff, // NaN
        0x7f80_0000, 0xff80_0000, 0, 0x8000_0000, // inf, zero
        0xbf80_0000, 0x8000_0001, 0x807f_ffff, 0x8080_0000, 0xff7f_ffff, 0x8d00_0000, 0xbf7f_ffff, // negatives
        0x3f80_0000, 0x3f80_0001, 0x3fc0_0000, 0x4000_0000, 0x437f_0000, 0x7149_f2ca, 0x7f7f_ffff, // >= 1
        0x3f7f_ffff, 0x3f7f_fffe, 0x3f7f_f000, 0x3f7f_efff, 0x3f00_0000, // just below 1
        1, 2, 0x0040_0000, 0x007f_ffff, 0x0080_0000, 0x0080_0001, 0x0d00_0000, // subnormal, tiny
    ];
    for d in [-2i64, -1, 0, 1, 2, 4095, 4096, 1 << 20] {
        let b = (min as i64 + d) as u32;
        v.push(b);
        v.push(b | 0x8000_0000);
    }
    v
}

/// the class sample of the quick tier: both ends of every class of 4096 patterns and one seeded representative
fn sample_ords(min: u32, class_bits: u32, seed: u64) -> Vec<u64> {
    let mut v: Vec<u64> = vec![];
    for b in [0xff80_0000u32, 0xff7f_ffff, 0xbf80_0000, 0x8080_0000 | (min & 0x7f80_0000), min | 0x8000_0000, 0x8080_0000, 0x8000_0001, 0x8000_0000] {
        v.push(ord_of(b));
    }
    for b in [0u32, 1, 0x0040_0000, 0x007f_ffff] { v.push(ord_of(b)); }
    let mut e = 0x0080_0000u32;
    while e < min {
        v.push(ord_of(e));
        v.push(ord_of(e + 0x0055_5555));
        e += 0x0080_0000;
    }
    v.push(ord_of(min - 1));
    let size = 1u32 << class_bits;
    let mut rng = Sm64::new(seed ^ min as u64);
    let mut b0 = min;
    while b0 <= 0x3f80_0000 + 2 * size {
        v.push(ord_of(b0));
        if size > 2 { v.push(ord_of(b0 + 1 + (rng.below((size - 2) as u64) as u32))); }
        v.push(ord_of(b0 + size - 1));
        b0 += size;
    }
    for b in [0x4000_0000u32, 0x4f00_0000, 0x7f7f_ffff, 0x7f80_0000] { v.push(ord_of(b)); }
    v.sort();
    v.dedup();
    v
}

fn up64(x: f64) -> f64 { if x == 0.0 { f64::from_bits(1) } else if x > 0.0 { f64::from_bits(x.to_bits() + 1) } else { f64::from_bits(x.to_bits() - 1) } }
fn down64(x: f64) -> f64 { -up64(-x) }

fn f64_specials(min: u32) -> Vec<f64> {
    let mf = f32::from_bits(min) as f64;
    let one_m = 1.0 - 2f64.powi(-25); // half way between 1 - 2^-24 and 1: ties to even = 1.0
    let big = f32::MAX as f64;
    let half_ulp_max = 2f64.powi(127 - 24);
    let mut v = vec![f64::NAN, -f64::NAN, f64::INFINITY, f64::NEG_INFINITY, 0.0, -0.0, f64::MAX, -f64::MAX, f64::MIN_POSITIVE, 5e-324, -5e-324,
        big, up64(big), big + half_ulp_max, down64(big + half_ulp_max), 1.0, up64(1.0), down64(1.0), one_m, up64(one_m), down64(one_m),
        1.0 - 2f64.powi(-24), 2.0, 1e300, -1.0, -1e-300, 0.5, 0.25,
        2f64.powi(-150), up64(2f64.powi(-150)), down64(2f64.powi(-150)), 1.5 * 2f64.powi(-149), up64(1.5 * 2f64.powi(-149)), 2.5 * 2f64.powi(-149),
        2f64.powi(-126), down64(2f64.powi(-126)), 2f64.powi(-126) * (1.0 - 2f64.powi(-25)),
        mf, up64(mf), down64(mf), mf * (1.0 + 2f64.powi(-24)), up64(mf * (1.0 + 2f64.powi(-24))), -mf];
    v.push(f64::from_bits(0x7ff0_0000_0000_0001));
    v
}

/// f64 inputs around a breakpoint: p and b are adjacent positive f32 patterns with different codes
fn f64_around(p: u32, b: u32) -> Vec<f64> {
    let (pf, bf) = (f32::from_bits(p) as f64, f32::from_bits(b) as f64);
    let mid = 0.5 * (pf + bf);
    vec![bf, down64(bf), up64(bf), mid, down64(mid), up64(mid), pf]
}

fn emit_f64(o: &mut Out, enc: &str, f: &dyn Fn(f64) -> i32, xs: &[f64]) {
    for &x in xs {
        let c = f(x);
        o.evals += 1;
        let mut v = json!({"enc": enc, "x": ex64(x), "code": c});
        if c < 0 {
            v["panic"] = json!(1);
            v["msg"] = json!(panic_msg());
        }
        o.ev("f64", v);
    }
}

// ------------------------------------------------------------------------------------------ 8-bit encodings

fn breakpoints(runs: &[Run]) -> Vec<(u32, u32)> {
    // (last of the previous run, first of this run) for positive, adjacent patterns
    let mut v = vec![];
    for w in runs.windows(2) {
        let (p, b) = (w[0].last, w[1].first);
        if p & 0x8000_0000 == 0 && b == p + 1 && b < INF { v.push((p, b)); }
    }
    v
}

fn drive8<E: E8>(o: &mut Out, thorough: bool, seed: u64, threads: usize) {
    let public = |bits: u32| guarded(|| E::enc32(f32::from_bits(bits)) as i32);
    let raw = |bits: u32| guarded(|| E::raw(f32::from_bits(bits)) as i32);
    // (ii) class sample through both entry points
    let ords = sample_ords(E::MIN, 12, seed);
    o.evals += 2 * ords.len() as u64;
    let runs_pub = runs_over(&public, ords.iter().copied());
    emit_runs(o, E::NAME, "pub", "sample", &runs_pub, None);
    let runs_raw = runs_over(&raw, ords.iter().copied());
    emit_runs(o, E::NAME, "raw", "sample", &runs_raw, None);
    for b in special_bits(E::MIN) {
        emit_spec(o, E::NAME, "pub", &public, b);
        emit_spec(o, E::NAME, "raw", &raw, b);
    }
    // (iii) everything
    let mut bps = breakpoints(&runs_pub);
    if thorough {
        let (runs, why) = full_sweep(&public, threads);
        o.evals += N_ORD;
        bps = breakpoints(&runs);
        emit_runs(o, E::NAME, "pub", "full", &runs, why);
        let m = nan_sweep(&public);
        o.evals += m.values().sum::<u64>();
        emit_nan(o, E::NAME, "pub", &m);
    }
    // (iv) f64 inputs
    let f64enc = |x: f64| guarded(|| E::enc64(x) as i32);
    emit_f64(o, E::NAME, &f64enc, &f64_specials(E::MIN));
    for &(p, b) in bps.iter().take(4096) { emit_f64(o, E::NAME, &f64enc, &f64_around(p, b)); }
    // (v) decoders
    for k in 0..=255u8 {
        let r = catch(|| { let (x32, x64) = (E::dec32(k), E::dec64(k)); (x32, x64, E::enc32(x32), E::enc64(x64)) });
        emit_dec(o, E::NAME, k as u32, 255, r.map(|(a, b, c, d)| (a, b, c as i32, d as i32)));
    }
}

fn emit_dec(o: &mut Out, enc: &str, k: u32, max: u32, r: Result<(f32, f64, i32, i32), String>) {
    o.evals += 4;
    match r {
        Ok((x32, x64, b32, b64)) => o.ev("dec", json!({"enc": enc, "k": k, "max": max, "x32": ex32(x32), "x64": ex64(x64), "back32": b32, "back64": b64})),
        Err(m) => o.ev("dec", json!({"enc": enc, "k": k, "max": max, "x32": [2, 0], "x64": [2, 0], "back32": -1, "back64": -1, "panic": 1, "msg": m})),
    }
}

// ------------------------------------------------------------------------------------------ the 16-bit encoding

fn drive16(o: &mut Out, thorough: bool, seed: u64, threads: usize) {
    let public = |bits: u32| guarded(|| pp_enc32(f32::from_bits(bits)) as i32);
    let raw = |bits: u32| guarded(|| pp_raw(f32::from_bits(bits)) as i32);
    for b in special_bits(PP_MIN) {
        emit_spec(o, PP, "pub", &public, b);
        emit_spec(o, PP, "raw", &raw, b);
    }
    let stride: usize = if thorough { 1 } else { 16 };
    let dec_stride: usize = if thorough { 1 } else { 256 };
    // points: both ends of every table segment (65536 patterns each)
    let mut mags: Vec<u32> = vec![];
    let mut b0 = PP_MIN;
    let mut rng = Sm64::new(seed ^ 0x16);
    while b0 <= 0x3f80_0000 {
        mags.extend([b0, b0 + 1 + rng.below(65534) as u32, b0 + 65535]);
        b0 += 65536;
    }
    // the linear toe: around every code's centre and tie
    let ls = tv::prophoto::PROPHOTO_RGB_LINEAR_SCALE as f64;
    for k in (0..2050usize).step_by(if thorough { 1 } else { 4 }) {
        for h in [0.0, 0.5] {
            let x = ((k as f64 + h) / ls) as f32;
            let b = x.to_bits();
            mags.extend([b.saturating_sub(2), b.saturating_sub(1), b, b + 1, b + 2]);
        }
    }
    emit_pts(o, PP, "pub", &public, &mags);
    emit_pts(o, PP, "raw", &raw, &mags[..mags.len().min(6000)]);
    // around every (stride-th) code: its decoded value and the transition to the next code found by bisection
    let mut mags: Vec<u32> = vec![];
    let mut bps: Vec<(u32, u32)> = vec![];
    for k in (0..65535usize).step_by(stride) {
        let (lo0, hi0) = (pp_dec32(k as u16).to_bits(), pp_dec32(k as u16 + 1).to_bits());
        mags.push(lo0);
        if lo0 < hi0 && public(lo0) == k as i32 && public(hi0) == k as i32 + 1 {
            let (mut lo, mut hi) = (lo0, hi0);
            while hi - lo > 1 {
                let mid = lo + (hi - lo) / 2;
                o.evals += 1;
                if public(mid) <= k as i32 { lo = mid } else { hi = mid }
            }
            mags.extend([lo - 1, lo, hi, hi + 1]);
            bps.push((lo, hi));
        }
    }
    emit_pts(o, PP, "pub", &public, &mags);
    if thorough {
        let (runs, why) = full_sweep(&public, threads);
        o.evals += N_ORD;
        bps = breakpoints(&runs);
        emit_runs(o, PP, "pub", "full", &runs, why);
        let m = nan_sweep(&public);
        o.evals += m.values().sum::<u64>();
        emit_nan(o, PP, "pub", &m);
    }
    let f64enc = |x: f64| guarded(|| pp_enc64(x) as i32);
    emit_f64(o, PP, &f64enc, &f64_specials(PP_MIN));
    let fstride = if thorough { 4 } else { 16 };
    for &(p, b) in bps.iter().step_by(fstride) { emit_f64(o, PP, &f64enc, &f64_around(p, b)); }
    for k in (0..=65535usize).step_by(dec_stride).chain([65535usize]) {
        let k = k as u16;
        let r = catch(|| { let (x32, x64) = (pp_dec32(k), pp_dec64(k)); (x32, x64, pp_enc32(x32), pp_enc64(x64)) });
        emit_dec(o, PP, k as u32, 65535, r.map(|(a, b, c, d)| (a, b, c as i32, d as i32)));
    }
}

// ------------------------------------------------------------------------------------------ generic float curves

trait Fl: Ex + Copy + PartialOrd + 'static {
    fn of(x: f64) -> Self;
    fn up(self) -> Self;
    fn down(self) -> Self;
    fn key(self) -> u64;
}
impl Fl for f32 {
    fn of(x: f64) -> Self { x as f32 }
    fn up(self) -> Self { if self == 0.0 { f32::from_bits(1) } else { f32::from_bits(self.to_bits() + 1) } }
    fn down(self) -> Self { if self == 0.0 { 0.0 } else { f32::from_bits(self.to_bits() - 1) } }
    fn key(self) -> u64 { self.to_bits() as u64 }
}
impl Fl for f64 {
    fn of(x: f64) -> Self { x }
    fn up(self) -> Self { if self == 0.0 { f64::from_bits(1) } else { f64::from_bits(self.to_bits() + 1) } }
    fn down(self) -> Self { if self == 0.0 { 0.0 } else { f64::from_bits(self.to_bits() - 1) } }
    fn key(self) -> u64 { self.to_bits() }
}

/// inputs in [0, 1]: dense grid, geometric ladder towards 0, seeded random, and points straddling each knee
fn curve_inputs<F: Fl>(knees: &[f64], dense: usize, rng: &mut Sm64) -> Vec<F> {
    let mut v: Vec<F> = vec![];
    for i in 0..=dense { v.push(F::of(i as f64 / dense as f64)); }
    for j in (1..=30).step_by(if dense >= 400 { 1 } else { 3 }) { v.push(F::of(2f64.powi(-j))); v.push(F::of(0.75 * 2f64.powi(-j))); }
    for _ in 0..dense / 2 { v.push(F::of(rng.unit())); }
    for _ in 0..dense / 4 { v.push(F::of(rng.unit() * 0.1)); }
    for &k in knees {
        let mut a = F::of(k);
        let mut b = a;
        v.push(a);
        for _ in 0..3 { a = a.up(); b = b.down(); v.push(a); v.push(b); }
        let mut j = 2;
        while j <= 44 {
            v.push(F::of(k * (1.0 + 2f64.powi(-j))));
            v.push(F::of(k * (1.0 - 2f64.powi(-j))));
            j += if dense >= 400 { 1 } else { 3 };
        }
        for _ in 0..dense / 8 { v.push(F::of(k * rng.range(0.8, 1.25))); }
    }
    v.push(F::of(1.0).down());
    let mut v: Vec<F> = v.into_iter().filter(|x| *x >= F::of(0.0) && *x <= F::of(1.0)).collect();
    v.sort_by(|a, b| a.partial_cmp(b).unwrap());
    v.dedup_by_key(|x| x.key());
    v
}

/// one sorted traversal of a curve. The recording is cut into sections of at most 120 points, each opened by a `reset`
/// and by a repetition of the last point of the section before it, so that TLC can validate the sections in parallel
/// without losing a single monotonicity comparison.
fn curve_group<F: Fl>(o: &mut Out, enc: &str, dir: &str, xs: &[F], f: &dyn Fn(F) -> F, g: &dyn Fn(F) -> F) {
    let mut last: Option<Value> = None;
    for (i, &x) in xs.iter().enumerate() {
        if i % 120 == 0 {
            o.ev("reset", json!({"enc": enc, "t": F::NAME, "dir": dir}));
            if let Some(v) = last.clone() { o.ev("curve", v); }
        }
        o.evals += 2;
        let v = match catch(|| { let y = f(x); (y, g(y)) }) {
            Ok((y, back)) => json!({"enc": enc, "t": F::NAME, "dir": dir, "x": x.ex(), "y": y.ex(), "back": back.ex()}),
            Err(m) => json!({"enc": enc, "t": F::NAME, "dir": dir, "x": x.ex(), "y": [2, 0], "back": [2, 0], "panic": 1, "msg": m}),
        };
        o.ev("curve", v.clone());
        last = Some(v);
    }
}

fn curves_of<E, F: Fl>(o: &mut Out, enc: &str, kx: &[f64], ky: &[f64], dense: usize, seed: u64)
where
    E: FromLinear<F, F> + IntoLinear<F, F>,
{
    let mut rng = Sm64::new(seed ^ (enc.len() as u64) << 8 ^ F::NAME.len() as u64);
    let xs = curve_inputs::<F>(kx, dense, &mut rng);
    curve_group::<F>(o, enc, "enc", &xs, &|x| E::from_linear(x), &|y| E::into_linear(y));
    let ys = curve_inputs::<F>(ky, dense, &mut rng);
    curve_group::<F>(o, enc, "dec", &ys, &|y| E::into_linear(y), &|x| E::from_linear(x));
}

fn drive_curves(o: &mut Out, thorough: bool, seed: u64, only: Option<&str>) {
    let dense = if thorough { 800 } else { 32 };
    const RB: f64 = 0.018053968510807;
    macro_rules! both { ($E:ty, $name:expr, $kx:expr, $ky:expr) => {
        if only.map_or(true, |x| x == $name) {
            curves_of::<$E, f32>(o, $name, $kx, $ky, dense, seed);
            curves_of::<$E, f64>(o, $name, $kx, $ky, dense, seed);
        }
    }; }
    both!(pe::Srgb, "srgb", &[0.0031308, 0.04045 / 12.92, 0.00304], &[0.04045, 12.92 * 0.0031308, 0.03928]);
    both!(pe::RecOetf, "rec_oetf", &[0.018, RB, 0.0181], &[0.081, 4.5 * RB, 0.0815]);
    both!(pe::AdobeRgb, "adobe", &[0.001, 0.5], &[0.05, 0.5]);
    both!(pe::P3Gamma, "p3", &[0.001, 0.5], &[0.05, 0.5]);
    both!(pe::ProPhotoRgb, "prophoto", &[0.001953125], &[0.03125]);
    both!(LinearFn, "linear", &[0.5], &[0.5]);
    both!(pe::gamma::GammaFn<pe::F2p2>, "gamma", &[0.001, 0.5], &[0.05, 0.5]);
}

// ------------------------------------------------------------------------------------------ Rgb / Luma forms

fn drive_forms(o: &mut Out, seed: u64) {
    let mut rng = Sm64::new(seed ^ 0xf0);
    let mut cols: Vec<[f64; 3]> = vec![[0.0, 0.5, 1.0], [0.2, 0.0031308, 0.9], [0.04045, 0.018, 0.081], [1.0, 1.0, 1.0], [0.001953125, 0.03125, 0.999],
                                       [-0.25, 1.5, 0.0], [1e-6, 0.25, 0.75]];
    for _ in 0..5 { cols.push([rng.unit(), rng.unit(), rng.unit()]); }
    fn form(o: &mut Out, what: String, got: Result<Vec<Value>, String>, want: Vec<Value>) {
        match got {
            Ok(g) => o.ev("form", json!({"what": what, "got": g, "want": want})),
            Err(m) => o.ev("form", json!({"what": what, "got": [], "want": want, "panic": 1, "msg": m})),
        }
    }
    // float -> float, u8 -> float, float -> u8, for one standard $S whose transfer function is $TF; a panic in a
    // component-wise reference call (outside the per-form catch) is recorded as an event of its own
    macro_rules! std_forms { ($S:ty, $TF:ty, $name:expr, $F:ty) => {{
        for c in &cols {
            let done = catch(|| {
            let (r, g, b) = (c[0] as $F, c[1] as $F, c[2] as $F);
            let want: Vec<Value> = [r, g, b].iter().map(|&v| <$TF as IntoLinear<$F, $F>>::into_linear(v).ex()).collect();
            form(o, format!("Rgb<{},{}>::into_linear", $name, <$F as Ex>::NAME),
                 catch(|| { let l = Rgb::<$S, $F>::new(r, g, b).into_linear::<$F>(); vec![l.red.ex(), l.green.ex(), l.blue.ex()] }), want.clone());
            form(o, format!("Rgb<Linear,{}>::from_encoding<{}>", <$F as Ex>::NAME, $name),
                 catch(|| { let l = Rgb::<Linear<<$S as palette::rgb::RgbStandard>::Space>, $F>::from_encoding(Rgb::<$S, $F>::new(r, g, b)); vec![l.red.ex(), l.green.ex(), l.blue.ex()] }), want.clone());
            let mut wa = want.clone();
            wa.push((0.25 as $F).ex());
            form(o, format!("Rgba<{},{}>::into_linear", $name, <$F as Ex>::NAME),
                 catch(|| { let l = Rgba::<$S, $F>::new(r, g, b, 0.25).into_linear::<$F, $F>(); vec![l.red.ex(), l.green.ex(), l.blue.ex(), l.alpha.ex()] }), wa);
            let want: Vec<Value> = [r, g, b].iter().map(|&v| <$TF as FromLinear<$F, $F>>::from_linear(v).ex()).collect();
            form(o, format!("Rgb<{},{}>::from_linear", $name, <$F as Ex>::NAME),
                 catch(|| { let e = Rgb::<$S, $F>::from_linear(Rgb::new(r, g, b)); vec![e.red.ex(), e.green.ex(), e.blue.ex()] }), want.clone());
            form(o, format!("Rgb<Linear,{}>::into_encoding<{}>", <$F as Ex>::NAME, $name),
                 catch(|| { let e: Rgb<$S, $F> = Rgb::<Linear<<$S as palette::rgb::RgbStandard>::Space>, $F>::new(r, g, b).into_encoding(); vec![e.red.ex(), e.green.ex(), e.blue.ex()] }), want);
            });
            if let Err(m) = done { o.ev("form", json!({"what": format!("{}<{}> float forms", $name, <$F as Ex>::NAME), "got": [], "want": [], "panic": 1, "msg": m})); }
        }
    }}; }
    macro_rules! int_forms { ($S:ty, $TF:ty, $name:expr, $F:ty, $U:ty) => {{
        for c in &cols {
            let done = catch(|| {
            let (r, g, b) = (c[0] as $F, c[1] as $F, c[2] as $F);
            let want: Vec<Value> = [r, g, b].iter().map(|&v| <$TF as FromLinear<$F, $U>>::from_linear(v).ex()).collect();
            form(o, format!("Rgb<{},{}>::from_linear<{}>", $name, stringify!($U), <$F as Ex>::NAME),
                 catch(|| { let e = Rgb::<$S, $U>::from_linear(Rgb::new(r, g, b)); vec![e.red.ex(), e.green.ex(), e.blue.ex()] }), want.clone());
            form(o, format!("Rgb<Linear,{}>::into_encoding<{},{}>", <$F as Ex>::NAME, $name, stringify!($U)),
                 catch(|| { let e: Rgb<$S, $U> = Rgb::<Linear<<$S as palette::rgb::RgbStandard>::Space>, $F>::new(r, g, b).into_encoding(); vec![e.red.ex(), e.green.ex(), e.blue.ex()] }), want.clone());
            let codes: Vec<$U> = [r, g, b].iter().map(|&v| <$TF as FromLinear<$F, $U>>::from_linear(v)).collect();
            let want: Vec<Value> = codes.iter().map(|&k| <$TF as IntoLinear<$F, $U>>::into_linear(k).ex()).collect();
            form(o, format!("Rgb<{},{}>::into_linear<{}>", $name, stringify!($U), <$F as Ex>::NAME),
                 catch(|| { let l = Rgb::<$S, $U>::new(codes[0], codes[1], codes[2]).into_linear::<$F>(); vec![l.red.ex(), l.green.ex(), l.blue.ex()] }), want);
            });
            if let Err(m) = done { o.ev("form", json!({"what": format!("{}<{}> integer forms", $name, <$F as Ex>::NAME), "got": [], "want": [], "panic": 1, "msg": m})); }
        }
    }}; }
    macro_rules! luma_forms { ($S:ty, $TF:ty, $name:expr, $F:ty, $U:ty) => {{
        for c in &cols {
            let done = catch(|| {
            let l = c[1] as $F;
            form(o, format!("Luma<{},{}>::into_linear", $name, <$F as Ex>::NAME),
                 catch(|| vec![Luma::<$S, $F>::new(l).into_linear::<$F>().luma.ex()]), vec![<$TF as IntoLinear<$F, $F>>::into_linear(l).ex()]);
            form(o, format!("Luma<{},{}>::from_linear", $name, <$F as Ex>::NAME),
                 catch(|| vec![Luma::<$S, $F>::from_linear(Luma::new(l)).luma.ex()]), vec![<$TF as FromLinear<$F, $F>>::from_linear(l).ex()]);
            let k = <$TF as FromLinear<$F, $U>>::from_linear(l);
            form(o, format!("Luma<{},{}>::from_linear<{}>", $name, stringify!($U), <$F as Ex>::NAME),
                 catch(|| vec![Luma::<$S, $U>::from_linear(Luma::new(l)).luma.ex()]), vec![k.ex()]);
            form(o, format!("Luma<Linear,{}>::into_encoding<{},{}>", <$F as Ex>::NAME, $name, stringify!($U)),
                 catch(|| { let e: Luma<$S, $U> = Luma::<Linear<<$S as palette::luma::LumaStandard>::WhitePoint>, $F>::new(l).into_encoding(); vec![e.luma.ex()] }), vec![k.ex()]);
            form(o, format!("Luma<{},{}>::into_linear<{}>", $name, stringify!($U), <$F as Ex>::NAME),
                 catch(|| vec![Luma::<$S, $U>::new(k).into_linear::<$F>().luma.ex()]), vec![<$TF as IntoLinear<$F, $U>>::into_linear(k).ex()]);
            form(o, format!("Lumaa<{},{}>::into_linear<{}>", $name, stringify!($U), <$F as Ex>::NAME),
                 catch(|| { let a = Lumaa::<$S, $U>::new(k, k).into_linear::<$F, $U>(); vec![a.luma.ex(), a.alpha.ex()] }),
                 vec![<$TF as IntoLinear<$F, $U>>::into_linear(k).ex(), k.ex()]);
            });
            if let Err(m) = done { o.ev("form", json!({"what": format!("{}<{}> luma forms", $name, <$F as Ex>::NAME), "got": [], "want": [], "panic": 1, "msg": m})); }
        }
    }}; }
    macro_rules! all8 { ($S:ty, $TF:ty, $name:expr) => {
        std_forms!($S, $TF, $name, f32); std_forms!($S, $TF, $name, f64);
        int_forms!($S, $TF, $name, f32, u8); int_forms!($S, $TF, $name, f64, u8);
    }; }
    all8!(pe::Srgb, pe::Srgb, "Srgb");
    all8!(pe::Rec709, pe::RecOetf, "Rec709");
    all8!(pe::Rec2020, pe::RecOetf, "Rec2020");
    all8!(pe::AdobeRgb, pe::AdobeRgb, "AdobeRgb");
    all8!(pe::DciP3, pe::P3Gamma, "DciP3");
    all8!(pe::DisplayP3, pe::Srgb, "DisplayP3");
    std_forms!(pe::ProPhotoRgb, pe::ProPhotoRgb, "ProPhotoRgb", f32);
    std_forms!(pe::ProPhotoRgb, pe::ProPhotoRgb, "ProPhotoRgb", f64);
    int_forms!(pe::ProPhotoRgb, pe::ProPhotoRgb, "ProPhotoRgb", f32, u16);
    int_forms!(pe::ProPhotoRgb, pe::ProPhotoRgb, "ProPhotoRgb", f64, u16);
    std_forms!(Linear<pe::Srgb>, LinearFn, "Linear<Srgb>", f32);
    luma_forms!(pe::Srgb, pe::Srgb, "Srgb", f32, u8);
    luma_forms!(pe::Srgb, pe::Srgb, "Srgb", f64, u8);
    luma_forms!(pe::Rec2020, pe::RecOetf, "Rec2020", f32, u8);
    luma_forms!(pe::Rec2020, pe::RecOetf, "Rec2020", f64, u8);
    luma_forms!(pe::Rec709, pe::RecOetf, "Rec709", f32, u8);
    luma_forms!(pe::Rec709, pe::RecOetf, "Rec709", f64, u8);
    luma_forms!(pe::DisplayP3, pe::Srgb, "DisplayP3", f32, u8);
    luma_forms!(pe::DisplayP3, pe::Srgb, "DisplayP3", f64, u8);
    luma_forms!(pe::AdobeRgb, pe::AdobeRgb, "AdobeRgb", f32, u8);
    luma_forms!(pe::DciP3, pe::P3Gamma, "DciP3", f64, u8);
    luma_forms!(pe::ProPhotoRgb, pe::ProPhotoRgb, "ProPhotoRgb", f64, u16);
    luma_forms!(pe::AdobeRgb, pe::AdobeRgb, "AdobeRgb", f64, u8);
    luma_forms!(pe::DciP3, pe::P3Gamma, "DciP3", f32, u8);
    luma_forms!(pe::ProPhotoRgb, pe::ProPhotoRgb, "ProPhotoRgb", f32, u16);
}

// ------------------------------------------------------------------------------------------ constants (hook H2)

fn limbs(mut x: u64) -> Vec<u32> {
    let mut v = vec![];
    while x != 0 {
        v.push((x & 0x1fff) as u32);
        x >>= 13;
    }
    v
}

fn dump8<E: E8>() -> Value {
    let t = E::table();
    json!({
        "min": E::MIN, "len": t.len(),
        "hi": t.iter().map(|e| e >> 16).collect::<Vec<u32>>(),
        "lo": t.iter().map(|e| e & 0xffff).collect::<Vec<u32>>(),
        "dec32": E::dec32t().iter().map(|x| x.to_bits()).collect::<Vec<u32>>(),
        "dec64": E::dec64t().iter().map(|&x| ex64(x)).collect::<Vec<Value>>(),
        "dec64r": E::dec64t().iter().map(|&x| (x as f32).to_bits()).collect::<Vec<u32>>(),
    })
}

fn dump(path: &str, dec16: &str) {
    let t = pp_table();
    let c = json!({
        "u8": {"srgb": dump8::<ESrgb>(), "rec_oetf": dump8::<ERec>(), "adobe": dump8::<EAdobe>(), "p3": dump8::<EP3>()},
        "u16": {"prophoto": {
            "min": PP_MIN, "len": t.len(), "ls": tv::prophoto::PROPHOTO_RGB_LINEAR_SCALE.to_bits(),
            "bias": t.iter().map(|e| limbs(e >> 32)).collect::<Vec<_>>(),
            "scale": t.iter().map(|e| limbs(e & 0xffff_ffff)).collect::<Vec<_>>(),
        }},
    });
    std::fs::write(path, serde_json::to_string(&c).unwrap()).expect("write consts");
    let d = &tv::prophoto::PROPHOTO_RGB_U16_TO_F64;
    let c16 = json!({"prophoto": {
        "dec64": d.iter().map(|&x| ex64(x)).collect::<Vec<Value>>(),
        "dec32": (0..=65535u16).map(|k| pp_dec32(k).to_bits()).collect::<Vec<u32>>(),
    }});
    std::fs::write(dec16, serde_json::to_string(&c16).unwrap()).expect("write dec16");
}

// ------------------------------------------------------------------------------------------ replay helpers

fn encoder_by_name(enc: &str, api: &str) -> Box<dyn Fn(u32) -> i32 + Sync> {
    macro_rules! e8 { ($E:ty) => { if api == "raw" { Box::new(|b| guarded(|| <$E>::raw(f32::from_bits(b)) as i32)) } else { Box::new(|b| guarded(|| <$E>::enc32(f32::from_bits(b)) as i32)) } }; }
    match enc {
        "srgb" => e8!(ESrgb),
        "rec_oetf" => e8!(ERec),
        "adobe" => e8!(EAdobe),
        "p3" => e8!(EP3),
        _ => if api == "raw" { Box::new(|b| guarded(|| pp_raw(f32::from_bits(b)) as i32)) } else { Box::new(|b| guarded(|| pp_enc32(f32::from_bits(b)) as i32)) },
    }
}
fn f64_encoder_by_name(enc: &str) -> Box<dyn Fn(f64) -> i32> {
    match enc {
        "srgb" => Box::new(|x| guarded(|| ESrgb::enc64(x) as i32)),
        "rec_oetf" => Box::new(|x| guarded(|| ERec::enc64(x) as i32)),
        "adobe" => Box::new(|x| guarded(|| EAdobe::enc64(x) as i32)),
        "p3" => Box::new(|x| guarded(|| EP3::enc64(x) as i32)),
        _ => Box::new(|x| guarded(|| pp_enc64(x) as i32)),
    }
}
fn bits_from(j: &Value) -> u32 { ((j[0].as_u64().unwrap() as u32) << 31) | j[1].as_u64().unwrap() as u32 }
fn f64_from(j: &Value) -> f64 {
    let a = j.as_array().expect("exact number");
    let s = a[0].as_i64().unwrap();
    if s == 2 { return f64::NAN; }
    if s == 3 || s == -3 { return s as f64 * f64::INFINITY; }
    let q = a[1].as_i64().unwrap() as i32;
    let mut m: u128 = 0;
    for (i, l) in a[2..].iter().enumerate() { m += (l.as_u64().unwrap() as u128) << (13 * i); }
    // recorded inputs are f32/f64 values, so the mantissa fits and every step below is exact
    let mut x = m as f64;
    let mut e = 13 * q;
    while e > 0 { let s = e.min(900); x *= 2f64.powi(s); e -= s; }
    while e < 0 { let s = (-e).min(900); x *= 2f64.powi(-s); e += s; }
    s as f64 * x
}

/// re-execute one recorded event on the current tree
fn run_one(o: &mut Out, e: &Value, threads: usize) {
    let enc = e["enc"].as_str().unwrap_or("");
    let api = e["api"].as_str().unwrap_or("pub");
    match e["ev"].as_str().unwrap() {
        "step" | "abort" | "nan" => {
            // the whole encoder again: lossless, and a few seconds
            let f = encoder_by_name(enc, api);
            let (runs, why) = full_sweep(&*f, threads);
            emit_runs(o, enc, api, "full", &runs, why);
            emit_nan(o, enc, api, &nan_sweep(&*f));
        }
        "spec" => emit_spec(o, enc, api, &*encoder_by_name(enc, api), bits_from(&e["x"])),
        "pts" => {
            let mags: Vec<u32> = e["mags"].as_array().unwrap().iter().map(|m| m.as_u64().unwrap() as u32).collect();
            emit_pts(o, enc, api, &*encoder_by_name(enc, api), &mags);
        }
        "f64" => emit_f64(o, enc, &*f64_encoder_by_name(enc), &[f64_from(&e["x"])]),
        "dec" => {
            let k = e["k"].as_u64().unwrap() as u32;
            macro_rules! d8 { ($E:ty) => {{
                let r = catch(|| { let (x32, x64) = (<$E>::dec32(k as u8), <$E>::dec64(k as u8)); (x32, x64, <$E>::enc32(x32) as i32, <$E>::enc64(x64) as i32) });
                emit_dec(o, enc, k, 255, r);
            }}; }
            match enc {
                "srgb" => d8!(ESrgb), "rec_oetf" => d8!(ERec), "adobe" => d8!(EAdobe), "p3" => d8!(EP3),
                _ => {
                    let r = catch(|| { let (x32, x64) = (pp_dec32(k as u16), pp_dec64(k as u16)); (x32, x64, pp_enc32(x32) as i32, pp_enc64(x64) as i32) });
                    emit_dec(o, enc, k, 65535, r);
                }
            }
        }
        // curves: the curve of the event again at thorough density (both types and directions); forms: all of them
        "curve" | "reset" => drive_curves(o, true, seed_from_env(), Some(enc)),
        "form" => drive_forms(o, seed_from_env()),
        other => panic!("unknown event kind {}", other),
    }
}

/// cases generated by TLC (MC_Lut): [enc, k, b] - b is the first pattern of code k in the model; evaluate the real
/// encoder on both sides of the boundary
fn run_hist(o: &mut Out, path: &str) {
    let text = std::fs::read_to_string(path).expect("hist file");
    let mut by_enc: BTreeMap<String, Vec<u32>> = BTreeMap::new();
    for line in text.lines().filter(|l| !l.trim().is_empty()) {
        let c: Value = serde_json::from_str(line).expect("hist line");
        let b = c[2].as_u64().unwrap() as u32;
        let v = by_enc.entry(c[0].as_str().unwrap().to_string()).or_default();
        v.extend([b.saturating_sub(2), b.saturating_sub(1), b, (b + 1).min(INF)]);
    }
    for (enc, mags) in by_enc {
        emit_pts(o, &enc, "hist", &*encoder_by_name(&enc, "pub"), &mags);
    }
}

fn main() {
    if let Some(p) = arg("--dump") {
        dump(&p, &arg_or("--dec16", "/dev/null"));
        return;
    }
    let threads: usize = std::env::var("VERIF_THREADS").ok().and_then(|s| s.parse().ok()).unwrap_or(8);
    let mut o = Out { rec: Rec::create(&arg_or("--out", "-")), counts: BTreeMap::new(), panics: 0, evals: 0 };
    if let Some(one) = arg("--one") {
        let e: Value = serde_json::from_str(&one).expect("event json");
        run_one(&mut o, &e, threads);
        o.rec.finish();
        return;
    }
    let seed = seed_from_env();
    let thorough = arg_or("--tier", "quick") == "thorough";
    let only = arg("--only"); // development: one family
    let want = |f: &str| only.as_deref().map_or(true, |x| x == f);
    if want("u8") {
        drive8::<ESrgb>(&mut o, thorough, seed, threads);
        drive8::<ERec>(&mut o, thorough, seed, threads);
        drive8::<EAdobe>(&mut o, thorough, seed, threads);
        drive8::<EP3>(&mut o, thorough, seed, threads);
    }
    if want("u16") { drive16(&mut o, thorough, seed, threads); }
    if want("curves") { drive_curves(&mut o, thorough, seed, None); }
    if want("forms") { drive_forms(&mut o, seed); }
    if let Some(h) = arg("--hist") { run_hist(&mut o, &h); }
    let (counts, panics, evals) = (o.counts.clone(), o.panics, o.evals);
    let n = o.rec.finish();
    eprintln!("{}", json!({"events": n, "per_kind": counts, "panics": panics, "evaluations": evals}));
    let _ = is_nan_bits;
}
