------------------------------- MODULE LnExp -------------------------------
(***************************************************************************)
(* Natural logarithm, exponential, sine and cosine in fixed point with a     *)
(* selectable number of fractional limbs.                                   *)
(*                                                                         *)
(* A P-number with precision fl is a BigInt n denoting n * BASE^-fl (fl      *)
(* fractional limbs of 13 bits); fl = FL = 8 is module Fx's 104-bit format.   *)
(* Judging a recorded f64 (f32) result needs a reference good to about 60     *)
(* (33) bits only, and the cost of a product grows with the square of the      *)
(* number of limbs, so trace validation uses fl = 5 (65 bits) and fl = 3       *)
(* (39 bits); the model checks use fl = 8.                                    *)
(*                                                                         *)
(* LnP(y, fl), y > 0:  y is brought into [1/sqrt 2, sqrt 2] by exact halving  *)
(*   / doubling (ln y = k ln 2 + ln(y / 2^k)), then                          *)
(*   ln y = 2 atanh z = 2 (z + z^3/3 + z^5/5 + ...),  z = (y - 1)/(y + 1),    *)
(*   |z| <= 0.1716; the series stops when a term underflows (at most 21       *)
(*   terms, remainder below 2^-108).                                        *)
(* ExpP(x, fl), |x| < 40:  x = k ln 2 + r with |r| <= (ln 2)/2, Taylor series  *)
(*   of exp r (at most r^24/24!, remainder below 2^-110), scaled by 2^k.      *)
(* SinCosP(h, fl), h in degrees within a few turns of 0: reduced by           *)
(*   comparisons to [0, 45] degrees, Taylor series in radians (as module      *)
(*   Trig, which reduces by long division and is fixed to fl = 8).            *)
(* Every product truncates below BASE^-fl; about 45 are chained, so the        *)
(* absolute error of LnP is below 2^-(13 fl - 8) and the relative error of      *)
(* ExpP, and the absolute error of SinCosP, below 2^-(13 fl - 9).  Checked      *)
(* against tabulated values of ln 2, ln 3, ln 10, e, sqrt e, ..., against       *)
(* each other and against Trig!SinCosDeg in MC_Cam16.                        *)
(*                                                                         *)
(* Evaluation note: TLC re-evaluates a LET definition at every use but an      *)
(* operator argument only once; expensive values are passed as arguments.     *)
(***************************************************************************)
EXTENDS Fx

POfFx(x, fl) == IShiftLimbs(x, fl - FL)                 \* fl <= FL: truncates toward zero
FxOfP(x, fl) == IShiftLimbs(x, FL - fl)
POfDy(d, fl) == DyAt(d, -fl)                            \* truncates below BASE^-fl
PInt(n, fl) == IShiftLimbs(IFromInt(n), fl)
POne(fl) == PInt(1, fl)
PMul(x, y, fl) == IShiftLimbs(IMul(x, y), -fl)
PSqr(x, fl) == IShiftLimbs(ISqr(x), -fl)
(* p / q for ordinary integers, 0 < q < 2^17 *)
PRat(p, q, fl) == IF p = 0 THEN IZero
                  ELSE IMk(IF p > 0 THEN 1 ELSE -1, DivSmall(ShiftLimbs(FromNat(IF p > 0 THEN p ELSE -p), fl), q))
PScale2(x, k) == IF k >= 0 THEN IShl(x, k) ELSE IShr(x, -k)
(* 2^-k, k <= 13 fl *)
PEps(k, fl) == <<1, Pow2(LIMB_BITS * fl - k)>>
PDivInt(x, k) == IMk(x[1], DivSmall(x[2], k))             \* 0 < k < 2^17

(* reciprocal of d > 0 by Newton iteration on d' = d 2^(13 fl - n) in [1/2, 1): x0 = 48/17 - 32/17 d' (error <= 1/17),
   x <- x (2 - d' x): the error squares each time, 2^-65 after four and 2^-130 after five iterations *)
RECURSIVE PNewton(_, _, _, _)
PNewton(dn, x, k, fl) == IF k = 0 THEN x ELSE PNewton(dn, PMul(x, ISub(PInt(2, fl), PMul(dn, x, fl)), fl), k - 1, fl)
PRecip2(dn, sh, fl) == PScale2(PNewton(dn, ISub(PRat(48, 17, fl), PMul(PRat(32, 17, fl), dn, fl)), IF fl <= 3 THEN 4 ELSE IF fl <= 5 THEN 5 ELSE 6, fl), sh)
PRecip1(d, sh, fl) == PRecip2(PScale2(d, sh), sh, fl)
PRecipPos(d, fl) == PRecip1(d, LIMB_BITS * fl - BitLen(d[2]), fl)
PDiv1(x, y, q) == IMk(x[1] * y[1], q[2])
PDiv(x, y, fl) == IF x[1] = 0 THEN IZero ELSE PDiv1(x, y, PMul(IAbs(x), PRecipPos(IAbs(y), fl), fl))

(* ln 2 = 0.6931 4718 0559 9453 0941 7232 1214 5817 6568 ...  (groups of four decimals) *)
Ln2Fx == FxDec(1, 0, <<6931, 4718, 559, 9453, 941, 7232, 1214, 5817, 6568>>)
(* sqrt 2 = 1.4142 1356 2373 0950 4880 1688 7242 0969 8078 ... *)
Sqrt2Fx == FxDec(1, 1, <<4142, 1356, 2373, 950, 4880, 1688, 7242, 969, 8078>>)
(* pi = 3.1415 9265 3589 7932 3846 2643 3832 7950 2884 1971 ... *)
PiFxP == FxDec(1, 3, <<1415, 9265, 3589, 7932, 3846, 2643, 3832, 7950, 2884, 1971>>)

RECURSIVE AtanhTerms(_, _, _, _, _)
(* sum over odd n' >= n of z^n' / n', given p = z^n and z2 = z^2 *)
AtanhTerms(p, z2, n, last, fl) ==
  IF n > last \/ p[1] = 0 THEN IZero
  ELSE IAdd(PDivInt(p, n), AtanhTerms(PMul(p, z2, fl), z2, n + 2, last, fl))
LnCore1(z, fl) == IShl(AtanhTerms(z, PSqr(z, fl), 1, 41, fl), 1)
(* ln y for y in [1/sqrt 2, sqrt 2] *)
LnCore(y, fl) == LnCore1(PDiv(ISub(y, POne(fl)), IAdd(y, POne(fl)), fl), fl)

RECURSIVE LnRed(_, _, _, _, _)
LnRed(y, k, s2, ln2, fl) == IF ILt(s2, y) THEN LnRed(IShr(y, 1), k + 1, s2, ln2, fl)
                            ELSE IF ILt(y, IShr(s2, 1)) THEN LnRed(IShl(y, 1), k - 1, s2, ln2, fl)
                            ELSE IAdd(IMulSmall(ln2, k), LnCore(y, fl))
(* natural logarithm of a P-number y > 0 *)
LnP(y, fl) == LnRed(y, 0, POfFx(Sqrt2Fx, fl), POfFx(Ln2Fx, fl), fl)
FxLn(y) == LnP(y, FL)

RECURSIVE ExpTerms(_, _, _, _, _)
(* sum over k >= n of r^k / k!, given term = r^n / n! *)
ExpTerms(term, r, n, last, fl) ==
  IF n > last \/ term[1] = 0 THEN IZero
  ELSE IAdd(term, ExpTerms(PDivInt(PMul(term, r, fl), n + 1), r, n + 1, last, fl))
ExpCore(r, fl) == ExpTerms(POne(fl), r, 0, 24, fl)

RECURSIVE ExpRed(_, _, _, _)
ExpRed(x, k, ln2, fl) == IF ILt(IShr(ln2, 1), x) THEN ExpRed(ISub(x, ln2), k + 1, ln2, fl)
                         ELSE IF ILt(x, INeg(IShr(ln2, 1))) THEN ExpRed(IAdd(x, ln2), k - 1, ln2, fl)
                         ELSE PScale2(ExpCore(x, fl), k)
(* exponential of a P-number, |x| < 40 *)
ExpP(x, fl) == ExpRed(x, 0, POfFx(Ln2Fx, fl), fl)
FxExp(x) == ExpP(x, FL)

RECURSIVE SinTermsP(_, _, _, _, _)
(* sum over n' >= n (same parity) of the alternating series, given term = +- x^n / n! and x2 = x^2 *)
SinTermsP(term, x2, n, last, fl) ==
  IF n > last \/ term[1] = 0 THEN IZero
  ELSE IAdd(term, SinTermsP(INeg(PDivInt(PMul(term, x2, fl), (n + 1) * (n + 2))), x2, n + 2, last, fl))
SC45b(x, x2, fl) == <<SinTermsP(x, x2, 1, 27, fl), SinTermsP(POne(fl), x2, 0, 26, fl)>>
SC45a(x, fl) == SC45b(x, PSqr(x, fl), fl)                      \* |x| <= pi/4 radians
(* d degrees, 0 <= d <= 45 *)
SC45(d, fl) == SC45a(PDivInt(PMul(d, POfFx(PiFxP, fl), fl), 180), fl)
SwapSC(p) == <<p[2], p[1]>>
SC90(d, fl) == IF ILe(d, PInt(45, fl)) THEN SC45(d, fl) ELSE SwapSC(SC45(ISub(PInt(90, fl), d), fl))
SignSC(p, ss, sc) == <<IF ss < 0 THEN INeg(p[1]) ELSE p[1], IF sc < 0 THEN INeg(p[2]) ELSE p[2]>>
SCQ(r, fl) == IF ILe(r, PInt(90, fl)) THEN SC90(r, fl)
              ELSE IF ILe(r, PInt(180, fl)) THEN SignSC(SC90(ISub(PInt(180, fl), r), fl), 1, -1)
              ELSE IF ILe(r, PInt(270, fl)) THEN SignSC(SC90(ISub(r, PInt(180, fl)), fl), -1, -1)
              ELSE SignSC(SC90(ISub(PInt(360, fl), r), fl), -1, 1)
RECURSIVE Wrap360P(_, _)
Wrap360P(h, fl) == IF h[1] < 0 THEN Wrap360P(IAdd(h, PInt(360, fl)), fl)
                   ELSE IF ILe(PInt(360, fl), h) THEN Wrap360P(ISub(h, PInt(360, fl)), fl) ELSE h
(* <<sin, cos>> of h degrees (a P-number within a few turns of zero) *)
SinCosP(h, fl) == SCQ(Wrap360P(h, fl), fl)
=============================================================================
