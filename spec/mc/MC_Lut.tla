------------------------------- MODULE MC_Lut -------------------------------
(* C05 checked on the model itself, over the tables DUMPED from the compiled   *)
(* code (LUT_CONSTS, LUT_DEC16), exhaustively:                                 *)
(*  cls8   every class (i, t) of every 8-bit table reachable from a clamped    *)
(*         input: index in range, code <= 255, monotone to the next class      *)
(*         (inside a segment and across segments), class 0 -> 0, last -> 255;  *)
(*  seg16  every segment of the 16-bit table: both ends <= 65535, monotone to  *)
(*         the next segment, toe -> table monotone, last -> 65535 (inside a    *)
(*         segment the code is floor((B + S t) / 2^32) with S >= 0: monotone   *)
(*         by construction);                                                   *)
(*  code8 / code16  every code k: it is produced; the FIRST f32 that maps to k *)
(*         (found by bisection on the monotone model) and the one before it,   *)
(*         the LAST of k - 1, satisfy |max f(x) - code| < 0.6, decided by      *)
(*         integer powers (Transfer.tla); with the two ends 0 and 1 this is    *)
(*         both ends of every run, hence (f increasing) every input;           *)
(*         the decode tables' values encode back to k (that they lie on the    *)
(*         curve is judged on the decoders' results by TraceLut, and here for  *)
(*         every 16th code through the model's own action).                    *)
(*  The model's runs are printed as REPLAY lines and executed on the real      *)
(*  encoders by the harness.                                                   *)
(* A property failure of the dumped tables is reported as an MCFAIL line (and  *)
(* the search continues); a broken ASSUME / Assert is a defect of the          *)
(* machinery.                                                                  *)
EXTENDS Lut, TLC

CONSTANTS Block,      \* classes per enumeration block (parallelism only)
          ClsStride,  \* 1: every class; n: every n-th (development only)
          Stride8,    \* 1: every 8-bit code gets the per-code checks; n: every n-th (development only)
          Stride16,   \* every Stride16-th 16-bit code gets the per-code checks (1 = all)
          Emit        \* print REPLAY lines

D16 == JsonDeserialize(IOEnv.LUT_DEC16)

VARIABLES phase, enc, c
mcvars == <<vars, phase, enc, c>>

Min2(a, b) == IF a <= b THEN a ELSE b
NEff8(en) == Min2(NClasses8(en), 256 * Len8(en))            \* reachable classes that have a table entry
NBlk8(en) == (NEff8(en) + Block - 1) \div Block
SegTop16(en) == Min2(Index16(en, MaxBits), Len16(en) - 1)

Starts == {<<"hdr8", en, 0>> : en \in Encs8} \cup {<<"codes8", en, 0>> : en \in Encs8}
          \cup UNION {{<<"blk8", en, b>> : b \in 0..(NBlk8(en) - 1)} : en \in Encs8}
          \cup {<<"hdr16", en, 0>> : en \in Encs16} \cup {<<"segs16", en, 0>> : en \in Encs16}
          \cup UNION {{<<"blk16", en, b>> : b \in 0..255} : en \in Encs16}
          \cup {<<"walk", "p3", 0>>}

MCInit == Init /\ \E s \in Starts : phase = s[1] /\ enc = s[2] /\ c = s[3]

Goto(ph, k) == phase' = ph /\ c' = k /\ enc' = enc

(* enumeration; the model's own action is taken with the model's own result wherever that is always possible *)
Cls8 == /\ phase = "blk8"
        /\ \E k \in (Block * c)..(Block * (c + 1) - 1) :
             /\ k < NEff8(enc) /\ (k % ClsStride = 0 \/ k = NEff8(enc) - 1)
             /\ LET b == ClassFirst8(enc, k) + ((k * 37) % 4096) IN FromLinearInt(enc, 0, b, Encode8(enc, 0, b))
             /\ Goto("cls8", k)
Code8 == phase = "codes8" /\ (\E k \in 0..255 : (k % Stride8 = 0 \/ k = 255) /\ Goto("code8", k)) /\ UNCHANGED vars
Seg16 == /\ phase = "segs16"
         /\ \E i \in 0..SegTop16(enc) :
              /\ LET b == Min16(enc) + 65536 * i + ((i * 37) % 65536) IN FromLinearInt(enc, 0, b, Encode16(enc, 0, b))
              /\ Goto("seg16", i)
Code16 == /\ phase = "blk16"
          /\ \E k \in (256 * c)..(256 * c + 255) : (k % Stride16 = 0 \/ k = 65535) /\ Goto("code16", k)
          /\ UNCHANGED vars

-----------------------------------------------------------------------------
(* the boundary below code k in the model: the first pattern whose code is >= k, by bisection (sound because the
   model is monotone - which cls8 / seg16 establish; if it is not, the checks below fail as well) *)
RECURSIVE Bis8(_, _, _, _)
Bis8(en, k, lo, hi) == IF lo >= hi THEN lo
                       ELSE LET m == (lo + hi) \div 2
                            IN IF RawOfClass8(en, m) >= k THEN Bis8(en, k, lo, m) ELSE Bis8(en, k, m + 1, hi)
FirstBits8(en, k) == ClassFirst8(en, Bis8(en, k, 0, NEff8(en)))

E16(en, b) == IF b < Min16(en) THEN Toe16(en, b)
              ELSE LET r == RawAt16(en, b) IN IF FitsNat(r) THEN ToNat(r) ELSE 1073741824
RECURSIVE Bis16(_, _, _, _)
Bis16(en, k, lo, hi) == IF lo >= hi THEN lo
                        ELSE LET m == lo + (hi - lo) \div 2
                             IN IF E16(en, m) >= k THEN Bis16(en, k, lo, m) ELSE Bis16(en, k, m + 1, hi)
Top16(en) == Min2(MaxBits, Min16(en) + 65536 * Len16(en) - 1)
(* the decode table gives a bracket when it is consistent *)
FirstBits16(en, k) ==
  LET a == D16[en].dec32[k]  b == D16[en].dec32[k + 1]             \* decoded k-1 and k (1-based tuples)
  IN IF a < b /\ b <= Top16(en) /\ E16(en, a) < k /\ E16(en, b) >= k THEN Bis16(en, k, a + 1, b)
     ELSE Bis16(en, k, 0, Top16(en) + 1)

-----------------------------------------------------------------------------
(* judgements *)
J(ok, k, why) == IF ok THEN TRUE ELSE PrintT(<<"MCFAIL", enc, phase, k, why>>)
Note(ok, k, what) == IF ok THEN TRUE ELSE PrintT(<<"NOTE", enc, phase, k, what>>)

(* both ends of the code range: 0 -> 0 and 1.0 -> max are within 0.6 *)
EndsFaithful(max) == Within06(enc, max, 0, DyZero) /\ Within06(enc, max, max, DyFromInt(1))

InvHdr8 ==
  phase = "hdr8" =>
    /\ Assert(Min8(enc) % 4096 = 0 /\ Min8(enc) > 0 /\ Min8(enc) <= MaxBits, "min_float_bits is not a multiple of 4096: class structure")
    /\ Assert(Len(C.u8[enc].lo) = Len8(enc) /\ C.u8[enc].len = Len8(enc) /\ Len(C.u8[enc].dec32) = 256
              /\ Len(C.u8[enc].dec64) = 256, "malformed dump")
    /\ J(Index8(enc, MaxBits) < Len8(enc), Index8(enc, MaxBits), "index-out-of-range")         \* the get_unchecked obligation
    /\ J(\A i \in 1..Len8(enc) : C.u8[enc].hi[i] \in 0..65535 /\ C.u8[enc].lo[i] \in 0..65535, 0, "entry-halves")
    /\ J(Encode8(enc, 0, 0) = 0 /\ Encode8(enc, 1, OneBits) = 0 /\ Encode8(enc, 0, INF + 1) = 0 /\ Encode8(enc, 1, INF) = 0, 0, "zero-not-0")
    /\ J(Encode8(enc, 0, OneBits) = 255 /\ Encode8(enc, 0, INF) = 255, 255, "one-not-255")
    /\ J(EndsFaithful(255), 255, "fidelity")

InvCls8 ==
  phase = "cls8" =>
    LET r == RawOfClass8(enc, c) IN
    /\ J(c \div 256 < Len8(enc), c, "index-out-of-range")
    /\ J(r <= 255, c, "code-above-255")
    /\ (c + 1 < NEff8(enc)) => J(r <= RawOfClass8(enc, c + 1), c, "not-monotone")
    /\ (c = 0) => J(r = 0, c, "class0-not-0")
    /\ (c = NClasses8(enc) - 1) => J(r = 255, c, "last-class-not-255")
    /\ J(Encode8(enc, 0, ClassFirst8(enc, c)) = Encode8(enc, 0, ClassFirst8(enc, c) + 4095), c, "class-not-uniform")

(* the checks common to both widths for code k >= 1 whose first pattern in the model is b; code 0 only re-encodes.
   (Values are bound by quantification over singleton sets rather than LET: see Transfer.tla!GCmp.) *)
BoundaryChecks(k, max, b) ==
  \A vs \in {BoundaryVerdicts(enc, max, k, F32Val(b - 1), F32Val(b))} :
     /\ J(b <= MaxBits /\ Encode(enc, 0, b) = k /\ Encode(enc, 0, b - 1) = k - 1, k, "code-not-produced")
     /\ J(\E v \in vs : v[1] # {1}, k, "fidelity-first")                       \* max f(first of k) > k - 0.6
     /\ J(\E v \in vs : v[1] # {1} /\ v[2] # {-1}, k - 1, "fidelity-last")     \* max f(last of k-1) < k - 1 + 0.6
     /\ Note(~RunUndecided(vs), k, "fidelity undecided")
     /\ Emit => PrintT(<<"REPLAY", ToJson(<<enc, k, b>>)>>)
ReencodeChecks(k, d32, j64, d64r) ==
  \A r64 \in {RoundF32Bits(Dy(j64))} :
     /\ J(Encode(enc, 0, d32) = k, k, "dec32-reencode")
     /\ Assert(r64 = d64r, <<"RoundF32Bits disagrees with `as f32`", enc, k, r64, d64r>>)
     /\ J(Encode(enc, 0, r64) = k, k, "dec64-reencode")

InvCode8 ==
  phase = "code8" =>
    /\ (c > 0) => \A b \in {FirstBits8(enc, c)} : BoundaryChecks(c, 255, b)
    /\ ReencodeChecks(c, C.u8[enc].dec32[c + 1], C.u8[enc].dec64[c + 1], C.u8[enc].dec64r[c + 1])

InvHdr16 ==
  phase = "hdr16" =>
    /\ Assert(Min16(enc) % 65536 = 0 /\ Min16(enc) > 0 /\ Min16(enc) <= MaxBits, "min_float_bits is not a multiple of 65536")
    /\ Assert(Len(C.u16[enc].scale) = Len16(enc) /\ C.u16[enc].len = Len16(enc) /\ Len(D16[enc].dec64) = 65536
              /\ Len(D16[enc].dec32) = 65536, "malformed dump")
    /\ J(Index16(enc, MaxBits) < Len16(enc), Index16(enc, MaxBits), "index-out-of-range")
    /\ J(Encode16(enc, 0, 0) = 0 /\ Encode16(enc, 0, 1) = 0 /\ Encode16(enc, 1, OneBits) = 0 /\ Encode16(enc, 0, INF + 1) = 0
         /\ Encode16(enc, 1, INF) = 0, 0, "zero-not-0")
    /\ J(Encode16(enc, 0, OneBits) = 65535 /\ Encode16(enc, 0, INF) = 65535, 65535, "one-not-65535")
    /\ J(Toe16(enc, Min16(enc) - 1) <= E16(enc, Min16(enc)), 0, "toe-to-table-not-monotone")
    /\ J(Toe16(enc, Min16(enc) - 1) >= Toe16(enc, Min16(enc) - 2) /\ Toe16(enc, TwoTo23) >= Toe16(enc, TwoTo23 - 1), 0, "toe-not-monotone")
    /\ J(EndsFaithful(65535), 65535, "fidelity")

InvSeg16 ==
  phase = "seg16" =>
    LET r0 == Raw16(enc, c, 0)  r1 == Raw16(enc, c, 65535) IN
    /\ J(Le(r1, FromNat(65535)), c, "code-above-65535")
    /\ J(Le(r0, r1), c, "not-monotone")
    /\ (c < SegTop16(enc)) => J(Le(r1, Raw16(enc, c + 1, 0)), c, "not-monotone")
    /\ (c = Index16(enc, MaxBits)) => J(r1 = FromNat(65535), c, "last-class-not-65535")

InvCode16 ==
  phase = "code16" =>
    /\ (c > 0) => \A b \in {FirstBits16(enc, c)} : BoundaryChecks(c, 65535, b)
    /\ ReencodeChecks(c, D16[enc].dec32[c + 1], D16[enc].dec64[c + 1], D16[enc].dec32[c + 1])

-----------------------------------------------------------------------------
(* one step per remaining public operation from every 16th code, so that every action of Lut.tla is exercised
   (vacuity control: Taken below) and the relations are seen to accept the dumped decode tables *)
DecJ == IF enc \in Encs8 THEN C.u8[enc].dec64[c + 1] ELSE D16[enc].dec64[c + 1]
Dec32 == IF enc \in Encs8 THEN C.u8[enc].dec32[c + 1] ELSE D16[enc].dec32[c + 1]
InCode == phase \in {"code8", "code16"} /\ c % 16 = 0
McDec == InCode /\ IntoLinearInt(enc, c, F32Val(Dec32), Dy(DecJ), c, c) /\ Goto("done", c)
McF64 == InCode /\ FromLinearIntF64(enc, DecJ, EncodeF64(enc, DecJ)) /\ Goto("done", c)
McRun == /\ phase = "code8" /\ c \in 1..254 /\ c % 16 = 0
         /\ FromLinearRun(enc, <<0, FirstBits8(enc, c)>>, <<0, FirstBits8(enc, c + 1) - 1>>, c) /\ Goto("done", c)

(* a walk along a curve with exact dyadic points: y^13 = x^5 for (0,0), (2^-26, 2^-10), (2^-13, 2^-5), (1, 1) *)
WalkPts == << <<DyZero, DyZero>>, <<DyPow2(-26), DyPow2(-10)>>, <<DyPow2(-13), DyPow2(-5)>>, <<DyFromInt(1), DyFromInt(1)>> >>
McWalk == /\ phase = "walk" /\ c < 5
          /\ IF c = 0 THEN StartCurve
             ELSE LET p == WalkPts[c] IN FloatCurve("p3", "f32", "enc", p[1], p[2], p[1])
          /\ Goto("walk", c + 1)
McForm == phase = "walk" /\ c = 5 /\ Form(<<1, 2>>, <<1, 2>>) /\ Goto("done", 0)

MCNext == Cls8 \/ Code8 \/ Seg16 \/ Code16 \/ McDec \/ McF64 \/ McRun \/ McWalk \/ McForm
MCSpec == MCInit /\ [][MCNext]_mcvars

(* Vacuity control.  TLC's -coverage cannot be used on this specification (its cost-model construction inlines the
   whole operator call tree and runs out of memory before the search starts), so the run prints a witness line at a
   few states per phase: every action of Lut.tla leaves its own tag in `last`, and the check requires every tag and
   every phase to appear. *)
Taken == (c \in {0, 1, 2, 16, 4096}) => PrintT(<<"TAKEN", last, phase>>)

Inv == TypeOK /\ InvHdr8 /\ InvCls8 /\ InvCode8 /\ InvHdr16 /\ InvSeg16 /\ InvCode16 /\ Taken

-----------------------------------------------------------------------------
(* fixed points of the arithmetic and of the reference curves, evaluated once *)
ASSUME DyEq(F32Val(OneBits), DyFromInt(1)) /\ DyEq(F32Val(MaxBits), DySub(DyFromInt(1), DyPow2(-24))) /\ DyEq(F32Val(1), DyPow2(-149))
ASSUME RoundF32Bits(DyFromInt(1)) = OneBits /\ RoundF32Bits(DySub(DyFromInt(1), DyPow2(-24))) = MaxBits
ASSUME RoundF32Bits(DySub(DyFromInt(1), DyPow2(-25))) = OneBits                  \* tie -> even
ASSUME RoundF32Bits(DySub(DyFromInt(1), DyAdd(DyPow2(-25), DyPow2(-60)))) = MaxBits
ASSUME RoundF32Bits(DyPow2(-150)) = 0 /\ RoundF32Bits(DyAdd(DyPow2(-150), DyPow2(-200))) = 1  \* tie -> 0; above -> min subnormal
ASSUME RoundF32Bits(DyMulInt(DyPow2(-150), 3)) = 2 /\ RoundF32Bits(DyPow2(-126)) = TwoTo23
ASSUME RoundF32Bits(DySub(DyPow2(-126), DyPow2(-151))) = TwoTo23                \* rounds up into the normal range
ASSUME RoundF32Bits(DyPow2(128)) = INF /\ RoundF32Bits(DySub(DyPow2(128), DyPow2(103))) = INF
ASSUME RoundF32Bits(DySub(DyPow2(128), DyPow2(104))) = INF - 1                  \* f32::MAX
ASSUME \A b \in {1, 4194304, 8388607, 8388608, 8388609, 956301312, 1065353215, 1073741824, 2139095039} : RoundF32Bits(F32Val(b)) = b
ASSUME Succ(<<1, 0>>) = <<0, 1>> /\ Pred(<<0, 0>>) = <<1, 1>> /\ Succ(<<1, 5>>) = <<1, 4>> /\ Pred(<<1, 5>>) = <<1, 6>>

(* points of the published curves computed independently (60-digit decimal arithmetic), as f64: accepted, and
   rejected when the encoded value is moved by 2^-36 relative (the f64 tolerance is 2^-44, 2^-41 for Rec.) *)
TV(curve, jx, jy) ==
  LET x == Dy(jx)  y == Dy(jy)
  IN /\ CurveOK(curve, "f64", x, y)
     /\ ~CurveOK(curve, "f64", x, DyAdd(y, DyMul(y, DyPow2(-36))))
     /\ ~CurveOK(curve, "f64", x, DySub(y, DyMul(y, DyPow2(-36))))
ASSUME TV("srgb", <<1, -1, 4096>>, <<1, -5, 4096, 1831, 6284, 363, 6024>>)                                        \* 0.5 -> 0.7353569830524495
ASSUME TV("srgb", <<1, -5, 4064, 7274, 7077, 1572, 8>>, <<1, -5, 6656, 3546, 4283, 6886, 105>>)                   \* 0.001 -> 0.01292
ASSUME TV("srgb", <<1, -5, 7552, 6225, 2293, 6881, 163>>, <<1, -4, 4402, 2194, 6200, 1242>>)                      \* 0.02 -> 0.15170371931624205
ASSUME TV("rec_oetf", <<1, -1, 4096>>, <<1, -5, 4096, 5102, 4839, 7602, 5778>>)                                   \* 0.5 -> 0.7054355530556183
ASSUME TV("rec_oetf", <<1, -5, 4064, 7274, 7077, 1572, 8>>, <<1, -5, 1920, 4063, 7274, 7077, 36>>)                \* 0.001 -> 0.0045
ASSUME TV("rec_oetf", <<1, -5, 7552, 6225, 2293, 6881, 163>>, <<1, -5, 2048, 5748, 6591, 2165, 735>>)             \* 0.02 -> 0.0897539526917202
ASSUME TV("adobe", <<1, -1, 4096>>, <<1, -4, 7854, 888, 2961, 5977>>)                                             \* 0.5 -> 0.7296583817678015
ASSUME TV("adobe", <<1, -5, 4064, 7274, 7077, 1572, 8>>, <<1, -5, 1536, 3401, 581, 1776, 354>>)                   \* 0.001 -> 0.04323935614486833
ASSUME TV("p3", <<1, -1, 4096>>, <<1, -4, 1118, 7893, 7652, 6274>>)                                               \* 0.5 -> 0.7659831786679869
ASSUME TV("p3", <<1, -5, 7552, 6225, 2293, 6881, 163>>, <<1, -5, 1024, 5581, 880, 3680, 1819>>)                   \* 0.02 -> 0.2221007363126433
ASSUME TV("prophoto", <<1, -1, 4096>>, <<1, -5, 4096, 2114, 4318, 6519, 5573>>)                                   \* 0.5 -> 0.6803950000871885
ASSUME TV("prophoto", <<1, -5, 4064, 7274, 7077, 1572, 8>>, <<1, -5, 7680, 1703, 6750, 589, 131>>)                \* 0.001 -> 0.016
ASSUME TV("linear", <<1, -5, 7552, 6225, 2293, 6881, 163>>, <<1, -5, 7552, 6225, 2293, 6881, 163>>)               \* 0.02 -> 0.02
(* the Rec. curve with the three-digit constants is accepted too: 0.5 -> 1.099 * 0.5^0.45 - 0.099 = 0.70551501... *)
ASSUME CurveOK("rec_oetf", "f32", DyPow2(-1), DyAdd(DyPow2(-1), <<1, -2, FromNat(13791884)>>))                      \* 0.5 + 13791884 / 2^26 = 0.70551509
ASSUME ~CurveOK("rec_oetf", "f32", DyPow2(-1), <<1, -2, FromNat(47313091)>>)                                        \* 0.70502 : neither set
(* 0.6 of a code: sRGB code 188 = 255 f(x) at x = 0.5 is 187.516...; so 0.5 may be 187 or 188, not 186 or 189 *)
ASSUME Within06("srgb", 255, 188, DyPow2(-1)) /\ Within06("srgb", 255, 187, DyPow2(-1))
ASSUME ~Within06("srgb", 255, 186, DyPow2(-1)) /\ ~Within06("srgb", 255, 189, DyPow2(-1))
ASSUME Within05("srgb", 255, 188, DyPow2(-1)) /\ ~Within05("srgb", 255, 187, DyPow2(-1))
ASSUME KneeStepOK(DyPow2(-20)) /\ ~KneeStepOK(DyPow2(-19))                        \* 9.5e-7 < 1e-6 < 1.9e-6
=============================================================================
