SPECIFICATION Spec
CONSTANTS
  D = 8
INVARIANTS HsvInGamut HslInGamut HwbInGamut
CHECK_DEADLOCK FALSE
